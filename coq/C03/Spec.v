(** C03 — specification side (definitions only): what a client means (a sparse value: arrays
    carry the index labels the client chose), how that value is spelled in the documented
    flat notation (a.b.c, a[7].b, repeated keys or xs[3] for primitive arrays, key=empty for
    an empty array of objects), what the user function has to receive, which signatures the
    theorems cover, and which query strings encode a list of pairs. *)
From SpyneV Require Export C03.Model.

(* ------------------------------------------------------------------ structured keys *)
(** one segment of a flat key: a member name and, possibly, a bracketed index *)
Notation seg := (text * option Z)%type (only parsing).
Notation skey := (list (text * option Z)) (only parsing).
Notation item := (list (text * option Z) * list text)%type (only parsing).

Definition path_of (k : skey) : list text := map fst k.
Fixpoint idxs_of (k : skey) : list Z :=
  match k with
  | [] => []
  | (_, Some i) :: r => i :: idxs_of r
  | (_, None) :: r => idxs_of r
  end.
Definition seg_text (s : seg) : text :=
  match snd s with None => fst s | Some i => with_idx (fst s) i end.
(** the key as the client writes it *)
Definition key_text (d : text) (k : skey) : text := join d (map seg_text k).

(* ------------------------------------------------------------------ sparse values *)
Inductive sval :=
| SNone                               (* argument / member not sent *)
| SStr (s : text)                     (* primitive, as its text *)
| SRep (l : list text)                (* primitive array, repeated-key notation *)
| SIdx (l : list (Z * text))          (* primitive array, indexed notation xs[i]=... *)
| SObj (vs : list sval)               (* object: member values in declaration order *)
| SArr (l : list (Z * sval)).         (* array of objects with the labels the client uses *)

Definition pre (s : seg) (it : item) : item := (s :: fst it, snd it).

(** the pairs that spell the member [name : t] with value [sv] (keys relative to the
    enclosing object) *)
Fixpoint items_ty (t : ty) (name : text) (sv : sval) {struct t} : list item :=
  match t with
  | TPrim arr =>
      match sv with
      | SStr s => if arr then [] else [([(name, None)], [s])]
      | SRep l => if arr then [([(name, None)], l)] else []
      | SIdx l => if arr then map (fun js => ([(name, Some (fst js))], [snd js])) l else []
      | _ => []
      end
  | TObj arr fs =>
      let obj :=
        (fix go (fs : list (text * ty)) (vs : list sval) : list item :=
           match fs, vs with
           | (k, ft) :: fs', v :: vs' => items_ty ft k v ++ go fs' vs'
           | _, _ => []
           end) fs in
      match sv with
      | SObj vs => if arr then [] else map (pre (name, None)) (obj vs)
      | SArr l =>
          if arr then
            match l with
            | [] => [([(name, None)], [EMPTY])]
            | _ => flat_map (fun je => match snd je with
                                       | SObj vs => map (pre (name, Some (fst je))) (obj vs)
                                       | _ => []
                                       end) l
            end
          else []
      | _ => []
      end
  end.
Fixpoint items_fields (fs : list (text * ty)) (vs : list sval) : list item :=
  match fs, vs with
  | (k, ft) :: fs', v :: vs' => items_ty ft k v ++ items_fields fs' vs'
  | _, _ => []
  end.

(** the flat document of a whole request: key text -> list of values *)
Definition spell (d : text) (fs : list (text * ty)) (vs : list sval) : list (text * list text) :=
  map (fun it => (key_text d (fst it), snd it)) (items_fields fs vs).

(** what the user function has to receive (lists without index bookkeeping) *)
Fixpoint compact (t : ty) (sv : sval) {struct t} : val :=
  match t with
  | TPrim arr =>
      match sv with
      | SStr s => if arr then VNone else VStr s
      | SRep l => if arr then VList l else VNone
      | SIdx l => if arr then VList (map snd l) else VNone
      | _ => VNone
      end
  | TObj arr fs =>
      let obj :=
        (fix go (fs : list (text * ty)) (vs : list sval) : list (text * val) :=
           match fs, vs with
           | (k, ft) :: fs', v :: vs' => (k, compact ft v) :: go fs' vs'
           | _, _ => []
           end) fs in
      match sv with
      | SObj vs => if arr then VNone else VObj (obj vs)
      | SArr l => if arr then VArr [] (map (fun je => match snd je with
                                                     | SObj vs => VObj (obj vs)
                                                     | _ => VNone
                                                     end) l)
                  else VNone
      | _ => VNone
      end
  end.
Fixpoint compact_fields (fs : list (text * ty)) (vs : list sval) : list (text * val) :=
  match fs, vs with
  | (k, ft) :: fs', v :: vs' => (k, compact ft v) :: compact_fields fs' vs'
  | _, _ => []
  end.

(* ------------------------------------------------------------------ conformance *)
(** strictly increasing labels, all >= lo *)
Fixpoint incr_from (lo : Z) (ls : list Z) : bool :=
  match ls with [] => true | x :: r => (lo <=? x) && incr_from (x + 1) r end.
(** exactly lo, lo+1, lo+2, ... *)
Fixpoint contig_from (lo : Z) (ls : list Z) : bool :=
  match ls with [] => true | x :: r => (x =? lo) && contig_from (lo + 1) r end.
(** strict_arrays=True demands contiguous indexes from 0; otherwise any increasing labels *)
Definition labels_ok (strict : bool) (ls : list Z) : bool :=
  if strict then contig_from 0 ls else incr_from 0 ls.

Definition spelled (sv : sval) : bool := match sv with SNone => false | _ => true end.
Definition is_nil {A} (l : list A) : bool := match l with [] => true | _ => false end.

(** [sv] is a value of member type [t] that the notation can spell: every object that is
    sent has at least one member sent, primitive arrays that are sent are non-empty *)
Fixpoint conf (strict : bool) (t : ty) (sv : sval) {struct t} : bool :=
  match t with
  | TPrim arr =>
      match sv with
      | SNone => true
      | SStr _ => negb arr
      | SRep l => arr && negb (is_nil l)
      | SIdx l => arr && negb (is_nil l) && incr_from 0 (map fst l)
      | _ => false
      end
  | TObj arr fs =>
      let obj :=
        (fix go (fs : list (text * ty)) (vs : list sval) : bool :=
           match fs, vs with
           | [], [] => true
           | (k, ft) :: fs', v :: vs' => conf strict ft v && go fs' vs'
           | _, _ => false
           end) fs in
      match sv with
      | SNone => true
      | SObj vs => negb arr && obj vs && existsb spelled vs
      | SArr l => arr && labels_ok strict (map fst l) &&
                  forallb (fun je => match snd je with
                                     | SObj vs => obj vs && existsb spelled vs
                                     | _ => false
                                     end) l
      | _ => false
      end
  end.
Fixpoint conf_fields (strict : bool) (fs : list (text * ty)) (vs : list sval) : bool :=
  match fs, vs with
  | [], [] => true
  | (k, ft) :: fs', v :: vs' => conf strict ft v && conf_fields strict fs' vs'
  | _, _ => false
  end.

(* ------------------------------------------------------------------ signatures covered *)
Definition nobr (s : text) : bool := forallb (fun c => negb (c =? 91)) s.
Fixpoint nodupb (l : list text) : bool :=
  match l with [] => true | x :: r => negb (existsb (text_eqb x) r) && nodupb r end.
(** per class: distinct member names without '[' *)
Fixpoint wf_ty (t : ty) : bool :=
  match t with
  | TPrim _ => true
  | TObj _ fs =>
      nodupb (map fst fs) && forallb nobr (map fst fs) &&
      (fix go (fs : list (text * ty)) : bool :=
         match fs with [] => true | (_, ft) :: r => wf_ty ft && go r end) fs
  end.
Fixpoint wf_fields (fs : list (text * ty)) : bool :=
  match fs with [] => true | (_, ft) :: r => wf_ty ft && wf_fields r end.
(** the signature is covered when hier_delim has no '[', member names are distinct per class
    and contain no '[', and no two members have the same flat key *)
Definition wf_sig (d : text) (fs : list (text * ty)) : bool :=
  nobr d && nodupb (map fst fs) && forallb nobr (map fst fs) && wf_fields fs &&
  nodupb (map fst (sti d fs)).

(* ------------------------------------------------------------------ query strings *)
(** characters that may stand for themselves in a component of a query string *)
Definition qsafe (c : Z) : bool :=
  negb ((c =? 38) || (c =? 59) || (c =? 61) || (c =? 43) || (c =? 37)).
(** one character and one of its encodings: itself, '+' for a space, or %XX in either case *)
Inductive enc_char : Z -> text -> Prop :=
| EC_lit c : qsafe c = true -> enc_char c [c]
| EC_plus : enc_char 32 [43]
| EC_hex c h l : 0 <= c < 128 -> hexv h = Some (c / 16) -> hexv l = Some (c mod 16) ->
                 enc_char c [37; h; l].
Inductive enc_text : text -> text -> Prop :=
| ET_nil : enc_text [] []
| ET_cons c e s es : enc_char c e -> enc_text s es -> enc_text (c :: s) (e ++ es).
Definition issep (c : Z) : bool := (c =? 38) || (c =? 59).
(** a query string for a sequence of pairs: key=value pieces separated by '&' or ';',
    empty pieces allowed anywhere *)
Inductive enc_qs : list (text * text) -> text -> Prop :=
| EQ_nil : enc_qs [] []
| EQ_sep ps c q : issep c = true -> enc_qs ps q -> enc_qs ps (c :: q)
| EQ_last k v ek ev : enc_text k ek -> enc_text v ev -> enc_qs [(k, v)] (ek ++ 61 :: ev)
| EQ_cons k v ek ev c ps q : enc_text k ek -> enc_text v ev -> issep c = true -> enc_qs ps q ->
                             enc_qs ((k, v) :: ps) (ek ++ 61 :: ev ++ c :: q).
(** the document a sequence of pairs denotes: values grouped by key, keys in order of first
    appearance, values in order of appearance *)
Definition group (pairs : list (text * text)) : list (text * list text) :=
  fold_left (fun acc kv => group_add acc (fst kv) (snd kv)) pairs [].

(* ------------------------------------------------------------------ the converse direction *)
(** the document a flattened object is sent as: one pair per value *)
Definition fval_values (f : fval) : list text :=
  match f with FOne s => [s] | FMany l => l | FEmpty => [EMPTY] end.
Definition flat_doc (fl : list (text * fval)) : list (text * list text) :=
  map (fun kf => (fst kf, fval_values (snd kf))) fl.

(** a key whose list of values is empty contributes no pair to a query string *)
Definition sent_doc (fl : list (text * fval)) : list (text * list text) :=
  filter (fun kv => negb (is_nil (snd kv))) (flat_doc fl).

(** a value the user code may hold (erased form) and its sparse reading: arrays are labelled
    0, 1, 2, ... and primitive arrays use repeated keys, as object_to_simple_dict writes them *)
Fixpoint number_from {A} (i : Z) (l : list A) : list (Z * A) :=
  match l with [] => [] | x :: r => (i, x) :: number_from (i + 1) r end.
Fixpoint sparse_of (t : ty) (v : val) {struct t} : sval :=
  match t with
  | TPrim arr =>
      match v with
      | VStr s => if arr then SNone else SStr s
      | VList l => if arr then SRep l else SNone
      | _ => SNone
      end
  | TObj arr fs =>
      let obj (inst : list (text * val)) :=
        (fix go (fs : list (text * ty)) : list sval :=
           match fs with
           | [] => []
           | (k, ft) :: r => sparse_of ft (match aget inst k with Some x => x | None => VNone end) :: go r
           end) fs in
      match v with
      | VObj inst => if arr then SNone else SObj (obj inst)
      | VArr _ l => if arr then SArr (number_from 0 (map (fun e => match e with
                                                                   | VObj inst => SObj (obj inst)
                                                                   | _ => SNone
                                                                   end) l))
                    else SNone
      | _ => SNone
      end
  end.
Fixpoint sparse_fields (fs : list (text * ty)) (inst : list (text * val)) : list sval :=
  match fs with
  | [] => []
  | (k, ft) :: r => sparse_of ft (match aget inst k with Some x => x | None => VNone end) :: sparse_fields r inst
  end.

(** values of member type [t] that object_to_simple_dict can write and the notation can carry:
    attribute dicts list exactly the declared members, lists carry no index bookkeeping,
    primitive arrays that are present are non-empty, objects that are present have a member set *)
Fixpoint names_eqb (a b : list text) : bool :=
  match a, b with
  | [], [] => true
  | x :: a', y :: b' => text_eqb x y && names_eqb a' b'
  | _, _ => false
  end.
Definition is_none (v : val) : bool := match v with VNone => true | _ => false end.
Fixpoint typed (t : ty) (v : val) {struct t} : bool :=
  match t with
  | TPrim arr =>
      match v with
      | VNone => true
      | VStr _ => negb arr
      | VList l => arr && negb (is_nil l)
      | _ => false
      end
  | TObj arr fs =>
      let obj (inst : list (text * val)) :=
        names_eqb (map fst inst) (map fst fs) &&
        (fix go (fs : list (text * ty)) : bool :=
           match fs with
           | [] => true
           | (k, ft) :: r => typed ft (match aget inst k with Some x => x | None => VNone end) && go r
           end) fs &&
        existsb (fun kv => negb (is_none (snd kv))) inst in
      match v with
      | VNone => true
      | VObj inst => negb arr && obj inst
      | VArr m l => arr && is_nil m && forallb (fun e => match e with VObj inst => obj inst | _ => false end) l
      | _ => false
      end
  end.
Fixpoint typed_members (fs : list (text * ty)) (inst : list (text * val)) : bool :=
  match fs with
  | [] => true
  | (k, ft) :: r => typed ft (match aget inst k with Some x => x | None => VNone end) && typed_members r inst
  end.
Definition typed_obj (fs : list (text * ty)) (inst : list (text * val)) : bool :=
  names_eqb (map fst inst) (map fst fs) && typed_members fs inst.

(** day number of a proleptic Gregorian date (inverse of Model.civil_of_days) *)
Definition days_of_civil (y m d : Z) : Z :=
  let y' := if m <=? 2 then y - 1 else y in
  let era := y' / 400 in
  let yoe := y' - era * 400 in
  let doy := (153 * (if m >? 2 then m - 3 else m + 9) + 2) / 5 + d - 1 in
  era * 146097 + (yoe * 365 + yoe / 4 - yoe / 100 + doy) - 719468.
(** the calendar fields of the IMF-fixdate written for an instant *)
Definition imf_fields (epoch : Z) : Z * Z * Z * Z * Z * Z :=
  let '(y, m, d) := civil_of_days (epoch / 86400) in
  let sod := epoch mod 86400 in
  (y, m, d, sod / 3600, sod mod 3600 / 60, sod mod 60).
Definition instant_of_fields (f : Z * Z * Z * Z * Z * Z) : Z :=
  let '(y, m, d, hh, mi, ss) := f in days_of_civil y m d * 86400 + hh * 3600 + mi * 60 + ss.
