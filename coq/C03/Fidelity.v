(** C03 — the loop of simple_dict_to_object over the items of a conformant value, in any order
    that satisfies the order condition, builds exactly the value the client meant
    (induction over the member types). *)
From Coq Require Import ZArith List Bool Lia ZifyBool Sorted Permutation.
From SpyneV Require Import Base.Prelude C03.Model C03.Spec C03.S2cmi C03.Keys C03.Unflat C03.Conform C03.Arrays.
Import ListNotations.
Open Scope Z_scope.

(* ------------------------------------------------------------------ helpers *)
Lemma perm_nil_l {A} (L : list A) : Permutation L [] -> L = [].
Proof. intros H. apply Permutation_sym in H. now apply Permutation_nil in H. Qed.
Lemma proj_perm f L1 L2 : Permutation L1 L2 -> Permutation (proj f L1) (proj f L2).
Proof.
  induction 1 as [| [k v] l l' Hp IH | [k1 v1] [k2 v2] l | l l' l'' H1 IH1 H2 IH2].
  - constructor.
  - simpl. destruct k as [|[n oi] rest]; [assumption|]. destruct (text_eqb n f); [now constructor | assumption].
  - simpl. destruct k1 as [|[n1 o1] r1]; destruct k2 as [|[n2 o2] r2]; try reflexivity.
    destruct (text_eqb n1 f); destruct (text_eqb n2 f); try reflexivity. apply perm_swap.
  - eapply Permutation_trans; eauto.
Qed.

Lemma in_combine_exists {A B} (l : list A) : forall (l' : list B) a,
  length l' = length l -> In a l -> exists b, In (a, b) (combine l l').
Proof.
  induction l as [|x l IH]; intros [|y l'] a Hlen Hin; simpl in *; try contradiction; try discriminate.
  destruct Hin as [-> | Hin]; [exists y; now left|].
  destruct (IH l' a ltac:(lia) Hin) as [b Hb]. exists b. now right.
Qed.

Lemma StronglySorted_impl_in {A} (R R' : A -> A -> Prop) l :
  StronglySorted R l -> (forall a b, In a l -> In b l -> R a b -> R' a b) -> StronglySorted R' l.
Proof.
  induction 1 as [|x r Hs IH Hx]; intros H; constructor.
  - apply IH. intros a b Ha Hb. apply H; now right.
  - rewrite Forall_forall in *. intros y Hy. apply H; [now left | now right | now apply Hx].
Qed.
Lemma StronglySorted_map {A B} (g : A -> B) (R : B -> B -> Prop) l :
  StronglySorted R (map g l) <-> StronglySorted (fun a b => R (g a) (g b)) l.
Proof.
  induction l as [|x r IH]; simpl; split; intros H; try constructor; inversion H; subst.
  - now apply IH.
  - now rewrite Forall_map in H3.
  - now apply IH.
  - now rewrite Forall_map.
Qed.

Lemma items_fields_nonempty strict fs : forall vs,
  conf_fields strict fs vs = true -> existsb spelled vs = true -> items_fields fs vs <> [].
Proof.
  induction fs as [|[k t] fs IH]; intros [|v vs]; simpl; try discriminate.
  intros H1 H2. apply andb_true_iff in H1. destruct H1 as [Hc Hr].
  destruct (spelled v) eqn:Es.
  - intros E. apply app_eq_nil in E. destruct E as [E _]. revert E. now apply (items_nonempty strict).
  - simpl in H2. intros E. apply app_eq_nil in E. destruct E as [_ E]. revert E. now apply IH.
Qed.

Lemma assoc_map_eq {X Y V} (F : Y -> V) (G : X -> V) : forall (l : list (Z * X)) (A : list (Z * Y)),
  map fst A = map fst l -> NoDup (map fst l) ->
  (forall j x, In (j, x) l -> exists e, zget A j = Some e /\ F e = G x) ->
  map (fun a => F (snd a)) A = map (fun je => G (snd je)) l.
Proof.
  induction l as [|[j x] l IH]; intros [|[i e] A] Hk Hnd H; simpl in *; try discriminate; [reflexivity|].
  injection Hk as -> Hk. inversion Hnd; subst. f_equal.
  - destruct (H j x (or_introl eq_refl)) as [e' [He' HF]]. rewrite Z.eqb_refl in He'. now injection He' as ->.
  - apply IH; try assumption. intros j' x' Hin. destruct (H j' x' (or_intror Hin)) as [e' [He' HF]].
    assert (j <> j'). { intros ->. apply H2. now apply (in_map fst) in Hin. }
    replace (j =? j') with false in He' by lia. eauto.
Qed.

(* ------------------------------------------------------------------ what has to be shown per member type *)
Definition FieldOK (strict : bool) (t : ty) : Prop :=
  forall f sv L, wf_ty t = true -> conf strict t sv = true ->
    Permutation L (proj f (items_ty t f sv)) -> OCf L ->
    exists x, field_run strict t L VNone = Ok x /\ erase x = compact t sv.

(** objects: from the members to the whole *)
Lemma fields_ok strict fs : Forall (fun ft => FieldOK strict (snd ft)) fs ->
  nodupb (map fst fs) = true -> wf_fields fs = true ->
  forall vs L, conf_fields strict fs vs = true -> Permutation L (items_fields fs vs) -> OC L ->
  exists o, run_items strict fs L (fresh fs) = Ok o /\ map fst o = map fst fs /\
            erase_obj o = compact_fields fs vs.
Proof.
  intros HF Hnd Hwf vs L Hc Hp Hoc. apply nodupb_NoDup in Hnd.
  pose proof (conf_fields_length _ _ _ Hc) as Hlen.
  assert (Hfield : forall f t sv, In ((f, t), sv) (combine fs vs) ->
            exists x, field_run strict t (proj f L) VNone = Ok x /\ erase x = compact t sv).
  { intros f t sv Hin. pose proof (in_combine_l _ _ _ _ Hin) as Hft.
    rewrite Forall_forall in HF. pose proof (HF (f, t) Hft) as HFt. cbn [snd] in HFt. apply (HFt f sv).
    - eapply wf_fields_in; eauto.
    - eapply conf_fields_in; eauto.
    - rewrite <- (proj_items_fields fs Hnd vs f t sv Hin). now apply proj_perm.
    - now apply OC_proj. }
  destruct (run_project strict fs Hnd L (fresh fs)) as [o [Ho [Hk Hv]]].
  - apply fresh_keys.
  - intros it Hit. apply (items_fields_head fs vs). eapply Permutation_in; eauto.
  - intros f t Hft. destruct (in_combine_exists fs vs (f, t) Hlen Hft) as [sv Hin].
    destruct (Hfield f t sv Hin) as [x [Hx _]]. rewrite getd_fresh. eauto.
  - exists o. split; [assumption|]. split; [assumption|].
    apply erase_obj_fields; try assumption. intros f t sv Hin.
    destruct (Hfield f t sv Hin) as [x [Hx He]].
    specialize (Hv f t (in_combine_l _ _ _ _ Hin)). rewrite getd_fresh in Hv. congruence.
Qed.

(* ------------------------------------------------------------------ primitive members *)
Definition gidx (js : Z * text) : option Z * list (text * option Z) * list text := (Some (fst js), [], [snd js]).
Definition lab (x : option Z * list (text * option Z) * list text) : Z :=
  match fst (fst x) with Some j => j | None => 0 end.

Lemma proj_idx_map f l :
  proj f (map (fun js : Z * text => ([(f, Some (fst js))], [snd js])) l) = map gidx l.
Proof. induction l as [|js l IH]; [reflexivity|]. simpl. rewrite text_eqb_refl. now rewrite IH. Qed.

Lemma prim_idx_run strict l : forall acc,
  field_run strict (TPrim true) (map gidx l) (VList acc) = Ok (VList (acc ++ map snd l)).
Proof.
  induction l as [|js l IH]; intros acc; simpl; [now rewrite app_nil_r|].
  rewrite IH. now rewrite <- app_assoc.
Qed.

Lemma prim_ok strict arr : FieldOK strict (TPrim arr).
Proof.
  intros f sv L _ Hc Hp Hoc.
  destruct sv; simpl in Hc; try discriminate; destruct arr; simpl in Hc; try discriminate; cbn [items_ty proj] in Hp;
    try (apply perm_nil_l in Hp; subst L; exists VNone; split; reflexivity).
  - (* single value *)
    rewrite text_eqb_refl in Hp. apply Permutation_sym, Permutation_length_1_inv in Hp. subst L.
    eexists. split; reflexivity.
  - (* repeated key *)
    rewrite text_eqb_refl in Hp. apply Permutation_sym, Permutation_length_1_inv in Hp. subst L.
    eexists. split; reflexivity.
  - (* indexed keys: the natural order is the index order *)
    apply andb_true_iff in Hc. destruct Hc as [Hne Hinc].
    change (proj f (map (fun js : Z * text => ([(f, Some (fst js))], [snd js])) l)) with
      (proj f (map (fun js : Z * text => ([(f, Some (fst js))], [snd js])) l)) in Hp.
    rewrite proj_idx_map in Hp.
    assert (HL : L = map gidx l).
    { apply (sorted_perm_unique lab); [| |assumption].
      - apply StronglySorted_map. destruct (incr_from_sorted _ _ Hinc) as [Hs _].
        apply (proj1 (StronglySorted_map fst Z.lt l)) in Hs. exact Hs.
      - eapply StronglySorted_impl_in; [exact Hoc|]. intros a b Ha Hb [Hab _].
        apply (Permutation_in _ Hp) in Ha. apply (Permutation_in _ Hp) in Hb.
        apply in_map_iff in Ha. destruct Ha as [ja [<- _]]. apply in_map_iff in Hb. destruct Hb as [jb [<- _]].
        unfold lab. simpl. apply Hab; reflexivity. }
    subst L. destruct l as [|js l]; [discriminate|]. simpl. rewrite prim_idx_run. simpl.
    eexists. split; reflexivity.
Qed.

(* ------------------------------------------------------------------ object members *)
Definition hobj (it : list (text * option Z) * list text) : option Z * list (text * option Z) * list text :=
  (None, fst it, snd it).

Lemma obj_field_run strict sub : forall L0 e,
  (forall it, In it L0 -> fst it <> []) ->
  field_run strict (TObj false sub) (map hobj L0) (VObj e) =
  do o <- run_items strict sub L0 e; Ok (VObj o).
Proof.
  induction L0 as [|[k v] L0 IH]; intros e Hne; [reflexivity|].
  destruct k as [|s rest]; [exfalso; apply (Hne ([], v)); [now left | reflexivity]|].
  change (map hobj ((s :: rest, v) :: L0)) with ((@None Z, s :: rest, v) :: map hobj L0).
  cbn [field_run]. rewrite step_node. unfold node_step. cbn [opt_idx app].
  rewrite run_items_cons. unfold ins_item. cbn [fst snd].
  destruct (ins strict sub (path_of (s :: rest)) (idxs_of (s :: rest)) v e) as [e'| |]; cbn [bind]; try reflexivity.
  apply IH. intros it Hit. apply Hne. now right.
Qed.

Lemma obj_from_none strict sub s rest v :
  step strict (TObj false sub) VNone (None, s :: rest, v) =
  step strict (TObj false sub) (VObj (fresh sub)) (None, s :: rest, v).
Proof. reflexivity. Qed.

(* ------------------------------------------------------------------ array members *)
Definition harr (j : Z) (it : list (text * option Z) * list text) : option Z * list (text * option Z) * list text :=
  (Some j, fst it, snd it).
Definition arr_target (sub : list (text * ty)) (l : list (Z * sval)) :=
  flat_map (fun je => match snd je with
                      | SObj vs => map (harr (fst je)) (items_fields sub vs)
                      | _ => []
                      end) l.

Lemma proj_arr_items f sub l :
  proj f (flat_map (fun je : Z * sval => match snd je with
                                         | SObj vs => map (pre (f, Some (fst je))) (items_fields sub vs)
                                         | _ => []
                                         end) l) = arr_target sub l.
Proof.
  unfold arr_target. induction l as [|[j e] l IH]; [reflexivity|]. simpl. rewrite proj_app, IH. f_equal.
  destruct e; try reflexivity. apply proj_self_map.
Qed.

Lemma labels_in L j : In j (labels L) <-> exists x, In x L /\ fst (fst x) = Some j.
Proof.
  induction L as [|[[oi rest] v] L IH]; simpl.
  - split; [tauto | intros [x [[] _]]].
  - destruct oi as [i|]; simpl; rewrite IH; split.
    + intros [<- | [x [Hx E]]]; [eexists; split; [left; reflexivity | reflexivity] | exists x; tauto].
    + intros [x [[<- | Hx] E]]; [left; simpl in E; congruence | right; eauto].
    + intros [x [Hx E]]. exists x. tauto.
    + intros [x [[<- | Hx] E]]; [discriminate | eauto].
Qed.

Lemma labels_app a b : labels (a ++ b) = labels a ++ labels b.
Proof. induction a as [|[[[i|] rest] v] a IH]; simpl; [reflexivity | now rewrite IH | assumption]. Qed.
Lemma labels_harr j L0 : labels (map (harr j) L0) = map (fun _ => j) L0.
Proof. induction L0; simpl; [reflexivity | now rewrite IHL0]. Qed.

Lemma projidx_app j a b : projidx j (a ++ b) = projidx j a ++ projidx j b.
Proof.
  induction a as [|[[[i|] rest] v] a IH]; simpl; [reflexivity | | assumption].
  destruct (i =? j); simpl; now rewrite IH.
Qed.
Lemma projidx_harr_same j L0 : projidx j (map (harr j) L0) = L0.
Proof. induction L0 as [|[k v] L0 IH]; simpl; [reflexivity|]. rewrite Z.eqb_refl. now rewrite IH. Qed.
Lemma projidx_harr_other j i L0 : i <> j -> projidx j (map (harr i) L0) = [].
Proof. intros H. induction L0 as [|[k v] L0 IH]; simpl; [reflexivity|]. now replace (i =? j) with false by lia. Qed.

Lemma projidx_perm j L1 L2 : Permutation L1 L2 -> Permutation (projidx j L1) (projidx j L2).
Proof.
  induction 1 as [| [[oi r] v] l l' Hp IH | [[o1 r1] v1] [[o2 r2] v2] l | l l' l'' H1 IH1 H2 IH2].
  - constructor.
  - simpl. destruct oi as [i|]; [|assumption]. destruct (i =? j); [now constructor | assumption].
  - simpl. destruct o1 as [i1|]; destruct o2 as [i2|]; try reflexivity.
    destruct (i1 =? j); destruct (i2 =? j); try reflexivity. apply perm_swap.
  - eapply Permutation_trans; eauto.
Qed.

Lemma projidx_in j L x : In x (projidx j L) -> In (Some j, fst x, snd x) L.
Proof.
  induction L as [|[[oi r] v] L IH]; simpl; [tauto|].
  destruct oi as [i|]; [|intros H; right; auto].
  destruct (i =? j) eqn:E; [|intros H; right; auto].
  intros [<- | H]; [left; simpl; f_equal; f_equal; f_equal; lia | right; auto].
Qed.

Lemma OCf_projidx j L : OCf L -> OC (projidx j L).
Proof.
  unfold OC, OCf. induction 1 as [|[[oi r] v] L Hs IH Hx]; simpl; [constructor|].
  destruct oi as [i|]; [|assumption]. destruct (i =? j) eqn:E; [|assumption].
  assert (i = j) by lia. subst i. constructor; [assumption|].
  apply Forall_forall. intros y Hy. apply projidx_in in Hy.
  rewrite Forall_forall in Hx. specialize (Hx _ Hy). destruct Hx as [_ Hx]. simpl in Hx. now apply Hx.
Qed.

Lemma projidx_target sub l : NoDup (map fst l) -> forall j vs, In (j, SObj vs) l ->
  projidx j (arr_target sub l) = items_fields sub vs.
Proof.
  unfold arr_target. induction l as [|[i e] l IH]; intros Hnd j vs Hin; [contradiction|].
  simpl in Hnd. inversion Hnd; subst. simpl. rewrite projidx_app. destruct Hin as [Heq | Hin].
  - injection Heq as -> ->. cbn [snd fst]. rewrite projidx_harr_same.
    assert (E : forall l, ~ In j (map fst l) ->
              projidx j (flat_map (fun je : Z * sval => match snd je with
                                                         | SObj vs => map (harr (fst je)) (items_fields sub vs)
                                                         | _ => []
                                                         end) l) = []).
    { clear. induction l as [|[i e] l IH]; intros Hn; [reflexivity|]. simpl in *. rewrite projidx_app.
      rewrite IH by tauto. destruct e; try reflexivity. cbn [snd fst].
      rewrite projidx_harr_other by tauto. reflexivity. }
    rewrite E by assumption. now rewrite app_nil_r.
  - assert (i <> j). { intros ->. apply H1. now apply (in_map fst) in Hin. }
    rewrite (IH H2 j vs Hin). destruct e; try reflexivity. cbn [snd fst].
    now rewrite projidx_harr_other.
Qed.

Lemma labels_target strict sub l :
  forallb (fun je : Z * sval => match snd je with
                                | SObj vs => conf_fields strict sub vs && existsb spelled vs
                                | _ => false
                                end) l = true ->
  forall j, In j (labels (arr_target sub l)) <-> In j (map fst l).
Proof.
  unfold arr_target. induction l as [|[i e] l IH]; intros Hc j; [simpl; tauto|].
  simpl in Hc. apply andb_true_iff in Hc. destruct Hc as [He Hc]. simpl. rewrite labels_app, in_app_iff, (IH Hc).
  destruct e; try discriminate. cbn [snd fst]. rewrite labels_harr.
  apply andb_true_iff in He. destruct He as [He1 He2].
  pose proof (items_fields_nonempty strict sub vs He1 He2) as Hne.
  split.
  - intros [H | H]; [|now right]. apply in_map_iff in H. destruct H as [x [<- _]]. now left.
  - intros [<- | H]; [|now right]. left. destruct (items_fields sub vs); [contradiction | now left].
Qed.

Lemma labels_perm L1 L2 : Permutation L1 L2 -> forall j, In j (labels L1) <-> In j (labels L2).
Proof.
  intros Hp j. rewrite !labels_in. split; intros [x [Hx E]]; exists x; split; try assumption.
  - eapply Permutation_in; eauto.
  - eapply Permutation_in; [symmetry|]; eauto.
Qed.

Lemma OCf_labels_sorted L : OCf L -> (forall x, In x L -> fst (fst x) <> None) -> StronglySorted Z.le (labels L).
Proof.
  unfold OCf. induction 1 as [|[[oi r] v] L Hs IH Hx]; intros Hsome; [constructor|].
  destruct oi as [i|]; [|exfalso; apply (Hsome (None, r, v)); [now left | reflexivity]].
  simpl. constructor.
  - apply IH. intros x Hx'. apply Hsome. now right.
  - apply Forall_forall. intros j Hj. apply labels_in in Hj. destruct Hj as [y [Hy E]].
    rewrite Forall_forall in Hx. destruct (Hx _ Hy) as [Hij _]. simpl in Hij. now apply Hij.
Qed.

Lemma arr_target_in sub l x : In x (arr_target sub l) ->
  exists j vs it, In (j, SObj vs) l /\ In it (items_fields sub vs) /\ x = harr j it.
Proof.
  unfold arr_target. intros H. apply in_flat_map in H. destruct H as [[j e] [Hin H]]. destruct e; try contradiction.
  cbn [snd fst] in H. apply in_map_iff in H. destruct H as [it [<- Hit]]. eauto 6.
Qed.

(* ------------------------------------------------------------------ the induction over member types *)
Theorem all_fields_ok strict : forall t, FieldOK strict t.
Proof.
  induction t as [arr | arr sub IH] using ty_ind'; [apply prim_ok|].
  intros f sv L Hwf Hc Hp Hoc.
  rewrite wf_ty_obj in Hwf. apply andb_true_iff in Hwf. destruct Hwf as [Hwf Hwf3].
  apply andb_true_iff in Hwf. destruct Hwf as [Hwf1 Hwf2].
  pose proof (fields_ok strict sub IH Hwf1 Hwf3) as Hfs.
  rewrite conf_obj in Hc. rewrite items_ty_obj in Hp. rewrite compact_obj.
  destruct sv; try discriminate.
  - (* not sent *)
    simpl in Hp. apply perm_nil_l in Hp. subst L. exists VNone. split; reflexivity.
  - (* one object *)
    destruct arr; simpl in Hc; [discriminate|].
    apply andb_true_iff in Hc. destruct Hc as [Hcf Hsp].
    rewrite proj_self_map in Hp. apply Permutation_map_inv in Hp. destruct Hp as [L0 [-> Hp0]].
    change (fun it : list (text * option Z) * list text => (None, fst it, snd it)) with hobj in *.
    destruct (Hfs vs L0 Hcf (Permutation_sym Hp0) (OCf_tails L0 None Hoc)) as [o [Ho [Hk He]]].
    assert (Hne : forall it, In it L0 -> fst it <> []).
    { intros it Hit. apply (Permutation_in _ (Permutation_sym Hp0)) in Hit.
      destruct (items_fields_head sub vs it Hit) as [g [oi [rest [E _]]]]. rewrite E. discriminate. }
    assert (Hnn : L0 <> []).
    { intros ->. apply perm_nil_l in Hp0. revert Hp0. now apply (items_fields_nonempty strict). }
    exists (VObj o). split; [|simpl; f_equal; exact He].
    destruct L0 as [|[k v] L0']; [contradiction|].
    destruct k as [|s rest]; [exfalso; apply (Hne ([], v)); [now left | reflexivity]|].
    assert (E : field_run strict (TObj false sub) (map hobj ((s :: rest, v) :: L0')) VNone =
                field_run strict (TObj false sub) (map hobj ((s :: rest, v) :: L0')) (VObj (fresh sub))).
    { change (map hobj ((s :: rest, v) :: L0')) with ((@None Z, s :: rest, v) :: map hobj L0').
      cbn [field_run]. now rewrite obj_from_none. }
    rewrite E, (obj_field_run strict sub _ _ Hne), Ho. reflexivity.
  - (* an array of objects *)
    destruct arr; simpl in Hc; [|discriminate].
    apply andb_true_iff in Hc. destruct Hc as [Hlab Hel].
    destruct l as [|p l'].
    + (* key=empty *)
      simpl in Hp. rewrite text_eqb_refl in Hp. apply Permutation_sym, Permutation_length_1_inv in Hp. subst L.
      eexists. split; reflexivity.
    + set (l := p :: l') in *.
      assert (Hp' : Permutation L (arr_target sub l)) by (rewrite <- (proj_arr_items f); exact Hp).
      clear Hp.
      pose proof (incr_from_sorted _ _ (labels_ok_incr _ _ Hlab)) as [Hls Hl0].
      pose proof (sorted_lt_NoDup _ Hls) as Hlnd.
      pose proof (labels_target strict sub l Hel) as Hlt.
      assert (HinL : forall x, In x L -> exists j vs it, In (j, SObj vs) l /\ In it (items_fields sub vs) /\ x = harr j it).
      { intros x Hx. apply arr_target_in. eapply Permutation_in; eauto. }
      assert (Hsome : forall x, In x L -> fst (fst x) <> None).
      { intros x Hx. destruct (HinL x Hx) as [j [vs [it [_ [_ ->]]]]]. discriminate. }
      assert (Hrest : forall x, In x L -> snd (fst x) <> []).
      { intros x Hx. destruct (HinL x Hx) as [j [vs [it [_ [Hit ->]]]]]. simpl.
        destruct (items_fields_head sub vs it Hit) as [g [oi [rest [E _]]]]. rewrite E. discriminate. }
      assert (Hel' : forall j vs, In (j, SObj vs) l -> conf_fields strict sub vs = true /\ existsb spelled vs = true).
      { intros j vs Hin. rewrite forallb_forall in Hel. specialize (Hel _ Hin). simpl in Hel.
        now apply andb_true_iff in Hel. }
      assert (Hlook : forall j, In j (map fst l) -> exists vs, In (j, SObj vs) l).
      { intros j Hj. apply in_map_iff in Hj. destruct Hj as [[j' e] [<- Hin]].
        rewrite forallb_forall in Hel. pose proof (Hel _ Hin) as He. simpl in He. destruct e; try discriminate. eauto. }
      (* each element, taken alone *)
      assert (Helem : forall j vs, In (j, SObj vs) l ->
                exists o, run_items strict sub (projidx j L) (fresh sub) = Ok o /\
                          erase_obj o = compact_fields sub vs).
      { intros j vs Hin. destruct (Hel' j vs Hin) as [Hcf _].
        destruct (Hfs vs (projidx j L) Hcf) as [o [Ho [_ He]]].
        - rewrite <- (projidx_target sub l Hlnd j vs Hin). now apply projidx_perm.
        - now apply OCf_projidx.
        - eauto. }
      (* the abstract run *)
      destruct (arun_spec strict sub L [] ltac:(constructor) Hsome) as [A' [Har [HsA [HkA HvA]]]].
      * intros ->. split; [reflexivity|].
        assert (Hcg : contig_from 0 (map fst l) = true) by exact Hlab.
        apply climb_sorted; [lia | now apply OCf_labels_sorted | |].
        -- intros j Hj. apply (labels_perm _ _ Hp') in Hj. apply Hlt in Hj.
           rewrite Forall_forall in Hl0. specialize (Hl0 _ Hj). simpl. lia.
        -- intros j i Hj Hi. apply (labels_perm _ _ Hp'). apply Hlt.
           apply (labels_perm _ _ Hp') in Hj. apply Hlt in Hj.
           pose proof (contig_in _ _ Hcg) as Hci. apply Hci. apply Hci in Hj. simpl in Hi. lia.
      * intros j Hj. apply (labels_perm _ _ Hp') in Hj. apply Hlt in Hj.
        destruct (Hlook j Hj) as [vs Hin]. destruct (Helem j vs Hin) as [o [Ho _]].
        unfold zgetd. simpl. eauto.
      * assert (HkeysA : map fst A' = map fst l).
        { apply sorted_same_set_eq; try assumption. intros j. rewrite HkA.
          rewrite (labels_perm _ _ Hp'), Hlt. split; [intros [[] | H]; exact H | intros H; right; exact H]. }
        assert (HLne : L <> []).
        { intros ->. apply Permutation_nil in Hp'. unfold l, arr_target in Hp'. simpl in Hp'.
          destruct p as [j e]. destruct (Hlook j (or_introl eq_refl)) as [vs Hin].
          destruct Hin as [Heq | Hin].
          - injection Heq as ->. cbn [snd fst] in Hp'. destruct (Hel' j vs (or_introl eq_refl)) as [H1 H2].
            pose proof (items_fields_nonempty strict sub vs H1 H2).
            destruct (items_fields sub vs); [contradiction | discriminate].
          - exfalso. simpl in Hlnd. inversion Hlnd; subst. apply H1. now apply (in_map fst) in Hin. }
        destruct (array_run strict sub L A' HLne Hrest Har) as [m' Hm'].
        exists (VArr m' (map gobj A')). split; [assumption|].
        simpl. f_equal. rewrite map_map.
        apply (assoc_map_eq (fun e => erase (VObj e))
                 (fun sv => match sv with SObj vs => VObj (compact_fields sub vs) | _ => VNone end) l A' HkeysA Hlnd).
        intros j x Hin.
        assert (Hj : In j (map fst l)) by (apply in_map_iff; exists (j, x); split; [reflexivity | assumption]).
        destruct (Hlook j Hj) as [vs Hin'].
        assert (x = SObj vs).
        { clear -Hlnd Hin Hin'. induction l as [|[i e] l IH]; [contradiction|]. simpl in Hlnd. inversion Hlnd; subst.
          destruct Hin as [E1 | Hin]; destruct Hin' as [E2 | Hin'].
          - congruence.
          - injection E1 as -> ->. exfalso. apply H1. now apply (in_map fst) in Hin'.
          - injection E2 as -> ->. exfalso. apply H1. now apply (in_map fst) in Hin.
          - now apply IH. }
        subst x. destruct (Helem j vs Hin') as [o [Ho He]].
        specialize (HvA j). unfold zgetd at 1 in HvA. simpl in HvA. rewrite Ho in HvA. injection HvA as HvA.
        assert (HjA : In j (map fst A')) by (rewrite HkeysA; assumption).
        destruct (zget A' j) as [e|] eqn:Hz.
        -- exists e. split; [reflexivity|]. unfold zgetd in HvA. rewrite Hz in HvA. subst e.
           simpl. f_equal. exact He.
        -- exfalso. apply zget_none in Hz. contradiction.
Qed.

(** the request object: for every processing order that respects the order condition *)
Theorem items_fidelity strict fs vs L :
  nodupb (map fst fs) = true -> wf_fields fs = true -> conf_fields strict fs vs = true ->
  Permutation L (items_fields fs vs) -> OC L ->
  exists o, run_items strict fs L (fresh fs) = Ok o /\ erase_obj o = compact_fields fs vs.
Proof.
  intros Hnd Hwf Hc Hp Hoc.
  destruct (fields_ok strict fs) with (vs := vs) (L := L) as [o [Ho [_ He]]]; try assumption.
  - apply Forall_forall. intros ft _. apply all_fields_ok.
  - eauto.
Qed.
