(** C03 — the converse direction: what object_to_simple_dict writes for an object is the
    spelling of that object (arrays labelled 0,1,2,..., primitive arrays as repeated keys), so
    sending it back in any order gives an equal object. *)
From Coq Require Import ZArith List Bool Lia ZifyBool Sorted Permutation.
From SpyneV Require Import Base.Prelude C03.Model C03.Check C03.Spec C03.S2cmi C03.Keys C03.Unflat
  C03.Conform C03.Arrays C03.Fidelity C03.Request.
Import ListNotations.
Open Scope Z_scope.

(* ------------------------------------------------------------------ unfolding *)
Fixpoint flat_fields (d : text) (fs : list (text * ty)) (prefix : list text) (inst : list (text * val))
  : list (text * fval) :=
  match fs with
  | [] => []
  | (k, ft) :: r => flat_ty d ft (prefix ++ [k]) (getd inst k) ++ flat_fields d r prefix inst
  end.
Fixpoint flat_elems (d : text) (fs : list (text * ty)) (prefix : list text) (i : Z) (l : list val)
  : list (text * fval) :=
  match l with
  | [] => []
  | VObj inst :: r =>
      flat_fields d fs (set_last prefix (with_idx (last prefix []) i)) inst ++ flat_elems d fs prefix (i + 1) r
  | _ :: r => flat_elems d fs prefix (i + 1) r
  end.

Lemma flat_ty_obj d arr fs prefix v :
  flat_ty d (TObj arr fs) prefix v =
  match v with
  | VObj inst => if arr then [] else flat_fields d fs prefix inst
  | VArr _ l => if arr then match l with [] => [(join d prefix, FEmpty)] | _ => flat_elems d fs prefix 0 l end
                else []
  | _ => []
  end.
Proof.
  assert (E : forall pfx inst,
    (fix go (fs : list (text * ty)) : list (text * fval) :=
       match fs with
       | [] => []
       | (k, ft) :: r => flat_ty d ft (pfx ++ [k]) (match aget inst k with Some x => x | None => VNone end) ++ go r
       end) fs = flat_fields d fs pfx inst).
  { intros pfx inst. induction fs as [|[k ft] fs IH]; simpl; [reflexivity|]. now rewrite IH. }
  destruct v; try reflexivity; destruct arr; try reflexivity; cbn [flat_ty].
  - apply E.
  - match goal with
    | |- context [match l with [] => _ | _ :: _ => ?F 0 l end] =>
        assert (E2 : forall l' i, F i l' = flat_elems d fs prefix i l')
    end.
    { induction l' as [|e l' IH]; intros i; [reflexivity|].
      destruct e; simpl; rewrite ?IH, ?E; reflexivity. }
    destruct l as [|e0 l0]; [reflexivity | exact (E2 (e0 :: l0) 0)].
Qed.

Lemma flatten_fields d fs inst : flatten d fs inst = flat_fields d fs [] inst.
Proof. induction fs as [|[k ft] fs IH]; simpl; [reflexivity|]. now rewrite IH. Qed.

Lemma sparse_of_obj arr fs v :
  sparse_of (TObj arr fs) v =
  match v with
  | VObj inst => if arr then SNone else SObj (sparse_fields fs inst)
  | VArr _ l => if arr then SArr (number_from 0 (map (fun e => match e with
                                                               | VObj inst => SObj (sparse_fields fs inst)
                                                               | _ => SNone
                                                               end) l))
                else SNone
  | _ => SNone
  end.
Proof.
  assert (E : forall inst,
    (fix go (fs : list (text * ty)) : list sval :=
       match fs with
       | [] => []
       | (k, ft) :: r => sparse_of ft (match aget inst k with Some x => x | None => VNone end) :: go r
       end) fs = sparse_fields fs inst).
  { intros inst. induction fs as [|[k ft] fs IH]; simpl; [reflexivity|]. now rewrite IH. }
  destruct v; try reflexivity; destruct arr; try reflexivity; cbn [sparse_of].
  - f_equal. apply E.
  - f_equal. f_equal. apply map_ext. intros e. destruct e; try reflexivity. f_equal. apply E.
Qed.

Lemma typed_obj_eq arr fs v :
  typed (TObj arr fs) v =
  match v with
  | VNone => true
  | VObj inst => negb arr && (typed_obj fs inst && existsb (fun kv => negb (is_none (snd kv))) inst)
  | VArr m l => arr && is_nil m &&
                forallb (fun e => match e with
                                  | VObj inst => typed_obj fs inst && existsb (fun kv => negb (is_none (snd kv))) inst
                                  | _ => false
                                  end) l
  | _ => false
  end.
Proof.
  assert (E : forall inst,
    (fix go (fs : list (text * ty)) : bool :=
       match fs with
       | [] => true
       | (k, ft) :: r => typed ft (match aget inst k with Some x => x | None => VNone end) && go r
       end) fs = typed_members fs inst).
  { intros inst. induction fs as [|[k ft] fs IH]; simpl; [reflexivity|]. now rewrite IH. }
  destruct v; try reflexivity; cbn [typed]; unfold typed_obj.
  - now rewrite E.
  - f_equal. apply forallb_ext'. intros e. destruct e; try reflexivity. now rewrite E.
Qed.

(* ------------------------------------------------------------------ small facts *)
Lemma names_eqb_eq a : forall b, names_eqb a b = true -> a = b.
Proof.
  induction a; destruct b; simpl; try discriminate; [reflexivity|].
  intros H. apply andb_true_iff in H. destruct H as [H1 H2]. f_equal; [now apply text_eqb_eq | auto].
Qed.

Lemma number_from_labels {A} (l : list A) : forall i, contig_from i (map fst (number_from i l)) = true.
Proof. induction l; intros i; simpl; [reflexivity|]. now rewrite Z.eqb_refl, IHl. Qed.
Lemma number_from_snd {A} (l : list A) : forall i, map snd (number_from i l) = l.
Proof. induction l; intros i; simpl; [reflexivity|]. now rewrite IHl. Qed.
Lemma number_from_in {A} (l : list A) : forall i j x, In (j, x) (number_from i l) -> In x l.
Proof. induction l; intros i j x; simpl; [tauto|]. intros [[= _ <-] | H]; [now left | right; eauto]. Qed.

Lemma set_last_snoc (p : list text) x y : set_last (p ++ [x]) y = p ++ [y].
Proof.
  induction p as [|a p IH]; [reflexivity|]. simpl. rewrite IH. destruct (p ++ [x]) eqn:E; [destruct p; discriminate|].
  reflexivity.
Qed.

Lemma seg_text_snoc (P : list (text * option Z)) name oi :
  map seg_text P ++ [seg_text (name, oi)] = map seg_text (P ++ [(name, oi)]).
Proof. now rewrite map_app. Qed.

Lemma spelled_sparse t v : typed t v = true -> is_none v = false -> spelled (sparse_of t v) = true.
Proof.
  destruct t as [arr | arr fs]; intros Ht Hn.
  - destruct v; simpl in *; try discriminate; destruct arr; simpl in *; try discriminate; reflexivity.
  - rewrite sparse_of_obj. rewrite typed_obj_eq in Ht.
    destruct v; simpl in *; try discriminate; destruct arr; simpl in *; try discriminate; reflexivity.
Qed.

Lemma getd_in inst k x : NoDup (map fst inst) -> In (k, x) inst -> getd inst k = x.
Proof. intros Hnd Hin. unfold getd. now rewrite (aget_in inst k x Hnd Hin). Qed.

(** an attribute dict that lists exactly the declared members is determined by its lookups *)
Lemma inst_by_names fs : forall inst, map fst inst = map fst fs -> NoDup (map fst fs) ->
  map (fun kf : text * ty => (fst kf, getd inst (fst kf))) fs = inst.
Proof.
  induction fs as [|[k t] fs IH]; intros [|[k' x] inst] Hk Hnd; simpl in *; try discriminate; [reflexivity|].
  injection Hk as -> Hk. inversion Hnd; subst. f_equal.
  - unfold getd. simpl. now rewrite text_eqb_refl.
  - transitivity (map (fun kf : text * ty => (fst kf, getd inst (fst kf))) fs); [|now apply IH].
    apply map_ext_in. intros [g t'] Hin. simpl. f_equal.
    unfold getd. simpl. rewrite text_eqb_neq; [reflexivity|].
    intros ->. apply H1. now apply (in_map fst) in Hin.
Qed.

(* ------------------------------------------------------------------ the sparse reading is conformant *)
Definition somefield (kv : text * val) : bool := negb (is_none (snd kv)).

Lemma conf_sparse strict : forall t v, wf_ty t = true -> typed t v = true -> conf strict t (sparse_of t v) = true.
Proof.
  induction t as [arr | arr fs IH] using ty_ind'; intros v Hwf Ht.
  - destruct v; simpl in *; try discriminate; try reflexivity; destruct arr; simpl in *; try discriminate; try reflexivity.
    assumption.
  - rewrite wf_ty_obj in Hwf. apply andb_true_iff in Hwf. destruct Hwf as [Hwf Hwf3].
    apply andb_true_iff in Hwf. destruct Hwf as [Hwf1 Hwf2]. apply nodupb_NoDup in Hwf1.
    assert (Hfields : forall inst, typed_members fs inst = true -> conf_fields strict fs (sparse_fields fs inst) = true).
    { clear -IH Hwf3. induction fs as [|[k t] fs IHfs]; intros inst Hm; simpl in *; [reflexivity|].
      apply andb_true_iff in Hm. destruct Hm as [Hm1 Hm2]. apply andb_true_iff in Hwf3. destruct Hwf3 as [Hw1 Hw2].
      inversion IH; subst. cbn [snd] in *. rewrite (H1 _ Hw1 Hm1). simpl. now apply IHfs. }
    assert (Hsp : forall inst, typed_obj fs inst = true -> existsb somefield inst = true ->
              existsb spelled (sparse_fields fs inst) = true).
    { intros inst Hto Hex. unfold typed_obj in Hto. apply andb_true_iff in Hto. destruct Hto as [Hn Hm].
      apply names_eqb_eq in Hn. apply existsb_exists in Hex. destruct Hex as [[k x] [Hin Hx]].
      unfold somefield in Hx. simpl in Hx. apply negb_true_iff in Hx.
      assert (Hnd : NoDup (map fst inst)) by (rewrite Hn; assumption).
      pose proof (getd_in inst k x Hnd Hin) as Hg.
      assert (Hk : In k (map fst fs)) by (rewrite <- Hn; now apply (in_map fst) in Hin).
      clear -Hk Hm Hg Hx. induction fs as [|[k' t] fs IHfs]; [contradiction|]. simpl in *.
      apply andb_true_iff in Hm. destruct Hm as [Hm1 Hm2].
      destruct Hk as [-> | Hk].
      - fold (getd inst k) in *. rewrite Hg in *. rewrite (spelled_sparse t x Hm1 Hx). reflexivity.
      - rewrite (IHfs Hm2 Hk). apply orb_true_r. }
    rewrite sparse_of_obj, conf_obj. rewrite typed_obj_eq in Ht. destruct v; try discriminate; try reflexivity.
    + destruct arr; simpl in Ht; try discriminate. apply andb_true_iff in Ht. destruct Ht as [Hto Hex].
      simpl. rewrite Hfields by (unfold typed_obj in Hto; apply andb_true_iff in Hto; tauto).
      rewrite (Hsp _ Hto Hex). reflexivity.
    + destruct arr; simpl in Ht; try discriminate. apply andb_true_iff in Ht. destruct Ht as [_ Hall].
      cbn [andb]. apply andb_true_iff. split.
      * destruct strict; simpl.
        -- apply number_from_labels.
        -- apply contig_incr, number_from_labels.
      * apply forallb_forall. intros [j sv] Hin. apply number_from_in in Hin. apply in_map_iff in Hin.
        destruct Hin as [e [<- He]]. rewrite forallb_forall in Hall. specialize (Hall e He).
        destruct e; try discriminate. simpl. apply andb_true_iff in Hall. destruct Hall as [Hto Hex].
        rewrite Hfields by (unfold typed_obj in Hto; apply andb_true_iff in Hto; tauto).
        rewrite (Hsp _ Hto Hex). reflexivity.
Qed.

(* ------------------------------------------------------------------ reading the sparse value back *)
Lemma compact_sparse : forall t v, wf_ty t = true -> typed t v = true -> compact t (sparse_of t v) = v.
Proof.
  induction t as [arr | arr fs IH] using ty_ind'; intros v Hwf Ht.
  - destruct v; simpl in *; try discriminate; try reflexivity; destruct arr; simpl in *; try discriminate; reflexivity.
  - rewrite wf_ty_obj in Hwf. apply andb_true_iff in Hwf. destruct Hwf as [Hwf Hwf3].
    apply andb_true_iff in Hwf. destruct Hwf as [Hwf1 Hwf2]. apply nodupb_NoDup in Hwf1.
    assert (Hfields : forall inst, typed_obj fs inst = true -> compact_fields fs (sparse_fields fs inst) = inst).
    { intros inst Hto. unfold typed_obj in Hto. apply andb_true_iff in Hto. destruct Hto as [Hn Hm].
      apply names_eqb_eq in Hn. rewrite <- (inst_by_names fs inst Hn Hwf1) at 2.
      clear -IH Hwf3 Hm. induction fs as [|[k t] fs IHfs]; simpl in *; [reflexivity|].
      apply andb_true_iff in Hm. destruct Hm as [Hm1 Hm2]. apply andb_true_iff in Hwf3. destruct Hwf3 as [Hw1 Hw2].
      inversion IH; subst. cbn [snd] in *. f_equal.
      - f_equal. apply H1; assumption.
      - now apply IHfs. }
    rewrite sparse_of_obj, compact_obj. rewrite typed_obj_eq in Ht. destruct v; try discriminate; try reflexivity.
    + destruct arr; simpl in Ht; try discriminate. apply andb_true_iff in Ht. destruct Ht as [Hto _].
      now rewrite Hfields.
    + destruct arr; simpl in Ht; try discriminate. apply andb_true_iff in Ht. destruct Ht as [Hm Hall].
      destruct m; [|discriminate]. f_equal.
      assert (E : forall (G : sval -> val) (l' : list sval) i, map (fun je : Z * sval => G (snd je)) (number_from i l') = map G l').
      { intros G l'. induction l' as [|x l' IHl]; intros i; simpl; [reflexivity|]. now rewrite IHl. }
      rewrite (E (fun sv => match sv with SObj vs => VObj (compact_fields fs vs) | _ => VNone end)).
      rewrite map_map. rewrite <- (map_id l) at 2. apply map_ext_in. intros e He.
      rewrite forallb_forall in Hall. specialize (Hall e He). destruct e; try discriminate.
      apply andb_true_iff in Hall. destruct Hall as [Hto _]. now rewrite Hfields.
Qed.

(* ------------------------------------------------------------------ object_to_simple_dict writes the spelling *)
Definition rekey (d : text) (P : list (text * option Z)) (it : list (text * option Z) * list text) : text * list text :=
  (key_text d (P ++ fst it), snd it).

Lemma flat_items d : forall t P name v, typed t v = true ->
  flat_doc (flat_ty d t (map seg_text P ++ [name]) v) = map (rekey d P) (items_ty t name (sparse_of t v)).
Proof.
  induction t as [arr | arr fs IH] using ty_ind'; intros P name v Ht.
  - destruct v; simpl in *; try discriminate; try reflexivity; destruct arr; simpl in *; try discriminate; try reflexivity.
    + unfold rekey, key_text. simpl. now rewrite map_app.
    + unfold rekey, key_text. simpl. now rewrite map_app.
  - assert (Hfields : forall Q inst, typed_members fs inst = true ->
              flat_doc (flat_fields d fs (map seg_text Q) inst) = map (rekey d Q) (items_fields fs (sparse_fields fs inst))).
    { clear -IH. induction fs as [|[k t] fs IHfs]; intros Q inst Hm; simpl in *; [reflexivity|].
      apply andb_true_iff in Hm. destruct Hm as [Hm1 Hm2]. inversion IH; subst. cbn [snd] in *.
      unfold flat_doc in *. rewrite !map_app. f_equal.
      - apply (H1 Q k _ Hm1).
      - now apply IHfs. }
    assert (Hpre : forall oi vs, map (rekey d P) (map (pre (name, oi)) (items_fields fs vs)) =
                                 map (rekey d (P ++ [(name, oi)])) (items_fields fs vs)).
    { intros oi vs. rewrite map_map. apply map_ext. intros [k v']. unfold rekey, pre. simpl. now rewrite <- app_assoc. }
    rewrite sparse_of_obj, items_ty_obj, flat_ty_obj. rewrite typed_obj_eq in Ht.
    destruct v; try discriminate; try reflexivity.
    + destruct arr; simpl in Ht; try discriminate. apply andb_true_iff in Ht. destruct Ht as [Hto _].
      unfold typed_obj in Hto. apply andb_true_iff in Hto. destruct Hto as [_ Hm].
      rewrite Hpre. change name with (seg_text (name, @None Z)) at 1. rewrite seg_text_snoc. now apply Hfields.
    + destruct arr; simpl in Ht; try discriminate. apply andb_true_iff in Ht. destruct Ht as [_ Hall].
      destruct l as [|e0 l0].
      * simpl. unfold rekey, key_text. simpl. now rewrite map_app.
      * remember (e0 :: l0) as l eqn:El.
        assert (Hne : number_from 0 (map (fun e => match e with VObj inst => SObj (sparse_fields fs inst) | _ => SNone end) l) <> []).
        { subst l. simpl. discriminate. }
        destruct (number_from 0 (map (fun e => match e with VObj inst => SObj (sparse_fields fs inst) | _ => SNone end) l)) as [|p0 r0] eqn:En;
          [contradiction|]. rewrite <- En. clear En Hne p0 r0.
        clear El e0 l0.
        generalize 0. induction l as [|e l IHl]; intros i; [reflexivity|].
        simpl in Hall. apply andb_true_iff in Hall. destruct Hall as [He Hall]. destruct e; try discriminate.
        apply andb_true_iff in He. destruct He as [Hto _].
        unfold typed_obj in Hto. apply andb_true_iff in Hto. destruct Hto as [_ Hm].
        cbn [flat_elems map number_from flat_map snd fst]. unfold flat_doc in *. rewrite !map_app. f_equal.
        -- rewrite set_last_snoc, last_last. change (with_idx name i) with (seg_text (name, Some i)).
           rewrite seg_text_snoc. rewrite Hpre. now apply Hfields.
        -- now apply IHl.
Qed.

Lemma typed_obj_members fs inst : typed_obj fs inst = true ->
  map fst inst = map fst fs /\ typed_members fs inst = true.
Proof. unfold typed_obj. intros H. apply andb_true_iff in H. destruct H as [H1 H2]. split; [now apply names_eqb_eq | assumption]. Qed.

Lemma flat_items_fields d : forall fs Q inst, typed_members fs inst = true ->
  flat_doc (flat_fields d fs (map seg_text Q) inst) = map (rekey d Q) (items_fields fs (sparse_fields fs inst)).
Proof.
  induction fs as [|[k t] fs IH]; intros Q inst Hm; simpl in *; [reflexivity|].
  apply andb_true_iff in Hm. destruct Hm as [Hm1 Hm2].
  unfold flat_doc in *. rewrite !map_app. f_equal.
  - apply (flat_items d t Q k _ Hm1).
  - now apply IH.
Qed.

Lemma conf_sparse_fields strict : forall fs inst, wf_fields fs = true -> typed_members fs inst = true ->
  conf_fields strict fs (sparse_fields fs inst) = true.
Proof.
  induction fs as [|[k t] fs IH]; intros inst Hwf Hm; simpl in *; [reflexivity|].
  apply andb_true_iff in Hm. destruct Hm as [Hm1 Hm2]. apply andb_true_iff in Hwf. destruct Hwf as [Hw1 Hw2].
  rewrite (conf_sparse strict t _ Hw1 Hm1). simpl. now apply IH.
Qed.

Lemma compact_sparse_fields : forall fs inst, wf_fields fs = true -> NoDup (map fst fs) -> typed_obj fs inst = true ->
  compact_fields fs (sparse_fields fs inst) = inst.
Proof.
  intros fs inst Hwf Hnd Hto. destruct (typed_obj_members fs inst Hto) as [Hn Hm].
  rewrite <- (inst_by_names fs inst Hn Hnd) at 2. clear Hn Hnd Hto.
  induction fs as [|[k t] fs IH]; simpl in *; [reflexivity|].
  apply andb_true_iff in Hm. destruct Hm as [Hm1 Hm2]. apply andb_true_iff in Hwf. destruct Hwf as [Hw1 Hw2].
  f_equal.
  - f_equal. now apply compact_sparse.
  - now apply IH.
Qed.

(** the flattened form of an object is the spelling of its sparse reading *)
Theorem flatten_is_spelling : forall d fs inst, typed_obj fs inst = true ->
  flat_doc (flatten d fs inst) = spell d fs (sparse_fields fs inst).
Proof.
  intros d fs inst Hto. destruct (typed_obj_members fs inst Hto) as [_ Hm].
  rewrite flatten_fields. change (@nil text) with (map seg_text []).
  rewrite (flat_items_fields d fs [] inst Hm). unfold spell. apply map_ext. intros [k v]. reflexivity.
Qed.

(** every spelled pair carries at least one value *)
Lemma items_values_nonempty strict : forall t f sv, conf strict t sv = true ->
  forall it, In it (items_ty t f sv) -> snd it <> [].
Proof.
  induction t as [arr | arr sub IH] using ty_ind'; intros f sv Hc it Hin.
  - destruct sv; simpl in Hc; try discriminate; destruct arr; simpl in Hc; try discriminate; simpl in Hin;
      try contradiction.
    + destruct Hin as [<- | []]. discriminate.
    + destruct Hin as [<- | []]. simpl. destruct l; [discriminate | discriminate].
    + apply in_map_iff in Hin. destruct Hin as [js [<- _]]. discriminate.
  - assert (Hfields : forall vs, conf_fields strict sub vs = true ->
              forall it', In it' (items_fields sub vs) -> snd it' <> []).
    { clear -IH. induction sub as [|[k t] sub IHs]; intros [|v vs] Hc it' Hin; simpl in *; try contradiction.
      apply andb_true_iff in Hc. destruct Hc as [Hc1 Hc2]. inversion IH; subst. cbn [snd] in *.
      apply in_app_or in Hin. destruct Hin as [Hin | Hin].
      - eapply H1; eauto.
      - eapply IHs; eauto. }
    rewrite conf_obj in Hc. rewrite items_ty_obj in Hin. destruct sv; try contradiction.
    + destruct arr; simpl in Hc; try discriminate. apply andb_true_iff in Hc. destruct Hc as [Hc _].
      apply in_map_iff in Hin. destruct Hin as [it' [<- Hit']]. simpl. eapply Hfields; eauto.
    + destruct arr; simpl in Hc; try discriminate. apply andb_true_iff in Hc. destruct Hc as [_ Hel].
      destruct l as [|p l'].
      * destruct Hin as [<- | []]. discriminate.
      * apply in_flat_map in Hin. destruct Hin as [[j e] [Hje Hin]]. destruct e; try contradiction.
        cbn [snd fst] in Hin. apply in_map_iff in Hin. destruct Hin as [it' [<- Hit']].
        rewrite forallb_forall in Hel. specialize (Hel _ Hje). simpl in Hel.
        apply andb_true_iff in Hel. destruct Hel as [Hcf _]. simpl. eapply Hfields; eauto.
Qed.

Lemma spell_values_nonempty strict d : forall fs vs, conf_fields strict fs vs = true ->
  forall kv, In kv (spell d fs vs) -> snd kv <> [].
Proof.
  unfold spell. intros fs vs Hc kv Hin. apply in_map_iff in Hin. destruct Hin as [it [<- Hit]]. simpl.
  revert vs Hc it Hit. induction fs as [|[k t] fs IH]; intros [|v vs] Hc it Hin; simpl in *; try contradiction.
  apply andb_true_iff in Hc. destruct Hc as [Hc1 Hc2]. apply in_app_or in Hin. destruct Hin as [Hin | Hin].
  - eapply items_values_nonempty; eauto.
  - eapply IH; eauto.
Qed.

Lemma filter_all {A} (p : A -> bool) l : (forall x, In x l -> p x = true) -> filter p l = l.
Proof.
  induction l as [|x l IH]; intros H; simpl; [reflexivity|].
  rewrite (H x (or_introl eq_refl)). f_equal. apply IH. intros y Hy. apply H. now right.
Qed.

(** Conversely: the flattened form produced for an object, sent back as pairs in ANY order,
    maps back to an equal object (both strict_arrays settings). *)
Theorem flatten_roundtrip : forall strict d fs inst doc,
  wf_sig d fs = true -> typed_obj fs inst = true ->
  Permutation doc (sent_doc (flatten d fs inst)) ->
  exists o, unflatten true strict d fs doc = Ok o /\ erase_obj o = inst.
Proof.
  intros strict d fs inst doc Hwf Hto Hp.
  destruct (wf_sig_parts d fs Hwf) as [Hd [Hnd [Hnb [Hwff Hsti]]]].
  destruct (typed_obj_members fs inst Hto) as [_ Hm].
  pose proof (conf_sparse_fields strict fs inst Hwff Hm) as Hc.
  unfold sent_doc in Hp. rewrite (flatten_is_spelling d fs inst Hto) in Hp.
  rewrite filter_all in Hp.
  2:{ intros kv Hkv. pose proof (spell_values_nonempty strict d fs _ Hc kv Hkv). destruct (snd kv); [contradiction | reflexivity]. }
  destruct (request_fidelity strict d fs (sparse_fields fs inst) doc Hwf Hc Hp) as [o [Ho He]].
  exists o. split; [assumption|]. rewrite He. apply compact_sparse_fields; try assumption. now apply nodupb_NoDup.
Qed.
