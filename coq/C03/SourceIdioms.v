(** C03 — Python idioms the flatkeys translator emits (definitions only).  The generated
    Gen/FlatKeys.v names one of the alternatives the source uses; coq/C03/SourceTie.v proves every
    alternative equal to the definition the model (and hence the theorems) uses, so that a
    behaviour-preserving respelling of the source keeps the obligation and a change of behaviour
    breaks it. *)
From SpyneV Require Export Base.Prelude C03.Model.

(** _natural_key: the list RE.split(k) returns, with the captured indexes (odd positions) as ints.
    [X[1::2] = [int(v) for v in X[1::2]]] *)
Fixpoint conv_slice_from (odd : bool) (parts : list text) : list (text + Z) :=
  match parts with
  | [] => []
  | p :: r => (if odd then inr (dval p) else inl p) :: conv_slice_from (negb odd) r
  end.
Definition conv_slice (parts : list text) : list (text + Z) := conv_slice_from false parts.
(** [[int(p) if c(i) else p for i, p in enumerate(X)]] *)
Fixpoint conv_enum_from (c : Z -> bool) (i : Z) (parts : list text) : list (text + Z) :=
  match parts with
  | [] => []
  | p :: r => (if c i then inr (dval p) else inl p) :: conv_enum_from c (i + 1) r
  end.
Definition conv_enum (c : Z -> bool) (parts : list text) : list (text + Z) := conv_enum_from c 0 parts.

(** str.split(c, 1) *)
Fixpoint py_split1 (c : Z) (s cur : text) : list text :=
  match s with
  | [] => [rev cur]
  | x :: r => if x =? c then [rev cur; r] else py_split1 c r (x :: cur)
  end.
(** str.partition(c) *)
Fixpoint py_partition (c : Z) (s cur : text) : text * text * text :=
  match s with
  | [] => (rev cur, [], [])
  | x :: r => if x =? c then (rev cur, [c], r) else py_partition c r (x :: cur)
  end.
(** NV = X.split(c, 1); if len(NV) != 2: NV.append(None); name is NV[0]; the value is NV[1] unless it is None *)
Definition cut_by_split (c : Z) (s : text) : text * option text :=
  let nv := map Some (py_split1 c s []) in
  let nv := if Z.of_nat (length nv) =? 2 then nv else nv ++ [None] in
  (match nth_error nv 0 with Some (Some a) => a | _ => [] end,
   match nth_error nv 1 with Some (Some b) => Some b | _ => None end).
(** A, E, B = X.partition(c); name is A; the value is B if E (non-empty) else None *)
Definition cut_by_partition (c : Z) (s : text) : text * option text :=
  let '(a, e, b) := py_partition c s [] in
  (a, match e with [] => None | _ => Some b end).
