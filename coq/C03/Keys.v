(** C03 — flat keys: what RE_HTTP_ARRAY_INDEX sees in a key written in the documented
    notation, and how _natural_key orders two such keys. *)
From Coq Require Import ZArith List Bool Lia ZifyBool Sorted Permutation.
From SpyneV Require Import Base.Prelude Base.Digits Base.DigitsProofs C03.Model C03.Spec.
Import ListNotations.
Open Scope Z_scope.

(* ------------------------------------------------------------------ text equality *)
Lemma text_eqb_refl t : text_eqb t t = true.
Proof. induction t; simpl; [reflexivity|]. rewrite Z.eqb_refl. assumption. Qed.
Lemma text_eqb_eq a : forall b, text_eqb a b = true -> a = b.
Proof.
  induction a; destruct b; simpl; try discriminate; [reflexivity|].
  intros H. apply andb_true_iff in H. destruct H as [H1 H2]. f_equal; [lia | auto].
Qed.
Lemma text_eqb_neq a b : a <> b -> text_eqb a b = false.
Proof. intros H. destruct (text_eqb a b) eqn:E; [|reflexivity]. apply text_eqb_eq in E. contradiction. Qed.
Lemma text_eqb_sym a b : text_eqb a b = text_eqb b a.
Proof.
  destruct (text_eqb a b) eqn:E.
  - apply text_eqb_eq in E. subst. now rewrite text_eqb_refl.
  - destruct (text_eqb b a) eqn:E2; [|reflexivity]. apply text_eqb_eq in E2. subst.
    now rewrite text_eqb_refl in E.
Qed.

(* ------------------------------------------------------------------ the scanner on conformant keys *)
Definition seg_toks (s : seg) : list tok :=
  map TLit (fst s) ++ match snd s with None => [] | Some i => [TIdx (str_idx i)] end.
Fixpoint sk_toks (d : text) (k : skey) : list tok :=
  match k with
  | [] => []
  | s :: r => match r with [] => seg_toks s | _ => seg_toks s ++ map TLit d ++ sk_toks d r end
  end.

(** names without '[' and non-negative indexes *)
Definition seg_ok (s : seg) : Prop :=
  nobr (fst s) = true /\ match snd s with Some i => 0 <= i | None => True end.
Definition key_ok (k : skey) : Prop := Forall seg_ok k.

Lemma scan_lit s : nobr s = true -> forall r, scan None (s ++ r) = map TLit s ++ scan None r.
Proof.
  induction s as [|c s IH]; simpl; intros H r; [reflexivity|].
  apply andb_true_iff in H. destruct H as [H1 H2].
  replace (c =? 91) with false by lia. f_equal. auto.
Qed.

Lemma scan_digits ds : Forall (fun c => is_digit c = true) ds ->
  forall acc r, acc ++ ds <> [] -> scan (Some acc) (ds ++ 93 :: r) = TIdx (acc ++ ds) :: scan None r.
Proof.
  induction 1 as [|c ds Hc Hds IH]; intros acc r Hne; simpl.
  - rewrite app_nil_r in *. unfold is_dig. replace (is_digit 93) with false by reflexivity.
    destruct acc; [contradiction|]. reflexivity.
  - unfold is_dig. rewrite Hc. rewrite IH.
    + now rewrite <- app_assoc.
    + rewrite <- app_assoc. simpl. destruct acc; discriminate.
Qed.

Lemma scan_idx i r : 0 <= i -> scan None (91 :: str_idx i ++ 93 :: r) = TIdx (str_idx i) :: scan None r.
Proof.
  intros Hi. simpl. unfold str_idx. rewrite scan_digits; [reflexivity | now apply str_nat_digits |].
  simpl. now apply str_nat_nonempty.
Qed.

Lemma scan_seg s r : seg_ok s -> scan None (seg_text s ++ r) = seg_toks s ++ scan None r.
Proof.
  destruct s as [n [i|]]; intros [Hn Hi]; unfold seg_text, seg_toks; simpl in *.
  - unfold with_idx. rewrite <- !app_assoc. rewrite scan_lit by assumption. f_equal.
    change ([91] ++ str_idx i ++ [93] ++ r) with (91 :: str_idx i ++ 93 :: r).
    rewrite scan_idx by assumption. reflexivity.
  - rewrite app_nil_r. now apply scan_lit.
Qed.

Lemma join_cons2 d x y r : join d (x :: y :: r) = x ++ d ++ join d (y :: r).
Proof. reflexivity. Qed.

Lemma scan_key d k : nobr d = true -> key_ok k ->
  forall r, scan None (key_text d k ++ r) = sk_toks d k ++ scan None r.
Proof.
  intros Hd. unfold key_text. induction 1 as [|s k Hs Hk IH]; intros r; [reflexivity|].
  destruct k as [|s2 k'].
  - simpl. now apply scan_seg.
  - cbn [map]. rewrite join_cons2. cbn [sk_toks]. rewrite <- !app_assoc.
    rewrite scan_seg by assumption. rewrite scan_lit by assumption.
    cbn [map] in IH. now rewrite IH.
Qed.

Lemma toks_key d k : nobr d = true -> key_ok k -> toks (key_text d k) = sk_toks d k.
Proof.
  intros Hd Hk. unfold toks. rewrite <- (app_nil_r (key_text d k)).
  rewrite scan_key by assumption. simpl. now rewrite app_nil_r.
Qed.

Lemma tok_lits_app a b : tok_lits (a ++ b) = tok_lits a ++ tok_lits b.
Proof. induction a as [|[c|ds] a IH]; simpl; [reflexivity | now rewrite IH | assumption]. Qed.
Lemma tok_lits_lit s : tok_lits (map TLit s) = s.
Proof. induction s; simpl; [reflexivity | now f_equal]. Qed.
Lemma tok_idxs_app a b : tok_idxs (a ++ b) = tok_idxs a ++ tok_idxs b.
Proof. induction a as [|[c|ds] a IH]; simpl; [reflexivity | assumption | now rewrite IH]. Qed.
Lemma tok_idxs_lit s : tok_idxs (map TLit s) = [].
Proof. induction s; simpl; [reflexivity | assumption]. Qed.

Lemma dval_str_idx i : 0 <= i -> dval (str_idx i) = i.
Proof. intros. unfold dval, str_idx. now apply val_str_nat0. Qed.

Lemma seg_lits s : tok_lits (seg_toks s) = fst s.
Proof.
  destruct s as [n [i|]]; unfold seg_toks; simpl; rewrite tok_lits_app, tok_lits_lit; simpl; now rewrite app_nil_r.
Qed.
Lemma seg_idxs s : seg_ok s -> tok_idxs (seg_toks s) = match snd s with Some i => [i] | None => [] end.
Proof.
  destruct s as [n [i|]]; intros [_ Hi]; unfold seg_toks; simpl in *; rewrite tok_idxs_app, tok_idxs_lit; simpl.
  - now rewrite dval_str_idx.
  - reflexivity.
Qed.

(** RE_HTTP_ARRAY_INDEX.sub("", key) is the dotted path, findall gives the indexes in order *)
Lemma strip_idx_key d k : nobr d = true -> key_ok k -> strip_idx (key_text d k) = join d (path_of k).
Proof.
  intros Hd Hk. unfold strip_idx. rewrite toks_key by assumption.
  induction Hk as [|s k Hs Hk IH]; [reflexivity|].
  destruct k as [|s2 k'].
  - simpl. apply seg_lits.
  - cbn [sk_toks path_of map]. rewrite join_cons2. rewrite !tok_lits_app, seg_lits, tok_lits_lit.
    f_equal. f_equal. exact IH.
Qed.
Lemma find_idx_key d k : nobr d = true -> key_ok k -> find_idx (key_text d k) = idxs_of k.
Proof.
  intros Hd Hk. unfold find_idx. rewrite toks_key by assumption.
  induction Hk as [|s k Hs Hk IH]; [reflexivity|].
  assert (Hseg : forall r, match snd s with Some i => [i] | None => [] end ++ idxs_of r = idxs_of (s :: r)).
  { intros r. destruct s as [n [i|]]; reflexivity. }
  destruct k as [|s2 k'].
  - cbn [sk_toks]. rewrite seg_idxs by assumption. rewrite <- Hseg. simpl. now rewrite app_nil_r.
  - cbn [sk_toks]. rewrite !tok_idxs_app, seg_idxs, tok_idxs_lit by assumption.
    rewrite <- Hseg. simpl. f_equal. exact IH.
Qed.

(* ------------------------------------------------------------------ comparisons are orders *)
Section Cmp.
  Context {A : Type}.
  Record good (cmp : A -> A -> comparison) : Prop := {
    g_eq : forall a b, cmp a b = Eq <-> a = b;
    g_opp : forall a b, cmp b a = CompOpp (cmp a b);
    g_lt : forall a b c, cmp a b = Lt -> cmp b c = Lt -> cmp a c = Lt }.

  Lemma good_refl cmp : good cmp -> forall a, cmp a a = Eq.
  Proof. intros G a. now apply (g_eq _ G). Qed.
  Lemma good_le_trans cmp : good cmp -> forall a b c, cmp a b <> Gt -> cmp b c <> Gt -> cmp a c <> Gt.
  Proof.
    intros G a b c H1 H2.
    destruct (cmp a b) eqn:E1; [| | contradiction].
    - apply (g_eq _ G) in E1. now subst.
    - destruct (cmp b c) eqn:E2; [| | contradiction].
      + apply (g_eq _ G) in E2. subst. now rewrite E1.
      + now rewrite (g_lt _ G a b c E1 E2).
  Qed.
  Lemma good_total cmp : good cmp -> forall a b, cmp a b = Gt -> cmp b a = Lt.
  Proof. intros G a b H. rewrite (g_opp _ G a b), H. reflexivity. Qed.
End Cmp.

Fixpoint list_cmp {A} (cmp : A -> A -> comparison) (a b : list A) : comparison :=
  match a, b with
  | [], [] => Eq | [], _ => Lt | _, [] => Gt
  | x :: a', y :: b' => match cmp x y with Eq => list_cmp cmp a' b' | c => c end
  end.
Definition pair_cmp {A B} (ca : A -> A -> comparison) (cb : B -> B -> comparison) (x y : A * B) : comparison :=
  match ca (fst x) (fst y) with Eq => cb (snd x) (snd y) | c => c end.

Lemma good_Z : good Z.compare.
Proof.
  split.
  - intros a b. apply Z.compare_eq_iff.
  - intros a b. apply Z.compare_antisym.
  - intros a b c. rewrite !Z.compare_lt_iff. lia.
Qed.

Lemma good_list {A} (cmp : A -> A -> comparison) : good cmp -> good (list_cmp cmp).
Proof.
  intros G. split.
  - induction a as [|x a IH]; destruct b as [|y b]; simpl; try (split; [discriminate | congruence]); [tauto|].
    destruct (cmp x y) eqn:E.
    + apply (g_eq _ G) in E. subst. rewrite IH. split; congruence.
    + split; [discriminate|]. intros [= -> _]. rewrite (good_refl _ G) in E. discriminate.
    + split; [discriminate|]. intros [= -> _]. rewrite (good_refl _ G) in E. discriminate.
  - induction a as [|x a IH]; destruct b as [|y b]; simpl; try reflexivity.
    rewrite (g_opp _ G x y). destruct (cmp x y); simpl; auto.
  - induction a as [|x a IH]; destruct b as [|y b]; destruct c as [|z c]; simpl; try discriminate; try reflexivity.
    destruct (cmp x y) eqn:E1; try discriminate; destruct (cmp y z) eqn:E2; try discriminate.
    + apply (g_eq _ G) in E1, E2. subst. rewrite (good_refl _ G). apply IH.
    + apply (g_eq _ G) in E1. subst. now rewrite E2.
    + apply (g_eq _ G) in E2. subst. now rewrite E1.
    + now rewrite (g_lt _ G x y z E1 E2).
Qed.

Lemma good_pair {A B} (ca : A -> A -> comparison) (cb : B -> B -> comparison) :
  good ca -> good cb -> good (pair_cmp ca cb).
Proof.
  intros Ga Gb. unfold pair_cmp. split.
  - intros [a1 b1] [a2 b2]. simpl. destruct (ca a1 a2) eqn:E.
    + apply (g_eq _ Ga) in E. subst. rewrite (g_eq _ Gb). split; congruence.
    + split; [discriminate|]. intros [= -> _]. rewrite (good_refl _ Ga) in E. discriminate.
    + split; [discriminate|]. intros [= -> _]. rewrite (good_refl _ Ga) in E. discriminate.
  - intros [a1 b1] [a2 b2]. simpl. rewrite (g_opp _ Ga a1 a2). destruct (ca a1 a2); simpl; auto.
    apply (g_opp _ Gb).
  - intros [a1 b1] [a2 b2] [a3 b3]. simpl.
    destruct (ca a1 a2) eqn:E1; try discriminate; destruct (ca a2 a3) eqn:E2; try discriminate.
    + apply (g_eq _ Ga) in E1, E2. subst. rewrite (good_refl _ Ga). apply (g_lt _ Gb).
    + apply (g_eq _ Ga) in E1. subst. now rewrite E2.
    + apply (g_eq _ Ga) in E2. subst. now rewrite E1.
    + now rewrite (g_lt _ Ga _ _ _ E1 E2).
Qed.

Lemma text_cmp_list a : forall b, text_cmp a b = list_cmp Z.compare a b.
Proof. induction a; destruct b; simpl; try reflexivity. rewrite IHa. reflexivity. Qed.
Lemma nkl_cmp_list a : forall b, nkl_cmp a b = list_cmp (pair_cmp Z.compare text_cmp) a b.
Proof.
  induction a as [|[i s] a IH]; destruct b as [|[j t] b]; simpl; try reflexivity.
  unfold pair_cmp. simpl. rewrite IH. destruct (i ?= j); reflexivity.
Qed.

Lemma good_ext {A} (c1 c2 : A -> A -> comparison) : (forall a b, c1 a b = c2 a b) -> good c2 -> good c1.
Proof.
  intros E G. split.
  - intros a b. rewrite E. apply (g_eq _ G).
  - intros a b. rewrite !E. apply (g_opp _ G).
  - intros a b c. rewrite !E. apply (g_lt _ G).
Qed.

Lemma good_text_cmp : good text_cmp.
Proof. eapply good_ext; [apply text_cmp_list|]. apply good_list, good_Z. Qed.
Lemma good_nkl_cmp : good nkl_cmp.
Proof.
  eapply good_ext; [apply nkl_cmp_list|]. apply good_list, good_pair; [apply good_Z | apply good_text_cmp].
Qed.
Lemma good_nk_cmp : good nk_cmp.
Proof.
  eapply good_ext with (c2 := pair_cmp text_cmp nkl_cmp); [reflexivity|].
  apply good_pair; [apply good_text_cmp | apply good_nkl_cmp].
Qed.

(** the order [sorted] uses on keys is total and transitive *)
Lemma key_le_total natural a b : key_le natural a b = false -> key_le natural b a = true.
Proof.
  unfold key_le. destruct natural.
  - destruct (nk_cmp (natkey a) (natkey b)) eqn:E; try discriminate. intros _.
    now rewrite (good_total _ good_nk_cmp _ _ E).
  - destruct (text_cmp a b) eqn:E; try discriminate. intros _.
    now rewrite (good_total _ good_text_cmp _ _ E).
Qed.
Lemma key_le_trans natural a b c :
  key_le natural a b = true -> key_le natural b c = true -> key_le natural a c = true.
Proof.
  unfold key_le. destruct natural.
  - intros H1 H2.
    pose proof (good_le_trans _ good_nk_cmp (natkey a) (natkey b) (natkey c)) as T.
    destruct (nk_cmp (natkey a) (natkey b)); try discriminate;
      destruct (nk_cmp (natkey b) (natkey c)); try discriminate;
      destruct (nk_cmp (natkey a) (natkey c)); try reflexivity; exfalso; apply T; congruence.
  - intros H1 H2.
    pose proof (good_le_trans _ good_text_cmp a b c) as T.
    destruct (text_cmp a b); try discriminate;
      destruct (text_cmp b c); try discriminate;
      destruct (text_cmp a c); try reflexivity; exfalso; apply T; congruence.
Qed.

(* ------------------------------------------------------------------ natural order of two spelled keys *)
Lemma nk_rest_prefix T : forall cur a b R1 R2,
  (dval a ?= dval b) = Gt ->
  nk_cmp (nk_rest (T ++ TIdx a :: R1) cur) (nk_rest (T ++ TIdx b :: R2) cur) = Gt.
Proof.
  induction T as [|[c|ds] T IH]; intros cur a b R1 R2 H; simpl.
  - destruct (nk_rest R1 []) as [l1 m1]. destruct (nk_rest R2 []) as [l2 m2].
    unfold nk_cmp. simpl. rewrite (good_refl _ good_text_cmp). now rewrite H.
  - apply IH. assumption.
  - specialize (IH [] a b R1 R2 H).
    destruct (nk_rest (T ++ TIdx a :: R1) []) as [l1 m1]. destruct (nk_rest (T ++ TIdx b :: R2) []) as [l2 m2].
    unfold nk_cmp in *. simpl in *. rewrite (good_refl _ good_text_cmp). rewrite Z.compare_refl. exact IH.
Qed.

Definition pre_toks (d : text) (P : skey) (n : text) : list tok :=
  flat_map (fun s => seg_toks s ++ map TLit d) P ++ map TLit n.
Definition rest_toks (d : text) (r : skey) : list tok :=
  match r with [] => [] | _ => map TLit d ++ sk_toks d r end.

Lemma sk_toks_split d P n i r :
  sk_toks d (P ++ (n, Some i) :: r) = pre_toks d P n ++ TIdx (str_idx i) :: rest_toks d r.
Proof.
  unfold pre_toks. induction P as [|s P IH].
  - simpl. unfold seg_toks, rest_toks. simpl. destruct r; simpl; rewrite <- ?app_assoc; reflexivity.
  - cbn [app sk_toks flat_map]. destruct (P ++ (n, Some i) :: r) eqn:E; [destruct P; discriminate|].
    rewrite IH. now rewrite <- !app_assoc.
Qed.

(** two keys that agree up to a bracketed index: the one with the larger index sorts later *)
Lemma natural_order d P n i j r1 r2 :
  nobr d = true -> key_ok (P ++ (n, Some i) :: r1) -> key_ok (P ++ (n, Some j) :: r2) -> j < i ->
  key_le true (key_text d (P ++ (n, Some i) :: r1)) (key_text d (P ++ (n, Some j) :: r2)) = false.
Proof.
  intros Hd H1 H2 Hlt. unfold key_le, natkey. rewrite !toks_key by assumption.
  rewrite !sk_toks_split. rewrite nk_rest_prefix; [reflexivity|].
  assert (0 <= i /\ 0 <= j).
  { unfold key_ok in *. rewrite Forall_app in H1, H2. destruct H1 as [_ H1], H2 as [_ H2].
    inversion H1; inversion H2; subst. destruct H3 as [_ H3], H7 as [_ H7]. simpl in *. lia. }
  rewrite !dval_str_idx by lia. apply Z.compare_gt_iff. lia.
Qed.

(* ------------------------------------------------------------------ sorted(doc.items(), key=...) *)
Section Sort.
  Context {V : Type} (natural : bool).
  Definition item_le (x y : text * V) : Prop := key_le natural (fst x) (fst y) = true.

  Lemma sinsert_perm (x : text * V) l : Permutation (sinsert natural x l) (x :: l).
  Proof.
    induction l as [|y r IH]; simpl; [reflexivity|].
    destruct (key_le natural (fst y) (fst x)); [|reflexivity].
    rewrite IH. apply perm_swap.
  Qed.
  Lemma sinsert_sorted (x : text * V) l : StronglySorted item_le l -> StronglySorted item_le (sinsert natural x l).
  Proof.
    induction 1 as [|y r Hs IH Hy]; simpl; [repeat constructor|].
    destruct (key_le natural (fst y) (fst x)) eqn:E.
    - constructor; [assumption|].
      apply Forall_forall. intros z Hz.
      apply (Permutation_in _ (sinsert_perm x r)) in Hz. destruct Hz as [<- | Hz]; [exact E|].
      rewrite Forall_forall in Hy. now apply Hy.
    - apply key_le_total in E. constructor; [constructor; assumption|].
      constructor; [exact E|]. eapply Forall_impl; [|exact Hy].
      intros z Hz. unfold item_le in *. eapply key_le_trans; eauto.
  Qed.
  Lemma sort_fold_spec (d : list (text * V)) : forall acc, StronglySorted item_le acc ->
    StronglySorted item_le (fold_left (fun (acc : list (text * V)) x => sinsert natural x acc) d acc) /\
    Permutation (fold_left (fun (acc : list (text * V)) x => sinsert natural x acc) d acc) (acc ++ d).
  Proof.
    induction d as [|x d IH]; intros acc Ha; simpl.
    - split; [assumption | now rewrite app_nil_r].
    - destruct (IH _ (sinsert_sorted x acc Ha)) as [H1 H2]. split; [assumption|].
      rewrite H2. rewrite sinsert_perm. simpl. apply Permutation_middle.
  Qed.
  Lemma sort_items_spec (d : list (text * V)) :
    StronglySorted item_le (sort_items natural d) /\ Permutation (sort_items natural d) d.
  Proof. unfold sort_items. apply (sort_fold_spec d []). constructor. Qed.
End Sort.
