(** C03 — the sparse-to-contiguous index bookkeeping (_s2cmi and the insertion it drives):
    whatever the order in which sparse indexes arrive, the element list stays in increasing
    index order and the map stays the rank function of the index set. *)
From Coq Require Import ZArith List Bool Lia ZifyBool Sorted Permutation.
From SpyneV Require Import Base.Prelude C03.Model.
Import ListNotations.
Open Scope Z_scope.

(* ------------------------------------------------------------------ generic list facts *)
Lemma nth_firstn {A} : forall (c n : nat) (l : list A), (n < c)%nat -> nth_error (firstn c l) n = nth_error l n.
Proof.
  induction c; intros n l H; [lia|]. destruct l; [now destruct n|].
  destruct n; simpl; [reflexivity|]. apply IHc. lia.
Qed.
Lemma nth_skipn {A} : forall (c n : nat) (l : list A), nth_error (skipn c l) n = nth_error l (c + n).
Proof.
  induction c; intros n l; [reflexivity|]. destruct l; [now destruct n|]. simpl. apply IHc.
Qed.

Lemma nth_error_insert_lt {A} (l : list A) (c n : nat) x :
  (c <= length l)%nat -> (n < c)%nat -> nth_error (firstn c l ++ x :: skipn c l) n = nth_error l n.
Proof.
  intros Hc Hn. rewrite nth_error_app1 by (rewrite firstn_length; lia).
  now apply nth_firstn.
Qed.
Lemma nth_error_insert_eq {A} (l : list A) (c : nat) x :
  (c <= length l)%nat -> nth_error (firstn c l ++ x :: skipn c l) c = Some x.
Proof.
  intros Hc. rewrite nth_error_app2 by (rewrite firstn_length; lia).
  rewrite firstn_length, Nat.min_l by lia. now rewrite Nat.sub_diag.
Qed.
Lemma nth_error_insert_gt {A} (l : list A) (c n : nat) x :
  (c <= length l)%nat -> (c <= n)%nat -> nth_error (firstn c l ++ x :: skipn c l) (S n) = nth_error l n.
Proof.
  intros Hc Hn. rewrite nth_error_app2 by (rewrite firstn_length; lia).
  rewrite firstn_length, Nat.min_l by lia.
  replace (S n - c)%nat with (S (n - c)) by lia. simpl.
  rewrite nth_skipn. f_equal. lia.
Qed.

(** number of elements below k *)
Definition cnt_lt (K : list Z) (k : Z) : nat := length (filter (fun x => x <? k) K).

Lemma cnt_lt_le K k : (cnt_lt K k <= length K)%nat.
Proof. unfold cnt_lt. induction K; simpl; [lia|]. destruct (a <? k); simpl; lia. Qed.

Lemma sorted_all_ge_cnt0 K k : Forall (fun x => k <= x) K -> cnt_lt K k = 0%nat.
Proof.
  unfold cnt_lt. induction 1; simpl; [reflexivity|].
  destruct (x <? k) eqn:E; [lia | assumption].
Qed.

Lemma cnt_lt_cons a r k : cnt_lt (a :: r) k = if a <? k then S (cnt_lt r k) else cnt_lt r k.
Proof. unfold cnt_lt. simpl. now destruct (a <? k). Qed.

(** in a strictly sorted list the elements below k are exactly the first [cnt_lt K k] *)
Lemma sorted_nth_lt K : StronglySorted Z.lt K ->
  forall v x k, nth_error K v = Some x -> (x < k <-> (v < cnt_lt K k)%nat).
Proof.
  induction 1 as [|a r Hs IH Ha]; intros v x k Hn.
  - destruct v; discriminate.
  - rewrite cnt_lt_cons. destruct v as [|v]; simpl in Hn.
    + injection Hn as <-. destruct (a <? k) eqn:E; [lia|].
      rewrite (sorted_all_ge_cnt0 r k).
      * lia.
      * eapply Forall_impl; [|exact Ha]. simpl. intros; lia.
    + assert (a < x) by (rewrite Forall_forall in Ha; apply Ha; eapply nth_error_In; eauto).
      destruct (a <? k) eqn:E.
      * rewrite (IH v x k Hn). lia.
      * rewrite (sorted_all_ge_cnt0 r k).
        -- lia.
        -- eapply Forall_impl; [|exact Ha]. simpl. intros; lia.
Qed.

Lemma sorted_firstn_lt K k : StronglySorted Z.lt K -> Forall (fun x => x < k) (firstn (cnt_lt K k) K).
Proof.
  intros Hs. apply Forall_forall. intros x Hx.
  apply In_nth_error in Hx. destruct Hx as [n Hn].
  assert (n < cnt_lt K k)%nat.
  { assert (n < length (firstn (cnt_lt K k) K))%nat by (apply nth_error_Some; congruence).
    rewrite firstn_length in H. lia. }
  rewrite nth_firstn in Hn by assumption.
  apply (sorted_nth_lt K Hs n x k Hn). assumption.
Qed.
Lemma sorted_skipn_ge K k : StronglySorted Z.lt K -> Forall (fun x => k <= x) (skipn (cnt_lt K k) K).
Proof.
  intros Hs. apply Forall_forall. intros x Hx.
  apply In_nth_error in Hx. destruct Hx as [n Hn].
  rewrite nth_skipn in Hn.
  pose proof (sorted_nth_lt K Hs _ x k Hn). lia.
Qed.

Lemma StronglySorted_app_inv {A} (R : A -> A -> Prop) l1 l2 :
  StronglySorted R (l1 ++ l2) -> StronglySorted R l1 /\ StronglySorted R l2.
Proof.
  induction l1; simpl; intros H.
  - split; [constructor | assumption].
  - inversion H; subst. destruct (IHl1 H2). split; [|assumption].
    constructor; [assumption|]. rewrite Forall_app in H3. tauto.
Qed.
Lemma StronglySorted_app {A} (R : A -> A -> Prop) l1 l2 :
  StronglySorted R l1 -> StronglySorted R l2 ->
  (forall x y, In x l1 -> In y l2 -> R x y) -> StronglySorted R (l1 ++ l2).
Proof.
  induction 1; simpl; intros H2 Hx; [assumption|].
  constructor.
  - apply IHStronglySorted; [assumption|]. intros; apply Hx; [right|]; assumption.
  - apply Forall_app. split; [assumption|].
    apply Forall_forall. intros y Hy. apply Hx; [left; reflexivity | assumption].
Qed.

(** inserting a new key at its rank keeps the list strictly sorted *)
Lemma sorted_insert K k : StronglySorted Z.lt K -> ~ In k K ->
  StronglySorted Z.lt (insert_at (Z.of_nat (cnt_lt K k)) k K).
Proof.
  intros Hs Hn. unfold insert_at. rewrite Nat2Z.id.
  pose proof (sorted_firstn_lt K k Hs) as H1. pose proof (sorted_skipn_ge K k Hs) as H2.
  assert (Hsp : StronglySorted Z.lt (firstn (cnt_lt K k) K) /\ StronglySorted Z.lt (skipn (cnt_lt K k) K)).
  { apply StronglySorted_app_inv. now rewrite firstn_skipn. }
  destruct Hsp as [Ha Hb].
  assert (H2' : Forall (fun x => k < x) (skipn (cnt_lt K k) K)).
  { rewrite Forall_forall in *. intros x Hx. specialize (H2 x Hx).
    assert (x <> k). { intros ->. apply Hn. rewrite <- (firstn_skipn (cnt_lt K k) K). apply in_or_app. now right. }
    lia. }
  apply StronglySorted_app; [assumption | constructor; assumption |].
  intros x y Hx [<- | Hy].
  - rewrite Forall_forall in H1. now apply H1.
  - rewrite Forall_forall in H1, H2'. specialize (H1 x Hx). specialize (H2' y Hy). lia.
Qed.

Lemma in_insert_at {A} (c : nat) (x y : A) l :
  In y (firstn c l ++ x :: skipn c l) <-> y = x \/ In y l.
Proof.
  rewrite in_app_iff. simpl.
  assert (H : In y l <-> In y (firstn c l) \/ In y (skipn c l)).
  { rewrite <- in_app_iff. now rewrite firstn_skipn. }
  rewrite H. intuition congruence.
Qed.

Lemma NoDup_snoc {A} (l : list A) x : NoDup l -> ~ In x l -> NoDup (l ++ [x]).
Proof.
  induction 1; simpl; intros Hn.
  - constructor; [intros [] | constructor].
  - constructor.
    + rewrite in_app_iff. simpl. intros [H1 | [H1 | []]]; [tauto | subst; tauto].
    + apply IHNoDup. tauto.
Qed.

(* ------------------------------------------------------------------ int-keyed dicts *)
Lemma zget_in {V} (m : list (Z * V)) k v : zget m k = Some v -> In (k, v) m.
Proof.
  induction m as [|[i w] r IH]; simpl; [discriminate|].
  destruct (i =? k) eqn:E.
  - intros [= ->]. left. f_equal. lia.
  - intros H. right. auto.
Qed.
Lemma in_zget {V} (m : list (Z * V)) k v : NoDup (map fst m) -> In (k, v) m -> zget m k = Some v.
Proof.
  induction m as [|[i w] r IH]; simpl; [tauto|].
  intros Hd [H | H].
  - injection H as -> ->. now rewrite Z.eqb_refl.
  - inversion Hd; subst. destruct (i =? k) eqn:E.
    + exfalso. apply H2. assert (i = k) by lia. subst. apply (in_map fst) in H. exact H.
    + auto.
Qed.
Lemma zget_none {V} (m : list (Z * V)) k : zget m k = None <-> ~ In k (map fst m).
Proof.
  induction m as [|[i w] r IH]; simpl; [tauto|].
  destruct (i =? k) eqn:E.
  - split; [discriminate|]. intros H. exfalso. apply H. left. lia.
  - rewrite IH. split; [|tauto]. intros H [H1 | H1]; [lia | tauto].
Qed.
Lemma zset_new {V} (m : list (Z * V)) k v : ~ In k (map fst m) -> zset m k v = m ++ [(k, v)].
Proof.
  induction m as [|[i w] r IH]; simpl; [reflexivity|].
  intros H. destruct (i =? k) eqn:E; [exfalso; apply H; left; lia|].
  f_equal. apply IH. tauto.
Qed.

(* ------------------------------------------------------------------ _s2cmi *)
Lemma s2cmi_loop_spec m nidx : forall nv,
  s2cmi_loop m nidx nv =
  (map (fun kv => (fst kv, if fst kv >=? nidx then snd kv + 1 else snd kv)) m,
   fold_left Z.max (map snd (filter (fun kv => fst kv <? nidx) m)) nv).
Proof.
  induction m as [|[i v] r IH]; intros nv; simpl; [reflexivity|].
  destruct (i >=? nidx) eqn:E.
  - rewrite IH. replace (i <? nidx) with false by lia. reflexivity.
  - rewrite IH. replace (i <? nidx) with true by lia. simpl.
    replace (if v >? nv then v else nv) with (Z.max nv v) by (destruct (v >? nv) eqn:E2; lia).
    reflexivity.
Qed.

Lemma fold_max_ge l : forall a, a <= fold_left Z.max l a /\ Forall (fun x => x <= fold_left Z.max l a) l.
Proof.
  induction l as [|x r IH]; intros a; simpl; [split; [lia | constructor]|].
  destruct (IH (Z.max a x)) as [H1 H2]. split; [lia|]. constructor; [lia | assumption].
Qed.
Lemma fold_max_in l : forall a, fold_left Z.max l a = a \/ In (fold_left Z.max l a) l.
Proof.
  induction l as [|x r IH]; intros a; simpl; [now left|].
  destruct (IH (Z.max a x)) as [H | H].
  - rewrite H. destruct (Z.max_spec a x) as [[_ ->] | [_ ->]]; [right; left; reflexivity | left; reflexivity].
  - right. right. assumption.
Qed.

(** [m] maps every key of the strictly sorted list [K] to its position and nothing else *)
Definition pos_ok (m : list (Z * Z)) (K : list Z) : Prop :=
  NoDup (map fst m) /\
  forall k v, In (k, v) m <-> (0 <= v /\ nth_error K (Z.to_nat v) = Some k).

Lemma pos_ok_keys m K k : pos_ok m K -> (In k (map fst m) <-> In k K).
Proof.
  intros [_ H]. split.
  - intros Hk. apply in_map_iff in Hk. destruct Hk as [[k' v] [<- Hin]]. simpl.
    apply H in Hin. destruct Hin as [_ Hn]. eapply nth_error_In; eauto.
  - intros Hk. apply In_nth_error in Hk. destruct Hk as [n Hn].
    apply in_map_iff. exists (k, Z.of_nat n). split; [reflexivity|].
    apply H. rewrite Nat2Z.id. split; [lia | assumption].
Qed.

Lemma pos_ok_nil : pos_ok [] [].
Proof.
  split; [constructor|]. intros k v. split; [intros []|].
  intros [_ H]. destruct (Z.to_nat v); discriminate.
Qed.

Lemma pos_ok_zget m K k v : pos_ok m K -> zget m k = Some v -> 0 <= v /\ nth_error K (Z.to_nat v) = Some k.
Proof. intros [Hd H] Hz. apply H. now apply zget_in. Qed.

(** the heart: one call of _s2cmi for an index that is not yet mapped *)
Lemma s2cmi_spec m K nidx :
  StronglySorted Z.lt K -> pos_ok m K -> ~ In nidx K ->
  exists m', s2cmi m nidx = (m', Z.of_nat (cnt_lt K nidx)) /\
             pos_ok m' (insert_at (Z.of_nat (cnt_lt K nidx)) nidx K).
Proof.
  intros Hs Hp Hn. pose proof Hp as [Hd Hm].
  unfold s2cmi. rewrite s2cmi_loop_spec.
  set (m1 := map (fun kv => (fst kv, if fst kv >=? nidx then snd kv + 1 else snd kv)) m).
  set (vals := map snd (filter (fun kv => fst kv <? nidx) m)).
  set (c := cnt_lt K nidx).
  assert (Hk1 : map fst m1 = map fst m).
  { unfold m1. rewrite map_map. simpl. reflexivity. }
  assert (Hnm : ~ In nidx (map fst m)) by (rewrite (pos_ok_keys m K nidx Hp); assumption).
  (* every value of a key below nidx is a position below c, and c-1 is among them *)
  assert (Hv : Forall (fun v => 0 <= v < Z.of_nat c) vals).
  { apply Forall_forall. intros v Hv. unfold vals in Hv. apply in_map_iff in Hv.
    destruct Hv as [[k v'] [<- Hf]]. apply filter_In in Hf. destruct Hf as [Hin Hlt]. simpl in *.
    apply Hm in Hin. destruct Hin as [H0 Hnth].
    pose proof (sorted_nth_lt K Hs _ k nidx Hnth). unfold c. lia. }
  assert (Hc : (0 < c)%nat -> In (Z.of_nat c - 1) vals).
  { intros Hpos. pose proof (cnt_lt_le K nidx). fold c in H.
    destruct (nth_error K (c - 1)) as [k|] eqn:Hk.
    2:{ apply nth_error_None in Hk. lia. }
    unfold vals. apply in_map_iff. exists (k, Z.of_nat c - 1). split; [reflexivity|].
    apply filter_In. split.
    - apply Hm. split; [lia|]. replace (Z.to_nat (Z.of_nat c - 1)) with (c - 1)%nat by lia. assumption.
    - simpl. pose proof (sorted_nth_lt K Hs _ k nidx Hk). fold c in H0. lia. }
  assert (Hmax : fold_left Z.max vals (-1) + 1 = Z.of_nat c).
  { destruct (fold_max_ge vals (-1)) as [G1 G2]. destruct (fold_max_in vals (-1)) as [G3 | G3].
    - destruct c as [|c'] eqn:Ec; [lia|].
      rewrite Forall_forall in G2. specialize (G2 _ (Hc ltac:(lia))). lia.
    - rewrite Forall_forall in Hv, G2. specialize (Hv _ G3).
      destruct c as [|c'] eqn:Ec; [lia|]. specialize (G2 _ (Hc ltac:(lia))). lia. }
  rewrite Hmax. rewrite zset_new by (rewrite Hk1; assumption).
  eexists. split; [reflexivity|].
  pose proof (cnt_lt_le K nidx) as Hle. fold c in Hle.
  unfold insert_at. rewrite Nat2Z.id. fold c.
  split.
  - rewrite map_app, Hk1. simpl. apply NoDup_snoc; assumption.
  - intros k v. rewrite in_app_iff. split.
    + intros [Hin | Hin].
      * unfold m1 in Hin. apply in_map_iff in Hin. destruct Hin as [[k0 v0] [Heq Hin]].
        simpl in Heq. injection Heq as <- <-.
        apply Hm in Hin. destruct Hin as [H0 Hnth].
        pose proof (sorted_nth_lt K Hs _ k0 nidx Hnth) as Hlt. fold c in Hlt.
        assert (k0 <> nidx) by (intros ->; apply Hn; eapply nth_error_In; eauto).
        destruct (k0 >=? nidx) eqn:E.
        -- split; [lia|]. replace (Z.to_nat (v0 + 1)) with (S (Z.to_nat v0)) by lia.
           rewrite nth_error_insert_gt by lia. assumption.
        -- split; [lia|]. rewrite nth_error_insert_lt by lia. assumption.
      * destruct Hin as [Heq | []]. injection Heq as <- <-. split; [lia|].
        rewrite Nat2Z.id. apply nth_error_insert_eq. lia.
    + intros [H0 Hnth]. set (n := Z.to_nat v) in *.
      destruct (lt_eq_lt_dec n c) as [[Hlt | Heq] | Hgt].
      * rewrite nth_error_insert_lt in Hnth by lia. left.
        pose proof (sorted_nth_lt K Hs _ k nidx Hnth) as Hx. fold c in Hx.
        unfold m1. apply in_map_iff. exists (k, v). simpl. split.
        -- replace (k >=? nidx) with false by lia. reflexivity.
        -- apply Hm. split; assumption.
      * right. left. subst n. rewrite <- Heq in *. rewrite nth_error_insert_eq in Hnth by lia.
        injection Hnth as ->. f_equal. lia.
      * destruct n as [|n'] eqn:En; [lia|]. rewrite nth_error_insert_gt in Hnth by lia. left.
        pose proof (sorted_nth_lt K Hs _ k nidx Hnth) as Hx. fold c in Hx.
        unfold m1. apply in_map_iff. exists (k, Z.of_nat n'). simpl. split.
        -- replace (k >=? nidx) with true by lia. f_equal. lia.
        -- apply Hm. rewrite Nat2Z.id. split; [lia | assumption].
Qed.

(* ------------------------------------------------------------------ the array of one member *)
(** the state reached from the empty array: (map, elements) *)
Definition arr_inv (st : list (Z * Z) * list Z) : Prop :=
  StronglySorted Z.lt (snd st) /\ pos_ok (fst st) (snd st).

Lemma arr_step_inv st nidx : arr_inv st ->
  arr_inv (arr_step st nidx) /\ (forall i, In i (snd (arr_step st nidx)) <-> i = nidx \/ In i (snd st)).
Proof.
  destruct st as [m l]. intros [Hs Hp]. unfold arr_step. simpl in *.
  destruct (zget m nidx) as [c|] eqn:Hz.
  - split; [split; assumption|]. simpl. intros i. split; [tauto|].
    intros [-> | H]; [|assumption].
    destruct (pos_ok_zget _ _ _ _ Hp Hz) as [_ Hn]. eapply nth_error_In; eauto.
  - assert (Hn : ~ In nidx l).
    { rewrite <- (pos_ok_keys m l nidx Hp). now apply zget_none. }
    destruct (s2cmi_spec m l nidx Hs Hp Hn) as [m' [-> Hp']]. simpl. split.
    + split; [apply sorted_insert; assumption | assumption].
    + intros i. unfold insert_at. apply in_insert_at.
Qed.

Lemma arr_run_inv idxs : forall st, arr_inv st ->
  arr_inv (fold_left arr_step idxs st) /\
  (forall i, In i (snd (fold_left arr_step idxs st)) <-> In i idxs \/ In i (snd st)).
Proof.
  induction idxs as [|x r IH]; intros st Hst; simpl.
  - split; [assumption | tauto].
  - destruct (arr_step_inv st x Hst) as [H1 H2]. destruct (IH _ H1) as [H3 H4].
    split; [assumption|]. intros i. rewrite H4, H2. intuition congruence.
Qed.

(** _s2cmi keeps every array in index order whatever the order of arrival: after any
    sequence of sparse indexes (repeats allowed) the element list is strictly increasing,
    holds exactly the indexes that arrived, and the map sends each index to the position of
    its element, which is the number of smaller indexes. *)
Theorem s2cmi_rank : forall idxs m l, arr_run idxs = (m, l) ->
  StronglySorted Z.lt l /\
  (forall i, In i l <-> In i idxs) /\
  (forall i, In i idxs ->
     exists c, zget m i = Some c /\ 0 <= c /\ nth_error l (Z.to_nat c) = Some i /\
               c = Z.of_nat (length (filter (fun x => x <? i) l))).
Proof.
  intros idxs m l H. unfold arr_run in H.
  assert (H0 : arr_inv (([] : list (Z * Z)), ([] : list Z))).
  { split; [constructor | apply pos_ok_nil]. }
  destruct (arr_run_inv idxs _ H0) as [[Hs Hp] Hin]. rewrite H in *. simpl in *.
  split; [assumption|]. split; [intros i; rewrite Hin; tauto|].
  intros i Hi. assert (Hl : In i l) by (apply Hin; now left).
  destruct Hp as [Hd Hm]. apply In_nth_error in Hl. destruct Hl as [n Hn].
  exists (Z.of_nat n). rewrite Nat2Z.id. split; [|split; [lia | split; [assumption|]]].
  - apply in_zget; [assumption|]. apply Hm. rewrite Nat2Z.id. split; [lia | assumption].
  - fold (cnt_lt l i). f_equal.
    destruct (lt_eq_lt_dec n (cnt_lt l i)) as [[Hlt | Heq] | Hgt]; [| assumption |].
    + apply (sorted_nth_lt l Hs n i i Hn) in Hlt. lia.
    + destruct (nth_error l (cnt_lt l i)) as [y|] eqn:Hy.
      2:{ apply nth_error_None in Hy. assert (n < length l)%nat by (apply nth_error_Some; congruence). lia. }
      pose proof (sorted_nth_lt l Hs _ y i Hy) as Hyi.
      assert (y < i).
      { (* y is at an earlier position than i in a strictly sorted list *)
        clear -Hs Hy Hn Hgt. revert n Hn Hgt Hy. generalize (cnt_lt l i) as p.
        induction Hs as [|a r Hs IH Ha]; intros p n Hn Hgt Hy; [destruct n; discriminate|].
        destruct p as [|p]; destruct n as [|n]; simpl in *; try lia.
        - injection Hy as <-. rewrite Forall_forall in Ha. apply Ha. eapply nth_error_In; eauto.
        - eapply IH; eauto. lia. }
      lia.
Qed.
