(** C03 — the tokens read from the Spyne source by harness/translate/flatkeys.py (Gen/FlatKeys.v,
    regenerated on every run) are the ones the hand-written model uses. *)
From Coq Require Import ZArith List Bool.
From SpyneV Require Import Base.Prelude C03.Model C03.Spec Gen.FlatKeys.
Import ListNotations.
Open Scope Z_scope.

Lemma src_s2cmi_loop_eq m : forall nidx nv, src_s2cmi_loop m nidx nv = s2cmi_loop m nidx nv.
Proof. induction m as [|[i v] r IH]; intros nidx nv; simpl; [reflexivity|]. rewrite !IH. reflexivity. Qed.

(** the two tokens that the proposed fixes change (sort key of the main loop; visited-set of
    get_simple_type_info_with_prot) are compared with the model's parameters by the check itself
    (correspondence "source_flags"), so that this file compiles on the unrepaired tree too *)
Definition source_flags_ok : bool := src_sort_natural && src_sti_per_branch && src_idxmap_keeps_list && src_date_header_plain.

Lemma source_tie :
  (forall m nidx, src_s2cmi m nidx = s2cmi m nidx) /\
  src_re_array_index = [92; 91; 40; 91; 48; 45; 57; 93; 43; 41; 93] /\      (* \[([0-9]+)] *)
  (forall a b, src_strict_reject a b = (a >? b)) /\
  (forall a b, src_strict_append a b = (a =? b)) /\
  src_empty_read = EMPTY /\ src_empty_written = EMPTY /\
  src_index_format = [37; 115; 91; 37; 100; 93] /\                          (* %s[%d] *)
  src_qs_separators = [38; 59] /\ src_qs_equals = 61 /\ src_qs_plus = (43, 32) /\
  src_header_date_format = [37; 115; 44; 32; 37; 48; 50; 100; 32; 37; 115; 32; 37; 48; 52; 100; 32; 37; 48; 50; 100; 58; 37; 48; 50; 100; 58; 37; 48; 50; 100; 32; 71; 77; 84] /\   (* %s, %02d %s %04d %02d:%02d:%02d GMT *)
  src_weekday = WEEKDAY /\ src_month = MONTH.
Proof.
  split; [intros m nidx; unfold src_s2cmi, s2cmi; now rewrite src_s2cmi_loop_eq|].
  repeat split; reflexivity.
Qed.
