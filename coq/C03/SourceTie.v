(** C03 — the tokens read from the Spyne source by harness/translate/flatkeys.py (Gen/FlatKeys.v,
    regenerated on every run) are the ones the hand-written model uses. *)
From Coq Require Import ZArith List Bool.
From Coq Require Import Lia ZifyBool.
From SpyneV Require Import Base.Prelude C03.Model C03.Spec C03.SourceIdioms Gen.FlatKeys.
Import ListNotations.
Open Scope Z_scope.

(** re's parse tree of \[([0-9]+)] : a literal '[', group 1 = one or more of the range '0'..'9', a literal ']'
    [( LITERAL 91), ( SUBPATTERN ( 1 0 0 [( MAX_REPEAT ( 1 inf [( IN ( ( RANGE ( 48 57))))]))])), ( LITERAL 93)] *)
Definition RE_TREE : text := [91; 40; 76; 73; 84; 69; 82; 65; 76; 32; 57; 49; 41; 44; 32; 40; 83; 85; 66; 80; 65; 84; 84; 69; 82; 78; 32; 40; 49; 32; 48; 32; 48; 32; 91; 40; 77; 65; 88; 95; 82; 69; 80; 69; 65; 84; 32; 40; 49; 32; 105; 110; 102; 32; 91; 40; 73; 78; 32; 40; 40; 82; 65; 78; 71; 69; 32; 40; 52; 56; 32; 53; 55; 41; 41; 41; 41; 93; 41; 41; 93; 41; 41; 44; 32; 40; 76; 73; 84; 69; 82; 65; 76; 32; 57; 51; 41; 93].

(* ---------------------------------------------------------------- idioms: every alternative is the model's *)
Lemma conv_enum_slice c : (forall i, 0 <= i -> c i = Z.odd i) -> forall parts, conv_enum c parts = conv_slice parts.
Proof.
  intros Hc parts. unfold conv_enum, conv_slice.
  assert (G : forall parts i, 0 <= i -> conv_enum_from c i parts = conv_slice_from (Z.odd i) parts).
  { induction parts0 as [|p r IH]; intros i Hi; [reflexivity|]. simpl. rewrite (Hc i Hi). f_equal.
    rewrite (IH (i + 1)) by lia. f_equal. rewrite Z.add_1_r, Z.odd_succ, <- Z.negb_odd. reflexivity. }
  exact (G parts 0 ltac:(lia)).
Qed.

Lemma py_split1_cut s : forall cur, 
  let nv := map Some (py_split1 61 s cur) in
  let nv := if Z.of_nat (length nv) =? 2 then nv else nv ++ [None] in
  (match nth_error nv 0 with Some (Some a) => a | _ => [] end,
   match nth_error nv 1 with Some (Some b) => Some b | _ => None end) = split_eq s cur.
Proof.
  induction s as [|x r IH]; intros cur; [reflexivity|]. cbn [py_split1 split_eq].
  destruct (x =? 61); [reflexivity | apply IH].
Qed.
Lemma cut_by_split_eq s : cut_by_split 61 s = split_eq s [].
Proof. apply py_split1_cut. Qed.

Lemma py_partition_cut s : forall cur,
  (let '(a, e, b) := py_partition 61 s cur in (a, match e with [] => None | _ => Some b end)) = split_eq s cur.
Proof.
  induction s as [|x r IH]; intros cur; [reflexivity|]. cbn [py_partition split_eq].
  destruct (x =? 61); [reflexivity | apply IH].
Qed.
Lemma cut_by_partition_eq s : cut_by_partition 61 s = split_eq s [].
Proof. apply py_partition_cut. Qed.

(** the index test of an enumerate() comprehension: whatever spelling of "i is odd" over i mod 2 *)
Ltac odd_test :=
  let i := fresh "i" in let Hi := fresh "Hi" in
  intros i Hi; rewrite Zodd_mod; unfold Zeq_bool;
  let H := fresh "H" in
  assert (H : i mod 2 = 0 \/ i mod 2 = 1) by (pose proof (Z.mod_pos_bound i 2 ltac:(lia)); lia);
  destruct H as [H | H]; rewrite H; reflexivity.

Lemma src_s2cmi_loop_eq m : forall nidx nv, src_s2cmi_loop m nidx nv = s2cmi_loop m nidx nv.
Proof. induction m as [|[i v] r IH]; intros nidx nv; simpl; [reflexivity|]. rewrite !IH. reflexivity. Qed.

(** the two tokens that the proposed fixes change (sort key of the main loop; visited-set of
    get_simple_type_info_with_prot) are compared with the model's parameters by the check itself
    (correspondence "source_flags"), so that this file compiles on the unrepaired tree too *)
Definition source_flags_ok : bool := src_sort_natural && src_sti_per_branch && src_idxmap_keeps_list && src_date_header_plain.

Lemma source_tie :
  (forall m nidx, src_s2cmi m nidx = s2cmi m nidx) /\
  src_re_array_index = RE_TREE /\
  (forall a b, src_strict_reject a b = (a >? b)) /\
  (forall a b, src_strict_append a b = (a =? b)) /\
  src_empty_read = EMPTY /\ src_empty_written = EMPTY /\
  src_index_format = [37; 115; 91; 37; 100; 93] /\                          (* %s[%d] *)
  src_qs_separators = [38; 59] /\ (forall s, src_qs_cut s = split_eq s []) /\ src_qs_plus = (43, 32) /\
  src_header_date_format = [37; 115; 44; 32; 37; 48; 50; 100; 32; 37; 115; 32; 37; 48; 52; 100; 32; 37; 48; 50; 100; 58; 37; 48; 50; 100; 58; 37; 48; 50; 100; 32; 71; 77; 84] /\   (* %s, %02d %s %04d %02d:%02d:%02d GMT *)
  src_weekday = WEEKDAY /\ src_month = MONTH /\
  (forall parts, src_natural_key_conv parts = conv_slice parts).
Proof.
  split; [intros m nidx; unfold src_s2cmi, s2cmi; now rewrite src_s2cmi_loop_eq|].
  repeat match goal with |- _ /\ _ => split end;
    first [ reflexivity
          | intros s; unfold src_qs_cut; first [apply cut_by_split_eq | apply cut_by_partition_eq]
          | unfold src_natural_key_conv; first [intros; reflexivity | apply conv_enum_slice; odd_test] ].
Qed.
