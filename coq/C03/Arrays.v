(** C03 — arrays of objects: both branches of simple_dict_to_object (strict_arrays on/off)
    refine one abstract machine, a strictly sorted association list index -> element that is
    updated by insert-or-replace; the final list is determined index by index. *)
From Coq Require Import ZArith List Bool Lia ZifyBool Sorted Permutation.
From SpyneV Require Import Base.Prelude C03.Model C03.Spec C03.S2cmi C03.Keys C03.Unflat C03.Conform.
Import ListNotations.
Open Scope Z_scope.

Notation aobj := (list (text * val)) (only parsing).

(* ------------------------------------------------------------------ list helpers *)
Lemma nth_map {A B} (g : A -> B) l : forall n, nth_error (map g l) n = option_map g (nth_error l n).
Proof. induction l; intros [|n]; simpl; auto. Qed.
Lemma set_nth_map {A B} (g : A -> B) l : forall n x, set_nth (map g l) n (g x) = map g (set_nth l n x).
Proof. induction l; intros [|n] x; simpl; try reflexivity. now rewrite IHl. Qed.
Lemma firstn_map' {A B} (g : A -> B) : forall n l, firstn n (map g l) = map g (firstn n l).
Proof. induction n; intros [|a l]; simpl; try reflexivity. now rewrite IHn. Qed.
Lemma skipn_map' {A B} (g : A -> B) : forall n l, skipn n (map g l) = map g (skipn n l).
Proof. induction n; intros [|a l]; simpl; try reflexivity. apply IHn. Qed.
Lemma insert_at_map {A B} (g : A -> B) c x l : insert_at c (g x) (map g l) = map g (insert_at c x l).
Proof. unfold insert_at. rewrite firstn_map', skipn_map', map_app. reflexivity. Qed.
Lemma set_nth_keep {A} (l : list A) : forall n x, nth_error l n = Some x -> set_nth l n x = l.
Proof. induction l; intros [|n] x; simpl; try discriminate. - now intros [= ->]. - intros H. f_equal. auto. Qed.
Lemma set_nth_snoc {A} (l : list A) x y : set_nth (l ++ [x]) (length l) y = l ++ [y].
Proof. induction l; simpl; [reflexivity|]. now rewrite IHl. Qed.
Lemma set_nth_length {A} (l : list A) : forall n x, length (set_nth l n x) = length l.
Proof. induction l; intros [|n] x; simpl; auto. Qed.
Lemma keys_set_nth_same {V} (A : list (Z * V)) : forall c j e,
  nth_error (map fst A) c = Some j -> map fst (set_nth A c (j, e)) = map fst A.
Proof.
  induction A as [|[i x] r IH]; intros [|c] j e; simpl; try discriminate.
  - now intros [= ->].
  - intros H. f_equal. auto.
Qed.
Lemma sorted_lt_NoDup l : StronglySorted Z.lt l -> NoDup l.
Proof.
  induction 1; constructor; [|assumption].
  intros Hin. rewrite Forall_forall in H0. specialize (H0 _ Hin). lia.
Qed.

(* ------------------------------------------------------------------ the abstract array *)
Fixpoint upsert (A : list (Z * aobj)) (j : Z) (e : aobj) : list (Z * aobj) :=
  match A with
  | [] => [(j, e)]
  | (i, x) :: r =>
      if j <? i then (j, e) :: A
      else if j =? i then (i, e) :: r
      else (i, x) :: upsert r j e
  end.
Definition zgetd (A : list (Z * aobj)) (j : Z) (dflt : aobj) : aobj :=
  match zget A j with Some e => e | None => dflt end.

Lemma upsert_keys_in A j e : forall k, In k (map fst (upsert A j e)) <-> k = j \/ In k (map fst A).
Proof.
  induction A as [|[i x] r IH]; intros k; simpl; [intuition congruence|].
  destruct (j <? i) eqn:E1; simpl; [intuition congruence|].
  destruct (j =? i) eqn:E2; simpl.
  - assert (j = i) by lia. intuition congruence.
  - rewrite IH. intuition congruence.
Qed.
Lemma upsert_sorted A j e : StronglySorted Z.lt (map fst A) -> StronglySorted Z.lt (map fst (upsert A j e)).
Proof.
  induction A as [|[i x] r IH]; simpl; intros H; [repeat constructor|].
  inversion H; subst. destruct (j <? i) eqn:E1; simpl.
  - constructor; [assumption|]. constructor; [lia|]. eapply Forall_impl; [|exact H3]. simpl. intros; lia.
  - destruct (j =? i) eqn:E2; simpl.
    + assumption.
    + constructor; [auto|]. apply Forall_forall. intros k Hk. apply upsert_keys_in in Hk.
      destruct Hk as [-> | Hk]; [lia|]. rewrite Forall_forall in H3. now apply H3.
Qed.
Lemma zget_upsert_same A j e : zget (upsert A j e) j = Some e.
Proof.
  induction A as [|[i x] r IH]; simpl; [now rewrite Z.eqb_refl|].
  destruct (j <? i) eqn:E1; simpl; [now rewrite Z.eqb_refl|].
  destruct (j =? i) eqn:E2; simpl.
  - now replace (i =? j) with true by lia.
  - now replace (i =? j) with false by lia.
Qed.
Lemma zget_upsert_other A j e k : k <> j -> zget (upsert A j e) k = zget A k.
Proof.
  intros Hne. induction A as [|[i x] r IH]; simpl; [now replace (j =? k) with false by lia|].
  destruct (j <? i) eqn:E1; simpl; [now replace (j =? k) with false by lia|].
  destruct (j =? i) eqn:E2; simpl.
  - assert (j = i) by lia. subst. now replace (i =? k) with false by lia.
  - destruct (i =? k); [reflexivity | assumption].
Qed.
Lemma zgetd_upsert_same A j e d : zgetd (upsert A j e) j d = e.
Proof. unfold zgetd. now rewrite zget_upsert_same. Qed.
Lemma zgetd_upsert_other A j e k d : k <> j -> zgetd (upsert A j e) k d = zgetd A k d.
Proof. intros. unfold zgetd. now rewrite zget_upsert_other. Qed.

(** replace at the position of an existing key *)
Lemma upsert_existing A : StronglySorted Z.lt (map fst A) ->
  forall c j e, nth_error (map fst A) c = Some j -> upsert A j e = set_nth A c (j, e).
Proof.
  induction A as [|[i x] r IH]; intros Hs c j e Hn; [destruct c; discriminate|].
  simpl in Hs. inversion Hs; subst. destruct c as [|c]; simpl in *.
  - injection Hn as ->. replace (j <? j) with false by lia. now rewrite Z.eqb_refl.
  - assert (i < j) by (rewrite Forall_forall in H2; apply H2; eapply nth_error_In; eauto).
    replace (j <? i) with false by lia. replace (j =? i) with false by lia. f_equal. now apply IH.
Qed.
(** insert a new key at its rank *)
Lemma upsert_new A : StronglySorted Z.lt (map fst A) ->
  forall j e, ~ In j (map fst A) -> upsert A j e = insert_at (Z.of_nat (cnt_lt (map fst A) j)) (j, e) A.
Proof.
  unfold insert_at. induction A as [|[i x] r IH]; intros Hs j e Hn; [reflexivity|].
  simpl in Hs. inversion Hs; subst. simpl in Hn. cbn [map fst upsert]. rewrite cnt_lt_cons.
  destruct (j <? i) eqn:E1.
  - replace (i <? j) with false by lia. rewrite sorted_all_ge_cnt0.
    + reflexivity.
    + eapply Forall_impl; [|exact H2]. simpl. intros; lia.
  - assert (i <> j) by tauto. replace (j =? i) with false by lia. replace (i <? j) with true by lia.
    rewrite Nat2Z.id. simpl. f_equal. rewrite IH by tauto. now rewrite Nat2Z.id.
Qed.
Lemma upsert_last A j e : Forall (fun k => k < j) (map fst A) -> upsert A j e = A ++ [(j, e)].
Proof.
  induction A as [|[i x] r IH]; simpl; intros H; [reflexivity|].
  inversion H; subst. replace (j <? i) with false by lia. replace (j =? i) with false by lia.
  f_equal. auto.
Qed.

(* ------------------------------------------------------------------ the abstract run *)
Fixpoint labels (L : list (option Z * list (text * option Z) * list text)) : list Z :=
  match L with
  | [] => []
  | (Some j, _, _) :: r => j :: labels r
  | (None, _, _) :: r => labels r
  end.
Fixpoint projidx (j : Z) (L : list (option Z * list (text * option Z) * list text))
  : list (list (text * option Z) * list text) :=
  match L with
  | [] => []
  | (oi, rest, v) :: r =>
      match oi with
      | Some i => if i =? j then (rest, v) :: projidx j r else projidx j r
      | None => projidx j r
      end
  end.

Fixpoint arun (strict : bool) (sub : list (text * ty)) (L : list (option Z * list (text * option Z) * list text))
         (A : list (Z * aobj)) : out (list (Z * aobj)) :=
  match L with
  | [] => Ok A
  | (oi, rest, v) :: r =>
      match oi with
      | None => Crash OtherExn
      | Some j =>
          if strict && ((j <? 0) || (Z.of_nat (length A) <? j)) then VFault
          else do e' <- ins strict sub (path_of rest) (idxs_of rest) v (zgetd A j (fresh sub));
               arun strict sub r (upsert A j e')
      end
  end.

(** strict_arrays: every index is at most the current length *)
Fixpoint climb (n : Z) (js : list Z) : bool :=
  match js with
  | [] => true
  | j :: r => (0 <=? j) && (j <=? n) && climb (if j =? n then n + 1 else n) r
  end.

Lemma contig_keys_nth K : forall lo, contig_from lo K = true ->
  forall k, (k < length K)%nat -> nth_error K k = Some (lo + Z.of_nat k).
Proof.
  induction K as [|x r IH]; intros lo H k Hk; simpl in *; [lia|].
  apply andb_true_iff in H. destruct H as [H1 H2]. destruct k as [|k]; simpl.
  - f_equal. lia.
  - rewrite (IH _ H2) by lia. f_equal. lia.
Qed.
Lemma contig_snoc K : forall lo, contig_from lo K = true -> contig_from lo (K ++ [lo + Z.of_nat (length K)]) = true.
Proof.
  induction K as [|x r IH]; intros lo H; simpl in *.
  - rewrite Z.add_0_r, Z.eqb_refl. reflexivity.
  - apply andb_true_iff in H. destruct H as [H1 H2]. rewrite H1. simpl.
    replace (lo + Z.pos (Pos.of_succ_nat (length r))) with (lo + 1 + Z.of_nat (length r)) by lia. auto.
Qed.

Lemma upsert_length_contig A j e : contig_from 0 (map fst A) = true -> 0 <= j <= Z.of_nat (length A) ->
  contig_from 0 (map fst (upsert A j e)) = true /\
  Z.of_nat (length (upsert A j e)) = (if j =? Z.of_nat (length A) then Z.of_nat (length A) + 1 else Z.of_nat (length A)).
Proof.
  intros Hc Hj. pose proof (contig_in _ _ Hc) as Hin. rewrite map_length in Hin.
  pose proof (proj1 (incr_from_sorted _ _ (contig_incr _ _ Hc))) as Hs.
  destruct (j =? Z.of_nat (length A)) eqn:E.
  - assert (j = Z.of_nat (length A)) by lia. subst j.
    rewrite upsert_last.
    + rewrite map_app, app_length. simpl. split; [|lia].
      pose proof (contig_snoc _ _ Hc) as H. rewrite map_length in H. exact H.
    + apply Forall_forall. intros k Hk. apply Hin in Hk. lia.
  - assert (Hn : nth_error (map fst A) (Z.to_nat j) = Some j).
    { rewrite (contig_keys_nth _ _ Hc) by (rewrite map_length; lia). f_equal. lia. }
    rewrite (upsert_existing A Hs _ j e Hn). rewrite set_nth_length. split; [|reflexivity].
    rewrite keys_set_nth_same by assumption. assumption.
Qed.

Lemma run_items_cons strict sub it r inst :
  run_items strict sub (it :: r) inst = do i' <- ins_item strict sub inst it; run_items strict sub r i'.
Proof. reflexivity. Qed.

(** the final abstract array, index by index *)
Lemma arun_spec strict sub : forall L A,
  StronglySorted Z.lt (map fst A) ->
  (forall x, In x L -> fst (fst x) <> None) ->
  (strict = true -> contig_from 0 (map fst A) = true /\ climb (Z.of_nat (length A)) (labels L) = true) ->
  (forall j, In j (labels L) ->
     exists e, run_items strict sub (projidx j L) (zgetd A j (fresh sub)) = Ok e) ->
  exists A', arun strict sub L A = Ok A' /\ StronglySorted Z.lt (map fst A') /\
    (forall j, In j (map fst A') <-> In j (map fst A) \/ In j (labels L)) /\
    (forall j, run_items strict sub (projidx j L) (zgetd A j (fresh sub)) = Ok (zgetd A' j (fresh sub))).
Proof.
  induction L as [|[[oi rest] v] r IH]; intros A Hs Hoi Hstrict Hrun.
  - exists A. simpl. split; [reflexivity|]. split; [assumption|]. split; [tauto | reflexivity].
  - destruct oi as [j0|]; [|exfalso; apply (Hoi (None, rest, v)); [now left | reflexivity]].
    destruct (Hrun j0 (or_introl eq_refl)) as [e He]. cbn [projidx] in He. rewrite Z.eqb_refl in He.
    rewrite run_items_cons in He. unfold ins_item in He. cbn [fst snd] in He.
    destruct (ins strict sub (path_of rest) (idxs_of rest) v (zgetd A j0 (fresh sub))) as [e1| |] eqn:Hins;
      try discriminate.
    cbn [bind] in He.
    assert (Hguard : strict && ((j0 <? 0) || (Z.of_nat (length A) <? j0)) = false).
    { destruct strict; [|reflexivity]. destruct (Hstrict eq_refl) as [_ Hc]. cbn [labels climb] in Hc. lia. }
    destruct (IH (upsert A j0 e1)) as [A' [Har [Hs' [Hk' Hv']]]].
    + now apply upsert_sorted.
    + intros x Hx. apply Hoi. now right.
    + intros ->. destruct (Hstrict eq_refl) as [Hc Hcl]. cbn [labels climb] in Hcl.
      apply andb_true_iff in Hcl. destruct Hcl as [Hb Hcl].
      destruct (upsert_length_contig A j0 e1 Hc ltac:(lia)) as [Hc' Hl']. split; [assumption|].
      rewrite Hl'. exact Hcl.
    + intros j Hj. destruct (Z.eq_dec j j0) as [-> | Hne].
      * rewrite zgetd_upsert_same. eauto.
      * rewrite zgetd_upsert_other by assumption.
        destruct (Hrun j (or_intror Hj)) as [e' He']. cbn [projidx] in He'.
        replace (j0 =? j) with false in He' by lia. eauto.
    + exists A'. split; [|split; [assumption | split]].
      * cbn [arun]. rewrite Hguard, Hins. cbn [bind]. exact Har.
      * intros j. rewrite Hk', upsert_keys_in. cbn [labels]. simpl. intuition congruence.
      * intros j. specialize (Hv' j). cbn [projidx]. destruct (Z.eq_dec j j0) as [-> | Hne].
        -- rewrite Z.eqb_refl, run_items_cons. unfold ins_item. cbn [fst snd]. rewrite Hins. cbn [bind].
           rewrite zgetd_upsert_same in Hv'. exact Hv'.
        -- replace (j0 =? j) with false by lia. rewrite zgetd_upsert_other in Hv' by assumption. exact Hv'.
Qed.

(** labels that arrive in non-decreasing order and leave no gap satisfy the strict condition *)
Lemma climb_sorted js : forall n, 0 <= n ->
  StronglySorted Z.le js ->
  (forall j, In j js -> 0 <= j /\ n - 1 <= j) ->
  (forall j i, In j js -> n <= i <= j -> In i js) ->
  climb n js = true.
Proof.
  induction js as [|j0 r IH]; intros n Hn Hs Hlo Hgap; [reflexivity|].
  inversion Hs; subst. cbn [climb].
  assert (H0 : 0 <= j0) by (apply (Hlo j0); now left).
  assert (Hle : j0 <= n).
  { destruct (Z_le_gt_dec j0 n) as [|Hgt]; [assumption|].
    assert (Hin : In n (j0 :: r)) by (apply (Hgap j0 n); [now left | lia]).
    destruct Hin as [E | Hin]; [lia|]. rewrite Forall_forall in H2. specialize (H2 _ Hin). lia. }
  replace (0 <=? j0) with true by lia. replace (j0 <=? n) with true by lia. simpl.
  rewrite Forall_forall in H2.
  apply IH.
  - destruct (j0 =? n); lia.
  - assumption.
  - intros j Hj. specialize (H2 _ Hj). destruct (Hlo j (or_intror Hj)). destruct (j0 =? n) eqn:E; lia.
  - intros j i Hj Hi. specialize (H2 _ Hj).
    assert (Hin : In i (j0 :: r)) by (apply (Hgap j i); [now right | destruct (j0 =? n) eqn:E; lia]).
    destruct Hin as [E | Hin]; [|assumption]. subst i. destruct (j0 =? n) eqn:E; lia.
Qed.

(* ------------------------------------------------------------------ refinement: strict_arrays=False *)
Definition gobj (a : Z * aobj) : val := VObj (snd a).

Definition Rns (m : list (Z * Z)) (lst : list val) (A : list (Z * aobj)) : Prop :=
  lst = map gobj A /\ StronglySorted Z.lt (map fst A) /\ pos_ok m (map fst A).

Lemma step_node strict t cur oi s rest v :
  step strict t cur (oi, s :: rest, v) = node_step strict t (path_of (s :: rest)) (opt_idx oi ++ idxs_of (s :: rest)) v cur.
Proof. reflexivity. Qed.

Lemma ns_step sub m lst A j s rest v e' :
  Rns m lst A ->
  ins false sub (path_of (s :: rest)) (idxs_of (s :: rest)) v (zgetd A j (fresh sub)) = Ok e' ->
  exists m', step false (TObj true sub) (VArr m lst) (Some j, s :: rest, v) = Ok (VArr m' (map gobj (upsert A j e')))
             /\ Rns m' (map gobj (upsert A j e')) (upsert A j e').
Proof.
  intros [Hl [Hs Hp]] Hins. rewrite step_node. unfold node_step. cbn [opt_idx app].
  destruct (zget m j) as [cidx|] eqn:Hz.
  - destruct (pos_ok_zget _ _ _ _ Hp Hz) as [H0 Hn].
    assert (HA : exists e0, nth_error A (Z.to_nat cidx) = Some (j, e0)).
    { rewrite nth_map in Hn. destruct (nth_error A (Z.to_nat cidx)) as [[j' e0]|]; [|discriminate].
      simpl in Hn. injection Hn as ->. eauto. }
    destruct HA as [e0 HA].
    assert (Hzg : zget A j = Some e0).
    { apply in_zget; [now apply sorted_lt_NoDup|]. eapply nth_error_In; eauto. }
    subst lst. rewrite nth_map, HA. cbn [option_map gobj snd].
    unfold zgetd in Hins. rewrite Hzg in Hins. rewrite Hins. cbn [bind].
    exists m. rewrite (upsert_existing A Hs _ j e' Hn).
    change (VObj e') with (gobj (j, e')). rewrite set_nth_map. split; [reflexivity|].
    split; [reflexivity|].
    rewrite keys_set_nth_same by assumption. split; assumption.
  - assert (Hn : ~ In j (map fst A)).
    { rewrite <- (pos_ok_keys m _ j Hp). now apply zget_none. }
    assert (Hzg : zget A j = None) by now apply zget_none.
    destruct (s2cmi_spec m _ j Hs Hp Hn) as [m' [Hs2 Hp']]. rewrite Hs2.
    unfold zgetd in Hins. rewrite Hzg in Hins. rewrite Hins. cbn [bind].
    exists m'. rewrite (upsert_new A Hs j e' Hn). subst lst.
    change (VObj e') with (gobj (j, e')). rewrite insert_at_map. split; [reflexivity|].
    split; [reflexivity|].
    assert (Hk : map fst (insert_at (Z.of_nat (cnt_lt (map fst A) j)) (j, e') A)
                 = insert_at (Z.of_nat (cnt_lt (map fst A) j)) j (map fst A)).
    { symmetry. exact (insert_at_map fst _ (j, e') A). }
    rewrite Hk. split; [now apply sorted_insert | assumption].
Qed.

Lemma ns_run sub : forall L m lst A A',
  (forall x, In x L -> snd (fst x) <> []) ->
  Rns m lst A -> arun false sub L A = Ok A' ->
  exists m', field_run false (TObj true sub) L (VArr m lst) = Ok (VArr m' (map gobj A')).
Proof.
  induction L as [|[[oi rest] v] r IH]; intros m lst A A' Hne HR Har.
  - simpl in Har. injection Har as <-. exists m. destruct HR as [-> _]. reflexivity.
  - cbn [arun] in Har. destruct oi as [j|]; [|discriminate]. cbn [andb] in Har.
    destruct rest as [|s rest]; [exfalso; apply (Hne (Some j, [], v)); [now left | reflexivity]|].
    destruct (ins false sub (path_of (s :: rest)) (idxs_of (s :: rest)) v (zgetd A j (fresh sub))) as [e'| |] eqn:Hins;
      try discriminate.
    cbn [bind] in Har.
    destruct (ns_step sub m lst A j s rest v e' HR Hins) as [m' [Hst HR']].
    destruct (IH m' _ _ A' (fun x Hx => Hne x (or_intror Hx)) HR' Har) as [m'' Hm''].
    exists m''. cbn [field_run]. rewrite Hst. cbn [bind]. exact Hm''.
Qed.

(* ------------------------------------------------------------------ refinement: strict_arrays=True *)
Definition Rs (lst : list val) (A : list (Z * aobj)) : Prop :=
  lst = map gobj A /\ contig_from 0 (map fst A) = true.

Lemma s_step sub m lst A j s rest v e' :
  Rs lst A -> 0 <= j <= Z.of_nat (length A) ->
  ins true sub (path_of (s :: rest)) (idxs_of (s :: rest)) v (zgetd A j (fresh sub)) = Ok e' ->
  step true (TObj true sub) (VArr m lst) (Some j, s :: rest, v) = Ok (VArr m (map gobj (upsert A j e')))
  /\ Rs (map gobj (upsert A j e')) (upsert A j e').
Proof.
  intros [Hl Hc] Hj Hins. split; [|split; [reflexivity | apply (upsert_length_contig A j e' Hc Hj)]].
  rewrite step_node. unfold node_step. cbn [opt_idx app].
  pose proof (contig_in _ _ Hc) as Hin. rewrite map_length in Hin.
  pose proof (proj1 (incr_from_sorted _ _ (contig_incr _ _ Hc))) as Hs.
  destruct A as [|a A0] eqn:EA.
  - (* first element of an empty list *)
    simpl in Hj. assert (j = 0) by lia. subst j lst. cbn [map length].
    change (0 >? Z.of_nat 1) with false. change (0 =? Z.of_nat 1) with false. cbn [Z.to_nat nth_error].
    unfold zgetd in Hins. cbn [zget] in Hins. rewrite Hins. reflexivity.
  - rewrite <- EA in *. assert (Hlen : length lst = length A) by (subst lst; apply map_length).
    assert (Hl1 : match lst with [] => [VObj (fresh sub)] | _ :: _ => lst end = lst).
    { subst lst. rewrite EA. reflexivity. }
    rewrite Hl1. rewrite Hlen.
    replace (j >? Z.of_nat (length A)) with false by lia.
    destruct (j =? Z.of_nat (length A)) eqn:E.
    + assert (j = Z.of_nat (length A)) by lia. subst j. rewrite Nat2Z.id.
      rewrite nth_error_app2 by lia. rewrite Hlen, Nat.sub_diag. cbn [nth_error].
      assert (Hzg : zget A (Z.of_nat (length A)) = None).
      { apply zget_none. intros Hk. apply Hin in Hk. lia. }
      unfold zgetd in Hins. rewrite Hzg in Hins. rewrite Hins. cbn [bind].
      rewrite <- Hlen, set_nth_snoc. rewrite upsert_last.
      * rewrite map_app. subst lst. reflexivity.
      * apply Forall_forall. intros k Hk. apply Hin in Hk. lia.
    + assert (Hn : nth_error (map fst A) (Z.to_nat j) = Some j).
      { rewrite (contig_keys_nth _ _ Hc) by (rewrite map_length; lia). f_equal. lia. }
      assert (HA : exists e0, nth_error A (Z.to_nat j) = Some (j, e0)).
      { rewrite nth_map in Hn. destruct (nth_error A (Z.to_nat j)) as [[j' e0]|]; [|discriminate].
        simpl in Hn. injection Hn as ->. eauto. }
      destruct HA as [e0 HA].
      assert (Hzg : zget A j = Some e0).
      { apply in_zget; [now apply sorted_lt_NoDup|]. eapply nth_error_In; eauto. }
      subst lst. rewrite nth_map, HA. cbn [option_map gobj snd].
      unfold zgetd in Hins. rewrite Hzg in Hins. rewrite Hins. cbn [bind].
      rewrite (upsert_existing A Hs _ j e' Hn).
      change (VObj e') with (gobj (j, e')). now rewrite set_nth_map.
Qed.

Lemma s_run sub : forall L m lst A A',
  (forall x, In x L -> snd (fst x) <> []) ->
  Rs lst A -> arun true sub L A = Ok A' ->
  field_run true (TObj true sub) L (VArr m lst) = Ok (VArr m (map gobj A')).
Proof.
  induction L as [|[[oi rest] v] r IH]; intros m lst A A' Hne HR Har.
  - simpl in Har. injection Har as <-. destruct HR as [-> _]. reflexivity.
  - cbn [arun] in Har. destruct oi as [j|]; [|discriminate]. cbn [andb] in Har.
    destruct ((j <? 0) || (Z.of_nat (length A) <? j)) eqn:Hg; [discriminate|].
    destruct rest as [|s rest]; [exfalso; apply (Hne (Some j, [], v)); [now left | reflexivity]|].
    destruct (ins true sub (path_of (s :: rest)) (idxs_of (s :: rest)) v (zgetd A j (fresh sub))) as [e'| |] eqn:Hins;
      try discriminate.
    cbn [bind] in Har.
    destruct (s_step sub m lst A j s rest v e' HR ltac:(lia) Hins) as [Hst HR'].
    cbn [field_run]. rewrite Hst. cbn [bind].
    apply (IH m _ _ A' (fun x Hx => Hne x (or_intror Hx)) HR' Har).
Qed.

(** the first pass finds the member unset: same as an empty list with an empty index map *)
Lemma step_from_none strict sub oi s rest v :
  step strict (TObj true sub) VNone (oi, s :: rest, v) = step strict (TObj true sub) (VArr [] []) (oi, s :: rest, v).
Proof. reflexivity. Qed.

(** both branches: a successful abstract run is what the concrete loop computes *)
Lemma array_run strict sub L A' :
  L <> [] -> (forall x, In x L -> snd (fst x) <> []) ->
  arun strict sub L [] = Ok A' ->
  exists m', field_run strict (TObj true sub) L VNone = Ok (VArr m' (map gobj A')).
Proof.
  intros Hne Hrest Har.
  assert (E : field_run strict (TObj true sub) L VNone = field_run strict (TObj true sub) L (VArr [] [])).
  { destruct L as [|[[oi rest] v] r]; [contradiction|].
    destruct rest as [|s rest]; [exfalso; apply (Hrest (oi, [], v)); [now left | reflexivity]|].
    cbn [field_run]. now rewrite step_from_none. }
  rewrite E. destruct strict.
  - exists []. apply (s_run sub L [] [] [] A' Hrest); [|assumption]. split; reflexivity.
  - apply (ns_run sub L [] [] [] A' Hrest); [|assumption].
    split; [reflexivity|]. split; [constructor | apply pos_ok_nil].
Qed.
