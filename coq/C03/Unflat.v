(** C03 — simple_dict_to_object on a conformant document: the loop is decomposed member by
    member (projection), arrays are related to a sorted association list (index -> element),
    and the result is shown to be the value the client meant, for every processing order
    that respects the index order of indexed keys (which the natural sort provides). *)
From Coq Require Import ZArith List Bool Lia ZifyBool Sorted Permutation.
From SpyneV Require Import Base.Prelude C03.Model C03.Spec C03.S2cmi C03.Keys.
Import ListNotations.
Open Scope Z_scope.

(* ------------------------------------------------------------------ attribute dicts *)
Definition getd (inst : list (text * val)) (k : text) : val :=
  match aget inst k with Some x => x | None => VNone end.

Lemma aget_aset_same {V} (l : list (text * V)) k v : aget (aset l k v) k = Some v.
Proof.
  induction l as [|[n w] r IH]; simpl; [now rewrite text_eqb_refl|].
  destruct (text_eqb n k) eqn:E; simpl; rewrite E; [reflexivity | assumption].
Qed.
Lemma aget_aset_other {V} (l : list (text * V)) k k' v : k <> k' -> aget (aset l k v) k' = aget l k'.
Proof.
  intros Hne. induction l as [|[n w] r IH]; simpl.
  - rewrite text_eqb_neq by assumption. reflexivity.
  - destruct (text_eqb n k) eqn:E; simpl.
    + apply text_eqb_eq in E. subst. rewrite text_eqb_neq by assumption. reflexivity.
    + destruct (text_eqb n k'); [reflexivity | assumption].
Qed.
Lemma aset_keys {V} (l : list (text * V)) k v : In k (map fst l) -> map fst (aset l k v) = map fst l.
Proof.
  induction l as [|[n w] r IH]; simpl; [tauto|].
  intros H. destruct (text_eqb n k) eqn:E; simpl; [reflexivity|].
  f_equal. apply IH. destruct H as [H | H]; [|assumption]. subst. now rewrite text_eqb_refl in E.
Qed.
Lemma aset_same {V} (l : list (text * V)) k v : aget l k = Some v -> aset l k v = l.
Proof.
  induction l as [|[n w] r IH]; simpl; [discriminate|].
  destruct (text_eqb n k) eqn:E.
  - intros [= ->]. reflexivity.
  - intros H. f_equal. auto.
Qed.
Lemma aget_in {V} (l : list (text * V)) k v : NoDup (map fst l) -> In (k, v) l -> aget l k = Some v.
Proof.
  induction l as [|[n w] r IH]; simpl; [tauto|].
  intros Hd [H | H].
  - injection H as -> ->. now rewrite text_eqb_refl.
  - inversion Hd; subst. destruct (text_eqb n k) eqn:E; [|auto].
    apply text_eqb_eq in E. subst. exfalso. apply H2. now apply (in_map fst) in H.
Qed.
Lemma aget_some_in {V} (l : list (text * V)) k v : aget l k = Some v -> In (k, v) l.
Proof.
  induction l as [|[n w] r IH]; simpl; [discriminate|].
  destruct (text_eqb n k) eqn:E.
  - intros [= ->]. apply text_eqb_eq in E. subst. now left.
  - intros H. right. auto.
Qed.
Lemma aget_none {V} (l : list (text * V)) k : ~ In k (map fst l) -> aget l k = None.
Proof.
  induction l as [|[n w] r IH]; simpl; [reflexivity|].
  intros H. destruct (text_eqb n k) eqn:E.
  - apply text_eqb_eq in E. subst. tauto.
  - apply IH. tauto.
Qed.

Lemma getd_aset_same inst k v : getd (aset inst k v) k = v.
Proof. unfold getd. now rewrite aget_aset_same. Qed.
Lemma getd_aset_other inst k k' v : k <> k' -> getd (aset inst k v) k' = getd inst k'.
Proof. intros. unfold getd. now rewrite aget_aset_other. Qed.

Lemma nodupb_NoDup l : nodupb l = true -> NoDup l.
Proof.
  induction l as [|x r IH]; simpl; [constructor|].
  intros H. apply andb_true_iff in H. destruct H as [H1 H2]. constructor; [|auto].
  intros Hin. apply negb_true_iff in H1.
  assert (existsb (text_eqb x) r = true); [|congruence].
  apply existsb_exists. exists x. split; [assumption | apply text_eqb_refl].
Qed.

Lemma fresh_keys fs : map fst (fresh fs) = map fst fs.
Proof. unfold fresh. rewrite map_map. reflexivity. Qed.
Lemma getd_fresh fs k : getd (fresh fs) k = VNone.
Proof.
  unfold getd. destruct (aget (fresh fs) k) eqn:E; [|reflexivity].
  apply aget_some_in in E. unfold fresh in E. apply in_map_iff in E. destruct E as [x [E _]]. congruence.
Qed.

(* ------------------------------------------------------------------ one pass of the loop, member-wise *)
Definition opt_idx (oi : option Z) : list Z := match oi with Some i => [i] | None => [] end.
Lemma idxs_of_cons f oi rest : idxs_of ((f, oi) :: rest) = opt_idx oi ++ idxs_of rest.
Proof. destruct oi; reflexivity. Qed.

(** assignment of the leaf (simple.py:299-321) as a function of the member's current value *)
Definition leaf_step (t : ty) (v : list text) (cur : val) : out val :=
  match t with
  | TPrim arr =>
      if arr then match cur with VList old => Ok (VList (old ++ v)) | _ => Ok (VList v) end
      else match v with [] => Crash IndexError | v0 :: _ => Ok (VStr v0) end
  | TObj arr sub =>
      if arr then match cur with VArr m l => Ok (VArr m l) | _ => Ok (VArr [] []) end
      else Ok (VObj (fresh sub))
  end.

(** one step down the path (simple.py:240-297) as a function of the member's current value *)
Definition node_step (strict : bool) (t : ty) (rp : list text) (idxs : list Z) (v : list text) (cur : val)
  : out val :=
  match t with
  | TObj arr sub =>
      if arr then
        let '(nidx, idxs') := match idxs with [] => (0, []) | i :: r => (i, r) end in
        let '(m, l) := match cur with VArr m l => (m, l) | _ => ([], []) end in
        if strict then
          let l1 := match l with [] => [VObj (fresh sub)] | _ => l end in
          if nidx >? Z.of_nat (length l1) then VFault
          else
            let l2 := if nidx =? Z.of_nat (length l1) then l1 ++ [VObj (fresh sub)] else l1 in
            match nth_error l2 (Z.to_nat nidx) with
            | Some (VObj e) =>
                do e' <- ins strict sub rp idxs' v e;
                Ok (VArr m (set_nth l2 (Z.to_nat nidx) (VObj e')))
            | _ => Crash IndexError
            end
        else
          match zget m nidx with
          | Some cidx =>
              match nth_error l (Z.to_nat cidx) with
              | Some (VObj e) =>
                  do e' <- ins strict sub rp idxs' v e;
                  Ok (VArr m (set_nth l (Z.to_nat cidx) (VObj e')))
              | _ => Crash IndexError
              end
          | None =>
              let '(m', cidx) := s2cmi m nidx in
              do e' <- ins strict sub rp idxs' v (fresh sub);
              Ok (VArr m' (insert_at cidx (VObj e') l))
          end
      else
        let e := match cur with VObj e => e | _ => fresh sub end in
        do e' <- ins strict sub rp idxs v e;
        Ok (VObj e')
  | TPrim _ => Crash AttributeError
  end.

Lemma ins_leaf strict fs f t idxs v inst : aget fs f = Some t ->
  ins strict fs [f] idxs v inst = do x <- leaf_step t v (getd inst f); Ok (aset inst f x).
Proof.
  intros H. simpl. rewrite H. unfold leaf_step, getd.
  destruct t as [arr | arr sub]; destruct arr.
  - destruct (aget inst f) as [[]|]; reflexivity.
  - destruct v; reflexivity.
  - destruct (aget inst f) as [[]|] eqn:E; try reflexivity. simpl. now rewrite (aset_same _ _ _ E).
  - reflexivity.
Qed.

Ltac ins_cases :=
  repeat match goal with
         | |- context [if ?c then _ else _] => match type of c with bool => destruct c end
         | |- context [match nth_error ?l ?n with _ => _ end] => destruct (nth_error l n) as [[]|]
         | |- context [match zget ?m ?n with _ => _ end] => destruct (zget m n)
         | |- context [s2cmi ?m ?n] => destruct (s2cmi m n)
         | |- context [bind ?x _] =>
             lazymatch x with Ok _ => fail | VFault => fail | Crash _ => fail | bind _ _ => fail | _ => destruct x end
         end.

Lemma ins_node strict fs f r0 rp t idxs v inst : aget fs f = Some t ->
  ins strict fs (f :: r0 :: rp) idxs v inst =
  do x <- node_step strict t (r0 :: rp) idxs v (getd inst f); Ok (aset inst f x).
Proof.
  intros H. unfold node_step, getd. cbn [ins]. rewrite H.
  destruct t as [arr | arr sub]; [reflexivity|]. destruct arr.
  - destruct idxs as [|i ir]; destruct (aget inst f) as [[]|]; destruct strict; ins_cases; reflexivity.
  - destruct (aget inst f) as [[]|]; ins_cases; reflexivity.
Qed.

(** field-level items: own index, rest of the key, values *)
Notation fitem := (option Z * list (text * option Z) * list text)%type (only parsing).

Definition step (strict : bool) (t : ty) (cur : val) (x : fitem) : out val :=
  let '(oi, rest, v) := x in
  match rest with
  | [] => leaf_step t v cur
  | _ => node_step strict t (path_of rest) (opt_idx oi ++ idxs_of rest) v cur
  end.
Fixpoint field_run (strict : bool) (t : ty) (L : list fitem) (cur : val) : out val :=
  match L with
  | [] => Ok cur
  | x :: r => do c' <- step strict t cur x; field_run strict t r c'
  end.

Definition ins_item (strict : bool) (fs : list (text * ty)) (inst : list (text * val)) (it : item)
  : out (list (text * val)) :=
  ins strict fs (path_of (fst it)) (idxs_of (fst it)) (snd it) inst.
Fixpoint run_items (strict : bool) (fs : list (text * ty)) (L : list item) (inst : list (text * val))
  : out (list (text * val)) :=
  match L with
  | [] => Ok inst
  | it :: r => do i' <- ins_item strict fs inst it; run_items strict fs r i'
  end.

Lemma ins_item_step strict fs inst f oi rest v t : aget fs f = Some t ->
  ins_item strict fs inst ((f, oi) :: rest, v) =
  do x <- step strict t (getd inst f) (oi, rest, v); Ok (aset inst f x).
Proof.
  intros H. unfold ins_item, step. cbn [fst snd]. rewrite idxs_of_cons.
  destruct rest as [|s rest].
  - cbn [path_of map]. now apply ins_leaf.
  - cbn [path_of map]. now apply ins_node.
Qed.

(** the items of one member, in their relative order *)
Fixpoint proj (f : text) (L : list item) : list fitem :=
  match L with
  | [] => []
  | (k, v) :: r =>
      match k with
      | (n, oi) :: rest => if text_eqb n f then (oi, rest, v) :: proj f r else proj f r
      | [] => proj f r
      end
  end.

Lemma proj_app f a b : proj f (a ++ b) = proj f a ++ proj f b.
Proof.
  induction a as [|[k v] a IH]; simpl; [reflexivity|].
  destruct k as [|[n oi] rest]; [assumption|]. destruct (text_eqb n f); simpl; now rewrite IH.
Qed.

(** the loop over a list of items is, member by member, the loop over that member's items *)
Lemma run_project strict fs : NoDup (map fst fs) ->
  forall L inst, map fst inst = map fst fs ->
  (forall it, In it L -> exists f oi rest, fst it = (f, oi) :: rest /\ In f (map fst fs)) ->
  (forall f t, In (f, t) fs -> exists x, field_run strict t (proj f L) (getd inst f) = Ok x) ->
  exists o, run_items strict fs L inst = Ok o /\ map fst o = map fst fs /\
            forall f t, In (f, t) fs -> field_run strict t (proj f L) (getd inst f) = Ok (getd o f).
Proof.
  intros Hnd. induction L as [|[k v] L IH]; intros inst Hk Hhead Hf.
  - exists inst. simpl. split; [reflexivity|]. split; [assumption|]. reflexivity.
  - destruct (Hhead (k, v) (or_introl eq_refl)) as [f0 [oi [rest [Hkey Hin0]]]]. simpl in Hkey. subst k.
    apply in_map_iff in Hin0. destruct Hin0 as [[f0' t0] [Hf0 Hin0]]. simpl in Hf0. subst f0'.
    pose proof (aget_in fs f0 t0 Hnd Hin0) as Hag.
    destruct (Hf f0 t0 Hin0) as [x0 Hx0]. cbn [proj] in Hx0. rewrite text_eqb_refl in Hx0. cbn [field_run] in Hx0.
    match type of Hx0 with context [bind ?s _] => destruct s as [c'| |] eqn:Hstep end; try discriminate.
    cbn [bind] in Hx0.
    assert (Hin1 : In f0 (map fst inst)).
    { rewrite Hk. apply in_map_iff. exists (f0, t0). split; [reflexivity | assumption]. }
    destruct (IH (aset inst f0 c')) as [o [Ho [Hko Hfo]]].
    + rewrite aset_keys by assumption. assumption.
    + intros it Hit. apply Hhead. now right.
    + intros f t Hft. destruct (list_eq_dec Z.eq_dec f0 f) as [<- | Hne].
      * assert (t = t0) by (pose proof (aget_in fs f0 t Hnd Hft); congruence). subst t.
        rewrite getd_aset_same. eauto.
      * rewrite getd_aset_other by assumption. destruct (Hf f t Hft) as [x Hx].
        cbn [proj] in Hx. rewrite text_eqb_neq in Hx by assumption. eauto.
    + exists o. split; [|split; [assumption|]].
      * cbn [run_items]. rewrite (ins_item_step strict fs inst f0 oi rest v t0 Hag). rewrite Hstep. cbn [bind]. exact Ho.
      * intros f t Hft. specialize (Hfo f t Hft). cbn [proj].
        destruct (list_eq_dec Z.eq_dec f0 f) as [<- | Hne].
        -- assert (t = t0) by (pose proof (aget_in fs f0 t Hnd Hft); congruence). subst t.
           rewrite text_eqb_refl. cbn [field_run]. rewrite Hstep. cbn [bind]. rewrite getd_aset_same in Hfo. exact Hfo.
        -- rewrite text_eqb_neq by assumption. rewrite getd_aset_other in Hfo by assumption. exact Hfo.
Qed.

(** the erased object is determined member by member *)
Lemma erase_obj_fields : forall fs vs o,
  NoDup (map fst fs) -> map fst o = map fst fs -> length vs = length fs ->
  (forall f t sv, In ((f, t), sv) (combine fs vs) -> erase (getd o f) = compact t sv) ->
  erase_obj o = compact_fields fs vs.
Proof.
  induction fs as [|[f t] fs IH]; intros vs o Hnd Hk Hlen H.
  - destruct o; [|discriminate]. destruct vs; reflexivity.
  - destruct o as [|[f' x] o]; [discriminate|]. destruct vs as [|sv vs]; [discriminate|].
    simpl in Hk. injection Hk as -> Hk. simpl in Hlen. injection Hlen as Hlen.
    inversion Hnd; subst. cbn [compact_fields]. unfold erase_obj. cbn [map fst snd]. f_equal.
    + f_equal. specialize (H f t sv (or_introl eq_refl)). unfold getd in H. simpl in H.
      rewrite text_eqb_refl in H. exact H.
    + apply IH; try assumption. intros g t' sv' Hin.
      specialize (H g t' sv' (or_intror Hin)). unfold getd in *. simpl in H.
      assert (g <> f).
      { intros ->. apply H2. apply in_combine_l in Hin. now apply (in_map fst) in Hin. }
      rewrite text_eqb_neq in H by congruence. exact H.
Qed.
