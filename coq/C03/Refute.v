(** C03 — witnesses: what the pinned tree's plain string sort does to the documented indexed
    notation, and the values the flat notation cannot carry. *)
From Coq Require Import ZArith List Bool Lia.
From SpyneV Require Import Base.Prelude C03.Model C03.Check C03.Spec.
Import ListNotations.
Open Scope Z_scope.

Definition t_dot : text := [46].
Definition t_xs : text := [120; 115].
Definition t_ps : text := [112; 115].
Definition t_i : text := [105].
Definition t_o : text := [111].

(** eleven values 0..10 as texts *)
Definition eleven : list (Z * text) :=
  map (fun i => (i, str_idx i)) [0; 1; 2; 3; 4; 5; 6; 7; 8; 9; 10].

(** pinned tree (sorted on the raw key string): xs[0]=0&...&xs[10]=10 arrives as
    [0, 1, 10, 2, ...] *)
Lemma pinned_sort_refuted :
  exists strict d fs vs, wf_sig d fs = true /\ conf_fields strict fs vs = true /\
    ~ (exists o, unflatten false strict d fs (spell d fs vs) = Ok o /\ erase_obj o = compact_fields fs vs).
Proof.
  exists false, t_dot, [(t_xs, TPrim true)], [SIdx eleven].
  split; [reflexivity|]. split; [reflexivity|].
  intros [o [H1 H2]]. vm_compute in H1. injection H1 as <-. vm_compute in H2. discriminate.
Qed.

(** pinned tree, strict_arrays=True: ps[0].i=..&...&ps[10].i=.. is rejected (ps[10] sorts
    before ps[2]: "Invalid array index") *)
Lemma pinned_sort_strict_refuted :
  exists d fs vs, wf_sig d fs = true /\ conf_fields true fs vs = true /\
    unflatten false true d fs (spell d fs vs) = VFault.
Proof.
  exists t_dot, [(t_ps, TObj true [(t_i, TPrim false)])],
         [SArr (map (fun js => (fst js, SObj [SStr (snd js)])) eleven)].
  split; [reflexivity|]. split; reflexivity.
Qed.

(** the notation has no spelling for an empty primitive array nor for an object none of whose
    members is set: both come back as None *)
Lemma unspellable_refuted :
  exists d fs inst1 inst2, wf_sig d fs = true /\
    names_eqb (map fst inst1) (map fst fs) = true /\ names_eqb (map fst inst2) (map fst fs) = true /\
    ~ (exists o, unflatten true false d fs (sent_doc (flatten d fs inst1)) = Ok o /\ erase_obj o = inst1) /\
    ~ (exists o, unflatten true false d fs (sent_doc (flatten d fs inst2)) = Ok o /\ erase_obj o = inst2).
Proof.
  exists t_dot, [(t_xs, TPrim true); (t_o, TObj false [(t_i, TPrim false)])],
         [(t_xs, VList []); (t_o, VNone)], [(t_xs, VNone); (t_o, VObj [(t_i, VNone)])].
  split; [reflexivity|]. split; [reflexivity|]. split; [reflexivity|]. split.
  - intros [o [H1 H2]]. vm_compute in H1. injection H1 as <-. vm_compute in H2. discriminate.
  - intros [o [H1 H2]]. vm_compute in H1. injection H1 as <-. vm_compute in H2. discriminate.
Qed.
