(** C03 — from the flat document (text keys) and from the query string to the loop over
    structured items: key resolution against the simple type info table, the order the natural
    sort yields, _parse_qs on an encoded query string, and the end-to-end statements. *)
From Coq Require Import ZArith List Bool Lia ZifyBool Sorted Permutation.
From SpyneV Require Import Base.Prelude C03.Model C03.Check C03.Spec C03.S2cmi C03.Keys C03.Unflat
  C03.Conform C03.Arrays C03.Fidelity.
Import ListNotations.
Open Scope Z_scope.

(* ------------------------------------------------------------------ spelled keys are well formed *)
Lemma forallb_nobr_in names f : forallb nobr names = true -> In f names -> nobr f = true.
Proof. intros H Hin. rewrite forallb_forall in H. now apply H. Qed.

Lemma items_key_ok strict : forall t f sv, wf_ty t = true -> nobr f = true -> conf strict t sv = true ->
  forall it, In it (items_ty t f sv) -> key_ok (fst it).
Proof.
  induction t as [arr | arr sub IH] using ty_ind'; intros f sv Hwf Hf Hc it Hin.
  - destruct sv; simpl in Hc; try discriminate; destruct arr; simpl in Hc; try discriminate; simpl in Hin;
      try contradiction.
    + destruct Hin as [<- | []]. repeat constructor. assumption.
    + destruct Hin as [<- | []]. repeat constructor. assumption.
    + apply andb_true_iff in Hc. destruct Hc as [_ Hinc]. destruct (incr_from_sorted _ _ Hinc) as [_ H0].
      apply in_map_iff in Hin. destruct Hin as [js [<- Hjs]]. simpl. repeat constructor; [assumption|].
      simpl. rewrite Forall_forall in H0. apply H0. now apply in_map.
  - rewrite wf_ty_obj in Hwf. apply andb_true_iff in Hwf. destruct Hwf as [Hwf Hwf3].
    apply andb_true_iff in Hwf. destruct Hwf as [_ Hwf2].
    assert (Hfields : forall vs, conf_fields strict sub vs = true ->
              forall it', In it' (items_fields sub vs) -> key_ok (fst it')).
    { clear -IH Hwf2 Hwf3. induction sub as [|[k t] sub IHs]; intros [|v vs] Hc it' Hin; simpl in *; try contradiction.
      apply andb_true_iff in Hc. destruct Hc as [Hc1 Hc2]. apply andb_true_iff in Hwf2. destruct Hwf2 as [Hk Hks].
      apply andb_true_iff in Hwf3. destruct Hwf3 as [Ht Hts]. inversion IH; subst.
      apply in_app_or in Hin. destruct Hin as [Hin | Hin].
      - eapply H1; eauto.
      - eapply IHs; eauto. }
    rewrite conf_obj in Hc. rewrite items_ty_obj in Hin. destruct sv; try contradiction.
    + destruct arr; simpl in Hc; try discriminate. apply andb_true_iff in Hc. destruct Hc as [Hc _].
      apply in_map_iff in Hin. destruct Hin as [it' [<- Hit']]. simpl. constructor; [split; [assumption | exact I]|].
      eapply Hfields; eauto.
    + destruct arr; simpl in Hc; try discriminate. apply andb_true_iff in Hc. destruct Hc as [Hlab Hel].
      destruct l as [|p l'].
      * destruct Hin as [<- | []]. repeat constructor. assumption.
      * apply in_flat_map in Hin. destruct Hin as [[j e] [Hje Hin]]. destruct e; try contradiction.
        cbn [snd fst] in Hin. apply in_map_iff in Hin. destruct Hin as [it' [<- Hit']].
        rewrite forallb_forall in Hel. specialize (Hel _ Hje). simpl in Hel.
        apply andb_true_iff in Hel. destruct Hel as [Hcf _].
        destruct (incr_from_sorted _ _ (labels_ok_incr _ _ Hlab)) as [_ H0].
        rewrite Forall_forall in H0. specialize (H0 j (in_map fst _ _ Hje)).
        simpl. constructor; [split; [assumption | exact H0]|]. eapply Hfields; eauto.
Qed.

Lemma items_fields_key_ok strict fs : wf_fields fs = true -> forallb nobr (map fst fs) = true ->
  forall vs, conf_fields strict fs vs = true -> forall it, In it (items_fields fs vs) -> key_ok (fst it).
Proof.
  induction fs as [|[k t] fs IH]; intros Hwf Hn [|v vs] Hc it Hin; simpl in *; try contradiction.
  apply andb_true_iff in Hc. destruct Hc as [Hc1 Hc2]. apply andb_true_iff in Hn. destruct Hn as [Hk Hks].
  apply andb_true_iff in Hwf. destruct Hwf as [Ht Hts].
  apply in_app_or in Hin. destruct Hin as [Hin | Hin].
  - eapply items_key_ok; eauto.
  - eapply IH; eauto.
Qed.

(* ------------------------------------------------------------------ the simple type info table *)
Lemma sti_ty_obj d arr fs path :
  sti_ty d (TObj arr fs) path =
  (join d path, (path, true)) :: flat_map (fun kf => sti_ty d (snd kf) (path ++ [fst kf])) fs.
Proof.
  cbn [sti_ty]. f_equal. induction fs as [|[k ft] fs IH]; simpl; [reflexivity|]. now rewrite IH.
Qed.
Lemma sti_flat d fs : sti d fs = flat_map (fun kf => sti_ty d (snd kf) [fst kf]) fs.
Proof. induction fs as [|[k ft] fs IH]; simpl; [reflexivity|]. now rewrite IH. Qed.

Lemma path_of_pre s it : path_of (fst (pre s it)) = fst s :: path_of (fst it).
Proof. reflexivity. Qed.

(** every spelled pair finds its own entry: a leaf entry, or the entry of an array of objects
    when the pair is the 'empty' marker *)
Lemma sti_items d : forall t pre0 f sv it, In it (items_ty t f sv) ->
  exists cbe, In (join d (pre0 ++ path_of (fst it)), (pre0 ++ path_of (fst it), cbe)) (sti_ty d t (pre0 ++ [f]))
              /\ (cbe = true -> snd it = [EMPTY]).
Proof.
  induction t as [arr | arr sub IH] using ty_ind'; intros pre0 f sv it Hin.
  - exists false. split; [|discriminate].
    destruct (items_ty_head (TPrim arr) f sv it Hin) as [oi [rest E]].
    assert (rest = []).
    { destruct sv; simpl in Hin; try contradiction; destruct arr; simpl in Hin; try contradiction.
      - destruct Hin as [<- | []]. simpl in E. congruence.
      - destruct Hin as [<- | []]. simpl in E. congruence.
      - apply in_map_iff in Hin. destruct Hin as [js [<- _]]. simpl in E. congruence. }
    subst rest. rewrite E. simpl. now left.
  - assert (Hfields : forall vs it', In it' (items_fields sub vs) ->
              exists cbe, In (join d ((pre0 ++ [f]) ++ path_of (fst it')), ((pre0 ++ [f]) ++ path_of (fst it'), cbe))
                             (flat_map (fun kf => sti_ty d (snd kf) ((pre0 ++ [f]) ++ [fst kf])) sub)
                          /\ (cbe = true -> snd it' = [EMPTY])).
    { clear -IH. induction sub as [|[k t] sub IHs]; intros [|v vs] it' Hin; simpl in Hin; try contradiction.
      inversion IH; subst. apply in_app_or in Hin. destruct Hin as [Hin | Hin].
      - destruct (H1 (pre0 ++ [f]) k v it' Hin) as [cbe [H Hc]]. exists cbe. split; [|assumption].
        simpl. apply in_or_app. now left.
      - destruct (IHs H2 vs it' Hin) as [cbe [H Hc]]. exists cbe. split; [|assumption].
        simpl. apply in_or_app. now right. }
    rewrite sti_ty_obj. rewrite items_ty_obj in Hin. destruct sv; try contradiction.
    + destruct arr; try contradiction. apply in_map_iff in Hin. destruct Hin as [it' [<- Hit']].
      destruct (Hfields vs it' Hit') as [cbe [H Hc]]. exists cbe. split; [|exact Hc].
      right. rewrite path_of_pre. cbn [fst]. rewrite <- app_assoc in H. exact H.
    + destruct arr; try contradiction. destruct l as [|p l'].
      * destruct Hin as [<- | []]. exists true. split; [now left | reflexivity].
      * apply in_flat_map in Hin. destruct Hin as [[j e] [_ Hin]]. destruct e; try contradiction.
        cbn [snd fst] in Hin. apply in_map_iff in Hin. destruct Hin as [it' [<- Hit']].
        destruct (Hfields vs it' Hit') as [cbe [H Hc]]. exists cbe. split; [|exact Hc].
        right. rewrite path_of_pre. cbn [fst]. rewrite <- app_assoc in H. exact H.
Qed.

Lemma sti_items_fields d fs : forall vs it, In it (items_fields fs vs) ->
  exists cbe, In (join d (path_of (fst it)), (path_of (fst it), cbe)) (sti d fs) /\ (cbe = true -> snd it = [EMPTY]).
Proof.
  rewrite sti_flat. induction fs as [|[k t] fs IH]; intros [|v vs] it Hin; simpl in Hin; try contradiction.
  apply in_app_or in Hin. destruct Hin as [Hin | Hin].
  - destruct (sti_items d t [] k v it Hin) as [cbe [H Hc]]. exists cbe. split; [|assumption].
    simpl. apply in_or_app. now left.
  - destruct (IH vs it Hin) as [cbe [H Hc]]. exists cbe. split; [|assumption]. simpl. apply in_or_app. now right.
Qed.

(* ------------------------------------------------------------------ one pass of the loop on a spelled pair *)
Definition textify (d : text) (it : list (text * option Z) * list text) : text * list text :=
  (key_text d (fst it), snd it).

Lemma is_empty_marker_EMPTY : is_empty_marker [EMPTY] = true.
Proof. reflexivity. Qed.

Lemma process_item_spelled strict d fs inst it :
  nobr d = true -> NoDup (map fst (sti d fs)) -> key_ok (fst it) ->
  (exists cbe, In (join d (path_of (fst it)), (path_of (fst it), cbe)) (sti d fs) /\ (cbe = true -> snd it = [EMPTY])) ->
  process_item strict (sti d fs) fs inst (textify d it) = ins_item strict fs inst it.
Proof.
  intros Hd Hnd Hk [cbe [Hin Hc]]. unfold process_item, textify, ins_item.
  rewrite strip_idx_key, find_idx_key by assumption.
  rewrite (aget_in _ _ _ Hnd Hin). destruct cbe; [|reflexivity].
  rewrite (Hc eq_refl). reflexivity.
Qed.

Lemma process_all_spelled strict d fs : forall L inst,
  (forall it, In it L ->
     process_item strict (sti d fs) fs inst (textify d it) = ins_item strict fs inst it) ->
  (forall it inst', In it L -> process_item strict (sti d fs) fs inst' (textify d it) = ins_item strict fs inst' it) ->
  process_all strict (sti d fs) fs (map (textify d) L) inst = run_items strict fs L inst.
Proof.
  induction L as [|it L IH]; intros inst _ H; [reflexivity|].
  cbn [map process_all run_items]. rewrite (H it inst (or_introl eq_refl)).
  destruct (ins_item strict fs inst it); try reflexivity. cbn [bind].
  apply IH; intros; apply H; now right.
Qed.

(* ------------------------------------------------------------------ the order the natural sort yields *)
Lemma sorted_OC d (L : list (list (text * option Z) * list text)) :
  nobr d = true -> (forall it, In it L -> key_ok (fst it)) ->
  StronglySorted (item_le (V := list text) true) (map (textify d) L) -> OC L.
Proof.
  intros Hd Hk Hs. apply (proj1 (StronglySorted_map (textify d) _ L)) in Hs.
  eapply StronglySorted_impl_in; [exact Hs|].
  intros a b Ha Hb Hle P n i j r1 r2 E1 E2. unfold item_le, textify in Hle. cbn [fst] in Hle.
  destruct (Z_le_gt_dec i j) as [|Hgt]; [assumption|].
  pose proof (Hk a Ha) as Ka. pose proof (Hk b Hb) as Kb. rewrite E1 in *. rewrite E2 in *.
  rewrite (natural_order d P n i j r1 r2 Hd Ka Kb ltac:(lia)) in Hle. discriminate.
Qed.

(* ------------------------------------------------------------------ simple_dict_to_object on a conformant document *)
Lemma wf_sig_parts d fs : wf_sig d fs = true ->
  nobr d = true /\ nodupb (map fst fs) = true /\ forallb nobr (map fst fs) = true /\ wf_fields fs = true /\
  NoDup (map fst (sti d fs)).
Proof.
  unfold wf_sig. intros H. repeat (apply andb_true_iff in H; destruct H as [H ?]).
  repeat split; try assumption. now apply nodupb_NoDup.
Qed.

(** For every covered signature, every conformant value and EVERY order of the pairs of its
    spelling, simple_dict_to_object (repaired tree: natural sort) succeeds and the user
    function receives exactly the value, every array in index order. *)
Theorem request_fidelity : forall strict d fs vs doc,
  wf_sig d fs = true -> conf_fields strict fs vs = true ->
  Permutation doc (spell d fs vs) ->
  exists o, unflatten true strict d fs doc = Ok o /\ erase_obj o = compact_fields fs vs.
Proof.
  intros strict d fs vs doc Hwf Hc Hp.
  destruct (wf_sig_parts d fs Hwf) as [Hd [Hnd [Hnb [Hwff Hsti]]]].
  unfold unflatten. destruct (sort_items_spec (V := list text) true doc) as [Hs Hps].
  assert (Hp2 : Permutation (sort_items true doc) (map (textify d) (items_fields fs vs))).
  { eapply Permutation_trans; [exact Hps | exact Hp]. }
  apply Permutation_map_inv in Hp2. destruct Hp2 as [L [HL HpL]].
  assert (Hk : forall it, In it L -> key_ok (fst it)).
  { intros it Hit. apply (items_fields_key_ok strict fs Hwff Hnb vs Hc).
    eapply Permutation_in; [symmetry; exact HpL | exact Hit]. }
  rewrite HL in *.
  destruct (items_fidelity strict fs vs L Hnd Hwff Hc (Permutation_sym HpL) (sorted_OC d L Hd Hk Hs)) as [o [Ho He]].
  exists o. split; [|assumption]. rewrite <- Ho.
  assert (Hres : forall it inst', In it L ->
            process_item strict (sti d fs) fs inst' (textify d it) = ins_item strict fs inst' it).
  { intros it inst' Hit. apply process_item_spelled; try assumption; [now apply Hk|].
    apply (sti_items_fields d fs vs). eapply Permutation_in; [symmetry; exact HpL | exact Hit]. }
  apply process_all_spelled; [intros; now apply Hres | exact Hres].
Qed.

(* ------------------------------------------------------------------ _parse_qs on an encoded query string *)
Lemma hexv_not_special h x : hexv h = Some x -> h <> 43 /\ h <> 37 /\ h <> 61 /\ h <> 38 /\ h <> 59 /\ 0 <= x < 16.
Proof.
  unfold hexv. intros H.
  destruct ((48 <=? h) && (h <=? 57)) eqn:E1; [injection H as <-; lia|].
  destruct ((65 <=? h) && (h <=? 70)) eqn:E2; [injection H as <-; lia|].
  destruct ((97 <=? h) && (h <=? 102)) eqn:E3; [injection H as <-; lia | discriminate].
Qed.

(** the characters of an encoded component *)
Definition plain (c : Z) : Prop := c <> 38 /\ c <> 59 /\ c <> 61.

Lemma enc_char_plain c e : enc_char c e -> Forall plain e.
Proof.
  intros [c' Hs | | c' h l Hc Hh Hl].
  - unfold qsafe in Hs. repeat constructor; lia.
  - repeat constructor; lia.
  - destruct (hexv_not_special _ _ Hh) as [? [? [? [? [? ?]]]]]. destruct (hexv_not_special _ _ Hl) as [? [? [? [? [? ?]]]]].
    repeat constructor; lia.
Qed.
Lemma enc_text_plain s e : enc_text s e -> Forall plain e.
Proof. induction 1; [constructor|]. apply Forall_app. split; [eapply enc_char_plain; eauto | assumption]. Qed.

Lemma unquote_plus_char c e r : enc_char c e ->
  unquote (plus_space (e ++ r)) = option_map (cons c) (unquote (plus_space r)).
Proof.
  intros [c' Hs | | c' h l Hc Hh Hl]; unfold plus_space; cbn [app map].
  - unfold qsafe in Hs. replace (c' =? 43) with false by lia.
    fold (plus_space r). cbn [unquote].
    destruct (Z.eq_dec c' 37) as [->|Hne]; [lia|].
    destruct c' as [|p|p]; try reflexivity.
    (* a positive code point other than 37 *)
    assert (E : forall q rest, Z.pos q <> 37 -> unquote (Z.pos q :: rest) = option_map (cons (Z.pos q)) (unquote rest)).
    { intros q rest Hq. simpl. repeat (destruct q as [q|q|]; try reflexivity); exfalso; apply Hq; reflexivity. }
    now apply E.
  - fold (plus_space r). reflexivity.
  - destruct (hexv_not_special _ _ Hh) as [Hh1 [Hh2 _]]. destruct (hexv_not_special _ _ Hl) as [Hl1 [Hl2 _]].
    replace (37 =? 43) with false by reflexivity.
    replace (h =? 43) with false by lia. replace (l =? 43) with false by lia.
    fold (plus_space r). cbn [unquote]. rewrite Hh, Hl.
    assert (Hv : c' / 16 * 16 + c' mod 16 = c') by lia. rewrite Hv.
    replace (c' <? 128) with true by lia. reflexivity.
Qed.

Lemma unquote_plus_text s e : enc_text s e -> unquote (plus_space e) = Some s.
Proof.
  induction 1 as [|c e s es Hc Hs IH]; [reflexivity|].
  rewrite (unquote_plus_char c e es Hc), IH. reflexivity.
Qed.

Lemma split_eq_plain ek : Forall plain ek -> forall ev cur, split_eq (ek ++ 61 :: ev) cur = (rev cur ++ ek, Some ev).
Proof.
  induction 1 as [|c ek Hc Hk IH]; intros ev cur; simpl.
  - now rewrite app_nil_r.
  - destruct Hc as [_ [_ Hc]]. replace (c =? 61) with false by lia. rewrite IH. simpl. now rewrite <- app_assoc.
Qed.

Lemma split_on_plain e : Forall (fun c => issep c = false) e -> forall cur,
  split_on issep e cur = [rev cur ++ e].
Proof.
  induction 1 as [|c e Hc He IH]; intros cur; simpl; [now rewrite app_nil_r|].
  rewrite Hc, IH. simpl. now rewrite <- app_assoc.
Qed.
Lemma split_on_piece e : Forall (fun c => issep c = false) e -> forall c q cur, issep c = true ->
  split_on issep (e ++ c :: q) cur = (rev cur ++ e) :: split_on issep q [].
Proof.
  induction 1 as [|x e Hx He IH]; intros c q cur Hc; simpl.
  - rewrite Hc. now rewrite app_nil_r.
  - rewrite Hx, (IH c q (x :: cur) Hc). simpl. now rewrite <- app_assoc.
Qed.

Lemma plain_nosep e : Forall plain e -> Forall (fun c => issep c = false) e.
Proof. apply Forall_impl. intros c [H1 [H2 _]]. unfold issep. lia. Qed.

Definition osome (pairs : list (text * text)) : list (text * option text) :=
  map (fun kv => (fst kv, Some (snd kv))) pairs.
Definition gsome (g : list (text * list text)) : list (text * list (option text)) :=
  map (fun kl => (fst kl, map Some (snd kl))) g.

Lemma group_add_gsome g k v : group_add (gsome g) k (Some v) = gsome (group_add g k v).
Proof.
  induction g as [|[n l] g IH]; simpl; [reflexivity|].
  destruct (text_eqb n k); simpl; [now rewrite map_app | now rewrite IH].
Qed.

Lemma piece_pair k v ek ev : enc_text k ek -> enc_text v ev ->
  Forall (fun c => issep c = false) (ek ++ 61 :: ev) /\ ek ++ 61 :: ev <> [] /\
  split_eq (ek ++ 61 :: ev) [] = (ek, Some ev) /\
  unquote (plus_space ek) = Some k /\ unquote (plus_space ev) = Some v.
Proof.
  intros Hk Hv. pose proof (enc_text_plain _ _ Hk) as Pk. pose proof (enc_text_plain _ _ Hv) as Pv.
  split; [|split; [|split; [|split]]].
  - apply Forall_app. split; [now apply plain_nosep|]. constructor; [reflexivity | now apply plain_nosep].
  - destruct ek; discriminate.
  - now rewrite split_eq_plain.
  - now apply unquote_plus_text.
  - now apply unquote_plus_text.
Qed.

Lemma parse_pairs_piece k v ek ev r acc : enc_text k ek -> enc_text v ev ->
  parse_pairs ((ek ++ 61 :: ev) :: r) acc = parse_pairs r (group_add acc k (Some v)).
Proof.
  intros Hk Hv. destruct (piece_pair k v ek ev Hk Hv) as [_ [Hne [Hsp [Hu1 Hu2]]]].
  remember (ek ++ 61 :: ev) as nv eqn:E. destruct nv as [|z l]; [contradiction|].
  cbn [parse_pairs]. rewrite Hsp, Hu1, Hu2. reflexivity.
Qed.

Lemma parse_enc_qs pairs qs : enc_qs pairs qs -> forall acc,
  parse_pairs (split_on issep qs []) (gsome acc) =
  Some (gsome (fold_left (fun a kv => group_add a (fst kv) (snd kv)) pairs acc)).
Proof.
  induction 1 as [| ps c q Hc Hq IH | k v ek ev Hk Hv | k v ek ev c ps q Hk Hv Hc Hq IH]; intros acc.
  - reflexivity.
  - cbn [split_on]. rewrite Hc. cbn [rev parse_pairs]. apply IH.
  - destruct (piece_pair k v ek ev Hk Hv) as [Hns _].
    rewrite split_on_plain by assumption. cbn [rev app].
    rewrite (parse_pairs_piece k v ek ev [] _ Hk Hv). cbn [parse_pairs fold_left fst snd].
    now rewrite group_add_gsome.
  - destruct (piece_pair k v ek ev Hk Hv) as [Hns _].
    replace (ek ++ 61 :: ev ++ c :: q) with ((ek ++ 61 :: ev) ++ c :: q) by (now rewrite <- app_assoc).
    rewrite split_on_piece by assumption. cbn [rev app].
    rewrite (parse_pairs_piece k v ek ev _ _ Hk Hv). rewrite group_add_gsome. cbn [fold_left fst snd]. apply IH.
Qed.

Lemma issep_ext : forall c, (fun c => (c =? 38) || (c =? 59)) c = issep c.
Proof. reflexivity. Qed.

(** _parse_qs gives back the pairs, grouped by key, for every admissible encoding *)
Theorem qs_roundtrip : forall pairs qs, enc_qs pairs qs -> parse_qs qs = Some (gsome (group pairs)).
Proof.
  intros pairs qs H. unfold parse_qs, group. change (@nil (text * list (option text))) with (gsome []).
  exact (parse_enc_qs pairs qs H []).
Qed.

Lemma all_some_map (l : list text) : all_some (map Some l) = Some l.
Proof. induction l; simpl; [reflexivity|]. now rewrite IHl. Qed.
Lemma doc_of_gsome g : doc_of (gsome g) = Some g.
Proof. induction g as [|[k l] g IH]; simpl; [reflexivity|]. now rewrite all_some_map, IH. Qed.

(** end to end: a GET whose query string encodes, in any order, the pairs that spell the value *)
Theorem get_fidelity : forall strict d fs vs pairs qs,
  wf_sig d fs = true -> conf_fields strict fs vs = true ->
  enc_qs pairs qs -> Permutation (group pairs) (spell d fs vs) ->
  run_get true strict d fs qs = Some (Ok (compact_fields fs vs)).
Proof.
  intros strict d fs vs pairs qs Hwf Hc Hq Hp. unfold run_get.
  rewrite (qs_roundtrip pairs qs Hq), doc_of_gsome.
  destruct (request_fidelity strict d fs vs (group pairs) Hwf Hc Hp) as [o [Ho He]].
  rewrite Ho. now rewrite He.
Qed.
