(** C03 — HttpRpc flat key/value notation.  Executable model (definitions only) of
    - spyne/protocol/dictdoc/simple.py: _s2cmi, RE_HTTP_ARRAY_INDEX.sub/findall/split,
      _natural_key (repaired tree), SimpleDictDocument.simple_dict_to_object (both
      strict_arrays branches), object_to_simple_dict;
    - spyne/model/complex.py: get_simple_type_info_with_prot (path table);
    - spyne/server/wsgi.py: _parse_qs (with urllib.parse.unquote on its ASCII fragment).
    Primitive leaves are kept as their text (the leaf codecs are C08's subject). *)
From SpyneV Require Export Base.Prelude Base.Digits.

(* ------------------------------------------------------------------ dicts *)
(** a Python dict with int keys, as an association list in insertion order *)
Fixpoint zget {V} (m : list (Z * V)) (k : Z) : option V :=
  match m with
  | [] => None
  | (i, v) :: r => if i =? k then Some v else zget r k
  end.
(** [m[k] = v]: replace in place, or append a new key at the end *)
Fixpoint zset {V} (m : list (Z * V)) (k : Z) (v : V) : list (Z * V) :=
  match m with
  | [] => [(k, v)]
  | (i, w) :: r => if i =? k then (i, v) :: r else (i, w) :: zset r k v
  end.

(** the same with text keys (attribute dicts, type-info dicts) *)
Fixpoint aget {V} (l : list (text * V)) (k : text) : option V :=
  match l with
  | [] => None
  | (n, v) :: r => if text_eqb n k then Some v else aget r k
  end.
Fixpoint aset {V} (l : list (text * V)) (k : text) (v : V) : list (text * V) :=
  match l with
  | [] => [(k, v)]
  | (n, w) :: r => if text_eqb n k then (n, v) :: r else (n, w) :: aset r k v
  end.

(* ------------------------------------------------------------------ _s2cmi *)
(** simple.py:40
      nv = -1
      for i, v in m.items():
          if i >= nidx: m[i] += 1
          elif v > nv:  nv = v
      m[nidx] = nv + 1
      return nv + 1                                                         *)
Fixpoint s2cmi_loop (m : list (Z * Z)) (nidx nv : Z) : list (Z * Z) * Z :=
  match m with
  | [] => ([], nv)
  | (i, v) :: r =>
      if i >=? nidx then
        let '(r', nv') := s2cmi_loop r nidx nv in ((i, v + 1) :: r', nv')
      else
        let '(r', nv') := s2cmi_loop r nidx (if v >? nv then v else nv) in ((i, v) :: r', nv')
  end.
Definition s2cmi (m : list (Z * Z)) (nidx : Z) : list (Z * Z) * Z :=
  let '(m', nv) := s2cmi_loop m nidx (-1) in (zset m' nidx (nv + 1), nv + 1).

(** [list.insert(n, x)] for n >= 0 *)
Definition insert_at {A} (n : Z) (x : A) (l : list A) : list A :=
  firstn (Z.to_nat n) l ++ x :: skipn (Z.to_nat n) l.
(** [l[n] = x] for 0 <= n < len l *)
Fixpoint set_nth {A} (l : list A) (n : nat) (x : A) : list A :=
  match l, n with
  | [], _ => []
  | _ :: r, O => x :: r
  | a :: r, S k => a :: set_nth r k x
  end.

(** the index bookkeeping of one array in the non-strict branch (simple.py:259-266),
    with the created element represented by its own sparse index:
      cidx = _m.get(nidx); if cidx is None: cidx = _s2cmi(_m, nidx); ninst.insert(cidx, new) *)
Definition arr_step (st : list (Z * Z) * list Z) (nidx : Z) : list (Z * Z) * list Z :=
  let '(m, l) := st in
  match zget m nidx with
  | Some _ => (m, l)
  | None => let '(m', cidx) := s2cmi m nidx in (m', insert_at cidx nidx l)
  end.
Definition arr_run (idxs : list Z) : list (Z * Z) * list Z := fold_left arr_step idxs ([], []).

(* ------------------------------------------------------------------ keys *)
(** [0-9] and int() of a run of ASCII digits: Base.Digits.is_digit / val_digits *)
Definition is_dig (c : Z) : bool := is_digit c.
Definition dval (ds : text) : Z := val_digits 0 ds.

(** tokens of a flat key under RE_HTTP_ARRAY_INDEX = r"\[([0-9]+)]" (leftmost,
    non-overlapping matches): literal characters and matched index groups *)
Inductive tok := TLit (c : Z) | TIdx (ds : text).

Definition lits (ds : text) : list tok := map TLit (91 :: ds).

(** [st = Some ds]: a '[' and the digits [ds] have been read and may still become a match *)
Fixpoint scan (st : option text) (k : text) : list tok :=
  match k with
  | [] => match st with None => [] | Some ds => lits ds end
  | c :: r =>
      match st with
      | None => if c =? 91 then scan (Some []) r else TLit c :: scan None r
      | Some ds =>
          if is_dig c then scan (Some (ds ++ [c])) r
          else if (c =? 93) && negb (match ds with [] => true | _ => false end)
               then TIdx ds :: scan None r
               else lits ds ++ (if c =? 91 then scan (Some []) r else TLit c :: scan None r)
      end
  end.
Definition toks (k : text) : list tok := scan None k.

(** RE_HTTP_ARRAY_INDEX.sub("", k) *)
Fixpoint tok_lits (ts : list tok) : text :=
  match ts with [] => [] | TLit c :: r => c :: tok_lits r | TIdx _ :: r => tok_lits r end.
Definition strip_idx (k : text) : text := tok_lits (toks k).
(** [int(i) for i in RE_HTTP_ARRAY_INDEX.findall(k)] *)
Fixpoint tok_idxs (ts : list tok) : list Z :=
  match ts with [] => [] | TLit _ :: r => tok_idxs r | TIdx ds :: r => dval ds :: tok_idxs r end.
Definition find_idx (k : text) : list Z := tok_idxs (toks k).

(** _natural_key (repaired tree): RE.split(k) with the odd positions as ints:
    [lit0, i1, lit1, i2, lit2, ...] represented as (lit0, [(i1, lit1); (i2, lit2); ...]) *)
Fixpoint nk_rest (ts : list tok) (cur : text) : text * list (Z * text) :=
  match ts with
  | [] => (rev cur, [])
  | TLit c :: r => nk_rest r (c :: cur)
  | TIdx ds :: r => let '(l1, more) := nk_rest r [] in (rev cur, (dval ds, l1) :: more)
  end.
Definition natkey (k : text) : text * list (Z * text) := nk_rest (toks k) [].

(** Python's ordering of str (by code point) and of lists (first difference, then length) *)
Fixpoint text_cmp (a b : text) : comparison :=
  match a, b with
  | [], [] => Eq | [], _ => Lt | _, [] => Gt
  | x :: a', y :: b' => match x ?= y with Eq => text_cmp a' b' | c => c end
  end.
Fixpoint nkl_cmp (a b : list (Z * text)) : comparison :=
  match a, b with
  | [], [] => Eq | [], _ => Lt | _, [] => Gt
  | (i, s) :: a', (j, t) :: b' =>
      match i ?= j with
      | Eq => match text_cmp s t with Eq => nkl_cmp a' b' | c => c end
      | c => c
      end
  end.
Definition nk_cmp (a b : text * list (Z * text)) : comparison :=
  match text_cmp (fst a) (fst b) with Eq => nkl_cmp (snd a) (snd b) | c => c end.
Definition key_le (natural : bool) (a b : text) : bool :=
  match (if natural then nk_cmp (natkey a) (natkey b) else text_cmp a b) with Gt => false | _ => true end.

(** sorted(doc.items(), key=...): a stable sort (insertion after the equal elements) *)
Fixpoint sinsert {V} (natural : bool) (x : text * V) (l : list (text * V)) : list (text * V) :=
  match l with
  | [] => [x]
  | y :: r => if key_le natural (fst y) (fst x) then y :: sinsert natural x r else x :: l
  end.
Definition sort_items {V} (natural : bool) (d : list (text * V)) : list (text * V) :=
  fold_left (fun acc x => sinsert natural x acc) d [].

(* ------------------------------------------------------------------ types and values *)
(** a member type: a primitive or a complex model; [arr] = Array(T) or max_occurs > 1 *)
Inductive ty :=
| TPrim (arr : bool)
| TObj (arr : bool) (fields : list (text * ty)).

Inductive val :=
| VNone
| VStr (s : text)                          (* a primitive, as its text *)
| VList (l : list text)                    (* array of primitives *)
| VObj (fs : list (text * val))            (* ComplexModel instance: attribute dict *)
| VArr (m : list (Z * Z)) (l : list val).  (* list of instances + its entry idxmap[id(list)]: one map per list
                                              OBJECT.  Faithful only if an id is never reused while the document is
                                              processed, i.e. every list that got a map stays referenced (repaired
                                              tree: the map is stored next to its list; before that fix a list
                                              dropped by an 'empty' marker could hand its id and its stale map to
                                              the next list -> IndexError, finding C03|GET-malformed|...) *)

Definition fresh (fields : list (text * ty)) : list (text * val) :=
  map (fun f => (fst f, VNone)) fields.

Definition EMPTY : text := [101; 109; 112; 116; 121].   (* 'empty' *)
Definition is_empty_marker (v : list text) : bool :=
  match v with [s] => text_eqb s EMPTY | _ => false end.

(** one pass of the body of the [for orig_k, v in sorted(...)] loop after the member
    lookup (simple.py:218-309): walk member.path[:-1], then assign the leaf.
    [idxs] is the deque of indexes found in the key. *)
Fixpoint ins (strict : bool) (fields : list (text * ty)) (path : list text) (idxs : list Z)
             (v : list text) (inst : list (text * val)) {struct path} : out (list (text * val)) :=
  match path with
  | [] => Crash IndexError
  | [last] =>
      match aget fields last with
      | None => Crash KeyError
      | Some (TPrim arr) =>
          if arr then
            match aget inst last with
            | Some (VList old) => Ok (aset inst last (VList (old ++ v)))       (* _v.extend(value) *)
            | _ => Ok (aset inst last (VList v))
            end
          else match v with
               | [] => Crash IndexError                                        (* value[0] *)
               | v0 :: _ => Ok (aset inst last (VStr v0))
               end
      | Some (TObj arr sub) =>                                                 (* v == ['empty'] *)
          if arr then
            match aget inst last with
            | Some (VArr _ _) => Ok inst                                       (* _v.extend([]) *)
            | _ => Ok (aset inst last (VArr [] []))
            end
          else Ok (aset inst last (VObj (fresh sub)))
      end
  | pkey :: rest =>
      match aget fields pkey with
      | Some (TObj arr sub) =>
          if arr then
            let '(nidx, idxs') := match idxs with [] => (0, []) | i :: r => (i, r) end in
            let '(m, l) := match aget inst pkey with Some (VArr m l) => (m, l) | _ => ([], []) end in
            if strict then
              let l1 := match l with [] => [VObj (fresh sub)] | _ => l end in
              if nidx >? Z.of_nat (length l1) then VFault
              else
                let l2 := if nidx =? Z.of_nat (length l1) then l1 ++ [VObj (fresh sub)] else l1 in
                match nth_error l2 (Z.to_nat nidx) with
                | Some (VObj e) =>
                    do e' <- ins strict sub rest idxs' v e;
                    Ok (aset inst pkey (VArr m (set_nth l2 (Z.to_nat nidx) (VObj e'))))
                | _ => Crash IndexError
                end
            else
              match zget m nidx with
              | Some cidx =>
                  match nth_error l (Z.to_nat cidx) with
                  | Some (VObj e) =>
                      do e' <- ins strict sub rest idxs' v e;
                      Ok (aset inst pkey (VArr m (set_nth l (Z.to_nat cidx) (VObj e'))))
                  | _ => Crash IndexError
                  end
              | None =>
                  let '(m', cidx) := s2cmi m nidx in
                  do e' <- ins strict sub rest idxs' v (fresh sub);
                  Ok (aset inst pkey (VArr m' (insert_at cidx (VObj e') l)))
              end
          else
            let e := match aget inst pkey with Some (VObj e) => e | _ => fresh sub end in
            do e' <- ins strict sub rest idxs v e;
            Ok (aset inst pkey (VObj e'))
      | Some (TPrim _) => Crash AttributeError
      | None => Crash KeyError
      end
  end.

(** get_simple_type_info_with_prot (repaired tree, non-recursive types): flat key ->
    (path, can_be_empty); sub_name = field name; keys joined by hier_delim *)
Fixpoint join (d : text) (l : list text) : text :=
  match l with [] => [] | [x] => x | x :: r => x ++ d ++ join d r end.

Fixpoint sti_ty (d : text) (t : ty) (path : list text) : list (text * (list text * bool)) :=
  match t with
  | TPrim _ => [(join d path, (path, false))]
  | TObj _ fs =>
      (join d path, (path, true)) ::
      (fix go (fs : list (text * ty)) : list (text * (list text * bool)) :=
         match fs with
         | [] => []
         | (k, ft) :: r => sti_ty d ft (path ++ [k]) ++ go r
         end) fs
  end.
Fixpoint sti (d : text) (fs : list (text * ty)) : list (text * (list text * bool)) :=
  match fs with
  | [] => []
  | (k, ft) :: r => sti_ty d ft [k] ++ sti d r
  end.

(** the whole loop body for one (orig_k, v) *)
Definition process_item (strict : bool) (table : list (text * (list text * bool)))
           (fields : list (text * ty)) (inst : list (text * val)) (kv : text * list text)
  : out (list (text * val)) :=
  let '(orig_k, v) := kv in
  match aget table (strip_idx orig_k) with
  | None => Ok inst                                           (* discarding field *)
  | Some (path, can_be_empty) =>
      if can_be_empty && negb (is_empty_marker v) then Ok inst     (* continue *)
      else ins strict fields path (find_idx orig_k) v inst
  end.

Fixpoint process_all (strict : bool) table fields (items : list (text * list text))
         (inst : list (text * val)) : out (list (text * val)) :=
  match items with
  | [] => Ok inst
  | kv :: r => do i' <- process_item strict table fields inst kv; process_all strict table fields r i'
  end.

(** simple_dict_to_object for a ComplexModel class, validator = None.
    [natural] selects the sort key: true = _natural_key (repaired), false = the raw
    key string (pinned tree). *)
Definition unflatten (natural strict : bool) (d : text) (fields : list (text * ty))
           (doc : list (text * list text)) : out (list (text * val)) :=
  process_all strict (sti d fields) fields (sort_items natural doc) (fresh fields).

(** what the user function sees: the lists without the idxmap entries *)
Fixpoint erase (v : val) : val :=
  match v with
  | VObj fs => VObj (map (fun f => (fst f, erase (snd f))) fs)
  | VArr _ l => VArr [] (map erase l)
  | x => x
  end.
Definition erase_obj (fs : list (text * val)) : list (text * val) :=
  map (fun f => (fst f, erase (snd f))) fs.

(* ------------------------------------------------------------------ object_to_simple_dict *)
Inductive fval := FOne (s : text) | FMany (l : list text) | FEmpty.   (* value, list, 'empty' *)

(** '%d' % i for i >= 0: Base.Digits.str_nat *)
Definition str_idx (n : Z) : text := str_nat n.

Definition with_idx (name : text) (i : Z) : text := name ++ [91] ++ str_idx i ++ [93].   (* '%s[%d]' *)

Fixpoint set_last (l : list text) (x : text) : list text :=
  match l with [] => [] | [_] => [x] | a :: r => a :: set_last r x end.

(** simple.py:330; [prefix] is new_prefix, [v] the sub instance; the conflict check
    (ValueError) is modelled by [flat_conflict] below *)
Fixpoint flat_ty (d : text) (t : ty) (prefix : list text) (v : val) {struct t} : list (text * fval) :=
  match t with
  | TPrim arr =>
      match v with
      | VNone => []
      | VList l => if arr then [(join d prefix, FMany l)] else []
      | VStr s => if arr then [] else [(join d prefix, FOne s)]
      | _ => []
      end
  | TObj arr fs =>
      let obj (prefix : list text) (inst : list (text * val)) :=
        (fix go (fs : list (text * ty)) : list (text * fval) :=
           match fs with
           | [] => []
           | (k, ft) :: r =>
               flat_ty d ft (prefix ++ [k]) (match aget inst k with Some x => x | None => VNone end) ++ go r
           end) fs in
      match v with
      | VNone => []
      | VObj inst => if arr then [] else obj prefix inst
      | VArr _ l =>
          if arr then
            match l with
            | [] => [(join d prefix, FEmpty)]
            | _ =>
                (fix each (i : Z) (l : list val) : list (text * fval) :=
                   match l with
                   | [] => []
                   | VObj inst :: r =>
                       obj (set_last prefix (with_idx (last prefix []) i)) inst ++ each (i + 1) r
                   | _ :: r => each (i + 1) r
                   end) 0 l
            end
          else []
      | _ => []
      end
  end.
Fixpoint flatten (d : text) (fs : list (text * ty)) (inst : list (text * val)) : list (text * fval) :=
  match fs with
  | [] => []
  | (k, ft) :: r => flat_ty d ft [k] (match aget inst k with Some x => x | None => VNone end) ++ flatten d r inst
  end.

(* ------------------------------------------------------------------ _parse_qs *)
Definition hexv (c : Z) : option Z :=
  if (48 <=? c) && (c <=? 57) then Some (c - 48)
  else if (65 <=? c) && (c <=? 70) then Some (c - 55)
  else if (97 <=? c) && (c <=? 102) then Some (c - 87)
  else None.

(** urllib.parse.unquote on the fragment whose escapes are ASCII: [None] = an escape
    >= 0x80 occurs (UTF-8 decoding is outside the modelled fragment). A '%' that is not
    followed by two hex digits is left alone. *)
Fixpoint unquote (s : text) : option text :=
  match s with
  | [] => Some []
  | 37 :: r =>
      match r with
      | h :: l :: r' =>
          match hexv h, hexv l with
          | Some a, Some b =>
              if a * 16 + b <? 128 then option_map (cons (a * 16 + b)) (unquote r') else None
          | _, _ => option_map (cons 37) (unquote r)
          end
      | _ => option_map (cons 37) (unquote r)
      end
  | c :: r => option_map (cons c) (unquote r)
  end.

(** s.split(sep) for a one-character separator, generalised to a set of separators:
    qs.split('&') then .split(';') of each piece, flattened *)
Fixpoint split_on (sep : Z -> bool) (s : text) (cur : text) : list text :=
  match s with
  | [] => [rev cur]
  | c :: r => if sep c then rev cur :: split_on sep r [] else split_on sep r (c :: cur)
  end.
(** s.split('=', 1) *)
Fixpoint split_eq (s : text) (cur : text) : text * option text :=
  match s with
  | [] => (rev cur, None)
  | c :: r => if c =? 61 then (rev cur, Some r) else split_eq r (c :: cur)
  end.
Definition plus_space (s : text) : text := map (fun c => if c =? 43 then 32 else c) s.

(** retval[name].append(value) on an odict of lists *)
Fixpoint group_add {V} (d : list (text * list V)) (k : text) (v : V) : list (text * list V) :=
  match d with
  | [] => [(k, [v])]
  | (n, l) :: r => if text_eqb n k then (n, l ++ [v]) :: r else (n, l) :: group_add r k v
  end.

Fixpoint parse_pairs (ps : list text) (acc : list (text * list (option text)))
  : option (list (text * list (option text))) :=
  match ps with
  | [] => Some acc
  | [] :: r => parse_pairs r acc
  | nv :: r =>
      let '(n, v) := split_eq nv [] in
      match unquote (plus_space n) with
      | None => None
      | Some name =>
          match v with
          | None => parse_pairs r (group_add acc name None)
          | Some v' =>
              match unquote (plus_space v') with
              | None => None
              | Some value => parse_pairs r (group_add acc name (Some value))
              end
          end
      end
  end.
Definition parse_qs (qs : text) : option (list (text * list (option text))) :=
  parse_pairs (split_on (fun c => (c =? 38) || (c =? 59)) qs []) [].

(* ------------------------------------------------------------------ the response *)
(** spyne/server/wsgi.py:_gen_http_headers: a list value becomes one header line per element *)
Definition gen_http_headers (h : list (text * fval)) : list (text * text) :=
  flat_map (fun kf => match snd kf with
                      | FOne s => [(fst kf, s)]
                      | FMany l => map (fun v => (fst kf, v)) l
                      | FEmpty => [(fst kf, EMPTY)]
                      end) h.
(** dict.update *)
Definition dict_update {V} (d u : list (text * V)) : list (text * V) :=
  fold_left (fun acc kv => aset acc (fst kv) (snd kv)) u d.
Definition CONTENT_LENGTH : text := [67; 111; 110; 116; 101; 110; 116; 45; 76; 101; 110; 103; 116; 104].
(** WsgiApplication.handle_rpc after get_out_string with an HttpRpc out protocol
    (wsgi.py:466-505): resp_headers.update(out_header_doc) where out_header_doc is
    object_to_simple_dict(header class, ctx.out_header) (http.py:357-369);
    Content-Length = str(sum(len(chunk))); start_response(code, _gen_http_headers(resp_headers));
    the body is the concatenation of the chunks of to_bytes_iterable(return value) *)
Definition http_response (base : list (text * fval)) (hfs : list (text * ty)) (hinst : list (text * val))
           (chunks : list text) : list (text * text) * text :=
  let body := concat chunks in
  let h := dict_update base (flatten [46] hfs hinst) in
  (gen_http_headers (aset h CONTENT_LENGTH (FOne (str_idx (len body)))), body).

(* ------------------------------------------------------------------ DateTime response headers *)
(** spyne/protocol/http.py:_header_to_bytes for a DateTime member: the value is taken to UTC
    (astimezone for an aware value, a naive value is read as UTC) and written as an RFC 7231
    IMF-fixdate.  As a function of the INSTANT (whole seconds since 1970-01-01T00:00:00Z): *)
Definition WEEKDAY : list text :=
  [[77; 111; 110]; [84; 117; 101]; [87; 101; 100]; [84; 104; 117]; [70; 114; 105]; [83; 97; 116]; [83; 117; 110]].
Definition MONTH : list text :=
  [[119; 48; 48; 116]; [74; 97; 110]; [70; 101; 98]; [77; 97; 114]; [65; 112; 114]; [77; 97; 121]; [74; 117; 110];
   [74; 117; 108]; [65; 117; 103]; [83; 101; 112]; [79; 99; 116]; [78; 111; 118]; [68; 101; 99]].
(** proleptic Gregorian (year, month, day) of a day number (days since 1970-01-01) *)
Definition civil_of_days (days : Z) : Z * Z * Z :=
  let z := days + 719468 in
  let era := z / 146097 in
  let doe := z - era * 146097 in
  let yoe := (doe - doe / 1460 + doe / 36524 - doe / 146096) / 365 in
  let doy := doe - (365 * yoe + yoe / 4 - yoe / 100) in
  let mp := (5 * doy + 2) / 153 in
  let d := doy - (153 * mp + 2) / 5 + 1 in
  let m := if mp <? 10 then mp + 3 else mp - 9 in
  (yoe + era * 400 + (if m <=? 2 then 1 else 0), m, d).
(** "%s, %02d %s %04d %02d:%02d:%02d GMT" *)
Definition imf_fixdate (epoch : Z) : text :=
  let days := epoch / 86400 in
  let sod := epoch mod 86400 in
  let '(y, m, d) := civil_of_days days in
  nth (Z.to_nat ((days + 3) mod 7)) WEEKDAY [] ++ [44; 32] ++ zpad 2 d ++ [32] ++ nth (Z.to_nat m) MONTH [] ++ [32] ++
  zpad 4 y ++ [32] ++ zpad 2 (sod / 3600) ++ [58] ++ zpad 2 (sod mod 3600 / 60) ++ [58] ++ zpad 2 (sod mod 60) ++
  [32; 71; 77; 84].
