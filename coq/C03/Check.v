(** C03: comparison functions and composed entry points used by the correspondence
    case files (definitions only). *)
From SpyneV Require Export C03.Model.

Fixpoint list_eqb {A} (eqb : A -> A -> bool) (a b : list A) : bool :=
  match a, b with
  | [], [] => true
  | x :: a', y :: b' => eqb x y && list_eqb eqb a' b'
  | _, _ => false
  end.
Definition opt_eqb {A} (eqb : A -> A -> bool) (a b : option A) : bool :=
  match a, b with
  | None, None => true
  | Some x, Some y => eqb x y
  | _, _ => false
  end.
Definition zz_eqb (a b : Z * Z) : bool := (fst a =? fst b) && (snd a =? snd b).

Fixpoint val_eqb (a b : val) {struct a} : bool :=
  match a, b with
  | VNone, VNone => true
  | VStr s, VStr t => text_eqb s t
  | VList l, VList k => list_eqb text_eqb l k
  | VObj fs, VObj gs =>
      (fix go (fs gs : list (text * val)) : bool :=
         match fs, gs with
         | [], [] => true
         | (n, x) :: fs', (m, y) :: gs' => text_eqb n m && val_eqb x y && go fs' gs'
         | _, _ => false
         end) fs gs
  | VArr m l, VArr m' l' =>
      list_eqb zz_eqb m m' &&
      (fix go (l l' : list val) : bool :=
         match l, l' with
         | [], [] => true
         | x :: r, y :: r' => val_eqb x y && go r r'
         | _, _ => false
         end) l l'
  | _, _ => false
  end.
Definition obj_eqb (a b : list (text * val)) : bool := val_eqb (VObj a) (VObj b).

(** outcomes compared up to the class of a non-Fault exception (the WSGI transport
    turns all of them into the same 500 response) *)
Definition outc_eqb {A} (eqb : A -> A -> bool) (x y : out A) : bool :=
  match x, y with
  | Ok a, Ok b => eqb a b
  | VFault, VFault => true
  | Crash _, Crash _ => true
  | _, _ => false
  end.

Definition fval_eqb (a b : fval) : bool :=
  match a, b with
  | FOne s, FOne t => text_eqb s t
  | FMany l, FMany k => list_eqb text_eqb l k
  | FEmpty, FEmpty => true
  | _, _ => false
  end.
Definition flat_eqb (a b : list (text * fval)) : bool :=
  list_eqb (fun x y => text_eqb (fst x) (fst y) && fval_eqb (snd x) (snd y)) a b.

Definition qs_eqb (a b : option (list (text * list (option text)))) : bool :=
  opt_eqb (list_eqb (fun x y => text_eqb (fst x) (fst y) &&
                                list_eqb (opt_eqb text_eqb) (snd x) (snd y))) a b.

(** values of a parsed query string that all have an '=' sign *)
Fixpoint all_some {A} (l : list (option A)) : option (list A) :=
  match l with
  | [] => Some []
  | Some x :: r => option_map (cons x) (all_some r)
  | None :: _ => None
  end.
Fixpoint doc_of (d : list (text * list (option text))) : option (list (text * list text)) :=
  match d with
  | [] => Some []
  | (k, l) :: r =>
      match all_some l, doc_of r with
      | Some l', Some r' => Some ((k, l') :: r')
      | _, _ => None
      end
  end.

(** a WSGI GET: QUERY_STRING -> _parse_qs -> simple_dict_to_object -> what the user
    function receives.  [None] = the query string is outside the modelled fragment. *)
Definition run_get (natural strict : bool) (d : text) (fields : list (text * ty)) (qs : text)
  : option (out (list (text * val))) :=
  match parse_qs qs with
  | None => None
  | Some pd =>
      match doc_of pd with
      | None => None
      | Some doc =>
          Some (match unflatten natural strict d fields doc with
                | Ok o => Ok (erase_obj o)
                | VFault => VFault
                | Crash e => Crash e
                end)
      end
  end.
Definition get_ok (natural : bool) (c : bool * text * list (text * ty) * text * out (list (text * val))) : bool :=
  let '(strict, d, fields, qs, expected) := c in
  match run_get natural strict d fields qs with
  | None => false
  | Some o => outc_eqb obj_eqb o expected
  end.

(** natural-key order as a three-valued answer: -1, 0, 1 *)
Definition cmp_z (c : comparison) : Z := match c with Lt => -1 | Eq => 0 | Gt => 1 end.

(** two documents with pairwise distinct keys hold the same entries *)
Definition doc_subset (a b : list (text * list text)) : bool :=
  forallb (fun kv => match aget b (fst kv) with
                     | Some v => list_eqb text_eqb v (snd kv)
                     | None => false
                     end) a.
Definition perm_docb (a b : list (text * list text)) : bool :=
  (Z.of_nat (length a) =? Z.of_nat (length b)) && doc_subset a b && doc_subset b a.
