(** C12 — why a request-time cache keyed by class must be looked up by the EXACT class.

    [look] with [parent = fun _ => None] is a dict / WeakKeyDictionary; with a parent function
    it is spyne.util.cdict.cdict, whose lookup falls back to the entry of a base class (and
    which "must never be modified after the first lookup").  A check-then-set cache of a value
    computed per class is transparent for every history of calls in the first case and returns
    the PARENT's value for a subclass in the second, already without any concurrency. *)
From Coq Require Import ZArith List Bool.
From SpyneV Require Import Base.Prelude C12.Model.
Open Scope Z_scope.

Section Fallback.
Variable V : Type.
Variable f : Z -> V.                    (* the value computed for a class *)
Variable parent : Z -> option Z.

Definition look (c : Z -> option V) (k : Z) : option V :=
  match c k with
  | Some x => Some x
  | None => match parent k with Some p => c p | None => None end
  end.

(** v = cache.get(k); if v is None: v = f(k); cache[k] = v; return v *)
Definition call (c : Z -> option V) (k : Z) : (Z -> option V) * V :=
  match look c k with
  | Some x => (c, x)
  | None => (upd c k (Some (f k)), f k)
  end.

Fixpoint calls (c : Z -> option V) (ks : list Z) : list V :=
  match ks with
  | [] => []
  | k :: r => let '(c', x) := call c k in x :: calls c' r
  end.

Definition sound (c : Z -> option V) : Prop := forall k x, c k = Some x -> x = f k.

Lemma fallback_refuted : forall child par,
  parent child = Some par -> child <> par ->
  calls (fun _ => None) [par; child] = [f par; f par].
Proof.
  intros child par Hp Hne. unfold calls, call, look. simpl.
  destruct (parent par) as [pp|]; simpl.
  - unfold upd at 1. destruct (child =? par) eqn:E; [apply Z.eqb_eq in E; contradiction|].
    rewrite Hp. unfold upd. rewrite Z.eqb_refl. reflexivity.
  - unfold upd at 1. destruct (child =? par) eqn:E; [apply Z.eqb_eq in E; contradiction|].
    rewrite Hp. unfold upd. rewrite Z.eqb_refl. reflexivity.
Qed.

End Fallback.

Section Exact.
Variable V : Type.
Variable f : Z -> V.

Lemma exact_transparent : forall ks c,
  sound V f c -> calls V f (fun _ => None) c ks = map f ks.
Proof.
  induction ks as [|k r IH]; intros c Hs; simpl; auto.
  unfold call, look. destruct (c k) as [x|] eqn:Hc.
  - rewrite (Hs k x Hc). f_equal. apply IH. exact Hs.
  - f_equal. apply IH. intros k' x' H. unfold upd in H.
    destruct (k' =? k) eqn:E; [apply Z.eqb_eq in E; subst; congruence|eauto].
Qed.
End Exact.
