(** C12 — the generated skeletons (coq/Gen/ConcText.v) against the model. *)
From Coq Require Import ZArith List Bool.
From SpyneV Require Import Base.Prelude C12.Model C12.Corr C12.Text C12.Writers Gen.ConcText.

Lemma text_is_model_text :
  sk_equiv g_wsdl (text_wsdl Repaired) && sk_equiv g_get text_get && sk_equiv g_build text_build &&
  sk_equiv g_attrs (text_attrs Repaired) && sk_equiv g_validate (text_validate Repaired) &&
  sk_equiv g_memo text_memo && sk_equiv g_sort text_sort && sk_equiv g_cdict text_cdict && g_side = true.
Proof. vm_compute. reflexivity. Qed.

Lemma text_paths : paths_ok Repaired g_wsdl g_attrs g_validate g_memo g_sort = true.
Proof. vm_compute. reflexivity. Qed.

Lemma state_writers_pinned : g_state_writers = state_writers_expected.
Proof. reflexivity. Qed.
