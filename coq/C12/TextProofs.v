(** C12 — the generated skeletons (coq/Gen/ConcText.v) against the model. *)
From Coq Require Import ZArith List Bool.
From SpyneV Require Import Base.Prelude C12.Model C12.Corr C12.Text C12.Writers Gen.ConcText.

Lemma text_is_model_text :
  g_wsdl = text_wsdl Repaired /\ g_get = text_get /\ g_build = text_build /\
  g_attrs = text_attrs Repaired /\ g_validate = text_validate Repaired /\
  g_memo = text_memo /\ g_sort = text_sort /\ g_cdict = text_cdict /\ g_side = true.
Proof. repeat split; reflexivity. Qed.

Lemma text_paths : paths_ok Repaired g_wsdl g_attrs g_validate g_memo g_sort = true.
Proof. vm_compute. reflexivity. Qed.

Lemma state_writers_pinned : g_state_writers = state_writers_expected.
Proof. reflexivity. Qed.
