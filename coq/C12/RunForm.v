(** C12 — the lemmas of Theorems.v / Live.v restated over [run ... = Some s] (the form in
    which Props/C12.v states the property), so that every property theorem is closed by
    [exact]. *)
From Coq Require Import ZArith List Bool Lia.
From SpyneV Require Import Base.Prelude C12.Model C12.Proofs C12.Corr C12.Theorems C12.Live.
Open Scope Z_scope.

Section RunForm.
Variable V : Type.
Variable base : Z -> V.
Variable over1 over2 : Z -> V -> V.
Variable has_prot : Z -> bool.
Variable mf : Z -> V.
Variable sf : Z -> V.
Variable pre : bool.
Variable ftag : Z -> Z.
Variable sc0 : Z -> option (Z * V).
Variable reqs : Z -> req.
Hypothesis sc0_ok : forall k g x, sc0 k = Some (g, x) -> g = ftag k -> x = sf k.

Notation full := (full V base over1 over2 has_prot).
Notation step := (step V base over1 over2 has_prot mf sf ftag).
Notation run := (run V base over1 over2 has_prot mf sf ftag).
Notation init := (init V base pre sc0).
Notation alone := (alone V base over1 over2 has_prot mf sf).
Notation R := (fun sched s => run Repaired reqs sched (init Repaired reqs) = Some s).

Local Ltac by_reach L := intros sched s; intros; eapply (L V base over1 over2 has_prot mf sf pre ftag sc0 reqs sc0_ok); eauto; now exists sched.

Lemma r_built_once : forall sched s, R sched s -> b_gen s <= 1.
Proof. by_reach built_once. Qed.

Lemma r_prebuilt_never_rebuilt : forall sched s, R sched s -> pre = true ->
  b_gen s = 1 /\ b_wsdl s = Some 0.
Proof. by_reach prebuilt_never_rebuilt. Qed.

Lemma r_served_whole : forall sched s, R sched s ->
  (forall t, reqs t = RWsdl -> tpc (thr s t) = Done -> out (thr s t) = Some (PWsdl (Some 0))) /\
  (forall d, app_wsdl s = Some d -> d = 0) /\ (forall d, b_wsdl s = Some d -> d = 0).
Proof. by_reach served_whole. Qed.

Lemma r_no_interference : forall sched s t, R sched s ->
  tpc (thr s t) = Done -> out (thr s t) = alone (reqs t).
Proof. by_reach no_interference. Qed.

Lemma r_schedule_independent : forall sched1 sched2 s1 s2 t, R sched1 s1 -> R sched2 s2 ->
  tpc (thr s1 t) = Done -> tpc (thr s2 t) = Done -> out (thr s1 t) = out (thr s2 t).
Proof.
  intros sched1 sched2 s1 s2 t H1 H2.
  apply (schedule_independent V base over1 over2 has_prot mf sf pre ftag sc0 reqs sc0_ok); [now exists sched1|now exists sched2].
Qed.

Lemma r_memo_transparent : forall sched s, R sched s ->
  (forall k x, memo s k = Some x -> x = mf k) /\
  (forall t ks, reqs t = RMemo ks -> tpc (thr s t) = Done -> out (thr s t) = Some (PVals (map mf ks))).
Proof. by_reach memo_transparent. Qed.

Lemma r_attrs_transparent : forall sched s, R sched s ->
  (forall k r, cache s k = Some r -> heap s r = full k) /\
  (forall t ks, reqs t = RAttrs ks -> tpc (thr s t) = Done -> out (thr s t) = Some (PVals (map full ks))).
Proof. by_reach attrs_transparent. Qed.

Lemma r_sort_transparent : forall sched s, R sched s ->
  (forall k g x, scache s k = Some (g, x) -> g = ftag k -> x = sf k) /\
  (forall t ks, reqs t = RSort ks -> tpc (thr s t) = Done -> out (thr s t) = Some (PVals (map sf ks))).
Proof. by_reach sort_transparent. Qed.

Lemma r_errlog_isolated : forall sched s t ok e, R sched s ->
  reqs t = RValidate ok e -> tpc (thr s t) = Done ->
  out (thr s t) = Some (if ok then PValid else PFault (Some e)).
Proof. by_reach errlog_isolated. Qed.

Lemma r_validator_error_isolated : forall sched s t e, R sched s ->
  reqs t = RValidateX e -> tpc (thr s t) = Done -> out (thr s t) = Some (PFault (Some e)).
Proof. by_reach validator_error_isolated. Qed.

Lemma r_mutual_exclusion : forall sched s t u, R sched s ->
  (in_wcrit (tpc (thr s t)) = true -> in_wcrit (tpc (thr s u)) = true -> t = u) /\
  (in_vcrit (tpc (thr s t)) = true -> in_vcrit (tpc (thr s u)) = true -> t = u) /\
  (in_mcrit (tpc (thr s t)) = true -> in_mcrit (tpc (thr s u)) = true -> t = u).
Proof. by_reach mutual_exclusion. Qed.

Lemma r_no_deadlock : forall sched s t, R sched s ->
  tpc (thr s t) <> Done -> exists u, step Repaired reqs s u <> None.
Proof. by_reach no_deadlock. Qed.

End RunForm.
