(** C12 — invariants of the repaired program over every reachable state of every
    schedule, for any number of threads. *)
From Coq Require Import ZArith List Bool Lia.
From SpyneV Require Import Base.Prelude C12.Model.
Open Scope Z_scope.

Section Proofs.
Variable V : Type.
Variable base : Z -> V.
Variable over1 over2 : Z -> V -> V.
Variable has_prot : Z -> bool.
Variable mf : Z -> V.
Variable sf : Z -> V.
Variable pre : bool.
Variable ftag : Z -> Z.
Variable sc0 : Z -> option (Z * V).
Variable reqs : Z -> req.
(** a list cached at start-up for the field table the class has NOW is the right one (lists cached
    for an earlier field table may be anything) *)
Hypothesis sc0_ok : forall k g x, sc0 k = Some (g, x) -> g = ftag k -> x = sf k.

Notation full := (full V base over1 over2 has_prot).
Notation step := (step V base over1 over2 has_prot mf sf ftag).
Notation run := (run V base over1 over2 has_prot mf sf ftag).
Notation init := (init V base pre sc0).
Notation alone := (alone V base over1 over2 has_prot mf sf).
Notation state := (state V).
Notation tstate := (tstate V).

(** the thread has answered [done], every answer so far is the sequential one, keys remain *)
Definition progress (f : Z -> V) (ks : list Z) (th : tstate) : Prop :=
  exists done, ks = done ++ todo th /\ obs th = map f done /\ todo th <> [] /\ out th = None.

Definition building (p : pc) : bool :=
  match p with W_bend | W_get2 | W_store2 => true | _ => false end.

Definition attrs_ok (t : Z) (th : tstate) := exists ks, reqs t = RAttrs ks /\ progress full ks th.
Definition memo_ok (t : Z) (th : tstate) := exists ks, reqs t = RMemo ks /\ progress mf ks th.
Definition sort_ok (t : Z) (th : tstate) := exists ks, reqs t = RSort ks /\ progress sf ks th.

Definition is_val (q : req) : Prop :=
  (exists ok e, q = RValidate ok e) \/ (exists e, q = RValidateX e).

(** per-thread invariant of the repaired program *)
Definition tinv (s : state) (t : Z) : Prop :=
  let th := thr s t in
  match tpc th with
  | W_chk1 | W_get1 | W_store1 | W_read1 | G_upd1 | G_upd2 => False
  | W_readr | W_getr => reqs t = RWsdl
  | W_acq => reqs t = RWsdl /\ pre = false
  | W_read2 => reqs t = RWsdl /\ wlock s = Some t /\ pre = false
  | W_build => reqs t = RWsdl /\ wlock s = Some t /\ app_wsdl s = None /\ pre = false
  | W_bend => reqs t = RWsdl /\ wlock s = Some t /\ app_wsdl s = None /\ gen th = 0
  | W_get2 => reqs t = RWsdl /\ wlock s = Some t /\ app_wsdl s = None /\ b_wsdl s = Some 0
  | W_store2 => reqs t = RWsdl /\ wlock s = Some t /\ app_wsdl s = None /\ lw th = Some 0
  | W_rel => reqs t = RWsdl /\ wlock s = Some t /\ app_wsdl s = Some 0 /\ lw th = Some 0
  | V_acq => is_val (reqs t)
  | V_val => is_val (reqs t) /\ vlock s = Some t
  | V_log => vlock s = Some t /\ ret th = false /\
             exists e, reqs t = RValidate false e /\ errlog s = Some e
  | V_rel => vlock s = Some t /\
             ((exists ok e, reqs t = RValidate ok e /\ ret th = ok /\ (ok = false -> txt th = Some e)) \/
              (exists e, reqs t = RValidateX e /\ ret th = false /\ txt th = Some e))
  | G_get | G_pub => attrs_ok t th
  | G_use => attrs_ok t th /\ ref th < next s /\ heap s (ref th) = full (key_of V th)
  | M_chk1 | M_acq => memo_ok t th
  | M_chk2 | M_set => memo_ok t th /\ mlock s = Some t
  | M_relv => memo_ok t th /\ mlock s = Some t
  | M_rel => memo_ok t th /\ mlock s = Some t /\ memo s (key_of V th) <> None
  | M_get => memo_ok t th /\ memo s (key_of V th) <> None
  | S_get | S_set => sort_ok t th
  | Done => out th = alone (reqs t)
  end.

(** invariant of the shared variables *)
Definition ginv (s : state) : Prop :=
  (b_gen s = 0 \/ b_gen s = 1) /\
  (forall d, b_wsdl s = Some d -> d = 0) /\
  (forall d, app_wsdl s = Some d -> d = 0) /\
  (b_gen s = 1 -> app_wsdl s = Some 0 \/ pre = true \/
                  match wlock s with Some u => building (tpc (thr s u)) = true | None => False end) /\
  (forall k r, cache s k = Some r -> r < next s /\ heap s r = full k) /\
  (forall k x, memo s k = Some x -> x = mf k) /\
  (forall k g x, scache s k = Some (g, x) -> g = ftag k -> x = sf k) /\
  (pre = true -> b_wsdl s = Some 0 /\ b_gen s = 1).

Definition inv (s : state) : Prop := ginv s /\ forall t, tinv s t.

Lemma upd_same : forall A (f : Z -> A) k v, upd f k v k = v.
Proof. intros. unfold upd. now rewrite Z.eqb_refl. Qed.
Lemma upd_other : forall A (f : Z -> A) k v x, x <> k -> upd f k v x = f x.
Proof. intros. unfold upd. destruct (x =? k) eqn:E; auto. apply Z.eqb_eq in E. contradiction. Qed.

Lemma progress_consume : forall f ks th again,
  progress f ks th ->
  let th' := consume V th again (f (key_of V th)) in
  (tpc th' = Done /\ out th' = Some (PVals (map f ks))) \/
  (tpc th' = again /\ progress f ks th').
Proof.
  intros f ks th again (done & Hks & Hobs & Hne & Hout). unfold consume, key_of.
  destruct (todo th) as [|k r] eqn:Ht; [congruence|]. simpl.
  destruct r as [|k2 r2].
  - left. simpl. split; auto. subst ks. rewrite Hobs, map_app. reflexivity.
  - right. simpl. split; auto. exists (done ++ [k]). simpl. repeat split.
    + subst ks. now rewrite <- app_assoc.
    + rewrite Hobs, map_app. reflexivity.
    + discriminate.
Qed.

Lemma inv_init : inv (init Repaired reqs).
Proof.
  split.
  - unfold ginv. simpl. destruct pre; repeat split; try (intros; discriminate); auto;
      try (intros d Hd; congruence); try (intros _; right; left; reflexivity).
  - intro t. unfold tinv. simpl. destruct (reqs t) as [| |ok e|e|ks|ks|ks] eqn:Hq; simpl; auto.
    + left. eauto.
    + right. eauto.
    + destruct ks; simpl; auto. exists (z :: ks). split; auto.
      exists []. simpl. repeat split; auto. discriminate.
    + destruct ks; simpl; auto. exists (z :: ks). split; auto.
      exists []. simpl. repeat split; auto. discriminate.
    + destruct ks; simpl; auto. exists (z :: ks). split; auto.
      exists []. simpl. repeat split; auto. discriminate.
Qed.

Ltac other_thread T t u E :=
  rewrite (upd_other _ _ _ _ _ E);
  let Tt := fresh "Tt" in
  pose proof (T t) as Tt; unfold tinv in Tt |- *;
  destruct (tpc (thr _ t)); simpl in *; intuition (try congruence).

Ltac split_thread t u :=
  let E := fresh "E" in
  destruct (Z.eq_dec t u) as [E|E]; [subst t; rewrite upd_same | ].


Ltac gsplit := unfold ginv; simpl; split; [|split; [|split; [|split; [|split; [|split; [|split]]]]]].
Ltac gbuild Gbuild Hpc u :=
  let Hg := fresh "Hg" in let Ha := fresh "Ha" in let Hb := fresh "Hb" in
  let w := fresh "w" in let E := fresh "E" in let Hwl := fresh "Hwl" in
  let Hpre := fresh "Hpre" in
  intro Hg; destruct (Gbuild Hg) as [Ha|[Hpre|Hb]]; [left; congruence|right; left; exact Hpre|]; right; right;
  destruct (wlock _) as [w|] eqn:Hwl; [|contradiction];
  destruct (Z.eq_dec w u) as [E|E];
  [ subst w; rewrite Hpc in Hb; discriminate | rewrite upd_other; auto ].
Ltac gframe Gbuild Hpc u := gsplit; [auto | auto | auto | gbuild Gbuild Hpc u | auto | auto | auto | auto].

Lemma step_inv : forall s u s', inv s -> step Repaired reqs s u = Some s' -> inv s'.
Proof.
  intros s u s' [G T] H.
  pose proof (T u) as Tu. unfold tinv in Tu. unfold step in H.
  destruct G as (Ggen & Gb & Gapp & Gbuild & Gcache & Gmemo & Gsort & Gpre).
  destruct (tpc (thr s u)) eqn:Hpc; try contradiction.
  - (* W_readr *)
    case_eq (app_wsdl s); [intros d Happ|intros Happ]; rewrite Happ in H; inversion H; subst s'; clear H.
    + split.
      * gframe Gbuild Hpc u.
      * intro t. unfold tinv at 1. simpl. split_thread t u.
        -- simpl. rewrite Tu. simpl. now rewrite (Gapp d Happ).
        -- other_thread T t u E.
    + split.
      * gframe Gbuild Hpc u.
      * intro t. unfold tinv at 1. simpl. split_thread t u.
        -- simpl. auto.
        -- other_thread T t u E.
  - (* W_getr *)
    case_eq (b_wsdl s); [intros d Hb0|intros Hb0]; rewrite Hb0 in H; inversion H; subst s'; clear H.
    + split.
      * gframe Gbuild Hpc u.
      * intro t. unfold tinv at 1. simpl. split_thread t u.
        -- simpl. rewrite Tu. simpl. now rewrite (Gb d Hb0).
        -- other_thread T t u E.
    + assert (Hpf : pre = false).
      { destruct pre eqn:Hp; auto. destruct (Gpre eq_refl) as [Hb1 _]. congruence. }
      split.
      * gframe Gbuild Hpc u.
      * intro t. unfold tinv at 1. simpl. split_thread t u.
        -- simpl. auto.
        -- other_thread T t u E.
  - (* W_acq *)
    destruct Tu as (Hq & Hpf).
    destruct (wlock s) as [w|] eqn:Hw; [discriminate|]. inversion H; subst s'; clear H.
    split.
    + gsplit; auto.
      intro Hg; destruct (Gbuild Hg) as [Ha|[Hp|Hb]]; auto; contradiction.
    + intro t. unfold tinv at 1. simpl. split_thread t u.
      * simpl. auto.
      * other_thread T t u E.
  - (* W_read2 *)
    destruct Tu as (Hq & Hw & Hpf).
    inversion H; subst s'; clear H. split.
    + gsplit; auto.
      intro Hg. destruct (Gbuild Hg) as [Ha|[Hp|Hb]]; auto.
      rewrite Hw in Hb. rewrite Hpc in Hb. discriminate.
    + intro t. unfold tinv at 1. simpl. split_thread t u.
      * case_eq (app_wsdl s); [intros d Happ|intros Happ]; simpl; auto.
        rewrite (Gapp d Happ) in *. auto.
      * other_thread T t u E.
  - (* W_build *)
    destruct Tu as (Hq & Hw & Happ & Hpf).
    assert (Hg0 : b_gen s = 0).
    { destruct Ggen as [|Hg]; auto. destruct (Gbuild Hg) as [Ha|[Hp|Hb]]; [congruence|congruence|].
      rewrite Hw, Hpc in Hb. discriminate. }
    inversion H; subst s'; clear H. split.
    + gsplit; auto; try lia.
      * intros _. right. right. rewrite Hw. now rewrite upd_same.
      * intro Hp. congruence.
    + intro t. unfold tinv at 1. simpl. split_thread t u.
      * simpl. auto.
      * other_thread T t u E.
  - (* W_bend *)
    destruct Tu as (Hq & Hw & Happ & Hgen).
    inversion H; subst s'; clear H. split.
    + gsplit; auto; try (intros d Hd; congruence);
        try (intros _; right; right; rewrite Hw; now rewrite upd_same).
      intro Hp. destruct (Gpre Hp) as [Hb1 Hg1]. split; auto. simpl. congruence.
    + intro t. unfold tinv at 1. simpl. split_thread t u.
      * simpl. rewrite Hgen. auto.
      * other_thread T t u E.
  - (* W_get2 *)
    destruct Tu as (Hq & Hw & Happ & Hb).
    inversion H; subst s'; clear H. split.
    + gsplit; auto.
      intros _. right. right. rewrite Hw. now rewrite upd_same.
    + intro t. unfold tinv at 1. simpl. split_thread t u.
      * simpl. auto.
      * other_thread T t u E.
  - (* W_store2 *)
    destruct Tu as (Hq & Hw & Happ & Hlw).
    inversion H; subst s'; clear H. split.
    + gsplit; auto; try (intros d Hd; congruence); try (intros _; left; congruence).
    + intro t. unfold tinv at 1. simpl. split_thread t u.
      * simpl. auto.
      * other_thread T t u E.
  - (* W_rel *)
    destruct Tu as (Hq & Hw & Happ & Hlw).
    inversion H; subst s'; clear H. split.
    + gsplit; auto.
    + intro t. unfold tinv at 1. simpl. split_thread t u.
      * simpl. rewrite Hq, Hlw. reflexivity.
      * other_thread T t u E.
  - (* V_acq *)
    destruct (vlock s) as [w|] eqn:Hw; [discriminate|]. inversion H; subst s'; clear H.
    split.
    + gframe Gbuild Hpc u.
    + intro t. unfold tinv at 1. simpl. split_thread t u.
      * simpl. auto.
      * other_thread T t u E.
  - (* V_val *)
    destruct Tu as ([(ok & e & Hq)|(e & Hq)] & Hv); rewrite Hq in H;
      inversion H; subst s'; clear H.
    + split.
      * gframe Gbuild Hpc u.
      * intro t. unfold tinv at 1. simpl. split_thread t u.
        -- destruct ok; simpl.
           ++ split; auto. left. exists true, e. repeat split; auto. discriminate.
           ++ repeat split; auto. exists e. auto.
        -- other_thread T t u E.
    + split.
      * gframe Gbuild Hpc u.
      * intro t. unfold tinv at 1. simpl. split_thread t u.
        -- simpl. split; auto. right. exists e. auto.
        -- other_thread T t u E.
  - (* V_log *)
    destruct Tu as (Hv & Hret & e & Hq & Hlog).
    inversion H; subst s'; clear H. split.
    + gframe Gbuild Hpc u.
    + intro t. unfold tinv at 1. simpl. split_thread t u.
      * simpl. split; auto. left. exists false, e. repeat split; auto.
      * other_thread T t u E.
  - (* V_rel *)
    destruct Tu as (Hv & [(ok & e & Hq & Hret & Htxt)|(e & Hq & Hret & Htxt)]);
      inversion H; subst s'; clear H; split.
    + gframe Gbuild Hpc u.
    + intro t. unfold tinv at 1. simpl. split_thread t u.
      * simpl. rewrite Hq, Hret. simpl. destruct ok; auto. now rewrite Htxt.
      * other_thread T t u E.
    + gframe Gbuild Hpc u.
    + intro t. unfold tinv at 1. simpl. split_thread t u.
      * simpl. rewrite Hq, Hret, Htxt. reflexivity.
      * other_thread T t u E.
  - (* G_get *)
    destruct (cache s (key_of V (thr s u))) as [r|] eqn:Hc; inversion H; subst s'; clear H.
    + split.
      * gframe Gbuild Hpc u.
      * intro t. unfold tinv at 1. simpl. split_thread t u.
        -- simpl. destruct (Gcache _ _ Hc). auto.
        -- other_thread T t u E.
    + split.
      * gframe Gbuild Hpc u.
      * intro t. unfold tinv at 1. simpl. split_thread t u.
        -- simpl. auto.
        -- other_thread T t u E.
  - (* G_pub *)
    inversion H; subst s'; clear H. split.
    + gsplit; auto.
      * gbuild Gbuild Hpc u.
      * intros k r H. unfold upd in *. destruct (k =? key_of V (thr s u)) eqn:Ek.
        -- inversion H. subst r. rewrite Z.eqb_refl. apply Z.eqb_eq in Ek. subst k. split; [lia|auto].
        -- destruct (Gcache _ _ H) as [Hlt Hh]. split; [lia|]. destruct (r =? next s) eqn:Er; auto.
           apply Z.eqb_eq in Er. lia.
    + intro t. unfold tinv at 1. simpl. split_thread t u.
      * simpl. repeat split; auto; try lia. now rewrite upd_same.
      * rewrite (upd_other _ _ _ _ _ E).
        pose proof (T t) as Tt. unfold tinv in Tt |- *.
        destruct (tpc (thr s t)); simpl in *; intuition (try congruence); try lia;
          rewrite upd_other; auto; lia.
  - (* G_use *)
    destruct Tu as ((ks & Hq & Hp) & Hlt & Hh).
    inversion H; subst s'; clear H. split.
    + gframe Gbuild Hpc u.
    + intro t. unfold tinv at 1. simpl. split_thread t u.
      * rewrite Hh.
        destruct (progress_consume _ _ _ G_get Hp) as [[Hd Ho]|[Hd Hp']]; rewrite Hd.
        -- rewrite Ho, Hq. reflexivity.
        -- exists ks. auto.
      * other_thread T t u E.
  - (* M_chk1 *)
    inversion H; subst s'; clear H. split.
    + gframe Gbuild Hpc u.
    + intro t. unfold tinv at 1. simpl. split_thread t u.
      * unfold key_of in *. destruct (memo s (hd 0 (todo (thr s u)))) eqn:Hm; simpl; auto.
        split; auto. congruence.
      * other_thread T t u E.
  - (* M_acq *)
    destruct (mlock s) as [w|] eqn:Hw; [discriminate|]. inversion H; subst s'; clear H.
    split.
    + gframe Gbuild Hpc u.
    + intro t. unfold tinv at 1. simpl. split_thread t u.
      * simpl. auto.
      * other_thread T t u E.
  - (* M_chk2 *)
    destruct Tu as (Hm & Hl).
    inversion H; subst s'; clear H. split.
    + gframe Gbuild Hpc u.
    + intro t. unfold tinv at 1. simpl. split_thread t u.
      * unfold key_of in *. destruct (memo s (hd 0 (todo (thr s u)))) eqn:Hmm; simpl; auto.
        repeat split; auto. congruence.
      * other_thread T t u E.
  - (* M_set *)
    destruct Tu as (Hm & Hl).
    inversion H; subst s'; clear H. split.
    + gsplit; auto.
      * gbuild Gbuild Hpc u.
      * intros k x Hx. unfold upd in Hx. destruct (k =? key_of V (thr s u)) eqn:Ek.
        -- apply Z.eqb_eq in Ek. subst k. congruence.
        -- eauto.
    + intro t. unfold tinv at 1. simpl. split_thread t u.
      * simpl. auto.
      * rewrite (upd_other _ _ _ _ _ E).
        pose proof (T t) as Tt. unfold tinv in Tt |- *.
        destruct (tpc (thr s t)); simpl in *; intuition (try congruence);
          unfold upd in *;
          match goal with
          | H : (if ?c then _ else _) = None |- _ => destruct c; [discriminate|auto]
          end.
  - (* M_relv *)
    destruct Tu as ((ks & Hq & Hp) & Hl).
    inversion H; subst s'; clear H. split.
    + gframe Gbuild Hpc u.
    + intro t. unfold tinv at 1. simpl. split_thread t u.
      * destruct (progress_consume _ _ _ M_chk1 Hp) as [[Hd Ho]|[Hd Hp']]; rewrite Hd.
        -- rewrite Ho, Hq. reflexivity.
        -- exists ks. auto.
      * other_thread T t u E.
  - (* M_rel *)
    destruct Tu as (Hm & Hl & Hne).
    inversion H; subst s'; clear H. split.
    + gframe Gbuild Hpc u.
    + intro t. unfold tinv at 1. simpl. split_thread t u.
      * simpl. auto.
      * other_thread T t u E.
  - (* M_get *)
    destruct Tu as ((ks & Hq & Hp) & Hne).
    destruct (memo s (key_of V (thr s u))) as [x|] eqn:Hm; [|congruence].
    inversion H; subst s'; clear H. split.
    + gframe Gbuild Hpc u.
    + intro t. unfold tinv at 1. simpl. split_thread t u.
      * rewrite (Gmemo _ _ Hm).
        destruct (progress_consume _ _ _ M_chk1 Hp) as [[Hd Ho]|[Hd Hp']]; rewrite Hd.
        -- rewrite Ho, Hq. reflexivity.
        -- exists ks. auto.
      * other_thread T t u E.
  - (* S_get *)
    destruct Tu as (ks & Hq & Hp).
    destruct (scache s (key_of V (thr s u))) as [[g x]|] eqn:Hc;
      [destruct (g =? ftag (key_of V (thr s u))) eqn:Eg|]; inversion H; subst s'; clear H.
    + apply Z.eqb_eq in Eg. split.
      * gframe Gbuild Hpc u.
      * intro t. unfold tinv at 1. simpl. split_thread t u.
        -- rewrite (Gsort _ _ _ Hc Eg).
           destruct (progress_consume _ _ _ S_get Hp) as [[Hd Ho]|[Hd Hp']]; rewrite Hd.
           ++ rewrite Ho, Hq. reflexivity.
           ++ exists ks. auto.
        -- other_thread T t u E.
    + split.
      * gframe Gbuild Hpc u.
      * intro t. unfold tinv at 1. simpl. split_thread t u.
        -- simpl. exists ks. auto.
        -- other_thread T t u E.
    + split.
      * gframe Gbuild Hpc u.
      * intro t. unfold tinv at 1. simpl. split_thread t u.
        -- simpl. exists ks. auto.
        -- other_thread T t u E.
  - (* S_set *)
    destruct Tu as (ks & Hq & Hp).
    inversion H; subst s'; clear H. split.
    + gsplit; auto.
      * gbuild Gbuild Hpc u.
      * intros k g x Hx Hg. unfold upd in Hx. destruct (k =? key_of V (thr s u)) eqn:Ek.
        -- apply Z.eqb_eq in Ek. subst k. congruence.
        -- eauto.
    + intro t. unfold tinv at 1. simpl. split_thread t u.
      * destruct (progress_consume _ _ _ S_get Hp) as [[Hd Ho]|[Hd Hp']]; rewrite Hd.
        -- rewrite Ho, Hq. reflexivity.
        -- exists ks. auto.
      * other_thread T t u E.
  - (* Done *) discriminate.
Qed.

Lemma run_inv : forall sched s s', inv s -> run Repaired reqs sched s = Some s' -> inv s'.
Proof.
  induction sched as [|t r IH]; simpl; intros s s' Hi H.
  - inversion H; subst; auto.
  - destruct (step Repaired reqs s t) as [s1|] eqn:Hs; [|discriminate].
    eapply IH; [|exact H]. eapply step_inv; eauto.
Qed.

Theorem reachable_inv : forall sched s,
  run Repaired reqs sched (init Repaired reqs) = Some s -> inv s.
Proof. intros. eapply run_inv; [apply inv_init|eauto]. Qed.

End Proofs.
