(** C12 — concurrency model (layer L7).  Definitions only.

    An interleaving transition system for an ARBITRARY number of threads
    (thread identifiers are integers; every integer is a thread, most of them
    idle) over the shared variables the code actually has.  One model step =
    one access to a shared variable; everything a thread does between two
    accesses is thread-local and is folded into the step.

    Mirrors (file:function):
      spyne/server/wsgi.py:WsgiApplication.handle_wsdl_request   (W_* points)
      spyne/interface/wsdl/wsdl11.py:Wsdl11.get_interface_document /
                                     build_interface_document    (W_get*, W_build, W_bend)
      spyne/protocol/xml.py:XmlDocument.__validate_lxml          (V_* points)
      spyne/protocol/_base.py:ProtocolBase.get_cls_attrs         (G_* points)
      spyne/util/memo.py:memoize.__call__                        (M_* points)
      spyne/protocol/_base.py:ProtocolBase.sort_fields           (S_* points; the same lock-free
                                     check-then-set shape as spyne/util/cdict.py:cdict.__getitem__)

    Two variants of the program text are modelled side by side:
      [Pinned]   the code as found in the snapshot,
      [Repaired] the code after the three proposed `fix:` commits
                 (no write of app._wsdl outside the lock; attribute dictionary
                 published only when complete; validate+read error_log under a lock).  *)
From SpyneV Require Export Base.Prelude.

Definition upd {A} (f : Z -> A) (k : Z) (v : A) : Z -> A :=
  fun x => if x =? k then v else f x.

Inductive variant := Pinned | Repaired.

(** What a thread was asked to do. *)
Inductive req :=
| RIdle                                  (* no request: the thread never runs *)
| RWsdl                                  (* GET ...?wsdl *)
| RValidate (ok : bool) (e : Z)          (* schema-validate a payload; [e] names the error text libxml
                                            produces for THIS payload when it is invalid *)
| RValidateX (e : Z)                     (* schema-validate a payload on which validate() ITSELF raises
                                            XMLSchemaValidateError (e.g. an unresolved entity reference left in
                                            the tree); [e] names the text of that internal error *)
| RAttrs (ks : list Z)                   (* look up and use the protocol attributes of classes ks, in order *)
| RMemo (ks : list Z)                    (* call a @memoize'd function on keys ks, in order *)
| RSort (ks : list Z).                   (* prot.sort_fields(cls) for classes ks, in order *)

(** Program points: the NEXT shared access the thread will perform. *)
Inductive pc :=
(* handle_wsdl_request, pinned pre-check *)
| W_chk1      (* if self._wsdl is None:                                   read app._wsdl *)
| W_get1      (*     ... get_interface_document(): return self.__wsdl     read wsdl11.__wsdl *)
| W_store1    (*     self._wsdl = <that>                                  write app._wsdl, NO lock held *)
| W_read1     (* ctx.transport.wsdl = self._wsdl                          read app._wsdl *)
(* handle_wsdl_request, repaired pre-check *)
| W_readr     (* ctx.transport.wsdl = self._wsdl                          read app._wsdl *)
| W_getr      (* ctx.transport.wsdl = ...get_interface_document()         read wsdl11.__wsdl *)
(* common: the locked section *)
| W_acq       (* self._mtx_build_interface_document.acquire() *)
| W_read2     (* ctx.transport.wsdl = self._wsdl                          read app._wsdl *)
| W_build     (* build_interface_document(url) starts: builder fields are reset/filled *)
| W_bend      (* self.__wsdl = etree.tostring(...)                        write wsdl11.__wsdl *)
| W_get2      (* ... = self.doc.wsdl11.get_interface_document()           read wsdl11.__wsdl *)
| W_store2    (* ctx.transport.wsdl = self._wsdl = <that>                 write app._wsdl *)
| W_rel       (* finally: release(); then the reply is written from ctx.transport.wsdl *)
(* __validate_lxml *)
| V_acq       (* repaired only: with self._validation_lock: *)
| V_val       (* ret = self.validation_schema.validate(payload)           writes schema.error_log *)
| V_log       (* if ret == False: ...error_log.last_error                 read schema.error_log *)
| V_rel       (* repaired only: leave the with block *)
(* get_cls_attrs + the caller's use of the returned dictionary *)
| G_get       (* attr = self._attrcache.get(cls, None)                    read cache *)
| G_pub       (* self._attrcache[cls] = attr (pinned: base attributes only; repaired: complete) *)
| G_upd1      (* pinned only: attr.update(cls_attrs)   on the ALREADY PUBLISHED dictionary *)
| G_upd2      (* pinned only: attr.update(inst_attrs)  on the ALREADY PUBLISHED dictionary *)
| G_use       (* the caller reads the dictionary it was given *)
(* memoize.__call__ *)
| M_chk1      (* if not key in self.memo:                                 read memo *)
| M_acq       (*     with self.lock:   (RLock; one call per thread at a time, so re-entrancy is not exercised) *)
| M_chk2      (*         if not key in self.memo:                         read memo *)
| M_set       (*             value = self.func(..); self.memo[key] = value   write memo *)
| M_relv      (*             return value      (leaving the with block releases the lock) *)
| M_rel       (*     (entry was present at the second check) leaving the with block releases the lock *)
| M_get       (* return self.memo.get(key)                                read memo *)
(* sort_fields (no lock at all: a check-then-set of a value computed from frozen data) *)
| S_get       (* fti = cls.get_flat_type_info(cls); entry = self._sortcache.get(cls, None)
                 if entry is not None and entry[0] is fti: return entry[1]                        read cache *)
| S_set       (* items = ...; items.sort(...); self._sortcache[cls] = fti, items; return items   write cache *)
| Done.

Section Model.
(** The value universe of the caches is abstract: theorems hold for every
    attribute universe, every base-attribute table, every pair of override
    functions and every memoised function. *)
Variable V : Type.
Variable base : Z -> V.            (* DefaultAttrDict built from cls.Attributes *)
Variable over1 over2 : Z -> V -> V.  (* .update(prot_attrs[protocol class]) / .update(prot_attrs[protocol instance]) *)
Variable has_prot : Z -> bool.     (* bool(cls.Attributes.prot_attrs) *)
Variable mf : Z -> V.              (* the (pure) function wrapped by @memoize *)
Variable pre : bool.               (* the WSDL was built at start-up (wsgi_app.doc.wsdl11.build_interface_document(url),
                                      the usage the class documents) before the first request *)
Variable sf : Z -> V.              (* the sorted field list of a class: computed from cls.get_flat_type_info and
                                      the COMPLETE attributes of the field types (get_cls_attrs(v).order) *)
Variable ftag : Z -> Z.            (* identity of the (memoized) flat type info a class has while requests are
                                      processed; append_field / insert_field / customize drop the memoized
                                      object at start-up, so a list cached before carries another identity *)
Variable sc0 : Z -> option (Z * V).  (* what _sortcache holds when the first request arrives (lists cached by
                                      start-up code, possibly for a field table the class no longer has) *)

Definition full (k : Z) : V :=
  if has_prot k then over2 k (over1 k (base k)) else base k.

(** What the caller finally got.  Documents are named by the number of
    build_interface_document executions that had started before the one that
    produced them: document 0 is the one a sequential first request builds; a
    later build runs over builder dictionaries (port_type_dict,
    service_elt_dict) already filled by the earlier one and serialises a
    different tree. *)
Inductive resp :=
| PWsdl (d : option Z)
| PValid
| PFault (e : option Z)        (* the error text put in the fault: None = str(None), Some e = text of error e *)
| PCrash                       (* an exception that is not a Fault escapes __validate_lxml (snapshot only) *)
| PVals (vs : list V).

Record tstate := {
  tpc : pc;
  lw : option Z;     (* ctx.transport.wsdl / the value returned by get_interface_document *)
  gen : Z;           (* which build this thread is running *)
  ret : bool;        (* ret of validate() *)
  txt : option Z;    (* error text read from the log *)
  todo : list Z;     (* keys still to look up *)
  ref : Z;           (* reference to the attribute dictionary it was given *)
  obs : list V;      (* values observed so far *)
  out : option resp
}.

Record state := {
  app_wsdl : option Z;      (* WsgiApplication._wsdl *)
  b_wsdl : option Z;        (* Wsdl11.__wsdl *)
  b_gen : Z;                (* number of build_interface_document executions started *)
  wlock : option Z;         (* _mtx_build_interface_document: owner *)
  cache : Z -> option Z;    (* _attrcache: class -> reference *)
  heap : Z -> V;            (* contents of the published dictionaries *)
  next : Z;                 (* allocation counter *)
  errlog : option Z;        (* validation_schema.error_log.last_error *)
  vlock : option Z;         (* repaired only: the validation lock *)
  memo : Z -> option V;     (* memoize.memo *)
  mlock : option Z;         (* memoize.lock *)
  scache : Z -> option (Z * V);  (* _sortcache: class -> (identity of the flat type info the list was computed
                                    from, sorted field list) *)
  thr : Z -> tstate
}.

Definition set_pc (th : tstate) (p : pc) : tstate :=
  {| tpc := p; lw := lw th; gen := gen th; ret := ret th; txt := txt th; todo := todo th;
     ref := ref th; obs := obs th; out := out th |}.
Definition set_lw (th : tstate) (p : pc) (v : option Z) : tstate :=
  {| tpc := p; lw := v; gen := gen th; ret := ret th; txt := txt th; todo := todo th;
     ref := ref th; obs := obs th; out := out th |}.
Definition set_gen (th : tstate) (p : pc) (g : Z) : tstate :=
  {| tpc := p; lw := lw th; gen := g; ret := ret th; txt := txt th; todo := todo th;
     ref := ref th; obs := obs th; out := out th |}.
Definition set_ret (th : tstate) (p : pc) (b : bool) : tstate :=
  {| tpc := p; lw := lw th; gen := gen th; ret := b; txt := txt th; todo := todo th;
     ref := ref th; obs := obs th; out := out th |}.
Definition set_txt (th : tstate) (p : pc) (x : option Z) : tstate :=
  {| tpc := p; lw := lw th; gen := gen th; ret := ret th; txt := x; todo := todo th;
     ref := ref th; obs := obs th; out := out th |}.
Definition set_ref (th : tstate) (p : pc) (r : Z) : tstate :=
  {| tpc := p; lw := lw th; gen := gen th; ret := ret th; txt := txt th; todo := todo th;
     ref := r; obs := obs th; out := out th |}.
Definition finish (th : tstate) (r : resp) : tstate :=
  {| tpc := Done; lw := lw th; gen := gen th; ret := ret th; txt := txt th; todo := todo th;
     ref := ref th; obs := obs th; out := Some r |}.
(** one key consumed with observed value [v]; finished when no key is left *)
Definition consume (th : tstate) (again : pc) (v : V) : tstate :=
  let o := obs th ++ [v] in
  match tl (todo th) with
  | [] => {| tpc := Done; lw := lw th; gen := gen th; ret := ret th; txt := txt th; todo := [];
             ref := ref th; obs := o; out := Some (PVals o) |}
  | r => {| tpc := again; lw := lw th; gen := gen th; ret := ret th; txt := txt th; todo := r;
            ref := ref th; obs := o; out := None |}
  end.

Definition with_thr (s : state) (t : Z) (th : tstate) : state :=
  {| app_wsdl := app_wsdl s; b_wsdl := b_wsdl s; b_gen := b_gen s; wlock := wlock s;
     cache := cache s; heap := heap s; next := next s; errlog := errlog s; vlock := vlock s;
     memo := memo s; mlock := mlock s; scache := scache s; thr := upd (thr s) t th |}.
Definition with_app (s : state) (v : option Z) : state :=
  {| app_wsdl := v; b_wsdl := b_wsdl s; b_gen := b_gen s; wlock := wlock s;
     cache := cache s; heap := heap s; next := next s; errlog := errlog s; vlock := vlock s;
     memo := memo s; mlock := mlock s; scache := scache s; thr := thr s |}.
Definition with_b (s : state) (v : option Z) : state :=
  {| app_wsdl := app_wsdl s; b_wsdl := v; b_gen := b_gen s; wlock := wlock s;
     cache := cache s; heap := heap s; next := next s; errlog := errlog s; vlock := vlock s;
     memo := memo s; mlock := mlock s; scache := scache s; thr := thr s |}.
Definition with_gen (s : state) (g : Z) : state :=
  {| app_wsdl := app_wsdl s; b_wsdl := b_wsdl s; b_gen := g; wlock := wlock s;
     cache := cache s; heap := heap s; next := next s; errlog := errlog s; vlock := vlock s;
     memo := memo s; mlock := mlock s; scache := scache s; thr := thr s |}.
Definition with_wlock (s : state) (l : option Z) : state :=
  {| app_wsdl := app_wsdl s; b_wsdl := b_wsdl s; b_gen := b_gen s; wlock := l;
     cache := cache s; heap := heap s; next := next s; errlog := errlog s; vlock := vlock s;
     memo := memo s; mlock := mlock s; scache := scache s; thr := thr s |}.
(** allocate a new dictionary with content [v] and publish it under key [k] *)
Definition with_pub (s : state) (k : Z) (v : V) : state :=
  {| app_wsdl := app_wsdl s; b_wsdl := b_wsdl s; b_gen := b_gen s; wlock := wlock s;
     cache := upd (cache s) k (Some (next s)); heap := upd (heap s) (next s) v; next := next s + 1;
     errlog := errlog s; vlock := vlock s; memo := memo s; mlock := mlock s; scache := scache s; thr := thr s |}.
Definition with_heap (s : state) (r : Z) (v : V) : state :=
  {| app_wsdl := app_wsdl s; b_wsdl := b_wsdl s; b_gen := b_gen s; wlock := wlock s;
     cache := cache s; heap := upd (heap s) r v; next := next s;
     errlog := errlog s; vlock := vlock s; memo := memo s; mlock := mlock s; scache := scache s; thr := thr s |}.
Definition with_errlog (s : state) (e : option Z) : state :=
  {| app_wsdl := app_wsdl s; b_wsdl := b_wsdl s; b_gen := b_gen s; wlock := wlock s;
     cache := cache s; heap := heap s; next := next s; errlog := e; vlock := vlock s;
     memo := memo s; mlock := mlock s; scache := scache s; thr := thr s |}.
Definition with_vlock (s : state) (l : option Z) : state :=
  {| app_wsdl := app_wsdl s; b_wsdl := b_wsdl s; b_gen := b_gen s; wlock := wlock s;
     cache := cache s; heap := heap s; next := next s; errlog := errlog s; vlock := l;
     memo := memo s; mlock := mlock s; scache := scache s; thr := thr s |}.
Definition with_memo (s : state) (k : Z) (v : V) : state :=
  {| app_wsdl := app_wsdl s; b_wsdl := b_wsdl s; b_gen := b_gen s; wlock := wlock s;
     cache := cache s; heap := heap s; next := next s; errlog := errlog s; vlock := vlock s;
     memo := upd (memo s) k (Some v); mlock := mlock s; scache := scache s; thr := thr s |}.
Definition with_scache (s : state) (k : Z) (v : Z * V) : state :=
  {| app_wsdl := app_wsdl s; b_wsdl := b_wsdl s; b_gen := b_gen s; wlock := wlock s;
     cache := cache s; heap := heap s; next := next s; errlog := errlog s; vlock := vlock s;
     memo := memo s; mlock := mlock s; scache := upd (scache s) k (Some v); thr := thr s |}.
Definition with_mlock (s : state) (l : option Z) : state :=
  {| app_wsdl := app_wsdl s; b_wsdl := b_wsdl s; b_gen := b_gen s; wlock := wlock s;
     cache := cache s; heap := heap s; next := next s; errlog := errlog s; vlock := vlock s;
     memo := memo s; mlock := l; scache := scache s; thr := thr s |}.

Definition is_none {A} (o : option A) : bool := match o with None => true | Some _ => false end.

(** first program point of a request *)
Definition tinit (v : variant) (q : req) : tstate :=
  let mk p ks o := {| tpc := p; lw := None; gen := 0; ret := true; txt := None; todo := ks;
                      ref := 0; obs := []; out := o |} in
  match q with
  | RIdle => mk Done [] None
  | RWsdl => mk (match v with Pinned => W_chk1 | Repaired => W_readr end) [] None
  | RValidate _ _ | RValidateX _ => mk (match v with Pinned => V_val | Repaired => V_acq end) [] None
  | RAttrs [] => mk Done [] (Some (PVals []))
  | RAttrs ks => mk G_get ks None
  | RMemo [] => mk Done [] (Some (PVals []))
  | RMemo ks => mk M_chk1 ks None
  | RSort [] => mk Done [] (Some (PVals []))
  | RSort ks => mk S_get ks None
  end.

Definition init (v : variant) (reqs : Z -> req) : state :=
  {| app_wsdl := None; b_wsdl := (if pre then Some 0 else None); b_gen := (if pre then 1 else 0); wlock := None;
     cache := fun _ => None; heap := fun _ => base 0; next := 0;
     errlog := None; vlock := None; memo := fun _ => None; mlock := None;
     scache := sc0; thr := fun t => tinit v (reqs t) |}.

Definition key_of (th : tstate) : Z := hd 0 (todo th).

(** One step of thread [t]: [None] when the thread is finished or blocked on a lock. *)
Definition step (v : variant) (reqs : Z -> req) (s : state) (t : Z) : option state :=
  let th := thr s t in
  let k := key_of th in
  match tpc th with
  (* ---- handle_wsdl_request: pinned pre-check (wsgi.py: "if self._wsdl is None: self._wsdl = ...") *)
  | W_chk1 => Some (with_thr s t (set_pc th (if is_none (app_wsdl s) then W_get1 else W_read1)))
  | W_get1 => Some (with_thr s t (set_lw th W_store1 (b_wsdl s)))
  | W_store1 => Some (with_thr (with_app s (lw th)) t (set_pc th W_read1))
  | W_read1 =>
      Some (with_thr s t (match app_wsdl s with
                          | None => set_lw th W_acq None
                          | Some d => finish (set_lw th Done (Some d)) (PWsdl (Some d))
                          end))
  (* ---- repaired pre-check: reads only *)
  | W_readr =>
      Some (with_thr s t (match app_wsdl s with
                          | None => set_lw th W_getr None
                          | Some d => finish (set_lw th Done (Some d)) (PWsdl (Some d))
                          end))
  | W_getr =>
      Some (with_thr s t (match b_wsdl s with
                          | None => set_lw th W_acq None
                          | Some d => finish (set_lw th Done (Some d)) (PWsdl (Some d))
                          end))
  (* ---- the locked section *)
  | W_acq => match wlock s with
             | None => Some (with_thr (with_wlock s (Some t)) t (set_pc th W_read2))
             | Some _ => None
             end
  | W_read2 => Some (with_thr s t (set_lw th (if is_none (app_wsdl s) then W_build else W_rel) (app_wsdl s)))
  | W_build => Some (with_thr (with_gen s (b_gen s + 1)) t (set_gen th W_bend (b_gen s)))
  | W_bend => Some (with_thr (with_b s (Some (gen th))) t (set_pc th W_get2))
  | W_get2 => Some (with_thr s t (set_lw th W_store2 (b_wsdl s)))
  | W_store2 => Some (with_thr (with_app s (lw th)) t (set_pc th W_rel))
  | W_rel => Some (with_thr (with_wlock s None) t (finish th (PWsdl (lw th))))
  (* ---- __validate_lxml *)
  | V_acq => match vlock s with
             | None => Some (with_thr (with_vlock s (Some t)) t (set_pc th V_val))
             | Some _ => None
             end
  | V_val =>
      match reqs t with
      | RValidate ok e =>
          let s1 := with_errlog s (if ok then None else Some e) in
          Some (with_thr s1 t
                  (if ok then match v with
                              | Pinned => finish (set_ret th Done true) PValid
                              | Repaired => set_ret th V_rel true
                              end
                   else set_ret th V_log false))
      | RValidateX e =>
          (* validate() raises after filling the log: the with block is left (lock released), the
             except clause turns the exception into the fault, whose text comes from the exception
             object (thread-local), not from the shared log.  The snapshot has no except clause. *)
          let s1 := with_errlog s (Some e) in
          Some (with_thr s1 t
                  (match v with
                   | Pinned => finish (set_ret th Done false) PCrash
                   | Repaired => set_txt (set_ret th V_rel false) V_rel (Some e)
                   end))
      | _ => None
      end
  | V_log =>
      Some (with_thr s t (match v with
                          | Pinned => finish (set_txt th Done (errlog s)) (PFault (errlog s))
                          | Repaired => set_txt th V_rel (errlog s)
                          end))
  | V_rel => Some (with_thr (with_vlock s None) t
                     (finish th (if ret th then PValid else PFault (txt th))))
  (* ---- get_cls_attrs *)
  | G_get => match cache s k with
             | Some r => Some (with_thr s t (set_ref th G_use r))
             | None => Some (with_thr s t (set_pc th G_pub))
             end
  | G_pub =>
      match v with
      | Pinned => Some (with_thr (with_pub s k (base k)) t
                          (set_ref th (if has_prot k then G_upd1 else G_use) (next s)))
      | Repaired => Some (with_thr (with_pub s k (full k)) t (set_ref th G_use (next s)))
      end
  | G_upd1 => Some (with_thr (with_heap s (ref th) (over1 k (heap s (ref th)))) t (set_pc th G_upd2))
  | G_upd2 => Some (with_thr (with_heap s (ref th) (over2 k (heap s (ref th)))) t (set_pc th G_use))
  | G_use => Some (with_thr s t (consume th G_get (heap s (ref th))))
  (* ---- memoize.__call__ *)
  | M_chk1 => Some (with_thr s t (set_pc th (if is_none (memo s k) then M_acq else M_get)))
  | M_acq => match mlock s with
             | None => Some (with_thr (with_mlock s (Some t)) t (set_pc th M_chk2))
             | Some _ => None
             end
  | M_chk2 => Some (with_thr s t (set_pc th (if is_none (memo s k) then M_set else M_rel)))
  | M_set => Some (with_thr (with_memo s k (mf k)) t (set_pc th M_relv))
  | M_relv => (* "return value" inside the with block: releases, returns the local value *)
      Some (with_thr (with_mlock s None) t (consume th M_chk1 (mf k)))
  | M_rel => Some (with_thr (with_mlock s None) t (set_pc th M_get))
  | M_get => match memo s k with
             | Some x => Some (with_thr s t (consume th M_chk1 x))
             | None => Some (with_thr s t (finish th (PFault None)))   (* dict.get -> None: a wrong answer *)
             end
  (* ---- sort_fields: the list object read at the check is the one returned *)
  | S_get => match scache s k with
             | Some (g, x) =>
                 (* entry is not None and entry[0] is fti: the list is returned only if it was computed
                    from the field table the class has NOW; otherwise it is computed again *)
                 if g =? ftag k then Some (with_thr s t (consume th S_get x))
                 else Some (with_thr s t (set_pc th S_set))
             | None => Some (with_thr s t (set_pc th S_set))
             end
  | S_set => Some (with_thr (with_scache s k (ftag k, sf k)) t (consume th S_get (sf k)))
  | Done => None
  end.

Fixpoint run (v : variant) (reqs : Z -> req) (sched : list Z) (s : state) : option state :=
  match sched with
  | [] => Some s
  | t :: r => match step v reqs s t with
              | Some s' => run v reqs r s'
              | None => None
              end
  end.

(** the response the request gets when it is processed alone *)
Definition alone (q : req) : option resp :=
  match q with
  | RIdle => None
  | RWsdl => Some (PWsdl (Some 0))
  | RValidate ok e => Some (if ok then PValid else PFault (Some e))
  | RValidateX e => Some (PFault (Some e))
  | RAttrs ks => Some (PVals (map full ks))
  | RMemo ks => Some (PVals (map mf ks))
  | RSort ks => Some (PVals (map sf ks))
  end.

(** a thread can move *)
Definition enabled (v : variant) (reqs : Z -> req) (s : state) (t : Z) : bool :=
  match step v reqs s t with Some _ => true | None => false end.

End Model.

Arguments tpc {V}. Arguments lw {V}. Arguments gen {V}. Arguments ret {V}. Arguments txt {V}.
Arguments todo {V}. Arguments ref {V}. Arguments obs {V}. Arguments out {V}.
Arguments app_wsdl {V}. Arguments b_wsdl {V}. Arguments b_gen {V}. Arguments wlock {V}.
Arguments cache {V}. Arguments heap {V}. Arguments next {V}. Arguments errlog {V}.
Arguments vlock {V}. Arguments memo {V}. Arguments mlock {V}. Arguments scache {V}. Arguments thr {V}.
Arguments PWsdl {V}. Arguments PValid {V}. Arguments PFault {V}. Arguments PCrash {V}. Arguments PVals {V}.
