(** C12 — every statement outside __init__ that writes instance state of an object shared by all
    threads (application, interface, protocols, transports, document builders; the per-request
    contexts are excluded), as found when the model was written.  Definitions only.

    Filled at REQUEST time, and therefore modelled (coq/C12/Model.v):
      ProtocolMixin.get_cls_attrs  (_attrcache),  ProtocolMixin.sort_fields (_sortcache),
      WsgiApplication.handle_wsdl_request (_wsdl), and - inside the build lock - everything
      Wsdl11.build_interface_document / XmlSchema.build_schema_nodes and their helpers assign
      (the build starts by emptying port_type_dict, binding_dict and service_elt_dict, so that a
      build after one that failed half way does not reuse the nodes of the abandoned document).
    Interface.get_namespace_prefix runs while the interface is populated (every class namespace
    gets its prefix in add_class) and inside the build lock; a request only reaches its
    allocating branch for a namespace no registered class has.
    Everything else is start-up configuration (set_app, set_validator, reset_interface,
    populate_interface, process_method, property setters of HttpPattern / JsonDocument).

    harness/translate/conctext.py regenerates the list on every run (Gen/ConcText.v:
    g_state_writers); Props/C12.v proves it equal to this one, so a new lazily filled table or
    cache on a shared object breaks an obligation until it has been examined. *)
From Coq Require Import String List.

Definition state_writers_expected : list string := (
  "interface/_base.py:Interface.add_class:self.classes[]=" ::
  "interface/_base.py:Interface.add_class:self.imports[]=" ::
  "interface/_base.py:Interface.add_class:self.member_methods.append()" ::
  "interface/_base.py:Interface.documents:self.docs=" ::
  "interface/_base.py:Interface.get_namespace_prefix:self.__ns_counter=" ::
  "interface/_base.py:Interface.get_namespace_prefix:self.nsmap[]=" ::
  "interface/_base.py:Interface.get_namespace_prefix:self.prefmap[]=" ::
  "interface/_base.py:Interface.populate_interface:self.method_descriptor_id_to_key=" ::
  "interface/_base.py:Interface.process_method:self.method_id_map[]=" ::
  "interface/_base.py:Interface.process_method:self.service_method_map[]=" ::
  "interface/_base.py:Interface.reset_interface:self.classes=" ::
  "interface/_base.py:Interface.reset_interface:self.deps=" ::
  "interface/_base.py:Interface.reset_interface:self.imports=" ::
  "interface/_base.py:Interface.reset_interface:self.member_methods=" ::
  "interface/_base.py:Interface.reset_interface:self.method_id_map=" ::
  "interface/_base.py:Interface.reset_interface:self.nsmap=" ::
  "interface/_base.py:Interface.reset_interface:self.nsmap[]=" ::
  "interface/_base.py:Interface.reset_interface:self.prefmap=" ::
  "interface/_base.py:Interface.reset_interface:self.prefmap[]=" ::
  "interface/_base.py:Interface.reset_interface:self.service_method_map=" ::
  "interface/_base.py:Interface.set_app:self.__app=" ::
  "interface/wsdl/wsdl11.py:Wsdl11._get_or_create_binding:self.binding_dict[]=" ::
  "interface/wsdl/wsdl11.py:Wsdl11._get_or_create_port_type:self.port_type_dict[]=" ::
  "interface/wsdl/wsdl11.py:Wsdl11._get_or_create_service_node:self.service_elt_dict[]=" ::
  "interface/wsdl/wsdl11.py:Wsdl11.build_interface_document:self.__wsdl=" ::
  "interface/wsdl/wsdl11.py:Wsdl11.build_interface_document:self.binding_dict=" ::
  "interface/wsdl/wsdl11.py:Wsdl11.build_interface_document:self.port_type_dict=" ::
  "interface/wsdl/wsdl11.py:Wsdl11.build_interface_document:self.root_elt=" ::
  "interface/wsdl/wsdl11.py:Wsdl11.build_interface_document:self.root_tree=" ::
  "interface/wsdl/wsdl11.py:Wsdl11.build_interface_document:self.service_elt_dict=" ::
  "interface/wsdl/wsdl11.py:Wsdl11.build_interface_document:self.url=" ::
  "interface/xml_schema/_base.py:XmlSchema.build_schema_nodes:self.schema_dict=" ::
  "interface/xml_schema/_base.py:XmlSchema.build_validation_schema:self.validation_schema=" ::
  "interface/xml_schema/_base.py:XmlSchema.get_schema_info:self.namespaces[]=" ::
  "interface/xml_schema/_base.py:XmlSchema.get_schema_node:self.schema_dict[]=" ::
  "protocol/_base.py:ProtocolMixin.get_cls_attrs:self._attrcache[]=" ::
  "protocol/_base.py:ProtocolMixin.set_app:self.__app=" ::
  "protocol/_base.py:ProtocolMixin.sort_fields:self._sortcache[]=" ::
  "protocol/_inbase.py:InProtocolBase.set_validator:self.validator=" ::
  "protocol/_outbase.py:OutProtocolBase.set_validator:self.validator=" ::
  "protocol/dictdoc/_base.py:DictDocument.set_validator:self.validator=" ::
  "protocol/http.py:HttpPattern.address:self.__address=" ::
  "protocol/http.py:HttpPattern.address:self.address_b_re=" ::
  "protocol/http.py:HttpPattern.address:self.address_re=" ::
  "protocol/http.py:HttpPattern.hello:self.address=" ::
  "protocol/http.py:HttpPattern.hello:self.address_b_re=" ::
  "protocol/http.py:HttpPattern.hello:self.address_re=" ::
  "protocol/http.py:HttpPattern.host:self.__host=" ::
  "protocol/http.py:HttpPattern.host:self.host_b_re=" ::
  "protocol/http.py:HttpPattern.host:self.host_re=" ::
  "protocol/http.py:HttpPattern.verb:self.__verb=" ::
  "protocol/http.py:HttpPattern.verb:self.verb_b_re=" ::
  "protocol/http.py:HttpPattern.verb:self.verb_re=" ::
  "protocol/http.py:HttpRpc.set_tmp_delete_on_close:self.__tmp_delete_on_close=" ::
  "protocol/http.py:HttpRpc.set_tmp_delete_on_close:self.stream_factory=" ::
  "protocol/http.py:HttpRpc.set_validator:self.validator=" ::
  "protocol/json.py:JsonDocument.message:self.__message=" ::
  "protocol/json.py:JsonDocument.message:self.kwargs[]=" ::
  "protocol/xml.py:XmlDocument.set_app:self.validation_schema=" ::
  "protocol/xml.py:XmlDocument.set_validator:self.validate_document=" ::
  "protocol/xml.py:XmlDocument.set_validator:self.validation_schema=" ::
  "protocol/xml.py:XmlDocument.set_validator:self.validator=" ::
  "server/wsgi.py:WsgiApplication.handle_wsdl_request:self._wsdl=" ::
  nil)%string.
