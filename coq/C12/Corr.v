(** C12 — the instance of the model used by the correspondence check and by the
    refutation witnesses (attribute values are integers), the access events the model
    emits, and the comparison functions of the case files.  Definitions only. *)
From SpyneV Require Export Base.Prelude C12.Model.

(** attribute universe of harness/c12.py: class k has base attributes 10k; odd classes
    carry prot_attrs: the protocol-class override adds 1, the protocol-instance override 2 *)
Definition cbase (k : Z) : Z := 10 * k.
Definition cover1 (k v : Z) : Z := v + 1.
Definition cover2 (k v : Z) : Z := v + 2.
Definition chas (k : Z) : bool := Z.odd k.
Definition cmf (k : Z) : Z := 7 * k + 3.
(** sort_fields: class k declares three fields whose `order` attributes put them in the
    (k mod 6)-th permutation; the harness encodes the list it got back as 100k + that index *)
Definition cstale (k : Z) : bool := (k =? 0) || (k =? 4).
Definition csf (k : Z) : Z := 100 * k + k mod 6 + (if cstale k then 50 else 0).
(** classes 0 and 4: the harness sorts them once at start-up and THEN appends a fourth field, so the
    request threads find a list cached for a field table the class no longer has (identity 0; the
    current flat type info has identity 1) *)
Definition cftag (k : Z) : Z := 1.
Definition csc0 (k : Z) : option (Z * Z) := if cstale k then Some (0, 100 * k + k mod 6) else None.

Notation cstep := (step Z cbase cover1 cover2 chas cmf csf cftag).
Notation crun := (run Z cbase cover1 cover2 chas cmf csf cftag).
Notation cinit := (fun pre => init Z cbase pre csc0).
Notation calone := (alone Z cbase cover1 cover2 chas cmf csf).

Definition enc (o : option Z) : Z := match o with None => -1 | Some d => d end.
Definition b2z (b : bool) : Z := if b then 1 else 0.

(** the shared access thread [t] performs next: (kind, a, b), same numbering as harness/c12.py *)
Definition event (v : variant) (reqs : Z -> req) (s : state Z) (t : Z) : Z * Z * Z :=
  let th := thr s t in
  let k := key_of Z th in
  match tpc th with
  | W_chk1 | W_read1 | W_readr | W_read2 => (1, enc (app_wsdl s), 0)
  | W_get1 | W_getr | W_get2 => (2, enc (b_wsdl s), 0)
  | W_store1 | W_store2 => (3, enc (lw th), 0)
  | W_acq => (4, 0, 0)
  | W_build => (5, b_gen s, 0)
  | W_bend => (6, gen th, 0)
  | W_rel => (7, 0, 0)
  | V_acq => (8, 0, 0)
  | V_val => (9, match reqs t with RValidate ok _ => b2z ok | RValidateX _ => -1 | _ => -9 end, 0)
  | V_log => (10, enc (errlog s), 0)
  | V_rel => (11, 0, 0)
  | G_get => (12, k, b2z (negb (is_none (cache s k))))
  | G_pub => (13, k, match v with Pinned => cbase k | Repaired => full Z cbase cover1 cover2 chas k end)
  | G_upd1 => (14, k, 0)
  | G_upd2 => (15, k, 0)
  | G_use => (16, k, heap s (ref th))
  | M_chk1 | M_chk2 => (17, k, b2z (negb (is_none (memo s k))))
  | M_acq => (18, 0, 0)
  | M_set => (20, k, cmf k)
  | M_relv | M_rel => (21, 0, 0)
  | M_get => (22, k, enc (memo s k))
  | S_get => (23, k, match scache s k with Some (_, x) => x | None => -1 end)
  | S_set => (24, k, csf k)
  | Done => (0, 0, 0)
  end.

(** run a schedule, collecting (thread, kind, a, b) *)
Fixpoint run_trace (v : variant) (reqs : Z -> req) (sched : list Z) (s : state Z)
  : option (list (Z * Z * Z * Z) * state Z) :=
  match sched with
  | [] => Some ([], s)
  | t :: r =>
      let '(c, a, b) := event v reqs s t in
      match cstep v reqs s t with
      | Some s' => match run_trace v reqs r s' with
                   | Some (tr, s2) => Some ((t, c, a, b) :: tr, s2)
                   | None => None
                   end
      | None => None
      end
  end.

Fixpoint nth_req (l : list req) (t : Z) : req :=
  match l with
  | [] => RIdle
  | q :: r => if t =? 0 then q else if t <? 0 then RIdle else nth_req r (t - 1)
  end.

Definition ev_eqb (x y : Z * Z * Z * Z) : bool :=
  let '(t, c, a, b) := x in let '(t', c', a', b') := y in
  (t =? t') && (c =? c') && (a =? a') && (b =? b').
Fixpoint list_eqb {A} (e : A -> A -> bool) (x y : list A) : bool :=
  match x, y with
  | [], [] => true
  | a :: x', b :: y' => e a b && list_eqb e x' y'
  | _, _ => false
  end.
Definition optz_eqb (x y : option Z) : bool :=
  match x, y with None, None => true | Some a, Some b => a =? b | _, _ => false end.
Definition resp_eqb (x y : resp Z) : bool :=
  match x, y with
  | PWsdl a, PWsdl b => optz_eqb a b
  | PValid, PValid => true
  | PFault a, PFault b => optz_eqb a b
  | PCrash, PCrash => true
  | PVals a, PVals b => list_eqb Z.eqb a b
  | _, _ => false
  end.
Definition optresp_eqb (x y : option (resp Z)) : bool :=
  match x, y with None, None => true | Some a, Some b => resp_eqb a b | _, _ => false end.

(** a case: whether the WSDL was built at start-up, the requests (thread i runs the i-th), the access sequence the real threads
    performed, what each real thread returned (None = did not finish / not modelled) and the
    number of build_interface_document executions *)
Definition case := (bool * list req * list (Z * Z * Z * Z) * list (Z * option (resp Z)) * Z)%type.

Definition model_of (v : variant) (c : case) :=
  let '(pre, rs, tr, res, nb) := c in
  run_trace v (nth_req rs) (map (fun e => fst (fst (fst e))) tr) (cinit pre v (nth_req rs)).

Definition corr_ok (v : variant) (c : case) : bool :=
  let '(pre, rs, tr, res, nb) := c in
  match model_of v c with
  | Some (tr', s) =>
      list_eqb ev_eqb tr' tr &&
      forallb (fun p => optresp_eqb (out (thr s (fst p))) (snd p)) res &&
      (b_gen s =? nb + (if pre then 1 else 0))
  | None => false
  end.

(** what the log shows for a disagreeing case: the model's trace up to the point it stops *)
Fixpoint run_trace_partial (v : variant) (reqs : Z -> req) (sched : list Z) (s : state Z)
  : list (Z * Z * Z * Z) :=
  match sched with
  | [] => []
  | t :: r =>
      let '(c, a, b) := event v reqs s t in
      match cstep v reqs s t with
      | Some s' => (t, c, a, b) :: run_trace_partial v reqs r s'
      | None => [(t, -1, c, a)]
      end
  end.
Definition corr_show (v : variant) (c : case) :=
  let '(pre, rs, tr, res, nb) := c in
  run_trace_partial v (nth_req rs) (map (fun e => fst (fst (fst e))) tr) (cinit pre v (nth_req rs)).
