(** C12 — the program text of the shared-state functions as a skeleton of shared accesses.
    Definitions only.

    harness/translate/conctext.py regenerates, from the working tree, one skeleton per
    function (coq/Gen/ConcText.v): every statement that touches a modelled shared variable,
    a modelled lock or a modelled call is kept, in evaluation order, with the control
    structure around it; everything else is dropped.  This file defines the skeleton
    language, an interpreter that walks ONE path through a skeleton (the branch taken at
    every [If] is given) and emits the access codes of coq/C12/Corr.v, and the skeletons the
    model of coq/C12/Model.v was written against.  Props/C12.v states (a) generated =
    expected and (b) for every path through the GENERATED skeletons the [step] function of
    the model performs exactly the accesses of that path. *)
From SpyneV Require Export Base.Prelude C12.Model C12.Corr.

Inductive svar := AppWsdl | BWsdl | AttrCache | ErrLog | MemoIn | MemoGet | SortCache | CDict.
Inductive lk := WLock | VLock | MLock.
Inductive fn := Build | Validate | Func.
(** the test of an [if]: ... is None / ... is not None / not ... in ... / truth value / ... == False /
    entry is not None and entry[0] is <the current flat type info> *)
Inductive cond := CNone | CSome | CMiss | CTrue | CFalse | CFresh.

Inductive sk :=
| Skip
| Seq (a b : sk)
| Rd (x : svar)               (* read of a shared variable *)
| Wr (x : svar)               (* write of a shared variable *)
| New                         (* a fresh (thread-local) attribute dictionary is created *)
| Upd                         (* attr.update(...) on that dictionary *)
| SortIt                      (* items.sort(...) on the list sort_fields returns *)
| Acq (l : lk) | Rel (l : lk)
| Call (f : fn)
| If (c : cond) (body : sk)
| With (l : lk) (body : sk)
| Try (body handlers fin : sk)
| Loop (body : sk)
| Ret | Raise.

Declare Scope sk_scope.
Delimit Scope sk_scope with sk.
Notation "a ;; b" := (Seq a b) (at level 61, right associativity) : sk_scope.
Open Scope sk_scope.

(** ---- one path through a skeleton *)
Record pst := {
  evs : list Z;        (* access codes emitted so far (reversed) *)
  stop : bool;         (* a return / raise was executed *)
  orc : list bool;     (* branch taken at the next [If]s *)
  pub_attr : bool;     (* the attribute dictionary has been stored in the cache *)
  pub_sort : bool;     (* the item list has been stored in the sort cache *)
  nupd : Z;            (* updates of a published dictionary so far *)
  boom : bool;         (* on this path validate() itself raises *)
  exn : bool           (* an exception is propagating *)
}.

Definition emit (c : Z) (p : pst) : pst :=
  {| evs := c :: evs p; stop := stop p; orc := orc p; pub_attr := pub_attr p; pub_sort := pub_sort p; nupd := nupd p; boom := boom p; exn := exn p |}.
Definition set_stop (b : bool) (p : pst) : pst :=
  {| evs := evs p; stop := b; orc := orc p; pub_attr := pub_attr p; pub_sort := pub_sort p; nupd := nupd p; boom := boom p; exn := exn p |}.

Definition set_exn (b : bool) (p : pst) : pst :=
  {| evs := evs p; stop := b; orc := orc p; pub_attr := pub_attr p; pub_sort := pub_sort p; nupd := nupd p; boom := boom p; exn := b |}.

Definition rd_code (x : svar) : Z :=
  match x with AppWsdl => 1 | BWsdl => 2 | AttrCache => 12 | ErrLog => 10 | MemoIn => 17 | MemoGet => 22
             | SortCache => 23 | CDict => 25 end.
Definition wr_code (x : svar) : Z :=
  match x with AppWsdl => 3 | BWsdl => 6 | AttrCache => 13 | MemoIn | MemoGet => 20 | SortCache => 24
             | CDict => 26 | ErrLog => -3 end.
Definition acq_code (l : lk) : Z := match l with WLock => 4 | VLock => 8 | MLock => 18 end.
Definition rel_code (l : lk) : Z := match l with WLock => 7 | VLock => 11 | MLock => 21 end.

Definition cond_code (c : cond) : Z :=
  match c with CNone => 1 | CSome => 2 | CMiss => 3 | CTrue => 4 | CFalse => 5 | CFresh => 6 end.

Fixpoint walk (t : sk) (p : pst) : pst :=
  match t with
  | Skip => p
  | Seq a b => let p1 := walk a p in if stop p1 then p1 else walk b p1
  | Rd x => emit (rd_code x) p
  | Wr x =>
      let p1 := emit (wr_code x) p in
      match x with
      | AttrCache => {| evs := evs p1; stop := stop p1; orc := orc p1; pub_attr := true; pub_sort := pub_sort p1; nupd := nupd p1; boom := boom p; exn := exn p |}
      | SortCache => {| evs := evs p1; stop := stop p1; orc := orc p1; pub_attr := pub_attr p1; pub_sort := true; nupd := nupd p1; boom := boom p; exn := exn p |}
      | _ => p1
      end
  | New => p
  | Upd => if pub_attr p
           then let p1 := emit (14 + nupd p) p in
                {| evs := evs p1; stop := stop p1; orc := orc p1; pub_attr := pub_attr p1; pub_sort := pub_sort p1; nupd := nupd p + 1; boom := boom p; exn := exn p |}
           else p                       (* the dictionary is still private: not a shared access *)
  | SortIt => if pub_sort p then emit (-4) p else p   (* sorting a published list would be one *)
  | Acq l => emit (acq_code l) p
  | Rel l => emit (rel_code l) p
  | Call Build => emit 6 (emit 5 p)     (* build_interface_document: starts, then its single write of __wsdl *)
  | Call Validate => if boom p then set_exn true (emit 9 p) else emit 9 p   (* validate() itself may raise *)
  | Call Func => p                      (* the memoised function itself: thread-local *)
  | If c body =>
      match orc p with
      | [] => emit (-1) p               (* path description too short *)
      | b :: r =>
          (* the kind of the test is part of the path (codes >= 100 are not shared accesses; they keep
             two skeletons that test different things, or leave differently, apart) *)
          let p1 := {| evs := (100 + cond_code c) :: evs p; stop := stop p; orc := r; pub_attr := pub_attr p; pub_sort := pub_sort p; nupd := nupd p; boom := boom p; exn := exn p |} in
          if b then walk body p1 else p1
      end
  | With l body =>                      (* the lock is released however the block is left *)
      let p1 := walk body (emit (acq_code l) p) in
      set_stop (stop p1) (emit (rel_code l) p1)
  | Try body handlers fin =>            (* the handlers are entered when an exception propagates out of the body *)
      let p1 := walk body p in
      let p2 := if exn p1 then walk handlers (set_exn false p1) else p1 in
      let p3 := walk fin (set_stop false p2) in
      set_stop (stop p2 || stop p3) p3
  | Loop body => walk body p            (* one iteration *)
  | Ret => set_stop true (emit 200 p)
  | Raise => set_stop true (emit 201 p)
  end.

(** ---- what the model does: the access codes thread [t] performs under a schedule *)
Definition thread_codes (pre : bool) (v : variant) (rs : list req) (sched : list Z) (t : Z) : option (list Z) :=
  match run_trace v (nth_req rs) sched (cinit pre v (nth_req rs)) with
  | Some (tr, _) => Some (map (fun e => snd (fst (fst e)))
                            (filter (fun e => (fst (fst (fst e)) =? t) && negb (snd (fst (fst e)) =? 16)) tr))
  | None => None
  end.
(** (code 16 is the caller's use of the dictionary get_cls_attrs returned: outside the function) *)

Definition same (x : option (list Z)) (y : list Z) : bool :=
  match x with Some l => list_eqb Z.eqb l y | None => false end.

(** ---- the skeletons the model was written against *)
Definition wsdl_locked : sk :=
  Try (Acq WLock ;; Rd AppWsdl ;; If CNone (Call Build ;; Rd BWsdl ;; Wr AppWsdl)) Skip (Rel WLock).

Definition text_wsdl (v : variant) : sk :=
  match v with
  | Pinned =>   (* if self._wsdl is None: self._wsdl = ...get_interface_document()
                   ctx.transport.wsdl = self._wsdl
                   if ctx.transport.wsdl is None: try: acquire ... finally: release *)
      Rd AppWsdl ;; If CNone (Rd BWsdl ;; Wr AppWsdl) ;; Rd AppWsdl ;; If CNone wsdl_locked
  | Repaired => (* ctx.transport.wsdl = self._wsdl
                   if ctx.transport.wsdl is None: ctx.transport.wsdl = ...get_interface_document()
                   if ctx.transport.wsdl is None: try: acquire ... finally: release *)
      Rd AppWsdl ;; If CNone (Rd BWsdl) ;; If CNone wsdl_locked
  end.

(** Wsdl11.get_interface_document / the writes of __wsdl in Wsdl11.build_interface_document *)
Definition text_get : sk := Rd BWsdl ;; Ret.
Definition text_build : sk := Wr BWsdl.

Definition text_attrs (v : variant) : sk :=
  match v with
  | Pinned =>   Rd AttrCache ;; If CSome Ret ;; New ;; Wr AttrCache ;; If CTrue (Upd ;; Upd) ;; Ret
  | Repaired => Rd AttrCache ;; If CSome Ret ;; New ;; If CTrue (Upd ;; Upd) ;; Wr AttrCache ;; Ret
  end.

Definition text_validate (v : variant) : sk :=
  match v with
  | Pinned =>   Call Validate ;; If CFalse (Rd ErrLog ;; Raise)
  | Repaired => (* try: with lock: ret = validate(); if ret == False: read the log
                   except XMLSchemaValidateError: raise SchemaValidationError(text of the exception)
                   if ret == False: raise SchemaValidationError(text read) *)
      Try (With VLock (Call Validate ;; If CFalse (Rd ErrLog))) Raise Skip ;; If CFalse Raise
  end.

Definition text_memo : sk :=
  Rd MemoIn ;; If CMiss (With MLock (Rd MemoIn ;; If CMiss (Call Func ;; Wr MemoIn ;; Ret))) ;; Rd MemoGet ;; Ret.

(** fti = cls.get_flat_type_info(cls)  (memoized: the memoize component; thread-local here)
    entry = self._sortcache.get(cls, None); if entry is not None and entry[0] is fti: return entry[1]
    ...; items.sort(...); self._sortcache[cls] = fti, items; return items *)
Definition text_sort : sk :=
  If CSome (Call Func) ;; Rd SortCache ;; If CFresh Ret ;; SortIt ;; Wr SortCache ;; Ret.

(** cdict.__getitem__: try: return dict.__getitem__(self, cls)
                       except KeyError: for b in bases: try: retval = self[b]; self[cls] = retval; return retval
                                                        except KeyError: pass
                                        raise e
    (the same lock-free check / compute-from-frozen-data / set shape as sort_fields) *)
Definition text_cdict : sk :=
  Try (Rd CDict ;; Ret) (Loop (Try (Rd CDict ;; Wr CDict ;; Ret) Skip Skip) ;; Raise) Skip.

(** ---- the paths: (requests, schedule, thread, branches taken) per function.
    [paths_ok v w a val m s] = for every listed path through the GIVEN skeletons, the model
    variant [v] performs exactly the accesses of the path. *)
Definition wsdl_paths (v : variant) : list (list req * list Z * Z * list bool) :=
  match v with
  | Repaired =>
      [ ([RWsdl], [0;0;0;0;0;0;0;0;0], 0, [true; true; true]);              (* first request: builds *)
        ([RWsdl; RWsdl], [0;0;0;0;0;0;0;0;0;1], 1, [false; false]);         (* later request: one read *)
        ([RWsdl; RWsdl], [0;0;0;0;0;0;1;1], 1, [true; false]);              (* builder already has it *)
        ([RWsdl; RWsdl], [0;0;0;1;1;0;0;0;0;0;0;1;1;1], 1, [true; true; false]) ]  (* waited for the lock *)
  | Pinned =>
      [ ([RWsdl], [0;0;0;0;0;0;0;0;0;0;0], 0, [true; true; true]);
        ([RWsdl; RWsdl], [0;0;0;0;0;0;0;0;0;0;0;1;1], 1, [false; false]) ]
  end.
(** the WSDL was built at start-up: no request builds, one read of the builder's document *)
Definition wsdl_pre_paths (v : variant) : list (list req * list Z * Z * list bool) :=
  match v with
  | Repaired => [ ([RWsdl], [0;0], 0, [true; false]);
                  ([RWsdl; RWsdl], [0;0;1;1], 1, [true; false]) ]
  | Pinned =>   [ ([RWsdl], [0;0;0;0], 0, [true; false]) ]
  end.
Definition attrs_paths (v : variant) : list (list req * list Z * Z * list bool) :=
  match v with
  | Repaired =>
      [ ([RAttrs [1]], [0;0;0], 0, [false; true]);                (* miss, class with prot_attrs *)
        ([RAttrs [2]], [0;0;0], 0, [false; false]);               (* miss, plain class *)
        ([RAttrs [1; 1]], [0;0;0;0;0], 0, [false; true; true]) ]  (* miss, then hit *)
  | Pinned =>
      [ ([RAttrs [1]], [0;0;0;0;0], 0, [false; true]);
        ([RAttrs [2]], [0;0;0], 0, [false; false]);
        ([RAttrs [1; 1]], [0;0;0;0;0;0;0], 0, [false; true; true]) ]
  end.
Definition validate_paths (v : variant) : list (list req * list Z * Z * list bool) :=
  match v with
  | Repaired => [ ([RValidate false 7], [0;0;0;0], 0, [true; true]);
                  ([RValidate true 0], [0;0;0], 0, [false; false]);
                  ([RValidateX 9], [0;0;0], 0, []) ]         (* validate() raises: lock released, handler *)
  | Pinned =>   [ ([RValidate false 7], [0;0], 0, [true]);
                  ([RValidate true 0], [0], 0, [false]) ]
  end.
Definition memo_paths : list (list req * list Z * Z * list bool) :=
  [ ([RMemo [3]], [0;0;0;0;0], 0, [true; true]);                             (* miss *)
    ([RMemo [3; 3]], [0;0;0;0;0;0;0], 0, [true; true; false]);               (* miss, then hit *)
    ([RMemo [3]; RMemo [3]], [1;0;0;0;0;0;1;1;1;1], 1, [true; false]) ].     (* filled between the two checks *)
Definition sort_paths : list (list req * list Z * Z * list bool) :=
  [ ([RSort [3]], [0;0], 0, [true; false]);                       (* nothing cached *)
    ([RSort [3; 3]], [0;0;0], 0, [true; false; true; true]);      (* miss, then hit *)
    ([RSort [4]], [0;0], 0, [true; false]);                       (* a list cached for an earlier field table *)
    ([RSort [4; 4]], [0;0;0], 0, [true; false; true; true]) ].

(** a thread that makes several calls one after the other (RAttrs [1; 1]): the branch list is
    the concatenation of the branches of the calls; a call is walked while branches remain.
    A branch list that is too short shows as code -1, one that is too long as a further call. *)
Fixpoint walk_calls (n : nat) (t : sk) (p : pst) : pst :=
  match n with
  | O => p
  | S n' =>
      let p1 := walk t (set_stop false p) in
      let p2 := {| evs := evs p1; stop := false; orc := orc p1; pub_attr := false; pub_sort := false; nupd := 0; boom := boom p; exn := false |} in
      match orc p1 with
      | [] => p2
      | _ => walk_calls n' t p2
      end
  end.
(** everything the walk sees: shared accesses, kinds of the tests met, exits *)
Definition raw_paths_of (t : sk) (raises : bool) (branches : list bool) : list Z :=
  rev (evs (walk_calls 8 t {| evs := []; stop := false; orc := branches; pub_attr := false; pub_sort := false; nupd := 0; boom := raises; exn := false |})).
(** the shared accesses only (what the model's step function can be compared with) *)
Definition paths_of (t : sk) (raises : bool) (branches : list bool) : list Z :=
  filter (fun c => c <? 100) (raw_paths_of t raises branches).

(** ---- two skeletons are the same program as far as shared state goes: for EVERY choice of
    branches (up to 6 tests met, each taken or not) and whether or not validate() raises, they perform
    the same shared accesses, meet tests of the same kinds and leave in the same way, in the same
    order.  What is not compared: statements on objects that are still private to the thread (the
    attribute dictionary before it is stored in the cache, the item list before it is stored, the
    memoised function's own work) and how a lock-protected region is spelled (with-statement or
    acquire / try / finally / release). *)
Fixpoint all_bools (n : nat) : list (list bool) :=
  match n with
  | O => [[]]
  | S n' => [] :: flat_map (fun l => [true :: l; false :: l]) (all_bools n')
  end.
Definition sk_equiv (a b : sk) : bool :=
  forallb (fun bs => list_eqb Z.eqb (raw_paths_of a false bs) (raw_paths_of b false bs) &&
                     list_eqb Z.eqb (raw_paths_of a true bs) (raw_paths_of b true bs)) (all_bools 6).

Definition path_ok (pre : bool) (v : variant) (t : sk) (c : list req * list Z * Z * list bool) : bool :=
  let '(rs, sched, th, bs) := c in
  same (thread_codes pre v rs sched th)
       (paths_of t (match nth_req rs th with RValidateX _ => true | _ => false end) bs).

Definition paths_ok (v : variant) (w a val m s : sk) : bool :=
  forallb (path_ok false v w) (wsdl_paths v) && forallb (path_ok true v w) (wsdl_pre_paths v) &&
  forallb (path_ok false v a) (attrs_paths v) &&
  forallb (path_ok false v val) (validate_paths v) && forallb (path_ok false v m) memo_paths &&
  forallb (path_ok false v s) sort_paths.
