(** C12 — progress: every request is finished after a bounded number of its own steps
    (no live-lock, whatever the other threads do, in BOTH program texts), and a state of the
    repaired program in which no thread can move is one in which every request has been
    answered.  Together with [no_deadlock] this is what makes "every caller receives ..."
    unconditional: a scheduler that keeps running enabled threads gets every thread to
    [Done] within the sum of the bounds. *)
From Coq Require Import ZArith List Bool Lia.
From SpyneV Require Import Base.Prelude C12.Model C12.Proofs C12.Corr C12.Theorems.
Open Scope Z_scope.

Section Live.
Variable V : Type.
Variable base : Z -> V.
Variable over1 over2 : Z -> V -> V.
Variable has_prot : Z -> bool.
Variable mf : Z -> V.
Variable sf : Z -> V.
Variable pre : bool.
Variable ftag : Z -> Z.
Variable sc0 : Z -> option (Z * V).
Variable reqs : Z -> req.
Hypothesis sc0_ok : forall k g x, sc0 k = Some (g, x) -> g = ftag k -> x = sf k.

Notation step := (step V base over1 over2 has_prot mf sf ftag).
Notation run := (run V base over1 over2 has_prot mf sf ftag).
Notation init := (init V base pre sc0).
Notation alone := (alone V base over1 over2 has_prot mf sf).
Notation tstate := (tstate V).

(** rank of a program point inside one pass over one key / one request *)
Definition rank (p : pc) : Z :=
  match p with
  | W_chk1 => 13 | W_get1 => 12 | W_store1 => 11 | W_read1 => 10
  | W_readr => 9 | W_getr => 8
  | W_acq => 7 | W_read2 => 6 | W_build => 5 | W_bend => 4 | W_get2 => 3 | W_store2 => 2 | W_rel => 1
  | V_acq => 4 | V_val => 3 | V_log => 2 | V_rel => 1
  | G_get => 5 | G_pub => 4 | G_upd1 => 3 | G_upd2 => 2 | G_use => 1
  | M_chk1 => 6 | M_acq => 5 | M_chk2 => 4 | M_set => 3 | M_relv => 2 | M_rel => 2 | M_get => 1
  | S_get => 2 | S_set => 1
  | Done => 0
  end.

(** steps the thread can still take: at most 7 per remaining key, plus the rest of this pass *)
Definition measure (th : tstate) : Z :=
  match tpc th with
  | Done => 0
  | p => 7 * Z.of_nat (length (todo th)) + rank p
  end.

Lemma measure_nonneg : forall th, 0 <= measure th.
Proof. intros th. unfold measure. destruct (tpc th); unfold rank; lia. Qed.

Lemma measure_consume : forall th again v,
  1 <= rank again <= 6 -> tpc th <> Done -> 1 <= rank (tpc th) ->
  measure (consume V th again v) + 1 <= measure th \/
  (todo th = [] /\ measure (consume V th again v) = 0).
Proof.
  intros th again v Hr Hnd Hrk. unfold consume.
  destruct (todo th) as [|k r] eqn:Ht; simpl.
  - right. split; auto.
  - left. destruct r as [|k2 r2]; unfold measure; simpl; rewrite ?Ht.
    + destruct (tpc th); simpl in *; try congruence; lia.
    + destruct again; simpl in *; try lia;
        destruct (tpc th); simpl in *; try congruence; rewrite ?Ht; simpl length; lia.
Qed.

(** a step of thread [u] touches no other thread's local state *)
Lemma step_frame : forall v s u s' t, step v reqs s u = Some s' -> t <> u -> thr s' t = thr s t.
Proof.
  intros v s u s' t H Ht. unfold Model.step in H.
  destruct (tpc (thr s u));
    repeat match type of H with
           | context [match ?x with _ => _ end] => destruct x
           end;
    try discriminate; inversion H; subst s'; simpl; unfold upd;
    destruct (t =? u) eqn:E; auto; apply Z.eqb_eq in E; contradiction.
Qed.

(** ... and strictly decreases the measure of [u] *)
Lemma step_measure : forall v s u s', step v reqs s u = Some s' ->
  measure (thr s' u) + 1 <= measure (thr s u).
Proof.
  intros v s u s' H. unfold Model.step in H.
  destruct (tpc (thr s u)) eqn:Hpc;
    repeat match type of H with
           | context [match ?x with _ => _ end] => destruct x
           end;
    try discriminate; inversion H; subst s'; clear H; simpl; rewrite upd_same;
    try (match goal with
         | |- measure ?x + 1 <= _ =>
             match x with
             | consume _ _ _ _ => fail 1
             | _ => let m := eval cbn [measure finish set_pc set_lw set_gen set_ret set_txt set_ref tpc todo rank] in (measure x) in
                    change (measure x) with m
             end
         end; unfold measure; rewrite Hpc; cbv [rank]; lia);
    match goal with
    | |- measure (consume _ _ ?again ?x) + 1 <= _ =>
        let Hc := fresh in
        destruct (measure_consume (thr s u) again x) as [Hc|[Hc1 Hc2]];
          [cbv [rank]; lia | rewrite Hpc; discriminate | rewrite Hpc; cbv [rank]; lia | exact Hc
          | rewrite Hc2; unfold measure; rewrite Hpc; cbv [rank]; lia]
    end.
Qed.

Fixpoint count (t : Z) (l : list Z) : Z :=
  match l with
  | [] => 0
  | x :: r => (if x =? t then 1 else 0) + count t r
  end.

Lemma run_measure : forall v sched s s' t, run v reqs sched s = Some s' ->
  count t sched + measure (thr s' t) <= measure (thr s t).
Proof.
  induction sched as [|u r IH]; simpl; intros s s' t H.
  - inversion H; subst. lia.
  - destruct (step v reqs s u) as [s1|] eqn:Hs; [|discriminate].
    specialize (IH s1 s' t H).
    destruct (u =? t) eqn:E.
    + apply Z.eqb_eq in E. subst u. pose proof (step_measure v s t s1 Hs). lia.
    + apply Z.eqb_neq in E. rewrite (step_frame v s u s1 t Hs) in IH by auto. lia.
Qed.

(** the number of steps a request can take, as a function of the request alone *)
Definition bound (q : req) : Z :=
  match q with
  | RIdle => 0
  | RWsdl => 13
  | RValidate _ _ | RValidateX _ => 4
  | RAttrs ks | RMemo ks | RSort ks => 7 * Z.of_nat (length ks) + 6
  end.

Lemma measure_init : forall v t, measure (thr (init v reqs) t) <= bound (reqs t).
Proof.
  intros v t. cbn [Model.init thr]. destruct (reqs t) as [| |ok e|e|ks|ks|ks]; destruct v;
    try destruct ks as [|k0 ks];
    cbn [tinit measure tpc todo rank bound]; change (@length Z []) with 0%nat; lia.
Qed.

Lemma steps_bounded : forall v sched s t,
  run v reqs sched (init v reqs) = Some s -> count t sched <= bound (reqs t).
Proof.
  intros v sched s t H. pose proof (run_measure v sched _ _ t H).
  pose proof (measure_init v t). pose proof (measure_nonneg (thr s t)). lia.
Qed.

Lemma pc_done_dec : forall p : pc, {p = Done} + {p <> Done}.
Proof. destruct p; (left; reflexivity) || (right; discriminate). Qed.

(** repaired program: a state where nobody can move is a state where everybody is served *)
Lemma quiescent_all_served : forall sched s,
  run Repaired reqs sched (init Repaired reqs) = Some s ->
  (forall u, step Repaired reqs s u = None) ->
  forall t, tpc (thr s t) = Done /\ out (thr s t) = alone (reqs t).
Proof.
  intros sched s H Hq t.
  assert (Hr : reach V base over1 over2 has_prot mf sf pre ftag sc0 reqs s) by (now exists sched).
  destruct (pc_done_dec (tpc (thr s t))) as [Hd|Hn].
  - split; auto. apply (no_interference V base over1 over2 has_prot mf sf pre ftag sc0 reqs sc0_ok); auto.
  - destruct (no_deadlock V base over1 over2 has_prot mf sf pre ftag sc0 reqs sc0_ok s t Hr Hn) as [u Hu].
    rewrite Hq in Hu. congruence.
Qed.

End Live.
