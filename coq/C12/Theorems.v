(** C12 — consequences of the invariant, and the witnesses that refute the same
    statements for the pinned program text. *)
From Coq Require Import ZArith List Bool Lia.
From SpyneV Require Import Base.Prelude C12.Model C12.Proofs C12.Corr.
Open Scope Z_scope.

Section Thm.
Variable V : Type.
Variable base : Z -> V.
Variable over1 over2 : Z -> V -> V.
Variable has_prot : Z -> bool.
Variable mf : Z -> V.
Variable sf : Z -> V.
Variable pre : bool.
Variable ftag : Z -> Z.
Variable sc0 : Z -> option (Z * V).
Variable reqs : Z -> req.
Hypothesis sc0_ok : forall k g x, sc0 k = Some (g, x) -> g = ftag k -> x = sf k.

Notation full := (full V base over1 over2 has_prot).
Notation run := (run V base over1 over2 has_prot mf sf ftag).
Notation init := (init V base pre sc0).
Notation alone := (alone V base over1 over2 has_prot mf sf).
Notation inv := (inv V base over1 over2 has_prot mf sf pre ftag reqs).
Notation tinv := (tinv V base over1 over2 has_prot mf sf pre ftag reqs).
Notation reachable_inv := (reachable_inv V base over1 over2 has_prot mf sf pre ftag sc0 reqs sc0_ok).

Definition reach (s : state V) : Prop :=
  exists sched, run Repaired reqs sched (init Repaired reqs) = Some s.

Lemma reach_inv : forall s, reach s -> inv s.
Proof. intros s [sched H]. eapply reachable_inv; eauto. Qed.
(* (reachable_inv carries the hypothesis on the start-up content of the sort cache) *)

Lemma built_once : forall s, reach s -> b_gen s <= 1.
Proof. intros s H. destruct (reach_inv s H) as [(G & _) _]. lia. Qed.

(** the WSDL built at start-up is never built again *)
Lemma prebuilt_never_rebuilt : forall s, reach s -> pre = true -> b_gen s = 1 /\ b_wsdl s = Some 0.
Proof.
  intros s H Hp. destruct (reach_inv s H) as [(_ & _ & _ & _ & _ & _ & _ & G) _].
  destruct (G Hp). auto.
Qed.

Lemma no_interference : forall s t, reach s -> tpc (thr s t) = Done -> out (thr s t) = alone (reqs t).
Proof.
  intros s t H Hd. destruct (reach_inv s H) as [_ T]. specialize (T t).
  unfold Proofs.tinv in T. rewrite Hd in T. exact T.
Qed.

Lemma served_whole : forall s, reach s ->
  (forall t, reqs t = RWsdl -> tpc (thr s t) = Done -> out (thr s t) = Some (PWsdl (Some 0))) /\
  (forall d, app_wsdl s = Some d -> d = 0) /\ (forall d, b_wsdl s = Some d -> d = 0).
Proof.
  intros s H. split; [|split].
  - intros t Hq Hd. rewrite (no_interference s t H Hd), Hq. reflexivity.
  - destruct (reach_inv s H) as [(_ & _ & G & _) _]. exact G.
  - destruct (reach_inv s H) as [(_ & G & _) _]. exact G.
Qed.

Lemma schedule_independent : forall s1 s2 t, reach s1 -> reach s2 ->
  tpc (thr s1 t) = Done -> tpc (thr s2 t) = Done -> out (thr s1 t) = out (thr s2 t).
Proof. intros. rewrite (no_interference s1 t), (no_interference s2 t); auto. Qed.

Lemma memo_transparent : forall s, reach s ->
  (forall k x, memo s k = Some x -> x = mf k) /\
  (forall t ks, reqs t = RMemo ks -> tpc (thr s t) = Done -> out (thr s t) = Some (PVals (map mf ks))).
Proof.
  intros s H. split.
  - destruct (reach_inv s H) as [(_ & _ & _ & _ & _ & G & _) _]. exact G.
  - intros t ks Hq Hd. rewrite (no_interference s t H Hd), Hq. reflexivity.
Qed.

Lemma attrs_transparent : forall s, reach s ->
  (forall k r, cache s k = Some r -> heap s r = full k) /\
  (forall t ks, reqs t = RAttrs ks -> tpc (thr s t) = Done -> out (thr s t) = Some (PVals (map full ks))).
Proof.
  intros s H. split.
  - destruct (reach_inv s H) as [(_ & _ & _ & _ & G & _) _]. intros k r Hc. now destruct (G k r Hc).
  - intros t ks Hq Hd. rewrite (no_interference s t H Hd), Hq. reflexivity.
Qed.

Lemma sort_transparent : forall s, reach s ->
  (forall k g x, scache s k = Some (g, x) -> g = ftag k -> x = sf k) /\
  (forall t ks, reqs t = RSort ks -> tpc (thr s t) = Done -> out (thr s t) = Some (PVals (map sf ks))).
Proof.
  intros s H. split.
  - destruct (reach_inv s H) as [(_ & _ & _ & _ & _ & _ & G & _) _]. exact G.
  - intros t ks Hq Hd. rewrite (no_interference s t H Hd), Hq. reflexivity.
Qed.

Lemma validator_error_isolated : forall s t e, reach s -> reqs t = RValidateX e -> tpc (thr s t) = Done ->
  out (thr s t) = Some (PFault (Some e)).
Proof. intros s t e H Hq Hd. rewrite (no_interference s t H Hd), Hq. reflexivity. Qed.

Lemma errlog_isolated : forall s t ok e, reach s -> reqs t = RValidate ok e -> tpc (thr s t) = Done ->
  out (thr s t) = Some (if ok then PValid else PFault (Some e)).
Proof. intros s t ok e H Hq Hd. rewrite (no_interference s t H Hd), Hq. reflexivity. Qed.

(** program points inside the three critical sections *)
Definition in_wcrit (p : pc) : bool :=
  match p with W_read2 | W_build | W_bend | W_get2 | W_store2 | W_rel => true | _ => false end.
Definition in_vcrit (p : pc) : bool :=
  match p with V_val | V_log | V_rel => true | _ => false end.
Definition in_mcrit (p : pc) : bool :=
  match p with M_chk2 | M_set | M_relv | M_rel => true | _ => false end.

Lemma mutual_exclusion : forall s t u, reach s ->
  (in_wcrit (tpc (thr s t)) = true -> in_wcrit (tpc (thr s u)) = true -> t = u) /\
  (in_vcrit (tpc (thr s t)) = true -> in_vcrit (tpc (thr s u)) = true -> t = u) /\
  (in_mcrit (tpc (thr s t)) = true -> in_mcrit (tpc (thr s u)) = true -> t = u).
Proof.
  intros s t u H. destruct (reach_inv s H) as [_ T].
  pose proof (T t) as Tt. pose proof (T u) as Tu. unfold Proofs.tinv in Tt, Tu.
  repeat split; intros Ht Hu;
    destruct (tpc (thr s t)); try discriminate; destruct (tpc (thr s u)); try discriminate;
    simpl in *; intuition congruence.
Qed.

(** a held lock is held by a thread inside the corresponding critical section *)
Definition linv (s : state V) : Prop :=
  (forall w, wlock s = Some w -> in_wcrit (tpc (thr s w)) = true) /\
  (forall w, vlock s = Some w -> in_vcrit (tpc (thr s w)) = true) /\
  (forall w, mlock s = Some w -> in_mcrit (tpc (thr s w)) = true).

Notation step := (step V base over1 over2 has_prot mf sf ftag).

Ltac lock_case u :=
  let w := fresh "w" in let Hw := fresh "Hw" in let E := fresh "E" in
  intros w Hw; simpl in *;
  destruct (Z.eq_dec w u) as [E|E];
  [ subst w; rewrite upd_same; simpl; auto
  | rewrite upd_other by auto; auto ].

Lemma linv_step : forall s u s', inv s -> linv s -> step Repaired reqs s u = Some s' -> linv s'.
Proof.
  intros s u s' [_ T] (Lw & Lv & Lm) H.
  pose proof (T u) as Tu. unfold Proofs.tinv in Tu. unfold Model.step in H.
  assert (Cw : wlock s = Some u -> in_wcrit (tpc (thr s u)) = true) by auto.
  assert (Cv : vlock s = Some u -> in_vcrit (tpc (thr s u)) = true) by auto.
  assert (Cm : mlock s = Some u -> in_mcrit (tpc (thr s u)) = true) by auto.
  destruct (tpc (thr s u)) eqn:Hpc; try contradiction; simpl in Cw, Cv, Cm;
    repeat match type of H with
           | context [match ?x with _ => _ end] =>
               match x with
               | reqs u => fail 1
               | _ => let Hx := fresh "Hx" in destruct x eqn:Hx
               end
           end;
    try discriminate;
    try (destruct Tu as ([(ok & e & Hq)|(e & Hq)] & Hvl); rewrite Hq in H; try destruct ok);
    inversion H; subst s'; clear H;
    (split; [|split]); intros w Hw; simpl in *;
    (destruct (Z.eq_dec w u) as [E|E];
     [ subst w; rewrite upd_same; simpl; try reflexivity;
       try (rewrite Hw in *; first [discriminate (Cw eq_refl) | discriminate (Cv eq_refl) | discriminate (Cm eq_refl)]);
       try congruence
     | rewrite upd_other by auto; first [now apply Lw | now apply Lv | now apply Lm | congruence] ]).
Qed.

Lemma linv_init : linv (init Repaired reqs).
Proof. repeat split; intros w H; discriminate. Qed.

Lemma reach_linv : forall s, reach s -> linv s.
Proof.
  assert (G : forall sched s0 s, inv s0 -> linv s0 -> run Repaired reqs sched s0 = Some s -> linv s).
  { induction sched as [|t r IH]; simpl; intros s0 s Hi Hl H.
    - inversion H; subst; auto.
    - destruct (step Repaired reqs s0 t) as [s1|] eqn:Hs; [|discriminate].
      eapply IH; [| |exact H].
      + eapply step_inv; eauto.
      + eapply linv_step; eauto. }
  intros s [sched H]. eapply G; [apply inv_init; exact sc0_ok|apply linv_init|exact H].
Qed.

(** the system never gets stuck: while some request is unfinished, some thread can move *)
Lemma no_deadlock : forall s t, reach s -> tpc (thr s t) <> Done ->
  exists u, step Repaired reqs s u <> None.
Proof.
  intros s t H Hnd. pose proof (reach_inv s H) as [_ T]. destruct (reach_linv s H) as (Lw & Lv & Lm).
  assert (En : forall w, in_wcrit (tpc (thr s w)) = true \/ in_vcrit (tpc (thr s w)) = true \/
                         in_mcrit (tpc (thr s w)) = true -> step Repaired reqs s w <> None).
  { intros w Hc. pose proof (T w) as Tw. unfold Proofs.tinv in Tw. unfold Model.step.
    destruct (tpc (thr s w)); simpl in Hc; try (exfalso; intuition discriminate); try discriminate.
    destruct Tw as ([(ok & e & Hq)|(e & Hq)] & _); rewrite Hq; discriminate. }
  pose proof (T t) as Tt. unfold Proofs.tinv in Tt.
  destruct (tpc (thr s t)) eqn:Hpc; try contradiction; try congruence;
    try (exists t; unfold Model.step; rewrite Hpc; simpl;
         repeat match goal with |- context [match ?x with _ => _ end] => destruct x end; discriminate).
  - (* W_acq *) destruct (wlock s) as [w|] eqn:Hw.
    + exists w. apply En. left. auto.
    + exists t. unfold Model.step. rewrite Hpc, Hw. discriminate.
  - (* V_acq *) destruct (vlock s) as [w|] eqn:Hw.
    + exists w. apply En. right. left. auto.
    + exists t. unfold Model.step. rewrite Hpc, Hw. discriminate.
  - (* V_val *) exists t. apply En. right. left. rewrite Hpc. reflexivity.
  - (* M_acq *) destruct (mlock s) as [w|] eqn:Hw.
    + exists w. apply En. right. right. auto.
    + exists t. unfold Model.step. rewrite Hpc, Hw. discriminate.
Qed.

End Thm.

(** ---- the pinned program text: the same statements fail.  Witnesses over the integer
    instance; each is replayed against the real code by harness/c12.py. *)

(** two ?wsdl requests; thread 1 reads the builder's None in the unlocked pre-check while
    thread 0 is building, stores it over the finished document, and builds again *)
Definition wsdl_witness : list Z :=
  [0;0;0;0;0;0;0; 1;1; 0;0;0;0; 1;1;1;1;1;1;1;1;1].
Lemma pinned_wsdl_refuted :
  exists sched s, crun Pinned (fun _ => RWsdl) sched (cinit false Pinned (fun _ => RWsdl)) = Some s /\
    b_gen s = 2 /\ tpc (thr s 0) = Done /\ tpc (thr s 1) = Done /\
    out (thr s 0) = Some (PWsdl (Some 0)) /\ out (thr s 1) = Some (PWsdl (Some 1)) /\
    app_wsdl s = Some 1.
Proof. exists wsdl_witness. eexists. vm_compute. repeat split. Qed.

(** two threads look up class 1 (which has prot_attrs); thread 1 hits the cache between
    thread 0's store of the base dictionary and its updates *)
Definition attrs_reqs (t : Z) : req := if (t =? 0) || (t =? 1) then RAttrs [1] else RIdle.
Lemma pinned_attrs_refuted :
  exists sched s, crun Pinned attrs_reqs sched (cinit false Pinned attrs_reqs) = Some s /\
    tpc (thr s 1) = Done /\ out (thr s 1) = Some (PVals [10]) /\
    calone (attrs_reqs 1) = Some (PVals [13]).
Proof. exists [0;0;1;1]. eexists. vm_compute. repeat split. Qed.

(** thread 0 validates an invalid payload (error text 7); thread 1 validates between
    thread 0's validate() and its read of the log: a valid payload empties the log, an
    invalid one (error text 8) replaces it *)
Definition errlog_reqs (other : req) (t : Z) : req :=
  if t =? 0 then RValidate false 7 else if t =? 1 then other else RIdle.
Lemma pinned_errlog_refuted :
  (exists sched s, let rq := errlog_reqs (RValidate true 0) in
     crun Pinned rq sched (cinit false Pinned rq) = Some s /\
     tpc (thr s 0) = Done /\ out (thr s 0) = Some (PFault None) /\ calone (rq 0) = Some (PFault (Some 7))) /\
  (exists sched s, let rq := errlog_reqs (RValidate false 8) in
     crun Pinned rq sched (cinit false Pinned rq) = Some s /\
     tpc (thr s 0) = Done /\ out (thr s 0) = Some (PFault (Some 8)) /\ calone (rq 0) = Some (PFault (Some 7))).
Proof.
  split.
  - exists [0;1;0]. eexists. vm_compute. repeat split.
  - exists [0;1;0]. eexists. vm_compute. repeat split.
Qed.
