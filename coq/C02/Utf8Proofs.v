(** UTF-8: decoding inverts encoding on every text of Unicode scalar values. *)
From Coq Require Import ZArith List Bool Lia ZifyBool.
From SpyneV Require Import Base.Prelude Wire.Utf8.
Import ListNotations.
Open Scope Z_scope.
Ltac Zify.zify_post_hook ::= Z.to_euclidean_division_equations.

Ltac decide_ifs :=
  repeat match goal with
         | |- context [if ?b then _ else _] =>
             first [ replace b with true by lia | replace b with false by lia ]
         end.

Lemma utf8_dec1 b0 r : 0 <= b0 < 128 -> utf8_dec (b0 :: r) = option_map (cons b0) (utf8_dec r).
Proof. intros H. cbn [utf8_dec]. decide_ifs. reflexivity. Qed.

Lemma utf8_dec2 b0 b1 r : 194 <= b0 < 224 -> 128 <= b1 < 192 ->
  utf8_dec (b0 :: b1 :: r) = option_map (cons ((b0 - 192) * 64 + (b1 - 128))) (utf8_dec r).
Proof. intros H0 H1. cbn [utf8_dec]. unfold is_cont. decide_ifs. reflexivity. Qed.

Lemma utf8_dec3 b0 b1 b2 r : 224 <= b0 < 240 -> 128 <= b1 < 192 -> 128 <= b2 < 192 ->
  2048 <= (b0 - 224) * 4096 + (b1 - 128) * 64 + (b2 - 128) ->
  ~ (55296 <= (b0 - 224) * 4096 + (b1 - 128) * 64 + (b2 - 128) < 57344) ->
  utf8_dec (b0 :: b1 :: b2 :: r)
  = option_map (cons ((b0 - 224) * 4096 + (b1 - 128) * 64 + (b2 - 128))) (utf8_dec r).
Proof.
  intros H0 H1 H2 H3 H4. cbn [utf8_dec]. unfold is_cont. cbv zeta.
  remember ((b0 - 224) * 4096 + (b1 - 128) * 64 + (b2 - 128)) as cc.
  decide_ifs. reflexivity.
Qed.

Lemma utf8_dec4 b0 b1 b2 b3 r : 240 <= b0 < 245 -> 128 <= b1 < 192 -> 128 <= b2 < 192 ->
  128 <= b3 < 192 ->
  65536 <= (b0 - 240) * 262144 + (b1 - 128) * 4096 + (b2 - 128) * 64 + (b3 - 128) < 1114112 ->
  utf8_dec (b0 :: b1 :: b2 :: b3 :: r)
  = option_map (cons ((b0 - 240) * 262144 + (b1 - 128) * 4096 + (b2 - 128) * 64 + (b3 - 128)))
               (utf8_dec r).
Proof.
  intros H0 H1 H2 H3 H4. cbn [utf8_dec]. unfold is_cont. cbv zeta.
  remember ((b0 - 240) * 262144 + (b1 - 128) * 4096 + (b2 - 128) * 64 + (b3 - 128)) as cc.
  decide_ifs. reflexivity.
Qed.

Lemma utf8_enc1_dec' c rest :
  match utf8_enc1 c with
  | Some bs => utf8_dec (bs ++ rest) = option_map (cons c) (utf8_dec rest)
  | None => True
  end.
Proof.
  unfold utf8_enc1.
  destruct ((0 <=? c) && (c <? 128)) eqn:E1.
  { cbv beta iota delta [app]. apply utf8_dec1. lia. }
  destruct ((128 <=? c) && (c <? 2048)) eqn:E2.
  { cbv beta iota delta [app]. rewrite utf8_dec2 by lia. f_equal. f_equal. lia. }
  destruct (((2048 <=? c) && (c <? 55296)) || ((57344 <=? c) && (c <? 65536))) eqn:E3.
  { cbv beta iota delta [app].
    assert (Hc : (224 + c / 4096 - 224) * 4096 + (128 + (c / 64) mod 64 - 128) * 64
                 + (128 + c mod 64 - 128) = c) by lia.
    rewrite utf8_dec3 by (rewrite ?Hc; lia). rewrite Hc. reflexivity. }
  destruct ((65536 <=? c) && (c <? 1114112)) eqn:E4; [|exact I].
  cbv beta iota delta [app].
  assert (Hc : (240 + c / 262144 - 240) * 262144 + (128 + (c / 4096) mod 64 - 128) * 4096
               + (128 + (c / 64) mod 64 - 128) * 64 + (128 + c mod 64 - 128) = c) by lia.
  rewrite utf8_dec4 by (rewrite ?Hc; lia). rewrite Hc. reflexivity.
Qed.

Lemma utf8_enc1_dec c bs rest :
  utf8_enc1 c = Some bs -> utf8_dec (bs ++ rest) = option_map (cons c) (utf8_dec rest).
Proof. intros H. pose proof (utf8_enc1_dec' c rest) as L. rewrite H in L. exact L. Qed.

Theorem utf8_roundtrip t : forall b, utf8_enc t = Some b -> utf8_dec b = Some t.
Proof.
  induction t as [|c r IH]; intros b; cbn [utf8_enc].
  - intros [= <-]. reflexivity.
  - destruct (utf8_enc1 c) as [bc|] eqn:Ec; [|discriminate].
    destruct (utf8_enc r) as [br|] eqn:Er; [|discriminate].
    intros [= <-]. rewrite (utf8_enc1_dec _ _ _ Ec), (IH _ eq_refl). reflexivity.
Qed.

Lemma utf8_enc1_scalar c : scalar c = true -> exists b, utf8_enc1 c = Some b.
Proof.
  unfold scalar, utf8_enc1. intros H.
  destruct ((0 <=? c) && (c <? 128)) eqn:E1; [eauto|].
  destruct ((128 <=? c) && (c <? 2048)) eqn:E2; [eauto|].
  destruct (((2048 <=? c) && (c <? 55296)) || ((57344 <=? c) && (c <? 65536))) eqn:E3; [eauto|].
  destruct ((65536 <=? c) && (c <? 1114112)) eqn:E4; [eauto|]. lia.
Qed.

Theorem utf8_enc_scalar t : scalar_text t = true -> exists b, utf8_enc t = Some b.
Proof.
  induction t as [|c r IH]; cbn [scalar_text forallb utf8_enc]; [eauto|].
  intros H. apply andb_true_iff in H as [Hc Hr].
  destruct (utf8_enc1_scalar _ Hc) as [bc ->]. destruct (IH Hr) as [br ->]. eauto.
Qed.

(** ASCII text is its own encoding *)
Lemma utf8_enc_ascii t :
  forallb (fun b => (0 <=? b) && (b <? 128)) t = true -> utf8_enc t = Some t.
Proof.
  induction t as [|c r IH]; cbn [forallb utf8_enc]; [reflexivity|].
  intros H. apply andb_true_iff in H as [Hc Hr]. rewrite (IH Hr).
  unfold utf8_enc1. rewrite Hc. reflexivity.
Qed.

Lemma utf8_dec_ascii t :
  forallb (fun b => (0 <=? b) && (b <? 128)) t = true -> utf8_dec t = Some t.
Proof.
  intros H. apply utf8_roundtrip, utf8_enc_ascii, H.
Qed.

(** encoding is injective (distinct names have distinct keys) *)
Lemma utf8_enc_inj a b x : utf8_enc a = Some x -> utf8_enc b = Some x -> a = b.
Proof.
  intros Ha Hb. apply utf8_roundtrip in Ha, Hb. congruence.
Qed.
