(** List and text lemmas shared by the C02 proofs. *)
From Coq Require Import ZArith List Bool Lia Arith.
From SpyneV Require Import Base.Prelude Wire.Dict C02.Spec.
Import ListNotations.
Open Scope Z_scope.

Lemma text_eqb_eq a : forall b, text_eqb a b = true <-> a = b.
Proof.
  induction a as [|x a IH]; intros [|y b]; cbn [text_eqb]; split; intros H;
    try reflexivity; try discriminate.
  - apply andb_true_iff in H as [H1 H2]. apply Z.eqb_eq in H1. apply IH in H2. congruence.
  - injection H as -> ->. rewrite Z.eqb_refl. cbn [andb]. apply IH. reflexivity.
Qed.

Lemma text_eqb_refl a : text_eqb a a = true.
Proof. apply text_eqb_eq. reflexivity. Qed.

Lemma text_eqb_neq a b : a <> b -> text_eqb a b = false.
Proof.
  intros H. destruct (text_eqb a b) eqn:E; [|reflexivity].
  apply text_eqb_eq in E. contradiction.
Qed.

Lemma text_mem_in x l : text_mem x l = true <-> In x l.
Proof.
  induction l as [|y r IH]; cbn [text_mem In]; [split; [discriminate|tauto]|].
  rewrite orb_true_iff, IH, text_eqb_eq. split; intros [H|H]; auto.
Qed.

Lemma nodup_text_NoDup l : nodup_text l = true -> NoDup l.
Proof.
  induction l as [|x r IH]; cbn [nodup_text]; intros H; [constructor|].
  apply andb_true_iff in H as [H1 H2]. constructor; [|auto].
  intros Hin. apply text_mem_in in Hin. rewrite Hin in H1. discriminate.
Qed.

Lemma mapM_ok {A B} (f : A -> out B) (g : A -> B) l :
  (forall x, In x l -> f x = Ok (g x)) -> mapM f l = Ok (map g l).
Proof.
  induction l as [|x r IH]; intros H; cbn [mapM map]; [reflexivity|].
  rewrite (H x) by (left; reflexivity). cbn [bind].
  rewrite IH by (intros y Hy; apply H; right; exact Hy). reflexivity.
Qed.

Lemma mapM_ext {A B} (f g : A -> out B) l :
  (forall x, In x l -> f x = g x) -> mapM f l = mapM g l.
Proof.
  induction l as [|x r IH]; intros H; cbn [mapM]; [reflexivity|].
  rewrite (H x) by (left; reflexivity).
  rewrite IH by (intros y Hy; apply H; right; exact Hy). reflexivity.
Qed.

Lemma mapM_map {A B C} (f : B -> out C) (g : A -> B) l :
  mapM f (map g l) = mapM (fun x => f (g x)) l.
Proof.
  induction l as [|x r IH]; cbn [mapM map]; [reflexivity|]. rewrite IH. reflexivity.
Qed.

Lemma set_nth_app {A} (pre : list A) x y suf :
  set_nth (length pre) x (pre ++ y :: suf) = pre ++ x :: suf.
Proof. induction pre as [|z pre IH]; cbn [length app set_nth]; [reflexivity|]. rewrite IH. reflexivity. Qed.

Lemma nth_app_len {A} (pre : list A) y suf d : nth (length pre) (pre ++ y :: suf) d = y.
Proof. induction pre as [|z pre IH]; cbn [length app nth]; [reflexivity|]. exact IH. Qed.

Lemma find_name_skip n pre : forall i f suf,
  ~ In n (map df_name pre) -> df_name f = n ->
  find_name n (pre ++ f :: suf) i = Some ((i + length pre)%nat, f).
Proof.
  induction pre as [|g pre IH]; intros i f suf Hn Hf; cbn [app find_name map length].
  - rewrite <- Hf, text_eqb_refl. f_equal. f_equal. lia.
  - cbn [map In] in Hn. rewrite text_eqb_neq by (intros E; apply Hn; left; congruence).
    rewrite IH by tauto. f_equal. f_equal. lia.
Qed.

Lemma assoc_name_skip n pn : forall pv x sn sv,
  length pn = length pv -> ~ In n pn ->
  assoc_name n (pn ++ n :: sn) (pv ++ x :: sv) = x.
Proof.
  induction pn as [|m pn IH]; intros [|v pv] x sn sv Hl Hn; cbn [length] in Hl; try discriminate;
    cbn [app assoc_name].
  - rewrite text_eqb_refl. reflexivity.
  - cbn [In] in Hn. rewrite text_eqb_neq by (intros E; apply Hn; left; congruence).
    apply IH; [lia|tauto].
Qed.

Lemma NoDup_app_head {A} (pre : list A) x suf : NoDup (pre ++ x :: suf) -> ~ In x pre.
Proof.
  intros H Hin. apply NoDup_remove_2 in H. apply H. apply in_or_app. left. exact Hin.
Qed.

Lemma repeat_app_cons {A} (x : A) n : repeat x (S n) = x :: repeat x n.
Proof. reflexivity. Qed.

Lemma forallb_In {A} (f : A -> bool) l x : forallb f l = true -> In x l -> f x = true.
Proof. intros H Hin. rewrite forallb_forall in H. auto. Qed.
