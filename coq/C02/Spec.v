(** C02 — the specification side: what a conformant value is, what the documented
    conventions of the dict-document protocols say its document is, and the
    reference reader of such documents.  Definitions only; written from the
    property text and Spyne's documentation, not from the code (the code's model
    is Wire/Dict.v).

    Conventions: the method name is the single key of the request map; an object is a map
    from member name to value (members that are None are left out; a member that must
    occur is sent as null) or the positional list of all its members; with
    ignore_wrappers=False every object is a single-key map named after its class; arrays
    and repeated members are lists; numbers and booleans are native; decimals are their
    string form; bytes are base64 text (JSON, YAML) or msgpack bin; integers msgpack
    cannot carry (outside -2^63 .. 2^64-1) travel as decimal text; MessagePack keys and
    text may be str or bin. *)
From SpyneV Require Export Wire.Dict.
From SpyneV Require Import C08.IntModel C08.BinModel.

(** how a MessagePack peer writes keys, text and the doubles 0.0 / 1.0 (irrelevant for
    JSON and YAML) *)
Record style := mkstyle { st_key_bin : bool; st_text_bin : bool; st_dbl_int : bool }.

(** what Spyne's own MessagePack serializer emits *)
Definition spyne_style : style := mkstyle true true true.

Definition utf8_bytes (t : text) : list Z :=
  match utf8_enc t with Some b => b | None => [] end.

Definition in64 (z : Z) : bool := (- 2 ^ 63 <=? z) && (z <? 2 ^ 64).

(** nesting depth of a value *)
Fixpoint vdepth (v : dval) : nat :=
  match v with
  | DObj _ fs =>
      S ((fix go (l : list dval) : nat :=
            match l with [] => O | x :: r => Nat.max (vdepth x) (go r) end) fs)
  | DList xs =>
      S ((fix go (l : list dval) : nat :=
            match l with [] => O | x :: r => Nat.max (vdepth x) (go r) end) xs)
  | _ => O
  end.

(** Python equality identifies 0.0 / -0.0 / 1.0 with 0 / 0 / 1: every protocol's number
    reader returns [int(value)] for a value equal to True or False *)
Definition lnorm (l : lval) : lval :=
  match l with
  | LDouble x => match in_true_false (JFlt x) with Some z => LInt z | None => l end
  | _ => l
  end.

Fixpoint vnorm (v : dval) : dval :=
  match v with
  | DLeaf l => DLeaf (lnorm l)
  | DObj d fs => DObj d ((fix go (l : list dval) : list dval :=
                            match l with [] => [] | x :: r => vnorm x :: go r end) fs)
  | DList xs => DList ((fix go (l : list dval) : list dval :=
                          match l with [] => [] | x :: r => vnorm x :: go r end) xs)
  | _ => v
  end.

Section Spec.
  Variable c : cfg.
  Variable U : duniverse.

  Definition msgpack : bool := is_msgpack c.

  (** ** conformance *)
  Definition leaf_ok (k : lkind) (l : lval) : bool :=
    match k, l with
    | KInt msl, LInt z =>
        if msgpack && negb (in64 z) then ext_leb (Fin (len (str_int z))) msl else true
    | KText, LText t => scalar_text t
    | KBool, LBool _ => true
    | KDouble, LDouble x =>
        (0 <=? x) && (x <? 2 ^ 64)
        && match float_class x with FInf | FNan => false | _ => true end
    | KDecimal msl, LDecimal d => (0 <=? d_coef d) && ext_leb (Fin (len (dec_str d))) msl
    | KBytes, LBytes b => forallb byte_ok b
    | _, _ => false
    end.

  (** with empty_is_none=True the empty text and the empty byte string ARE None (that is the
      documented meaning of the option): they are not values of such a slot *)
  Definition leaf_empty (l : lval) : bool :=
    match l with LText [] | LBytes [] => true | _ => false end.

  (** may member [f] be None?  absent (min_occurs = 0) or nillable; in the positional form
      every member is on the wire, so a None there must be a nillable single member
      (or validation is off) *)
  Definition none_ok (f : dfield) : bool :=
    if c_list c then negb (dmulti f) && (df_nillable f || negb (c_soft c))
    else if dmulti f then df_min f <=? 0
    else (df_min f <=? 0) || df_nillable f.

  Definition occurs_ok (f : dfield) (x : dval) : bool :=
    if dmulti f then
      match x with
      | DList xs => (df_min f <=? Z.of_nat (length xs))
                    && match df_max f with Some m => Z.of_nat (length xs) <=? m | None => true end
      | _ => false
      end
    else true.

  (** [poly]: may an instance of a subclass stand where a class is declared *)
  Variable poly : bool.

  Definition class_ok (d c0 : cid) : bool :=
    if poly then dsub U d c0 else Nat.eqb d c0.

  (** [conf multi t v]: the non-None value [v] inhabits a slot of type [t]
      (a repeated one iff [multi]) *)
  Fixpoint conf (multi : bool) (t : dty) (v : dval) {struct v} : bool :=
    match v with
    | DNone => false
    | DRaw _ => false
    | DLeaf l => negb multi && match t with
                               | DPrim k => leaf_ok k l
                               | DPrimE k => leaf_ok k l && negb (leaf_empty l)
                               | _ => false
                               end
    | DList xs =>
        if multi then
          (fix go (l : list dval) : bool :=
             match l with [] => true | x :: r => conf false t x && go r end) xs
        else
          match t with
          | DArr e =>
              (fix go (l : list dval) : bool :=
                 match l with [] => true | x :: r => conf false e x && go r end) xs
          | _ => false
          end
    | DObj d fs =>
        negb multi &&
        match t with
        | DRef c0 =>
            class_ok d c0 &&
            match dflat U d with
            | Some ffs =>
                (fix go (ffs : list dfield) (fs : list dval) {struct fs} : bool :=
                   match ffs, fs with
                   | [], [] => true
                   | f :: r, x :: s =>
                       (match x with
                        | DNone => none_ok f
                        | _ => occurs_ok f x && conf (dmulti f) (df_ty f) x
                        end) && go r s
                   | _, _ => false
                   end) ffs fs
            | None => false
            end
        | _ => false
        end
    end.

  (** a member value: None where allowed, else conformant with the right number of items *)
  Definition member_conf (f : dfield) (x : dval) : bool :=
    match x with
    | DNone => none_ok f
    | _ => occurs_ok f x && conf (dmulti f) (df_ty f) x
    end.

  Fixpoint members_conf (ffs : list dfield) (fs : list dval) : bool :=
    match ffs, fs with
    | [], [] => true
    | f :: r, x :: s => member_conf f x && members_conf r s
    | _, _ => false
    end.

  (** ** well-formed universes: member names are distinct encodable text, arrays are
      single-occurrence members, occurrence bounds make sense, class names are distinct *)
  Fixpoint text_mem (x : text) (l : list text) : bool :=
    match l with [] => false | y :: r => text_eqb x y || text_mem x r end.
  Fixpoint nodup_text (l : list text) : bool :=
    match l with [] => true | x :: r => negb (text_mem x r) && nodup_text r end.

  Definition field_ok (f : dfield) : bool :=
    scalar_text (df_name f)
    && match df_max f with Some m => (1 <=? m) && (df_min f <=? m) | None => true end
    && match df_ty f with DArr _ => negb (dmulti f) | _ => true end.

  Definition cls_wf (d : cid) : bool :=
    match dflat U d, dname U d with
    | Some ffs, Some n => nodup_text (map df_name ffs) && forallb field_ok ffs && scalar_text n
    | _, _ => false
    end.

  Definition wf_universe : bool :=
    forallb cls_wf (seq 0 (length U)) && nodup_text (map dc_name U).

  (** ** the conventional document of a value *)
  Variable st : style.

  Definition skey (name : text) : jv :=
    if msgpack && st_key_bin st then JBytes (utf8_bytes name) else JStr name.
  Definition stext (t : text) : jv :=
    if msgpack && st_text_bin st then JBytes (utf8_bytes t) else JStr t.

  Definition sleaf (k : lkind) (l : lval) : jv :=
    match k, l with
    | KInt _, LInt z => if msgpack && negb (in64 z) then stext (str_int z) else JInt z
    | KText, LText t => stext t
    | KBool, LBool b => JBool b
    | KDouble, LDouble x =>
        if msgpack && st_dbl_int st
        then match in_true_false (JFlt x) with Some z => JInt z | None => JFlt x end
        else JFlt x
    | KDecimal _, LDecimal d => stext (dec_str d)
    | KBytes, LBytes b => if msgpack then JBytes b else JStr (b64encode false b)
    | _, _ => JNull
    end.

  Fixpoint senc (multi : bool) (t : dty) (v : dval) {struct v} : jv :=
    match v with
    | DNone => JNull
    | DRaw _ => JNull
    | DLeaf l => match t with DPrim k | DPrimE k => sleaf k l | _ => JNull end
    | DList xs =>
        if multi then
          JList ((fix go (l : list dval) : list jv :=
                    match l with [] => [] | x :: r => senc false t x :: go r end) xs)
        else
          match t with
          | DArr e =>
              JList ((fix go (l : list dval) : list jv :=
                        match l with [] => [] | x :: r => senc false e x :: go r end) xs)
          | _ => JNull
          end
    | DObj d fs =>
        match dflat U d, dname U d with
        | Some ffs, Some cname =>
            let body :=
              if c_list c then
                JList ((fix go (ffs : list dfield) (fs : list dval) {struct fs} : list jv :=
                          match ffs, fs with
                          | f :: r, x :: s => senc (dmulti f) (df_ty f) x :: go r s
                          | _, _ => []
                          end) ffs fs)
              else
                JMap ((fix go (ffs : list dfield) (fs : list dval) {struct fs} : list (jv * jv) :=
                         match ffs, fs with
                         | f :: r, x :: s =>
                             if is_none x && (df_min f <=? 0) then go r s
                             else (skey (df_name f), senc (dmulti f) (df_ty f) x) :: go r s
                         | _, _ => []
                         end) ffs fs) in
            if c_iw c then body else JMap [(skey cname, body)]
        | _, _ => JNull
        end
    end.

  (** the members part of an object document, for the request body *)
  Definition sbody (ffs : list dfield) (fs : list dval) : jv :=
    if c_list c then
      JList ((fix go (ffs : list dfield) (fs : list dval) {struct fs} : list jv :=
                match ffs, fs with
                | f :: r, x :: s => senc (dmulti f) (df_ty f) x :: go r s
                | _, _ => []
                end) ffs fs)
    else
      JMap ((fix go (ffs : list dfield) (fs : list dval) {struct fs} : list (jv * jv) :=
               match ffs, fs with
               | f :: r, x :: s =>
                   if is_none x && (df_min f <=? 0) then go r s
                   else (skey (df_name f), senc (dmulti f) (df_ty f) x) :: go r s
               | _, _ => []
               end) ffs fs).

  (** the members of an object in positional order (the msgpack-rpc parameter array) *)
  Definition spositional (ffs : list dfield) (fs : list dval) : list jv :=
    (fix go (ffs : list dfield) (fs : list dval) {struct fs} : list jv :=
       match ffs, fs with
       | f :: r, x :: s => senc (dmulti f) (df_ty f) x :: go r s
       | _, _ => []
       end) ffs fs.

  (** ** the reference leaf reader (for response documents): accepts every conventional form *)
  Definition sleaf_dec (nillable : bool) (k : lkind) (j : jv) : out dval :=
    match j with
    | JNull => Ok DNone
    | _ =>
        match k, j with
        | KInt _, JInt z => Ok (DLeaf (LInt z))
        | KInt _, JStr s | KInt _, JBytes s =>
            if msgpack then match int_of_text s with Some z => Ok (DLeaf (LInt z)) | None => VFault end
            else VFault
        | KText, JStr s => Ok (DLeaf (LText s))
        | KText, JBytes b =>
            if msgpack then match utf8_dec b with Some t => Ok (DLeaf (LText t)) | None => VFault end
            else VFault
        | KBool, JBool b => Ok (DLeaf (LBool b))
        | KDouble, JFlt x => Ok (DLeaf (lnorm (LDouble x)))
        | KDouble, JInt z => Ok (DLeaf (LInt z))
        | KDecimal _, JStr s =>
            match dec_parse s with Some d => Ok (DLeaf (LDecimal d)) | None => VFault end
        | KDecimal _, JBytes s =>
            if msgpack then match dec_parse s with Some d => Ok (DLeaf (LDecimal d)) | None => VFault end
            else VFault
        | KBytes, JBytes b => if msgpack then Ok (DLeaf (LBytes b)) else VFault
        | KBytes, JStr s =>
            if msgpack then VFault
            else match b64decode false s with
                 | Ok b =>
                     (* strictly (RFC 4648): the text is the encoding of what it decodes to,
                        so padding occurs at the end only and nothing is skipped *)
                     if text_eqb (b64encode false b) s then Ok (DLeaf (LBytes b)) else VFault
                 | _ => VFault
                 end
        | _, _ => VFault
        end
    end.
End Spec.

(** ** requests and responses of a method *)
Section Calls.
  Variable c : cfg.
  Variable U : duniverse.
  Variable st : style.

  (** {method name: members of the in_message} *)
  Definition sreq (s : dsig) (args : list dval) : jv :=
    JMap [(skey c st (sg_name s), sbody c (ext_universe U s) st (sg_params s) args)].

  (** msgpack-rpc: [0, msgid, method, params] with positional parameters;
      the answer is [1, msgid, nil, result] *)
  Definition srpc_req (msgid : jv) (s : dsig) (args : list dval) : jv :=
    JList [JInt 0; msgid; skey c st (sg_name s);
           JList (spositional c (ext_universe U s) st (sg_params s) args)].

  Definition srpc_resp (s : dsig) (rets : list dval) : jv :=
    JList [JInt 1; JInt 0; JNull;
           senc c (ext_universe U s) st false (DRef (out_cid U)) (DObj (out_cid U) rets)].

  Definition srpc_resp_dec (fuel : nat) (s : dsig) (j : jv) : out (list dval) :=
    match j with
    | JList [JInt 1; _; JNull; body] =>
        do o <- d2o_gen c (ext_universe U s) (sleaf_dec c) fuel (DRef (out_cid U)) body;
        match o with
        | DObj _ rets => Ok rets
        | _ => VFault
        end
    | _ => VFault
    end.

  (** the conventional response document: the bare value of a single result when
      wrappers are ignored, else the out_message object *)
  Definition sresp (s : dsig) (rets : list dval) : jv :=
    match single_result c s rets with
    | Some (r, v) => senc c (ext_universe U s) st (dmulti r) (df_ty r) v
    | None => senc c (ext_universe U s) st false (DRef (out_cid U)) (DObj (out_cid U) rets)
    end.

  (** the reference reader of a response document: the structural reader over the
      reference leaf reader; null is None *)
  Definition sresp_dec (fuel : nat) (s : dsig) (j : jv) : out (list dval) :=
    let U' := ext_universe U s in
    match c_iw c, sg_results s with
    | true, [r] =>
        if jv_is_null j then Ok [DNone]
        else if dmulti r then
          match j with
          | JList l => do xs <- mapM (fdv_gen c U' (sleaf_dec c) fuel (df_nillable r) (df_ty r)) l;
                       Ok [DList xs]
          | _ => VFault
          end
        else do x <- fdv_gen c U' (sleaf_dec c) fuel (df_nillable r) (df_ty r) j; Ok [x]
    | _, _ =>
        do o <- d2o_gen c U' (sleaf_dec c) fuel (DRef (out_cid U)) j;
        match o with
        | DObj _ rets => Ok rets
        | _ => VFault
        end
    end.
End Calls.
