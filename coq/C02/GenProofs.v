(** C02: what the definitions generated from the source (Gen/DictDoc.v, rebuilt from
    the working tree on every run by harness/translate/dictdoc.py) must say for the
    theorems to hold.  An edit of one of the translated tokens breaks a lemma here. *)
From Coq Require Import ZArith List Bool Lia ZifyBool.
From SpyneV Require Import Base.Prelude Base.Ext Gen.DictDoc.
Import ListNotations.
Open Scope Z_scope.

(** msgpack.py integer_to_bytes: native exactly on what the MessagePack format carries,
    int64 and uint64: -2^63 .. 2^64-1 *)
Lemma mp_native_int_spec z : mp_native_int z = ((- 2 ^ 63 <=? z) && (z <? 2 ^ 64)).
Proof.
  change (2 ^ 63) with 9223372036854775808. change (2 ^ 64) with 18446744073709551616.
  destruct (mp_native_int z) eqn:A;
    destruct ((- 9223372036854775808 <=? z) && (z <? 18446744073709551616)) eqn:B;
    try reflexivity; unfold mp_native_int, ext_leb, ext_ltb in A; lia.
Qed.

(** hier.py _get_member_pairs: a member is written iff it is not None, or must occur, or
    the positional form is used *)
Lemma member_written_spec n m l : member_written n (Fin m) l = negb n || (0 <? m) || l.
Proof.
  destruct (member_written n (Fin m) l) eqn:A; destruct (negb n || (0 <? m) || l) eqn:B;
    try reflexivity; unfold member_written, ext_ltb in A; destruct n, l; cbn in *; try discriminate; lia.
Qed.

(** hier.py _get_member_pairs: the cycle guard knows the ancestors of a member only, so the
    document is a function of the value alone (as [o2d] is), shared instances included *)
Lemma cycle_guard_spec : cycle_guard_per_branch = true.
Proof. reflexivity. Qed.

(** hier.py _from_dict_value: empty_is_none reads the empty text and the empty byte string as
    null, and nothing else (0, 0.0, False stay what they are) *)
Lemma empty_is_none_spec : ein_empty_str = true /\ ein_empty_bytes = true.
Proof. split; reflexivity. Qed.

(** model/binary.py ByteArray.to_base64: one text for the concatenation of the chunks, also
    when there is no chunk *)
Lemma bytes_base64_spec : bytes_encoded_as_one = true /\ bytes_no_chunks_ok = true.
Proof. split; reflexivity. Qed.

(** hier.py _object_to_doc: a single-occurrence Array class is unwrapped, a repeated one is not *)
Lemma strip_cond_single : strip_cond true (Fin 1) (Fin 1) = true.
Proof. reflexivity. Qed.

Lemma strip_cond_repeated : strip_cond true (Fin 1) PosInf = false.
Proof. reflexivity. Qed.

Lemma is_repeated_spec m : is_repeated (Fin m) = (1 <? m) /\ is_repeated PosInf = true.
Proof. split; reflexivity. Qed.

(** hier.py _doc_to_object *)
Lemma reads_many_spec m : reads_many (Fin m) = (1 <? m) /\ reads_many PosInf = true.
Proof. split; reflexivity. Qed.

Lemma wrapper_arity_spec n :
  wrapper_empty (Fin n) = (n =? 0) /\ wrapper_too_many (Fin n) = (1 <? n).
Proof. split; reflexivity. Qed.

(** dictdoc/_base.py _check_freq_dict *)
Lemma freq_spec n mn mx :
  freq_low (Fin n) (Fin mn) = (n <? mn)
  /\ freq_high (Fin n) (Fin mx) = (mx <? n) /\ freq_high (Fin n) PosInf = false.
Proof. repeat split; reflexivity. Qed.

(** the repaired statements are in place *)
Lemma repairs_in_place :
  null_member_is_none = true /\ body_lookup_both_key_forms = true /\ single_none_is_null = true
  /\ mp_int_reader_strict = true /\ int_slot_float_is_int = true /\ ret_bool_by_identity = true
  /\ bytes_text_decoded_first = true /\ hier_counts_array_items = false.
Proof. repeat split; reflexivity. Qed.

(** the repairs of the malformed-input side (not needed by the fidelity theorems; the model
    follows them, and an edit of one of them shows here) *)
Lemma malformed_input_repairs_in_place :
  scalar_for_repeated_refused = true /\ binary_source_checked = true /\ number_source_checked = true
  /\ null_body_absent_args = true /\ bare_body_under_message_name = true
  /\ mp_envelope_errors_are_decode_errors = true /\ rpc_nil_params_absent_args = true.
Proof. repeat split; reflexivity. Qed.

(** the leaf handler every protocol instance dispatches to is the one the model
    (Wire.Dict.leaf_enc / leaf_conv) transcribes *)
Definition expected_handlers : list (gproto * bool * gkind * hname) :=
  [ (GJson, false, GInt, H_ret_number); (GJson, true, GInt, H_ret);
    (GJson, false, GText, H_unicode_from_bytes); (GJson, true, GText, H_unicode_to_unicode);
    (GJson, false, GBool, H_ret_bool); (GJson, true, GBool, H_ret);
    (GJson, false, GDouble, H_ret_number); (GJson, true, GDouble, H_ret);
    (GJson, false, GDecimal, H_decimal_from_unicode); (GJson, true, GDecimal, H_decimal_to_unicode);
    (GJson, false, GBytes, H_byte_array_from_bytes); (GJson, true, GBytes, H_byte_array_to_unicode);
    (GYaml, false, GInt, H_ret_number); (GYaml, true, GInt, H_ret);
    (GYaml, false, GText, H_unicode_from_bytes); (GYaml, true, GText, H_unicode_to_unicode);
    (GYaml, false, GBool, H_ret_bool); (GYaml, true, GBool, H_ret);
    (GYaml, false, GDouble, H_ret_number); (GYaml, true, GDouble, H_ret);
    (GYaml, false, GDecimal, H_decimal_from_unicode); (GYaml, true, GDecimal, H_decimal_to_unicode);
    (GYaml, false, GBytes, H_byte_array_from_bytes); (GYaml, true, GBytes, H_byte_array_to_unicode);
    (GMsgpack, false, GInt, H_integer_from_bytes_mp); (GMsgpack, true, GInt, H_integer_to_bytes_mp);
    (GMsgpack, false, GText, H_unicode_from_bytes); (GMsgpack, true, GText, H_unicode_to_bytes);
    (GMsgpack, false, GBool, H_ret_bool); (GMsgpack, true, GBool, H_ret_bool);
    (GMsgpack, false, GDouble, H_ret_number); (GMsgpack, true, GDouble, H_ret_number);
    (GMsgpack, false, GDecimal, H_decimal_from_unicode); (GMsgpack, true, GDecimal, H_decimal_to_bytes);
    (GMsgpack, false, GBytes, H_byte_array_from_bytes); (GMsgpack, true, GBytes, H_byte_array_to_bytes) ].

Lemma handlers_as_modelled : handlers = expected_handlers.
Proof. reflexivity. Qed.

(** keys and text are bytes exactly for MessagePack; bytes are base64 text for JSON and YAML;
    the defaults are ignore_wrappers=True, complex_as=dict *)
Lemma protocol_facts :
  GJson_key_utf8 = false /\ GYaml_key_utf8 = false /\ GMsgpack_key_utf8 = true
  /\ GJson_writes_bytes = false /\ GYaml_writes_bytes = false /\ GMsgpack_writes_bytes = true
  /\ GJson_base64 = true /\ GYaml_base64 = true /\ GMsgpack_base64 = false
  /\ GJson_default_ignore_wrappers = true /\ GYaml_default_ignore_wrappers = true
  /\ GMsgpack_default_ignore_wrappers = true
  /\ GJson_default_dict = true /\ GYaml_default_dict = true /\ GMsgpack_default_dict = true.
Proof. repeat split; reflexivity. Qed.
