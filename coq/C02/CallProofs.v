(** C02 at the level of a method call: a request built by the documented conventions
    enters the user function with the sent arguments; the response document is the
    conventional one and decodes to the returned values. *)
From Coq Require Import ZArith List Bool Lia Arith ZifyBool.
From SpyneV Require Import Base.Prelude Base.Digits Base.Ext Wire.Utf8 Wire.Decimal Wire.Dict.
From SpyneV Require Import Gen.DictDoc C02.GenProofs C02.Spec C02.Utf8Proofs C02.Lists C02.EncProofs
     C02.DecProofs C02.DecimalProofs C02.LeafProofs.
Import ListNotations.
Open Scope Z_scope.

Section Top.
  Variable c : cfg.
  Variable U : duniverse.

  (** an instance of a subclass may stand for its base class exactly where the documents
      name classes: polymorphic=True and ignore_wrappers=False *)
  Definition rpoly : bool := c_poly c && negb (c_iw c).

  Lemma ext_get_in s : dget (ext_universe U s) (in_cid U) = Some (mkdc (sg_name s) None (sg_params s)).
  Proof.
    unfold dget, ext_universe, in_cid. rewrite nth_error_app2 by lia. rewrite Nat.sub_diag. reflexivity.
  Qed.

  Lemma ext_get_out s : dget (ext_universe U s) (out_cid U) = Some (mkdc (sg_out s) None (sg_results s)).
  Proof.
    unfold dget, ext_universe, out_cid. rewrite nth_error_app2 by lia.
    replace (S (length U) - length U)%nat with 1%nat by lia. reflexivity.
  Qed.

  Lemma ext_flat_in s : dflat (ext_universe U s) (in_cid U) = Some (sg_params s).
  Proof. unfold dflat. cbn [dflat_fuel]. rewrite ext_get_in. reflexivity. Qed.

  Lemma ext_flat_out s : dflat (ext_universe U s) (out_cid U) = Some (sg_results s).
  Proof. unfold dflat. cbn [dflat_fuel]. rewrite ext_get_out. reflexivity. Qed.

  Lemma ext_name_in s : dname (ext_universe U s) (in_cid U) = Some (sg_name s).
  Proof. unfold dname. rewrite ext_get_in. reflexivity. Qed.

  Lemma ext_name_out s : dname (ext_universe U s) (out_cid U) = Some (sg_out s).
  Proof. unfold dname. rewrite ext_get_out. reflexivity. Qed.

  Lemma obj_conf U' poly d ffs fs :
    dflat U' d = Some ffs -> members_conf c U' poly ffs fs = true ->
    conf c U' poly false (DRef d) (DObj d fs) = true.
  Proof.
    intros Hd Hm. rewrite conf_obj, Hd, mconf_eq, Hm. cbn [negb andb]. rewrite andb_true_r.
    unfold class_ok. destruct poly; [|apply Nat.eqb_refl].
    unfold dsub. cbn [dsub_fuel]. rewrite Nat.eqb_refl. reflexivity.
  Qed.

  Lemma rpoly_iw : rpoly = true -> c_iw c = false.
  Proof. unfold rpoly. intros H. apply andb_true_iff in H as [_ H]. apply negb_true_iff, H. Qed.

  Lemma rpoly_poly : rpoly = true -> c_poly c = true.
  Proof. unfold rpoly. intros H. apply andb_true_iff in H as [H _]. exact H. Qed.

  (** ** requests *)
  Theorem request_fidelity st sigs s args fuel :
    wf_universe (ext_universe U s) = true ->
    find_sig sigs (sg_name s) = Some s ->
    members_conf c (ext_universe U s) rpoly (sg_params s) args = true ->
    (vdepth (DObj (in_cid U) args) <= fuel)%nat ->
    serve_request c U fuel sigs (sreq c U st s args) = SCall (map vnorm args).
  Proof.
    intros Hwf Hfind Hm Hf. set (U' := ext_universe U s) in *.
    pose proof (wf_cls U' (in_cid U) _ Hwf (ext_flat_in s)) as Hcw. unfold cls_wf in Hcw.
    fold U' in Hcw. unfold U' in Hcw at 1 2. rewrite ext_flat_in, ext_name_in in Hcw.
    apply andb_true_iff in Hcw as [_ Hsn].
    unfold serve_request, sreq.
    assert (Hmk : forall B, exists is_str,
                 method_key c (JMap [(skey c st (sg_name s), B)]) = Ok (Some (sg_name s), is_str, B)).
    { intros B. unfold method_key, skey, msgpack, is_msgpack, key_bytes.
      destruct (c_proto c); cbn [andb]; eauto;
        (destruct (st_key_bin st); [|eauto]); rewrite (utf8_bytes_dec _ Hsn); eauto. }
    destruct (Hmk (sbody c (ext_universe U s) st (sg_params s) args)) as [is_str Hmk'].
    rewrite Hmk', Hfind. fold U'.
    change body_lookup_both_key_forms with true. cbn [negb]. rewrite andb_false_r.
    pose proof (d2o_object c U' rpoly st (leaf_dec c) Hwf rpoly_iw
                           (fun nillable k l => leaf_dec_spec c st nillable k l)
                           (leaf_dec_null c) (norm_key_spec c st) (key_name_spec c st)
                           (in_cid U) (in_cid U) args fuel
                           (obj_conf U' rpoly (in_cid U) _ args (ext_flat_in s) Hm) Hf) as HD.
    rewrite senc_obj in HD. unfold U' in HD at 2 3. rewrite ext_flat_in, ext_name_in in HD. fold U' in HD.
    rewrite <- sbody_eq in HD.
    assert (Hnn : jv_is_null (sbody c U' st (sg_params s) args) = false)
      by (unfold sbody; destruct (c_list c); reflexivity).
    rewrite Hnn, andb_false_r. cbn [andb].
    unfold d2o. rewrite HD, vnorm_obj. reflexivity.
  Qed.

  (** ** responses *)
  Lemma single_result_some s rets r v :
    single_result c s rets = Some (r, v) -> c_iw c = true /\ sg_results s = [r] /\ rets = [v].
  Proof.
    unfold single_result. destruct (c_iw c); [|discriminate].
    destruct (sg_results s) as [|r0 [|r1 rs]]; try discriminate.
    destruct rets as [|v0 [|v1 vs]]; try discriminate. intros [= <- <-]. auto.
  Qed.

  Lemma single_result_none s rets :
    single_result c s rets = None -> length (sg_results s) = length rets ->
    match c_iw c, sg_results s with true, [r] => False | _, _ => True end.
  Proof.
    unfold single_result. destruct (c_iw c); [|auto].
    destruct (sg_results s) as [|r0 [|r1 rs]]; auto.
    destruct rets as [|v0 [|v1 vs]]; cbn [length]; try discriminate; intros; lia.
  Qed.

  Lemma members_conf_length U' poly ffs : forall fs,
    members_conf c U' poly ffs fs = true -> length ffs = length fs.
  Proof. intros fs H. rewrite <- mconf_eq in H. eapply mconf_length, H. Qed.

  Theorem response_fidelity s rets fuel :
    wf_universe (ext_universe U s) = true ->
    negb (c_list c) || c_iw c = true ->
    members_conf c (ext_universe U s) rpoly (sg_results s) rets = true ->
    (2 * vdepth (DObj (out_cid U) rets) + 1 <= fuel)%nat ->
    serve_response c U fuel s rets = Ok (sresp c U spyne_style s rets)
    /\ sresp_dec c U fuel s (sresp c U spyne_style s rets) = Ok (map vnorm rets).
  Proof.
    intros Hwf Hresp Hm Hf. set (U' := ext_universe U s) in *.
    unfold serve_response, sresp, sresp_dec. fold U'.
    change single_none_is_null with true. cbn [negb].
    destruct (single_result c s rets) as [[r v]|] eqn:Es.
    - (* a single result, wrapper stripped *)
      destruct (single_result_some _ _ _ _ Es) as (Hiw & Hres & ->). rewrite Hres in Hm.
      cbn [members_conf] in Hm. apply andb_true_iff in Hm as [Hmv _].
      assert (Hdv : (vdepth v < vdepth (DObj (out_cid U) [v]))%nat)
        by (apply vdepth_obj_in; left; reflexivity).
      rewrite andb_false_r. split.
      + apply o2d_member with (poly := rpoly); auto using rpoly_poly, leaf_enc_spec, mkkey_spec. lia.
      + rewrite Hiw, Hres. destruct (is_none v) eqn:Hv.
        * apply is_none_true in Hv. subst v. reflexivity.
        * rewrite (member_conf_some c U' rpoly _ _ Hv) in Hmv. apply andb_true_iff in Hmv as [Hocc Hcv].
          rewrite (conf_nonnull c U' rpoly spyne_style Hwf _ _ _ Hcv).
          destruct (dmulti r) eqn:Hmul.
          -- unfold occurs_ok in Hocc. rewrite Hmul in Hocc. destruct v as [| | |xs|]; try discriminate.
             rewrite senc_multi, mapM_map. rewrite conf_multi in Hcv.
             rewrite (mapM_ok _ vnorm).
             ++ cbn [bind map]. rewrite vnorm_list. reflexivity.
             ++ intros y Hy. pose proof (vdepth_list_in _ _ Hy).
                apply (dec_all c U' rpoly spyne_style (sleaf_dec c) Hwf rpoly_iw
                               (fun nillable k l => sleaf_dec_spec c spyne_style nillable k l)
                               (fun nillable k _ => sleaf_dec_null c nillable k)
                               (norm_key_spec c spyne_style) (key_name_spec c spyne_style) (vdepth y));
                  [lia|lia|eapply forallb_In; eauto].
          -- unfold fdv_gen.
             rewrite (fdv_member c U' rpoly spyne_style (sleaf_dec c) Hwf rpoly_iw
                                 (fun nillable k l => sleaf_dec_spec c spyne_style nillable k l)
                                 (fun nillable k _ => sleaf_dec_null c nillable k)
                                 (norm_key_spec c spyne_style) (key_name_spec c spyne_style) r v fuel).
             ++ reflexivity.
             ++ rewrite (member_conf_some c U' rpoly _ _ Hv), Hmul, Hocc, Hcv. reflexivity.
             ++ exact Hmul.
             ++ lia.
             ++ intros ->. discriminate.
    - (* the out_message object *)
      pose proof (obj_conf U' rpoly (out_cid U) _ rets (ext_flat_out s) Hm) as Hc.
      split.
      + apply tdv_object with (poly := rpoly); auto using rpoly_poly, leaf_enc_spec, mkkey_spec. lia.
      + pose proof (single_result_none _ _ Es (members_conf_length _ _ _ _ Hm)) as Hns.
        assert (Hbranch : forall (A B : out (list dval)) (F : dfield -> out (list dval)),
                   (forall r, sg_results s = [r] -> c_iw c = true -> False) ->
                   match c_iw c, sg_results s with true, [r] => F r | _, _ => B end = B).
        { intros A B F HF. destruct (c_iw c); [|reflexivity].
          destruct (sg_results s) as [|r0 [|r1 rs]]; try reflexivity. exfalso. eapply HF; reflexivity. }
        rewrite Hbranch.
        * rewrite (d2o_object c U' rpoly spyne_style (sleaf_dec c) Hwf rpoly_iw
                              (fun nillable k l => sleaf_dec_spec c spyne_style nillable k l)
                              (fun nillable k _ => sleaf_dec_null c nillable k)
                              (norm_key_spec c spyne_style) (key_name_spec c spyne_style)
                              (out_cid U) (out_cid U) rets fuel Hc ltac:(lia)).
          cbn [bind]. rewrite vnorm_obj. reflexivity.
        * exact (Ok []).
        * intros r Hr Hiw. rewrite Hiw, Hr in Hns. exact Hns.
  Qed.

  (** ** a whole call, for every user function *)
  Theorem call_fidelity st sigs s (f : list dval -> list dval) args fuel :
    wf_universe (ext_universe U s) = true ->
    find_sig sigs (sg_name s) = Some s ->
    negb (c_list c) || c_iw c = true ->
    members_conf c (ext_universe U s) rpoly (sg_params s) args = true ->
    members_conf c (ext_universe U s) rpoly (sg_results s) (f (map vnorm args)) = true ->
    (vdepth (DObj (in_cid U) args) <= fuel)%nat ->
    (2 * vdepth (DObj (out_cid U) (f (map vnorm args))) + 1 <= fuel)%nat ->
    exists j,
      serve_request c U fuel sigs (sreq c U st s args) = SCall (map vnorm args)
      /\ serve_response c U fuel s (f (map vnorm args)) = Ok j
      /\ j = sresp c U spyne_style s (f (map vnorm args))
      /\ sresp_dec c U fuel s j = Ok (map vnorm (f (map vnorm args))).
  Proof.
    intros Hwf Hfind Hresp Ha Hr Hf1 Hf2.
    destruct (response_fidelity s (f (map vnorm args)) fuel Hwf Hresp Hr Hf2) as [H1 H2].
    eexists. split; [apply request_fidelity; assumption|]. split; [exact H1|]. split; [reflexivity|exact H2].
  Qed.
  (** ** MessagePackRpc: positional parameters in, [1, 0, nil, out_message] out *)
  Fixpoint rpc_args_ok (ffs : list dfield) (fs : list dval) : Prop :=
    match ffs, fs with
    | f :: r, x :: s0 =>
        (x = DNone -> dmulti f = false /\ (df_nillable f = true \/ c_soft c = false))
        /\ rpc_args_ok r s0
    | _, _ => True
    end.

  Lemma rpc_args_ok_in ffs : forall fs f x,
    rpc_args_ok ffs fs -> In (f, x) (combine ffs fs) -> x = DNone ->
    dmulti f = false /\ (df_nillable f = true \/ c_soft c = false).
  Proof.
    induction ffs as [|g r IH]; intros [|y s0] f x H Hin; cbn [combine In] in Hin; try tauto.
    cbn [rpc_args_ok] in H. destruct H as [H1 H2]. destruct Hin as [E|Hin].
    - injection E as <- <-. exact H1.
    - eapply IH; eauto.
  Qed.

  Theorem rpc_request_fidelity st msgid sigs s args fuel :
    c_iw c = true ->
    wf_universe (ext_universe U s) = true ->
    find_sig sigs (sg_name s) = Some s ->
    members_conf c (ext_universe U s) false (sg_params s) args = true ->
    rpc_args_ok (sg_params s) args ->
    (vdepth (DObj (in_cid U) args) <= fuel)%nat ->
    rpc_request c U fuel sigs (srpc_req c U st msgid s args) = SCall (map vnorm args).
  Proof.
    intros Hiw Hwf Hfind Hm Hok Hf. set (U' := ext_universe U s) in *.
    pose proof (wf_cls U' (in_cid U) _ Hwf (ext_flat_in s)) as Hcw. unfold cls_wf in Hcw.
    fold U' in Hcw. unfold U' in Hcw at 1 2. rewrite ext_flat_in, ext_name_in in Hcw.
    apply andb_true_iff in Hcw as [_ Hsn].
    unfold rpc_request, srpc_req. cbn [iter_doc]. unfold rpc_go. cbn [num_of].
    assert (Hname : match skey c st (sg_name s) with
                    | JStr s0 => Some (Some s0)
                    | JBytes b => match utf8_dec b with Some n => Some (Some n) | None => None end
                    | _ => Some None
                    end = Some (Some (sg_name s))).
    { unfold skey. destruct (msgpack c && st_key_bin st); [|reflexivity].
      rewrite (utf8_bytes_dec _ Hsn). reflexivity. }
    rewrite Hname, Hfind. fold U'. cbn [jv_is_null andb]. rewrite spositional_eq.
    pose proof (d2o_positional c U' false st (leaf_dec c) Hwf (fun E => ltac:(discriminate E))
                               (fun nillable k l => leaf_dec_spec c st nillable k l)
                               (leaf_dec_null c) (norm_key_spec c st) (key_name_spec c st)
                               (in_cid U) args (sg_params s) fuel Hiw (ext_flat_in s)) as HD.
    rewrite mconf_eq in HD. specialize (HD Hm (fun f x Hin E => rpc_args_ok_in _ _ f x Hok Hin E) Hf).
    unfold d2o. rewrite HD. reflexivity.
  Qed.

  Theorem rpc_response_fidelity s rets fuel :
    c_iw c = true ->
    wf_universe (ext_universe U s) = true ->
    members_conf c (ext_universe U s) false (sg_results s) rets = true ->
    (2 * vdepth (DObj (out_cid U) rets) + 1 <= fuel)%nat ->
    rpc_response c U fuel s rets = Ok (srpc_resp c U spyne_style s rets)
    /\ srpc_resp_dec c U fuel s (srpc_resp c U spyne_style s rets) = Ok (map vnorm rets).
  Proof.
    intros Hiw Hwf Hm Hf. set (U' := ext_universe U s) in *.
    pose proof (obj_conf U' false (out_cid U) _ rets (ext_flat_out s) Hm) as Hc.
    assert (Hresp : negb (c_list c) || c_iw c = true) by (rewrite Hiw; apply orb_true_r).
    split.
    - unfold rpc_response, srpc_resp. fold U'.
      rewrite (tdv_object c U' false spyne_style Hwf (fun E => ltac:(discriminate E))
                          (leaf_enc_spec c) (mkkey_spec c) Hresp (out_cid U) rets fuel Hc ltac:(lia)).
      reflexivity.
    - unfold srpc_resp_dec, srpc_resp. fold U'.
      rewrite (d2o_object c U' false spyne_style (sleaf_dec c) Hwf (fun E => ltac:(discriminate E))
                          (fun nillable k l => sleaf_dec_spec c spyne_style nillable k l)
                          (fun nillable k _ => sleaf_dec_null c nillable k)
                          (norm_key_spec c spyne_style) (key_name_spec c spyne_style)
                          (out_cid U) (out_cid U) rets fuel Hc ltac:(lia)).
      cbn [bind]. rewrite vnorm_obj. reflexivity.
  Qed.
End Top.
