(** Decimal: [Decimal(str(d))] is [d] (same sign, coefficient and exponent) for every
    finite decimal, whatever its magnitude. *)
From Coq Require Import ZArith List Bool Lia ZifyBool.
From SpyneV Require Import Base.Prelude Base.Digits Base.DigitsProofs Wire.Decimal.
Import ListNotations.
Open Scope Z_scope.

Definition digits (l : text) : Prop := Forall (fun c => is_digit c = true) l.

Lemma span_dig_app ds : forall r,
  digits ds -> match r with [] => True | c :: _ => is_digit c = false end ->
  span_dig (ds ++ r) = (ds, r).
Proof.
  induction ds as [|d ds IH]; intros r Hd Hr; cbn [app span_dig].
  - destruct r as [|c r]; [reflexivity|]. cbn [span_dig]. rewrite Hr. reflexivity.
  - inversion Hd as [|? ? H1 H2]; subst. rewrite H1, (IH r H2 Hr). reflexivity.
Qed.

Lemma span_dig_all ds : digits ds -> span_dig ds = (ds, []).
Proof. intros H. rewrite <- (app_nil_r ds) at 1. apply span_dig_app; [exact H|exact I]. Qed.

Lemma digits_app a b : digits a -> digits b -> digits (a ++ b).
Proof. intros. apply Forall_app. split; assumption. Qed.

Lemma digits_zeros k : digits (zeros k).
Proof.
  unfold zeros. apply Forall_forall. intros x Hx. apply repeat_spec in Hx. subst. reflexivity.
Qed.

Lemma digits_firstn n l : digits l -> digits (firstn n l).
Proof.
  intros H. rewrite <- (firstn_skipn n l) in H. apply Forall_app in H. apply H.
Qed.

Lemma digits_skipn n l : digits l -> digits (skipn n l).
Proof.
  intros H. rewrite <- (firstn_skipn n l) in H. apply Forall_app in H. apply H.
Qed.

Lemma len_app (a b : text) : len (a ++ b) = len a + len b.
Proof. unfold len. rewrite app_length. lia. Qed.

Lemma len_zeros k : 0 <= k -> len (zeros k) = k.
Proof. intros H. unfold len, zeros. rewrite repeat_length. lia. Qed.

Lemma len_firstn d (l : text) : 0 <= d <= len l -> len (firstn (Z.to_nat d) l) = d.
Proof. unfold len. intros H. rewrite firstn_length. lia. Qed.

Lemma len_skipn d (l : text) : 0 <= d <= len l -> len (skipn (Z.to_nat d) l) = len l - d.
Proof. unfold len. intros H. rewrite skipn_length. lia. Qed.

Lemma val_zeros k : forall a, a = 0 -> val_digits a (zeros k) = 0.
Proof.
  unfold zeros. induction (Z.to_nat k) as [|n IH]; intros a ->; [reflexivity|].
  cbn [repeat]. unfold val_digits in *. cbn [fold_left]. apply IH. unfold dstep. lia.
Qed.

Lemma val_zeros_app k l : val_digits 0 (zeros k ++ l) = val_digits 0 l.
Proof. rewrite val_digits_app, val_zeros; reflexivity. Qed.

Lemma fmt_plus_d_parse z :
  let '(eneg, r4) := match fmt_plus_d z with
                     | 45 :: r' => (true, r')
                     | 43 :: r' => (false, r')
                     | _ => (false, fmt_plus_d z)
                     end in
  exists ed, span_dig r4 = (ed, []) /\ is_nil ed = false
             /\ (if eneg then - val_digits 0 ed else val_digits 0 ed) = z.
Proof.
  unfold fmt_plus_d. destruct (z <? 0) eqn:E.
  - exists (str_nat (- z)). split; [apply span_dig_all, str_nat_digits; lia|]. split.
    + pose proof (str_nat_nonempty (- z) ltac:(lia)). destruct (str_nat (- z)); [contradiction|reflexivity].
    + rewrite val_str_nat0 by lia. lia.
  - exists (str_nat z). split; [apply span_dig_all, str_nat_digits; lia|]. split.
    + pose proof (str_nat_nonempty z ltac:(lia)). destruct (str_nat z); [contradiction|reflexivity].
    + rewrite val_str_nat0 by lia. reflexivity.
Qed.

Lemma is_nil_str_nat n : 0 <= n -> is_nil (str_nat n) = false.
Proof.
  intros H. pose proof (str_nat_nonempty n H). destruct (str_nat n); [contradiction|reflexivity].
Qed.

(** the four shapes [str(d)] produces: digits [. digits] [E±digits] *)
Lemma parse_shape ip fp (hasdot : bool) (ez : option Z) :
  digits ip -> digits fp -> (hasdot = false -> fp = []) -> (ip <> [] \/ fp <> []) ->
  dec_parse_unsigned (ip ++ (if hasdot then 46 :: fp else [])
                         ++ match ez with Some z => 69 :: fmt_plus_d z | None => [] end)
  = Some (val_digits 0 (ip ++ fp), match ez with Some z => z | None => 0 end - len fp).
Proof.
  intros Hip Hfp Hdot Hne. unfold dec_parse_unsigned.
  set (ex := match ez with Some z => 69 :: fmt_plus_d z | None => [] end).
  assert (Hex : match ex with [] => True | c0 :: _ => is_digit c0 = false end)
    by (subst ex; destruct ez; [reflexivity|exact I]).
  destruct hasdot.
  - cbn [app]. rewrite (span_dig_app ip (46 :: fp ++ ex) Hip eq_refl). cbv beta iota zeta.
    rewrite (span_dig_app fp ex Hfp Hex). cbv beta iota zeta.
    assert (Hnil : is_nil ip && is_nil fp = false).
    { destruct ip, fp; try reflexivity. destruct Hne; congruence. }
    rewrite Hnil. subst ex. destruct ez as [z|]; [|cbv beta iota zeta; f_equal; f_equal; lia].
    cbv beta iota zeta. replace ((69 =? 69) || (69 =? 101)) with true by reflexivity.
    cbv beta iota zeta.
    unfold fmt_plus_d. destruct (z <? 0) eqn:Ez; cbv beta iota zeta.
    + rewrite (span_dig_all (str_nat (- z))) by (apply str_nat_digits; lia). cbv beta iota zeta.
      rewrite is_nil_str_nat by lia. cbn [orb negb is_nil]. rewrite val_str_nat0 by lia.
      f_equal; f_equal; lia.
    + rewrite (span_dig_all (str_nat z)) by (apply str_nat_digits; lia). cbv beta iota zeta.
      rewrite is_nil_str_nat by lia. cbn [orb negb is_nil]. rewrite val_str_nat0 by lia.
      reflexivity.
  - rewrite (Hdot eq_refl) in *. cbn [app]. rewrite (span_dig_app ip ex Hip Hex). cbv beta iota zeta.
    assert (Hnil : is_nil ip && is_nil (@nil Z) = false).
    { destruct ip; [destruct Hne; congruence|reflexivity]. }
    subst ex. destruct ez as [z|].
    + cbv beta iota zeta. rewrite Hnil. replace ((69 =? 69) || (69 =? 101)) with true by reflexivity.
      cbv beta iota zeta.
      unfold fmt_plus_d. destruct (z <? 0) eqn:Ez; cbv beta iota zeta.
      * rewrite (span_dig_all (str_nat (- z))) by (apply str_nat_digits; lia). cbv beta iota zeta.
        rewrite is_nil_str_nat by lia. cbn [orb negb is_nil]. rewrite val_str_nat0 by lia.
        f_equal; f_equal; lia.
      * rewrite (span_dig_all (str_nat z)) by (apply str_nat_digits; lia). cbv beta iota zeta.
        rewrite is_nil_str_nat by lia. cbn [orb negb is_nil]. rewrite val_str_nat0 by lia.
        reflexivity.
    + cbv beta iota zeta. rewrite Hnil. reflexivity.
Qed.

Definition ends_digit (l : text) : Prop := exists m d, l = m ++ [d] /\ is_digit d = true.

Lemma ends_digit_digits l : digits l -> l <> [] -> ends_digit l.
Proof.
  intros Hd Hne. destruct (exists_last Hne) as (m & d & ->). exists m, d. split; [reflexivity|].
  apply Forall_app in Hd as [_ Hd]. inversion Hd. assumption.
Qed.

Lemma ends_digit_app p l : ends_digit l -> ends_digit (p ++ l).
Proof. intros (m & d & -> & H). exists (p ++ m), d. rewrite app_assoc. auto. Qed.

Lemma strip_nospace l c m : l = c :: m -> is_space c = false -> ends_digit l -> strip l = l.
Proof.
  intros Hl Hc (m' & d & Hm & Hd). eapply strip_id; eauto. apply digit_not_space, Hd.
Qed.

Lemma fmt_plus_d_ends z : ends_digit (fmt_plus_d z).
Proof.
  unfold fmt_plus_d. destruct (z <? 0) eqn:E.
  - apply (ends_digit_app [45]). apply ends_digit_digits; [apply str_nat_digits; lia|apply str_nat_nonempty; lia].
  - apply (ends_digit_app [43]). apply ends_digit_digits; [apply str_nat_digits; lia|apply str_nat_nonempty; lia].
Qed.

Lemma ed_cons c l : ends_digit l -> ends_digit (c :: l).
Proof. intros H. apply (ends_digit_app [c] l H). Qed.

Lemma ed_nil_r l : ends_digit l -> ends_digit (l ++ []).
Proof. rewrite app_nil_r. auto. Qed.

Lemma dec_parse_body (neg : bool) (body : text) c0 m coef e :
  body = c0 :: m -> is_digit c0 = true -> ends_digit body ->
  dec_parse_unsigned body = Some (coef, e) ->
  dec_parse ((if neg then [45] else []) ++ body) = Some (mkdec neg coef e).
Proof.
  intros Hbm Hc0 Hend Hparse. unfold dec_parse. destruct neg; cbn [app].
  - rewrite (strip_nospace (45 :: body) 45 body eq_refl eq_refl (ends_digit_app [45] body Hend)).
    rewrite Hparse. reflexivity.
  - rewrite (strip_nospace body c0 m Hbm (digit_not_space _ Hc0) Hend).
    rewrite Hbm in *.
    assert (Hcases : c0 = 48 \/ c0 = 49 \/ c0 = 50 \/ c0 = 51 \/ c0 = 52 \/ c0 = 53 \/ c0 = 54
                     \/ c0 = 55 \/ c0 = 56 \/ c0 = 57) by (unfold is_digit in Hc0; lia).
    repeat (destruct Hcases as [->|Hcases];
            [cbv beta iota zeta; rewrite Hparse; reflexivity|]).
    subst c0. cbv beta iota zeta. rewrite Hparse. reflexivity.
Qed.

Ltac norm_app := cbn [app]; rewrite ?app_nil_r, <- ?app_assoc; cbn [app].

Theorem dec_roundtrip d : 0 <= d_coef d -> dec_parse (dec_str d) = Some d.
Proof.
  intros Hc. destruct d as [neg coef e]. cbn [d_coef d_neg d_exp] in *.
  unfold dec_str. cbn [d_coef d_neg d_exp].
  remember (str_nat coef) as ds eqn:Eds0.
  assert (Hds : digits ds) by (rewrite Eds0; apply str_nat_digits; exact Hc).
  assert (Hne : ds <> []) by (rewrite Eds0; apply str_nat_nonempty; exact Hc).
  assert (Hval : val_digits 0 ds = coef) by (rewrite Eds0; apply val_str_nat0; exact Hc).
  clear Eds0.
  assert (Hn : 1 <= len ds) by (unfold len; destruct ds; [contradiction|cbn [length]; lia]).
  set (n := len ds) in *. cbv zeta.
  destruct ((e <=? 0) && (-6 <? e + n)) eqn:Hplain.
  - (* plain notation: no exponent part *)
    rewrite Z.eqb_refl. destruct (e + n <=? 0) eqn:Hd0.
    + (* 0.000ddd *)
      apply dec_parse_body with (c0 := 48) (m := 46 :: zeros (- (e + n)) ++ ds).
      * norm_app. reflexivity.
      * reflexivity.
      * norm_app. apply ed_cons, ed_cons, ends_digit_app, ends_digit_digits; assumption.
      * pose proof (parse_shape [48] (zeros (- (e + n)) ++ ds) true None) as P.
        cbv beta iota in P. cbn [app] in P |- *.
        rewrite P; [| repeat constructor | apply digits_app; [apply digits_zeros|exact Hds]
                    | discriminate | left; discriminate].
        f_equal. f_equal.
        -- change (48 :: zeros (- (e + n)) ++ ds) with (zeros 1 ++ zeros (- (e + n)) ++ ds).
           rewrite !val_zeros_app. exact Hval.
        -- rewrite len_app, len_zeros by lia. fold n. lia.
    + destruct (n <=? e + n) eqn:Hd1.
      * (* an integer: e = 0 *)
        assert (e = 0) by lia. subst e. replace (0 + n - n) with 0 by lia.
        unfold zeros. cbn [Z.to_nat repeat].
        destruct ds as [|c0 m] eqn:Eds; [contradiction|].
        apply dec_parse_body with (c0 := c0) (m := m).
        -- norm_app. reflexivity.
        -- inversion Hds; assumption.
        -- norm_app. apply ends_digit_digits; [exact Hds|discriminate].
        -- pose proof (parse_shape (c0 :: m) [] false None) as P.
           cbv beta iota in P. cbn [app] in P. cbn [app]. rewrite ?app_nil_r in P. rewrite ?app_nil_r.
           rewrite P; [|exact Hds|constructor|reflexivity|left; discriminate].
           f_equal; f_equal; rewrite ?app_nil_r; try exact Hval; try reflexivity.
      * (* ddd.ddd *)
        set (dot := e + n) in *.
        assert (Hdot : 0 < dot < n) by lia.
        assert (Hf : firstn (Z.to_nat dot) ds <> []).
        { intros E0. pose proof (len_firstn dot ds ltac:(fold n; lia)) as L. rewrite E0 in L.
          unfold len in L. cbn [length] in L. lia. }
        assert (Hs : skipn (Z.to_nat dot) ds <> []).
        { intros E0. pose proof (len_skipn dot ds ltac:(fold n; lia)) as L. rewrite E0 in L.
          unfold len in L at 1. cbn [length] in L. fold n in L. lia. }
        pose proof (digits_firstn (Z.to_nat dot) ds Hds) as Hfd.
        pose proof (firstn_skipn (Z.to_nat dot) ds) as Hfs.
        destruct (firstn (Z.to_nat dot) ds) as [|c0 m] eqn:Ef; [contradiction|].
        apply dec_parse_body with (c0 := c0) (m := m ++ 46 :: skipn (Z.to_nat dot) ds).
        -- norm_app. reflexivity.
        -- inversion Hfd; assumption.
        -- norm_app. apply ed_cons, ends_digit_app, ed_cons, ends_digit_digits;
             [apply digits_skipn, Hds|exact Hs].
        -- pose proof (parse_shape (c0 :: m) (skipn (Z.to_nat dot) ds) true None) as P.
           cbv beta iota in P. cbn [app] in P. cbn [app]. rewrite ?app_nil_r in P. rewrite ?app_nil_r.
           rewrite P; [|exact Hfd|apply digits_skipn, Hds|discriminate|left; discriminate].
           f_equal. f_equal.
           ++ cbn [app] in Hfs. rewrite ?Hfs. exact Hval.
           ++ rewrite len_skipn by (fold n; lia). fold n. lia.
  - (* scientific notation: d[.ddd]E±x *)
    assert (Hleft : (e + n =? 1) = false) by lia. rewrite Hleft.
    replace (1 <=? 0) with false by reflexivity.
    destruct (n <=? 1) eqn:Hn1.
    + assert (n = 1) by lia. replace (1 - n) with 0 by lia.
      unfold zeros. cbn [Z.to_nat repeat].
      destruct ds as [|c0 m] eqn:Eds; [contradiction|].
      apply dec_parse_body with (c0 := c0) (m := m ++ 69 :: fmt_plus_d (e + n - 1)).
      * norm_app. reflexivity.
      * inversion Hds; assumption.
      * norm_app. apply ed_cons, ends_digit_app, ed_cons, fmt_plus_d_ends.
      * pose proof (parse_shape (c0 :: m) [] false (Some (e + n - 1))) as P.
        cbv beta iota in P. cbn [app] in P. cbn [app]. rewrite ?app_nil_r in P. rewrite ?app_nil_r.
        rewrite P; [|exact Hds|constructor|reflexivity|left; discriminate].
        f_equal; f_equal; rewrite ?app_nil_r; try exact Hval; unfold len; cbn [length]; lia.
    + assert (Hf : firstn (Z.to_nat 1) ds <> []).
      { intros E0. pose proof (len_firstn 1 ds ltac:(fold n; lia)) as L. rewrite E0 in L.
        unfold len in L. cbn [length] in L. lia. }
      pose proof (digits_firstn (Z.to_nat 1) ds Hds) as Hfd.
      pose proof (firstn_skipn (Z.to_nat 1) ds) as Hfs.
      destruct (firstn (Z.to_nat 1) ds) as [|c0 m] eqn:Ef; [contradiction|].
      apply dec_parse_body with (c0 := c0)
                                (m := m ++ 46 :: skipn (Z.to_nat 1) ds ++ 69 :: fmt_plus_d (e + n - 1)).
      * norm_app. reflexivity.
      * inversion Hfd; assumption.
      * norm_app. apply ed_cons, ends_digit_app, ed_cons, ends_digit_app, ed_cons, fmt_plus_d_ends.
      * pose proof (parse_shape (c0 :: m) (skipn (Z.to_nat 1) ds) true (Some (e + n - 1))) as P.
        cbv beta iota in P. cbn [app] in P. cbn [app]. rewrite ?app_nil_r in P. rewrite ?app_nil_r.
        rewrite P; [|exact Hfd|apply digits_skipn, Hds|discriminate|left; discriminate].
        f_equal. f_equal.
        -- cbn [app] in Hfs. rewrite ?Hfs. exact Hval.
        -- rewrite len_skipn by (fold n; lia). fold n. lia.
Qed.

(** the text form is ASCII *)
Lemma is_digit_ascii c : is_digit c = true -> (0 <=? c) && (c <? 128) = true.
Proof. unfold is_digit. lia. Qed.
