(** C02: the structural reader of the dict-document protocols (model:
    Wire.Dict.d2o_gen, for ANY leaf reader that inverts the conventional leaf forms)
    reads the conventional document of a conformant value back as that value. *)
From Coq Require Import ZArith List Bool Lia Arith ZifyBool.
From SpyneV Require Import Base.Prelude Base.Digits Base.Ext Wire.Utf8 Wire.Decimal Wire.Dict.
From SpyneV Require Import Gen.DictDoc C02.GenProofs C02.Spec C02.Utf8Proofs C02.Lists C02.EncProofs C02.LeafProofs.
Import ListNotations.
Open Scope Z_scope.

Lemma vnorm_list xs : vnorm (DList xs) = DList (map vnorm xs).
Proof. cbn [vnorm]. reflexivity. Qed.

Lemma vnorm_obj d fs : vnorm (DObj d fs) = DObj d (map vnorm fs).
Proof. cbn [vnorm]. reflexivity. Qed.

Lemma find_unique {A} (p : A -> bool) l d :
  In d l -> p d = true -> (forall s, In s l -> p s = true -> s = d) -> find p l = Some d.
Proof.
  induction l as [|x r IH]; cbn [In find]; [tauto|]. intros Hin Hp Hu.
  destruct (p x) eqn:E.
  - f_equal. apply Hu; [left; reflexivity|exact E].
  - destruct Hin as [->|Hin]; [congruence|]. apply IH; auto.
Qed.

Lemma NoDup_nth_error_inj {A} (l : list A) i j x :
  NoDup l -> nth_error l i = Some x -> nth_error l j = Some x -> i = j.
Proof.
  intros Hnd Hi Hj. apply (proj1 (NoDup_nth_error l) Hnd); [|congruence].
  apply nth_error_Some. congruence.
Qed.

Section Dec.
  Variable c : cfg.
  Variable U : duniverse.
  Variable poly : bool.
  Variable st : style.
  Variable ldec : bool -> lkind -> jv -> out dval.

  Notation senc' := (senc c U st).
  Notation conf' := (conf c U poly).

  Hypothesis Hwf : wf_universe U = true.
  (** an instance of a subclass only where the document names the class *)
  Hypothesis Hpoly : poly = true -> c_iw c = false.
  (** the leaf reader inverts the conventional leaf forms of style [st] *)
  Hypothesis Hleaf : forall nillable k l, leaf_ok c k l = true ->
                                          ldec nillable k (sleaf c st k l) = Ok (DLeaf (lnorm l)).
  Hypothesis Hnull : forall nillable k, nillable = true \/ c_soft c = false ->
                                        ldec nillable k JNull = Ok DNone.
  Hypothesis Hkey : forall n, scalar_text n = true -> norm_key c (skey c st n) = Ok (JStr n).
  Hypothesis Hkeyname : forall n, scalar_text n = true -> key_name (skey c st n) = Ok (Some n).

  (** ** items of an object document, generically *)
  Fixpoint gitems (keyf : text -> jv) (keep : dfield -> dval -> bool)
           (ffs : list dfield) (fs : list dval) : list (jv * jv) :=
    match ffs, fs with
    | f :: r, x :: s =>
        if keep f x then (keyf (df_name f), senc' (dmulti f) (df_ty f) x) :: gitems keyf keep r s
        else gitems keyf keep r s
    | _, _ => []
    end.

  Definition keepd (f : dfield) (x : dval) : bool := negb (is_none x && (df_min f <=? 0)).

  Lemma mmap_gitems ffs : forall fs, mmap c U st ffs fs = gitems (skey c st) keepd ffs fs.
  Proof.
    induction ffs as [|f r IH]; intros [|x s]; try reflexivity.
    cbn [mmap gitems]. unfold keepd. destruct (is_none x && (df_min f <=? 0)); cbn [negb];
      rewrite IH; reflexivity.
  Qed.

  Lemma mlist_gitems ffs : forall fs,
    combine (map (fun f => JStr (df_name f)) ffs) (mlist c U st ffs fs)
    = gitems JStr (fun _ _ => true) ffs fs.
  Proof.
    induction ffs as [|f r IH]; intros [|x s]; try reflexivity.
    cbn [map mlist combine gitems]. f_equal. apply IH.
  Qed.

  Definition cnt (f : dfield) (x : dval) : Z :=
    if dmulti f then match x with DList xs => Z.of_nat (length xs) | _ => 0 end else 1.

  Fixpoint cnts (keep : dfield -> dval -> bool) (ffs : list dfield) (fs : list dval) : list Z :=
    match ffs, fs with
    | f :: r, x :: s => (if keep f x then cnt f x else 0) :: cnts keep r s
    | _, _ => []
    end.

  (** what the loop needs from the recursive reader for one member *)
  Definition mdec_ok (rec : bool -> dty -> jv -> out dval) (f : dfield) (x : dval) : Prop :=
    if dmulti f then
      exists xs, x = DList xs /\
                 mapM (rec (df_nillable f) (df_ty f)) (map (senc' false (df_ty f)) xs)
                 = Ok (map vnorm xs)
    else rec (df_nillable f) (df_ty f) (senc' false (df_ty f) x) = Ok (vnorm x).

  Lemma fold_gitems rec ffs0 keyf keep :
    NoDup (map df_name ffs0) ->
    (forall f, In f ffs0 -> norm_key c (keyf (df_name f)) = Ok (JStr (df_name f))) ->
    forall suf fsuf pre ipre qpre,
      ffs0 = pre ++ suf -> length ipre = length pre -> length qpre = length pre ->
      length suf = length fsuf ->
      (forall f x, In (f, x) (combine suf fsuf) -> keep f x = true -> mdec_ok rec f x) ->
      (forall f x, In (f, x) (combine suf fsuf) -> keep f x = false -> x = DNone) ->
      fold_items c rec ffs0
                 (ipre ++ repeat DNone (length suf), qpre ++ repeat 0 (length suf))
                 (gitems keyf keep suf fsuf)
      = Ok (ipre ++ map vnorm fsuf, qpre ++ cnts keep suf fsuf).
  Proof.
    intros Hnd Hk. induction suf as [|f suf IH]; intros [|x fsuf] pre ipre qpre E Li Lq L Hrec Hskip;
      cbn [length] in L; try discriminate.
    - cbn [gitems fold_items map cnts repeat length]. reflexivity.
    - assert (Hin : In f ffs0) by (rewrite E; apply in_or_app; right; left; reflexivity).
      assert (Hnotin : ~ In (df_name f) (map df_name pre)).
      { rewrite E, map_app in Hnd. cbn [map] in Hnd. eapply NoDup_app_head, Hnd. }
      (* the induction hypothesis, for the state after this member *)
      assert (IH' : forall v q,
                 fold_items c rec ffs0
                            ((ipre ++ [v]) ++ repeat DNone (length suf), (qpre ++ [q]) ++ repeat 0 (length suf))
                            (gitems keyf keep suf fsuf)
                 = Ok ((ipre ++ [v]) ++ map vnorm fsuf, (qpre ++ [q]) ++ cnts keep suf fsuf)).
      { intros v q. apply (IH fsuf (pre ++ [f])).
        - rewrite <- app_assoc. exact E.
        - rewrite !app_length. cbn [length]. lia.
        - rewrite !app_length. cbn [length]. lia.
        - lia.
        - intros g y Hg. apply Hrec. right. exact Hg.
        - intros g y Hg. apply Hskip. right. exact Hg. }
      cbn [gitems cnts map]. destruct (keep f x) eqn:Hkeep.
      + (* the member is on the wire *)
        cbn [fold_items]. unfold step_item at 1. cbn [fst snd].
        rewrite (Hk f Hin). cbn [bind]. unfold find_field.
        rewrite E, (find_name_skip (df_name f) pre 0%nat f suf Hnotin eq_refl). cbn [Nat.add].
        specialize (Hrec f x (or_introl eq_refl) Hkeep). unfold mdec_ok in Hrec. unfold cnt.
        cbn [repeat length]. rewrite <- Li.
        destruct (dmulti f) eqn:Hmul.
        * destruct Hrec as (xs & -> & Hm). rewrite senc_multi. cbn [iter_doc]. rewrite Hm. cbn [bind].
          rewrite nth_app_len. cbn [app]. rewrite set_nth_app.
          unfold add_nth. rewrite Li, <- Lq, nth_app_len, set_nth_app. rewrite map_length.
          rewrite Z.add_0_l.
          specialize (IH' (DList (map vnorm xs)) (Z.of_nat (length xs))).
          rewrite <- !app_assoc in IH'. cbn [app] in IH'. rewrite <- E. rewrite IH'. rewrite vnorm_list. reflexivity.
        * rewrite Hrec. cbn [bind]. rewrite set_nth_app.
          unfold add_nth. rewrite Li, <- Lq, nth_app_len, set_nth_app. rewrite Z.add_0_l.
          specialize (IH' (vnorm x) 1). rewrite <- !app_assoc in IH'. cbn [app] in IH'. rewrite <- E. exact IH'.
      + (* the member was left out: it is None *)
        rewrite (Hskip f x (or_introl eq_refl) Hkeep). cbn [repeat length vnorm].
        specialize (IH' DNone 0). rewrite <- !app_assoc in IH'. cbn [app] in IH'. exact IH'.
  Qed.

  (** ** occurrence check *)
  Lemma freq_ok_cnts keep ffs : forall fs,
    forallb (field_ok) ffs = true -> mconf c U poly ffs fs = true ->
    (forall f x, keep f x = false -> x = DNone /\ df_min f <= 0) ->
    (forall f x, In (f, x) (combine ffs fs) -> x = DNone -> dmulti f = true -> keep f x = false) ->
    freq_ok ffs (cnts keep ffs fs) = true.
  Proof.
    intros fs Hfo Hm K1 K2. unfold freq_ok, freq_low, freq_high, hier_counts_array_items.
    revert fs Hm K2. induction ffs as [|f r IH]; intros [|x s] Hm K2; cbn [mconf] in Hm; try discriminate;
      [reflexivity|].
    cbn [forallb] in Hfo. apply andb_true_iff in Hfo as [Hf Hfo].
    apply andb_true_iff in Hm as [Hmx Hm].
    cbn [cnts combine forallb fst snd].
    rewrite (IH Hfo s Hm (fun g y Hin => K2 g y (or_intror Hin))), andb_true_r.
    specialize (K2 f x (or_introl eq_refl)).
    unfold field_ok in Hf. apply andb_true_iff in Hf as [Hf Harr]. apply andb_true_iff in Hf as [_ Hocc].
    unfold cnt, dmulti in *.
    destruct (keep f x) eqn:Hkeep.
    - destruct (is_none x) eqn:Hx.
      + apply is_none_true in Hx. subst x.
        destruct (match df_max f with Some m => 1 <? m | None => true end) eqn:Hmul.
        * specialize (K2 eq_refl eq_refl). congruence.
        * destruct (df_ty f), (df_max f) as [m|]; try discriminate;
            repeat (cbv beta iota zeta; match goal with |- context [match ?z with _ => _ end] => is_var z; destruct z end); cbv beta iota zeta delta [ext_ltb]; lia.
      + rewrite (member_conf_some c U poly _ _ Hx) in Hmx. apply andb_true_iff in Hmx as [Ho _].
        unfold occurs_ok, dmulti in Ho.
        destruct (match df_max f with Some m => 1 <? m | None => true end) eqn:Hmul.
        * destruct x; try discriminate.
          destruct (df_ty f), (df_max f) as [m|]; try discriminate;
            repeat (cbv beta iota zeta; match goal with |- context [match ?z with _ => _ end] => is_var z; destruct z end); cbv beta iota zeta delta [ext_ltb]; lia.
        * destruct (df_ty f), (df_max f) as [m|]; try discriminate;
            repeat (cbv beta iota zeta; match goal with |- context [match ?z with _ => _ end] => is_var z; destruct z end); cbv beta iota zeta delta [ext_ltb]; lia.
    - destruct (K1 f x Hkeep) as [-> Hmin].
      destruct (df_ty f), (df_max f) as [m|]; try discriminate;
        repeat (cbv beta iota zeta; match goal with |- context [match ?z with _ => _ end] => is_var z; destruct z end); cbv beta iota zeta delta [ext_ltb]; lia.
  Qed.

  (** ** class names *)
  Lemma dname_inj a b n : dname U a = Some n -> dname U b = Some n -> a = b.
  Proof.
    unfold wf_universe in Hwf. apply andb_true_iff in Hwf as [_ Hnd].
    apply nodup_text_NoDup in Hnd. unfold dname, dget. intros Ha Hb.
    apply (NoDup_nth_error_inj (map dc_name U) a b n Hnd); rewrite nth_error_map.
    - destruct (nth_error U a); [exact Ha|discriminate].
    - destruct (nth_error U b); [exact Hb|discriminate].
  Qed.

  Lemma unwrap_spec c0 d body cname ffs :
    dflat U d = Some ffs -> dname U d = Some cname -> scalar_text cname = true ->
    class_ok U poly d c0 = true ->
    unwrap c U c0 (if c_iw c then body else JMap [(skey c st cname, body)]) = Ok (Some (d, body)).
  Proof.
    intros Hdf Hn Hs Hcls. unfold unwrap. destruct (c_iw c) eqn:Hiw.
    - unfold class_ok in Hcls. destruct poly; [specialize (Hpoly eq_refl); congruence|].
      apply Nat.eqb_eq in Hcls. subst. reflexivity.
    - rewrite (Hkeyname _ Hs). cbn [bind]. unfold class_ok in Hcls.
      destruct (Nat.eq_dec d c0) as [->|Hne].
      + unfold name_is at 1. rewrite Hn, text_eqb_refl. reflexivity.
      + assert (Hsub : dsub U d c0 = true).
        { destruct poly; [exact Hcls|]. apply Nat.eqb_eq in Hcls. contradiction. }
        assert (Hin : In d (dsubclasses U c0)).
        { unfold dsubclasses. apply filter_In. split.
          - apply in_seq. pose proof (dflat_some_lt _ _ _ Hdf). lia.
          - rewrite Hsub, andb_true_r. apply negb_true_iff, Nat.eqb_neq, Hne. }
        assert (Hn0 : name_is U (Some cname) c0 = false).
        { unfold name_is. destruct (dname U c0) as [n0|] eqn:E0; [|reflexivity].
          apply text_eqb_neq. intros ->. apply Hne. eapply dname_inj; eauto. }
        rewrite Hn0. cbn [orb].
        destruct (dsubclasses U c0) as [|s0 r0] eqn:Es; [destruct Hin|]. cbn [is_nil].
        unfold find_sub. rewrite Es.
        rewrite (find_unique (fun s => name_is U (Some cname) s) (s0 :: r0) d); [reflexivity|exact Hin| |].
        * unfold name_is. rewrite Hn. apply text_eqb_refl.
        * intros s _ Hs0. unfold name_is in Hs0. destruct (dname U s) as [ns|] eqn:E1; [|discriminate].
          apply text_eqb_eq in Hs0. subst ns. eapply dname_inj; eauto.
  Qed.

  (** ** unfolding the readers on a non-null document *)
  Notation rdr k := (d2o_gen c U ldec k).
  Notation fdr k := (fdv_with c ldec (d2o_gen c U ldec k)).

  Lemma fdv_nonnull rec nillable t j :
    (match t with DPrim _ | DPrimE _ => False | _ => True end) -> jv_is_null j = false ->
    fdv_with c ldec rec nillable t j
    = (do r <- rec t j; if c_soft c && negb nillable && is_none r then VFault else Ok r).
  Proof.
    intros Ht Hj. destruct t as [k|k| |]; [destruct Ht|destruct Ht| |];
      destruct j; try discriminate; reflexivity.
  Qed.

  Lemma d2o_arr k e j :
    jv_is_null j = false ->
    rdr (S k) (DArr e) j
    = match iter_doc j with
      | None => VFault
      | Some items => do xs <- mapM (fdr k true e) items; Ok (DList xs)
      end.
  Proof. intros Hj. destruct j; try discriminate; reflexivity. Qed.

  Lemma d2o_ref k d j :
    jv_is_null j = false ->
    rdr (S k) (DRef d) j
    = (do w <- unwrap c U d j;
       match w with
       | None => Ok DNone
       | Some (d', body) =>
           match dflat U d' with
           | None => Crash TypeError
           | Some ffs =>
               do items <- (match body with
                            | JMap kv => Ok kv
                            | _ => match iter_doc body with
                                   | Some l => Ok (combine (map (fun f => JStr (df_name f)) ffs) l)
                                   | None => VFault
                                   end
                            end);
               do st0 <- fold_items c (fdr k) ffs
                           (repeat DNone (length ffs), repeat 0 (length ffs)) items;
               if c_soft c && negb (freq_ok ffs (snd st0)) then VFault
               else Ok (DObj d' (fst st0))
           end
       end).
  Proof. intros Hj. destruct j; try discriminate; reflexivity. Qed.

  (** ** the main induction *)
  Definition Dn (n : nat) : Prop :=
    forall x t nillable fuel, (vdepth x <= n)%nat -> (n <= fuel)%nat -> conf' false t x = true ->
                              fdr fuel nillable t (senc' false t x) = Ok (vnorm x).

  Lemma none_allowed f : member_conf c U poly f DNone = true -> dmulti f = false ->
    (c_list c = true \/ 0 < df_min f) -> df_nillable f = true \/ c_soft c = false.
  Proof.
    cbn [member_conf]. unfold none_ok. intros H Hm Hw. rewrite Hm in H.
    destruct (c_list c).
    - cbn [negb andb] in H. apply orb_true_iff in H as [H|H]; [left; exact H|right].
      apply negb_true_iff in H. exact H.
    - destruct Hw as [Hw|Hw]; [discriminate|]. apply orb_true_iff in H as [H|H]; [lia|left; exact H].
  Qed.

  Lemma member_dec' n k f x :
    (forall m, (m < n)%nat -> Dn m) -> (vdepth x < n)%nat -> (n <= S k)%nat ->
    member_conf c U poly f x = true ->
    (x = DNone -> dmulti f = false /\ (df_nillable f = true \/ c_soft c = false)) ->
    mdec_ok (fdr k) f x.
  Proof.
    intros IH Hd Hk Hm Hnone. unfold mdec_ok. destruct (is_none x) eqn:Hx.
    - apply is_none_true in Hx. subst x. destruct (Hnone eq_refl) as [Hmul Hal]. rewrite Hmul.
      cbn [senc vnorm].
      unfold fdv_with. destruct (df_ty f) as [kd|kd| |].
      + apply Hnull, Hal.
      + cbv beta iota. apply Hnull, Hal.
      + change null_member_is_none with true. cbn [bind is_none].
        destruct Hal as [->| ->]; rewrite ?andb_false_r; reflexivity.
      + change null_member_is_none with true. cbn [bind is_none].
        destruct Hal as [->| ->]; rewrite ?andb_false_r; reflexivity.
    - rewrite (member_conf_some c U poly _ _ Hx) in Hm. apply andb_true_iff in Hm as [Ho Hc].
      destruct (dmulti f) eqn:Hmul.
      + unfold occurs_ok in Ho. rewrite Hmul in Ho. destruct x as [| | |xs|]; try discriminate.
        exists xs. split; [reflexivity|]. rewrite mapM_map. apply mapM_ok. intros y Hy.
        rewrite conf_multi in Hc. pose proof (vdepth_list_in _ _ Hy) as Hyd.
        apply (IH (n - 1)%nat); [lia|lia|lia|]. eapply forallb_In; eauto.
      + apply (IH (n - 1)%nat); [lia|lia|lia|exact Hc].
  Qed.

  Lemma member_dec n k f x :
    (forall m, (m < n)%nat -> Dn m) -> (vdepth x < n)%nat -> (n <= S k)%nat ->
    member_conf c U poly f x = true ->
    (x = DNone -> dmulti f = false /\ (c_list c = true \/ 0 < df_min f)) ->
    mdec_ok (fdr k) f x.
  Proof.
    intros IH Hd Hk Hm Hnone. apply (member_dec' n k f x IH Hd Hk Hm).
    intros E. destruct (Hnone E) as [Hmul Hw]. split; [exact Hmul|].
    subst x. exact (none_allowed f Hm Hmul Hw).
  Qed.

  Lemma d_step n : (forall m, (m < n)%nat -> Dn m) -> Dn n.
  Proof.
    intros IH x t nillable fuel Hd Hf Hc. destruct x as [|l|d fs|xs|j]; try discriminate.
    - (* a leaf *)
      cbn [conf negb andb] in Hc. destruct t as [k|k| |]; try discriminate.
      + cbn [senc vnorm]. unfold fdv_with. apply Hleaf, Hc.
      + (* empty_is_none: the conventional form of a non-empty value is not the empty text *)
        apply andb_true_iff in Hc as [Hc He]. apply negb_true_iff in He.
        cbn [senc vnorm]. unfold fdv_with.
        pose proof (sleaf_nonempty c st k l Hc He) as Hne.
        destruct (sleaf c st k l) as [| | | |[|x0 s0]|[|x0 b0]| |] eqn:E; try discriminate Hne;
          rewrite <- E; apply Hleaf, Hc.
    - (* an object *)
      pose proof Hc as Hc0. rewrite conf_obj in Hc. cbn [negb andb] in Hc.
      destruct t as [k|k|c0|e]; try discriminate.
      apply andb_true_iff in Hc as [Hcls Hm].
      destruct (dflat U d) as [ffs|] eqn:Hdf; [|discriminate].
      pose proof (wf_cls _ _ _ Hwf Hdf) as Hw. unfold cls_wf in Hw. rewrite Hdf in Hw.
      destruct (dname U d) as [cname|] eqn:Hn; [|discriminate].
      apply andb_true_iff in Hw as [Hw Hcn]. apply andb_true_iff in Hw as [Hnd Hfo].
      assert (Hn1 : (1 <= n)%nat) by (cbn [vdepth] in Hd; lia).
      destruct fuel as [|k]; [lia|].
      rewrite fdv_nonnull; [|exact I|eapply conf_nonnull; [exact Hwf|exact Hc0]].
      rewrite d2o_ref by (eapply conf_nonnull; [exact Hwf|exact Hc0]).
      rewrite senc_obj, Hdf, Hn. rewrite (unwrap_spec c0 d _ cname ffs Hdf Hn Hcn Hcls).
      cbn [bind]. rewrite Hdf.
      pose proof (mconf_length _ _ _ _ _ Hm) as Hlen.
      assert (Hmem : forall f y, In (f, y) (combine ffs fs) -> member_conf c U poly f y = true)
        by (intros f y Hin; eapply mconf_in; eauto).
      assert (Hdep : forall f y, In (f, y) (combine ffs fs) -> (vdepth y < n)%nat).
      { intros f y Hin. apply in_combine_r in Hin. pose proof (vdepth_obj_in _ d _ Hin). lia. }
      assert (Hscal : forall f, In f ffs -> scalar_text (df_name f) = true).
      { intros f Hf0. pose proof (forallb_In _ _ _ Hfo Hf0) as H1. unfold field_ok in H1.
        apply andb_true_iff in H1 as [H1 _]. apply andb_true_iff in H1 as [H1 _]. exact H1. }
      unfold sbody'. destruct (c_list c) eqn:Hl.
      + (* positional form *)
        cbn [iter_doc bind]. rewrite mlist_gitems.
        pose proof (fold_gitems (fdr k) ffs JStr (fun _ _ => true)
                                (nodup_text_NoDup _ Hnd)) as HF.
        specialize (HF (fun f _ => ltac:(unfold norm_key; destruct (key_bytes c); reflexivity))).
        specialize (HF ffs fs [] [] [] eq_refl eq_refl eq_refl Hlen).
        cbn [app] in HF. rewrite HF.
        * cbn [bind fst snd]. rewrite freq_ok_cnts; try assumption.
          -- rewrite andb_false_r, vnorm_obj. cbn [bind is_none]. rewrite andb_false_r. reflexivity.
          -- intros; discriminate.
          -- intros f y Hin -> Hmul. specialize (Hmem f DNone Hin). cbn [member_conf] in Hmem.
             unfold none_ok in Hmem. rewrite Hl, Hmul in Hmem. discriminate.
        * intros f y Hin _. apply (member_dec n k f y IH (Hdep f y Hin) Hf (Hmem f y Hin)).
          intros ->. split; [|left; exact Hl].
          specialize (Hmem f DNone Hin). cbn [member_conf] in Hmem. unfold none_ok in Hmem.
          rewrite Hl in Hmem. apply andb_true_iff in Hmem as [Hmem _].
          apply negb_true_iff in Hmem. exact Hmem.
        * intros; discriminate.
      + (* map form *)
        cbn [bind]. rewrite mmap_gitems.
        pose proof (fold_gitems (fdr k) ffs (skey c st) keepd
                                (nodup_text_NoDup _ Hnd)) as HF.
        specialize (HF (fun f Hf0 => Hkey _ (Hscal f Hf0))).
        specialize (HF ffs fs [] [] [] eq_refl eq_refl eq_refl Hlen).
        cbn [app] in HF. rewrite HF.
        * cbn [bind fst snd]. rewrite freq_ok_cnts; try assumption.
          -- rewrite andb_false_r, vnorm_obj. cbn [bind is_none]. rewrite andb_false_r. reflexivity.
          -- intros f y Hk0. unfold keepd in Hk0. apply negb_false_iff in Hk0.
             apply andb_true_iff in Hk0 as [H1 H2]. apply is_none_true in H1. split; [exact H1|lia].
          -- intros f y Hin -> Hmul. specialize (Hmem f DNone Hin). cbn [member_conf] in Hmem.
             unfold none_ok in Hmem. rewrite Hl, Hmul in Hmem. unfold keepd. cbn [is_none].
             rewrite Hmem. reflexivity.
        * intros f y Hin Hkeep. apply (member_dec n k f y IH (Hdep f y Hin) Hf (Hmem f y Hin)).
          intros ->. unfold keepd in Hkeep. cbn [is_none andb] in Hkeep.
          apply negb_true_iff in Hkeep.
          assert (Hmin : 0 < df_min f) by lia. split; [|right; exact Hmin].
          specialize (Hmem f DNone Hin). cbn [member_conf] in Hmem. unfold none_ok in Hmem.
          rewrite Hl in Hmem. destruct (dmulti f); [lia|reflexivity].
        * intros f y _ Hk0. unfold keepd in Hk0. apply negb_false_iff in Hk0.
          apply andb_true_iff in Hk0 as [H1 _]. apply is_none_true in H1. exact H1.
    - (* a list *)
      destruct t as [k|k|c0|e]; try discriminate.
      assert (Hn1 : (1 <= n)%nat) by (cbn [vdepth] in Hd; lia).
      destruct fuel as [|k]; [lia|].
      rewrite senc_arr. rewrite fdv_nonnull; [|exact I|reflexivity].
      rewrite d2o_arr by reflexivity. cbn [iter_doc]. rewrite mapM_map.
      rewrite conf_arr in Hc.
      rewrite (mapM_ok _ vnorm).
      + cbn [bind is_none]. rewrite andb_false_r, vnorm_list. reflexivity.
      + intros y Hy. pose proof (vdepth_list_in _ _ Hy). apply (IH (n - 1)%nat); [lia|lia|lia|].
        eapply forallb_In; eauto.
  Qed.

  Theorem dec_all n : Dn n.
  Proof. induction n as [n IH] using lt_wf_ind. apply d_step, IH. Qed.

  (** positional parameters (msgpack-rpc): the parameter array of a method, whatever
      complex_as says about the objects inside *)
  Theorem d2o_positional d fs ffs fuel :
    c_iw c = true -> dflat U d = Some ffs -> mconf c U poly ffs fs = true ->
    (forall f x, In (f, x) (combine ffs fs) -> x = DNone ->
                 dmulti f = false /\ (df_nillable f = true \/ c_soft c = false)) ->
    (vdepth (DObj d fs) <= fuel)%nat ->
    rdr fuel (DRef d) (JList (mlist c U st ffs fs)) = Ok (DObj d (map vnorm fs)).
  Proof.
    intros Hiw Hdf Hm Hnone Hf.
    pose proof (wf_cls _ _ _ Hwf Hdf) as Hw. unfold cls_wf in Hw. rewrite Hdf in Hw.
    destruct (dname U d) as [cname|] eqn:Hn; [|discriminate].
    apply andb_true_iff in Hw as [Hw Hcn]. apply andb_true_iff in Hw as [Hnd Hfo].
    destruct fuel as [|k]; [cbn [vdepth] in Hf; lia|].
    rewrite d2o_ref by reflexivity. unfold unwrap. rewrite Hiw. cbn [bind]. rewrite Hdf.
    cbn [iter_doc bind]. rewrite mlist_gitems.
    pose proof (mconf_length _ _ _ _ _ Hm) as Hlen.
    pose proof (fold_gitems (fdr k) ffs JStr (fun _ _ => true) (nodup_text_NoDup _ Hnd)) as HF.
    specialize (HF (fun f _ => ltac:(unfold norm_key; destruct (key_bytes c); reflexivity))).
    specialize (HF ffs fs [] [] [] eq_refl eq_refl eq_refl Hlen).
    cbn [app] in HF. rewrite HF.
    - cbn [bind fst snd]. rewrite freq_ok_cnts; try assumption.
      + rewrite andb_false_r. reflexivity.
      + intros; discriminate.
      + intros f y Hin -> Hmul. destruct (Hnone f DNone Hin eq_refl) as [E _]. congruence.
    - intros f y Hin _.
      apply (member_dec' (vdepth (DObj d fs)) k f y (fun m _ => dec_all m)).
      + apply in_combine_r in Hin. apply (vdepth_obj_in _ d _ Hin).
      + exact Hf.
      + eapply mconf_in; eauto.
      + apply (Hnone f y Hin).
    - intros; discriminate.
  Qed.

  (** a member document is read back as the member value (None where allowed) *)
  Theorem fdv_member f x fuel :
    member_conf c U poly f x = true -> dmulti f = false -> (vdepth x <= fuel)%nat ->
    (x = DNone -> c_list c = true \/ 0 < df_min f) ->
    fdr fuel (df_nillable f) (df_ty f) (senc' false (df_ty f) x) = Ok (vnorm x).
  Proof.
    intros Hm Hmul Hf Hn.
    pose proof (member_dec (S (vdepth x)) fuel f x (fun m _ => dec_all m)) as H.
    unfold mdec_ok in H. rewrite Hmul in H. apply H; [lia|lia|exact Hm|].
    intros E. split; [reflexivity|apply Hn, E].
  Qed.

  (** an object document is read back as the object *)
  Theorem d2o_object c0 d fs fuel :
    conf' false (DRef c0) (DObj d fs) = true -> (vdepth (DObj d fs) <= fuel)%nat ->
    rdr fuel (DRef c0) (senc' false (DRef c0) (DObj d fs)) = Ok (vnorm (DObj d fs)).
  Proof.
    intros Hc Hf. pose proof (dec_all (vdepth (DObj d fs)) (DObj d fs) (DRef c0) true fuel
                                      (le_n _) Hf Hc) as H.
    rewrite fdv_nonnull in H; [|exact I|eapply conf_nonnull; [exact Hwf|exact Hc]].
    destruct (rdr fuel (DRef c0) (senc' false (DRef c0) (DObj d fs))) as [r| |e]; cbn [bind] in H;
      try discriminate.
    cbn [negb] in H. rewrite andb_false_r in H. exact H.
  Qed.
End Dec.
