(** C02: concrete universes, signatures and values used as non-vacuity witnesses and as
    counter-examples (definitions only). *)
From SpyneV Require Export Wire.Dict C02.Spec.
Open Scope Z_scope.

(** class A {i: Integer, s: Unicode(min_occurs=1)}
    class B(A) {d: Decimal, m: Integer(max_occurs='unbounded'), aa: Array(Array(Integer))} *)
Definition ex_U : duniverse :=
  [ mkdc [65] None
         [ mkdf [105] (DPrim (KInt PosInf)) 0 (Some 1) true;
           mkdf [115] (DPrim KText) 1 (Some 1) true ];
    mkdc [66] (Some 0%nat)
         [ mkdf [100] (DPrim (KDecimal PosInf)) 0 (Some 1) true;
           mkdf [109] (DPrim (KInt PosInf)) 0 None true;
           mkdf [97; 97] (DArr (DArr (DPrim (KInt (Fin 1024))))) 0 (Some 1) true ] ].

(** f(a: A, n: Integer) -> A *)
Definition ex_sig : dsig :=
  mksig [102] [102; 82; 101; 115; 112; 111; 110; 115; 101]
        [ mkdf [97] (DRef 0%nat) 0 (Some 1) true; mkdf [110] (DPrim (KInt (Fin 1024))) 0 (Some 1) true ]
        [ mkdf [102; 82; 101; 115; 117; 108; 116] (DRef 0%nat) 0 (Some 1) true ].

Definition ex_json : cfg := mkcfg PJson true false false false.
Definition ex_mp : cfg := mkcfg PMsgpack true false false false.
(** MessagePackRpc(validator='soft') *)
Definition ex_rpc : cfg := mkcfg PMsgpackRpc true false false true.
(** JsonDocument(ignore_wrappers=False, polymorphic=True, validator='soft') *)
Definition ex_wrapped : cfg := mkcfg PJson false false true true.
(** JsonDocument(ignore_wrappers=False, complex_as=list) *)
Definition ex_positional : cfg := mkcfg PJson false true false false.
(** JsonDocument(ignore_wrappers=True, polymorphic=True) *)
Definition ex_poly_flat : cfg := mkcfg PJson true false true false.

(** B(i=2**70, s='ü', d=Decimal('1.5'), m=[1, 2], aa=[[3], []]) *)
Definition ex_b : dval :=
  DObj 1%nat [ DLeaf (LInt (2 ^ 70)); DLeaf (LText [252]); DLeaf (LDecimal (mkdec false 15 (-1)));
               DList [DLeaf (LInt 1); DLeaf (LInt 2)];
               DList [DList [DLeaf (LInt 3)]; DList []] ].
(** A(i=2**64, s='hi') *)
Definition ex_a : dval := DObj 0%nat [ DLeaf (LInt (2 ^ 64)); DLeaf (LText [104; 105]) ].

Definition ex_args : list dval := [ex_b; DNone].
Definition ex_rets : list dval := [ex_b].
Definition ex_args_flat : list dval := [ex_a; DLeaf (LInt 7)].
Definition ex_rets_flat : list dval := [ex_a].
