(** C02: the serializer of the dict-document protocols (model: Wire.Dict.o2d) writes
    exactly the conventional document (C02.Spec.senc) of every conformant value. *)
From Coq Require Import ZArith List Bool Lia Arith ZifyBool.
From SpyneV Require Import Base.Prelude Base.Digits Base.Ext Wire.Utf8 Wire.Decimal Wire.Dict.
From SpyneV Require Import Gen.DictDoc C02.GenProofs C02.Spec C02.Utf8Proofs C02.Lists.
Import ListNotations.
Open Scope Z_scope.

(** * Equations for the structurally recursive specification functions *)
Section Eqs.
  Variable c : cfg.
  Variable U : duniverse.
  Variable poly : bool.
  Variable st : style.

  Notation senc' := (senc c U st).
  Notation conf' := (conf c U poly).

  Lemma senc_multi t xs : senc' true t (DList xs) = JList (map (senc' false t) xs).
  Proof.
    cbn [senc]. reflexivity.
  Qed.

  Lemma senc_arr e xs : senc' false (DArr e) (DList xs) = JList (map (senc' false e) xs).
  Proof.
    cbn [senc]. reflexivity.
  Qed.

  Fixpoint mlist (ffs : list dfield) (fs : list dval) : list jv :=
    match ffs, fs with
    | f :: r, x :: s => senc' (dmulti f) (df_ty f) x :: mlist r s
    | _, _ => []
    end.

  Fixpoint mmap (ffs : list dfield) (fs : list dval) : list (jv * jv) :=
    match ffs, fs with
    | f :: r, x :: s =>
        if is_none x && (df_min f <=? 0) then mmap r s
        else (skey c st (df_name f), senc' (dmulti f) (df_ty f) x) :: mmap r s
    | _, _ => []
    end.

  Definition sbody' (ffs : list dfield) (fs : list dval) : jv :=
    if c_list c then JList (mlist ffs fs) else JMap (mmap ffs fs).

  Lemma sbody_eq ffs fs : sbody c U st ffs fs = sbody' ffs fs.
  Proof.
    unfold sbody, sbody'. destruct (c_list c); f_equal.
    - revert ffs. induction fs as [|x s IH]; intros [|f r]; try reflexivity.
      cbn [mlist]. f_equal. apply IH.
    - revert ffs. induction fs as [|x s IH]; intros [|f r]; try reflexivity.
      cbn [mmap]. destruct (is_none x && (df_min f <=? 0)); [apply IH|]. f_equal. apply IH.
  Qed.

  Lemma spositional_eq ffs fs : spositional c U st ffs fs = mlist ffs fs.
  Proof.
    unfold spositional. revert ffs. induction fs as [|x s IH]; intros [|f r]; try reflexivity.
    cbn [mlist]. f_equal. apply IH.
  Qed.

  Lemma senc_obj multi t d fs :
    senc' multi t (DObj d fs)
    = match dflat U d, dname U d with
      | Some ffs, Some cname =>
          if c_iw c then sbody' ffs fs else JMap [(skey c st cname, sbody' ffs fs)]
      | _, _ => JNull
      end.
  Proof.
    cbn [senc]. destruct (dflat U d) as [ffs|]; [|reflexivity].
    destruct (dname U d) as [cname|]; [|reflexivity].
    pose proof (sbody_eq ffs fs) as E. unfold sbody in E. rewrite E. reflexivity.
  Qed.

  Fixpoint mconf (ffs : list dfield) (fs : list dval) : bool :=
    match ffs, fs with
    | [], [] => true
    | f :: r, x :: s => member_conf c U poly f x && mconf r s
    | _, _ => false
    end.

  Lemma mconf_eq ffs : forall fs, mconf ffs fs = members_conf c U poly ffs fs.
  Proof. induction ffs as [|f r IH]; intros [|x s]; reflexivity. Qed.

  Lemma conf_obj multi t d fs :
    conf' multi t (DObj d fs)
    = negb multi &&
      match t with
      | DRef c0 => class_ok U poly d c0 &&
                   match dflat U d with Some ffs => mconf ffs fs | None => false end
      | _ => false
      end.
  Proof.
    cbn [conf]. f_equal. destruct t as [k|k|c0|e]; try reflexivity. f_equal.
    destruct (dflat U d) as [ffs|]; [|reflexivity].
    revert ffs. induction fs as [|x s IH]; intros [|f r]; try reflexivity.
    cbn [mconf]. unfold member_conf. f_equal. apply IH.
  Qed.

  Lemma conf_multi t xs : conf' true t (DList xs) = forallb (conf' false t) xs.
  Proof.
    cbn [conf]. reflexivity.
  Qed.

  Lemma conf_arr e xs : conf' false (DArr e) (DList xs) = forallb (conf' false e) xs.
  Proof.
    cbn [conf]. reflexivity.
  Qed.

  Lemma mconf_length ffs : forall fs, mconf ffs fs = true -> length ffs = length fs.
  Proof.
    induction ffs as [|f r IH]; intros [|x s]; cbn [mconf length]; try discriminate; [reflexivity|].
    intros H. apply andb_true_iff in H as [_ H]. f_equal. apply IH, H.
  Qed.

  Lemma mconf_in ffs : forall fs f x, mconf ffs fs = true -> In (f, x) (combine ffs fs) ->
    member_conf c U poly f x = true.
  Proof.
    induction ffs as [|g r IH]; intros [|y s] f x; cbn [mconf combine In]; try tauto; try discriminate.
    intros H [E|Hin]; apply andb_true_iff in H as [H1 H2].
    - injection E as <- <-. exact H1.
    - eapply IH; eauto.
  Qed.
End Eqs.

Lemma vdepth_list_le x xs :
  In x xs ->
  (vdepth x <= (fix go (l : list dval) : nat :=
                  match l with [] => O | y :: r => Nat.max (vdepth y) (go r) end) xs)%nat.
Proof.
  induction xs as [|y r IH]; cbn [In]; [tauto|]. intros [->|H]; [lia|].
  specialize (IH H). lia.
Qed.

Lemma vdepth_list_in x xs : In x xs -> (vdepth x < vdepth (DList xs))%nat.
Proof. intros H. cbn [vdepth]. pose proof (vdepth_list_le x xs H). lia. Qed.

Lemma vdepth_obj_in x d fs : In x fs -> (vdepth x < vdepth (DObj d fs))%nat.
Proof. intros H. cbn [vdepth]. pose proof (vdepth_list_le x fs H). lia. Qed.

Lemma dflat_some_lt U d ffs : dflat U d = Some ffs -> (d < length U)%nat.
Proof.
  unfold dflat. cbn [dflat_fuel]. unfold dget. destruct (nth_error U d) eqn:E; [|discriminate].
  intros _. apply nth_error_Some. congruence.
Qed.

Lemma wf_cls U d ffs : wf_universe U = true -> dflat U d = Some ffs -> cls_wf U d = true.
Proof.
  intros Hwf Hd. unfold wf_universe in Hwf. apply andb_true_iff in Hwf as [H _].
  eapply forallb_In; [exact H|]. apply in_seq. pose proof (dflat_some_lt _ _ _ Hd). lia.
Qed.

(** * The serializer *)
Section Enc.
  Variable c : cfg.
  Variable U : duniverse.
  Variable poly : bool.
  Variable st : style.

  Notation senc' := (senc c U st).
  Notation conf' := (conf c U poly).

  Hypothesis Hwf : wf_universe U = true.
  (** an instance of a subclass only where the serializer names the class *)
  Hypothesis Hpoly : poly = true -> c_poly c = true.
  (** the leaf writer and the key writer produce the conventional forms of style [st] *)
  Hypothesis Hleaf : forall k l, leaf_ok c k l = true -> leaf_enc c k (DLeaf l) = Ok (sleaf c st k l).
  Hypothesis Hkey : forall n, scalar_text n = true -> mkkey c n = Ok (skey c st n).
  (** the positional form without wrapper keys is outside the response theorem (known finding) *)
  Hypothesis Hresp : negb (c_list c) || c_iw c = true.

  Lemma sleaf_nonnull k l : leaf_ok c k l = true -> jv_is_null (sleaf c st k l) = false.
  Proof using.
    destruct k, l; cbn [leaf_ok sleaf]; try discriminate; intros _;
      unfold stext;
      repeat match goal with |- context [if ?b then _ else _] => destruct b end;
      try reflexivity.
    all: destruct (in_true_false (JFlt bits)); reflexivity.
  Qed.

  Lemma conf_nonnull multi t v : conf' multi t v = true -> jv_is_null (senc' multi t v) = false.
  Proof using Hwf.
    clear Hresp Hkey Hleaf Hpoly.
    destruct v as [|l|d fs|xs|j]; try discriminate.
    - cbn [conf senc]. destruct t; try (rewrite andb_false_r; discriminate).
      + intros H. apply andb_true_iff in H as [_ H]. apply sleaf_nonnull, H.
      + intros H. apply andb_true_iff in H as [_ H]. apply andb_true_iff in H as [H _].
        apply sleaf_nonnull, H.
    - rewrite conf_obj, senc_obj. intros H. apply andb_true_iff in H as [_ H].
      destruct t as [| |c0|]; try discriminate. apply andb_true_iff in H as [_ H].
      destruct (dflat U d) as [ffs|] eqn:Hd; [|discriminate].
      pose proof (wf_cls _ _ _ Hwf Hd) as Hc. unfold cls_wf in Hc. rewrite Hd in Hc.
      destruct (dname U d); [|discriminate]. unfold sbody'.
      destruct (c_iw c), (c_list c); reflexivity.
    - destruct multi.
      + rewrite senc_multi. reflexivity.
      + destruct t; try discriminate. rewrite senc_arr. reflexivity.
  Qed.

  Definition keepf (f : dfield) (x : dval) : bool :=
    negb (is_none x) || (0 <? df_min f) || c_list c.

  Fixpoint kept (ffs : list dfield) (fs : list dval) : list (text * jv) :=
    match ffs, fs with
    | f :: r, x :: s =>
        if keepf f x then (df_name f, senc' (dmulti f) (df_ty f) x) :: kept r s else kept r s
    | _, _ => []
    end.

  Lemma kept_list ffs : forall fs, c_list c = true -> map snd (kept ffs fs) = mlist c U st ffs fs.
  Proof.
    induction ffs as [|f r IH]; intros [|x s] Hl; try reflexivity.
    cbn [kept mlist]. unfold keepf. rewrite Hl, orb_true_r. cbn [map snd]. f_equal. apply IH, Hl.
  Qed.

  Lemma kept_map ffs : forall fs, c_list c = false ->
    forallb (fun f => scalar_text (df_name f)) ffs = true ->
    mapM (fun p => do k <- mkkey c (fst p); Ok (k, snd p)) (kept ffs fs) = Ok (mmap c U st ffs fs).
  Proof.
    induction ffs as [|f r IH]; intros [|x s] Hl Hs; try reflexivity.
    cbn [forallb] in Hs. apply andb_true_iff in Hs as [Hf Hs].
    cbn [kept mmap]. unfold keepf. rewrite Hl, orb_false_r.
    assert (E : is_none x && (df_min f <=? 0) = negb (negb (is_none x) || (0 <? df_min f))).
    { destruct (is_none x); cbn [negb andb orb]; [|reflexivity].
      destruct (df_min f <=? 0) eqn:E1, (0 <? df_min f) eqn:E2; try reflexivity; lia. }
    rewrite E. destruct (negb (is_none x) || (0 <? df_min f)); cbn [negb].
    - cbn [mapM fst snd]. rewrite (Hkey _ Hf). cbn [bind]. rewrite (IH s Hl Hs). reflexivity.
    - apply IH; assumption.
  Qed.

  Lemma member_pairs_spec rec d fs0 ffs0 :
    dflat U d = Some ffs0 -> NoDup (map df_name ffs0) ->
    forall suf fsuf pre fpre,
      ffs0 = pre ++ suf -> fs0 = fpre ++ fsuf -> length pre = length fpre ->
      length suf = length fsuf ->
      (forall f x, In (f, x) (combine suf fsuf) ->
                   rec (dmulti f) (df_ty f) x = Ok (senc' (dmulti f) (df_ty f) x)
                   /\ jv_is_null (senc' (dmulti f) (df_ty f) x) = is_none x) ->
      member_pairs c U rec suf (DObj d fs0) (length pre) = Ok (kept suf fsuf).
  Proof.
    intros Hd Hnd. induction suf as [|f suf IH]; intros [|x fsuf] pre fpre E1 E2 L1 L2 Hrec;
      cbn [length] in L2; try discriminate; [reflexivity|].
    cbn [member_pairs kept].
    assert (Hg : getattr_val U (DObj d fs0) (df_name f) (length pre) = x).
    { unfold getattr_val. rewrite Hd, E1, E2, map_app. cbn [map]. apply assoc_name_skip.
      - rewrite map_length. exact L1.
      - rewrite E1, map_app in Hnd. cbn [map] in Hnd. eapply NoDup_app_head, Hnd. }
    rewrite Hg. destruct (Hrec f x (or_introl eq_refl)) as [Hr Hn]. rewrite Hr. cbn [bind].
    rewrite member_written_spec.
    specialize (IH fsuf (pre ++ [f]) (fpre ++ [x])).
    rewrite app_length in IH. cbn [length] in IH.
    replace (length pre + 1)%nat with (S (length pre)) in IH by lia.
    rewrite IH.
    - cbn [bind]. rewrite Hn. unfold keepf. reflexivity.
    - rewrite <- app_assoc. exact E1.
    - rewrite <- app_assoc. exact E2.
    - rewrite !app_length. cbn [length]. lia.
    - lia.
    - intros g y Hin. apply Hrec. right. exact Hin.
  Qed.

  Lemma complex_to_doc_spec rec multi t d fs ffs :
    dflat U d = Some ffs -> length ffs = length fs ->
    (forall f x, In (f, x) (combine ffs fs) ->
                 rec (dmulti f) (df_ty f) x = Ok (senc' (dmulti f) (df_ty f) x)
                 /\ jv_is_null (senc' (dmulti f) (df_ty f) x) = is_none x) ->
    complex_to_doc c U rec d (DObj d fs) = Ok (senc' multi t (DObj d fs)).
  Proof.
    intros Hd Hlen Hrec. pose proof (wf_cls _ _ _ Hwf Hd) as Hc. unfold cls_wf in Hc.
    rewrite Hd in Hc. destruct (dname U d) as [cname|] eqn:Hn; [|discriminate].
    apply andb_true_iff in Hc as [Hc Hcn]. apply andb_true_iff in Hc as [Hnd Hfs].
    unfold complex_to_doc. rewrite Hd, Hn. cbn [bind].
    pose proof (member_pairs_spec rec d fs ffs Hd (nodup_text_NoDup _ Hnd) ffs fs [] []
                                  eq_refl eq_refl eq_refl Hlen Hrec) as Hmp.
    cbn [length] in Hmp. rewrite Hmp. cbn [bind]. rewrite senc_obj, Hd, Hn. unfold sbody'.
    destruct (c_list c) eqn:Hl.
    - rewrite kept_list by exact Hl.
      destruct (c_iw c) eqn:Hiw; [reflexivity|]. exfalso. generalize Hresp. rewrite ?Hl, ?Hiw. discriminate.
    - rewrite kept_map; [|exact Hl|].
      + cbn [bind]. destruct (c_iw c); [reflexivity|]. rewrite (Hkey _ Hcn). reflexivity.
      + rewrite forallb_forall in Hfs |- *. intros f Hf. specialize (Hfs f Hf).
        unfold field_ok in Hfs. apply andb_true_iff in Hfs as [Hfs _].
        apply andb_true_iff in Hfs as [Hfs _]. exact Hfs.
  Qed.

  (** ** the main induction: on the nesting depth of the value *)
  Lemma strip_arr_multi t : strip_arr c true t = (true, t).
  Proof.
    destruct t; cbn [strip_arr]; try reflexivity. unfold occ.
    rewrite strip_cond_repeated, andb_false_r. reflexivity.
  Qed.

  Lemma strip_arr_prim k : strip_arr c false (DPrim k) = (false, DPrim k).
  Proof. reflexivity. Qed.

  Lemma strip_arr_ref d : strip_arr c false (DRef d) = (false, DRef d).
  Proof. reflexivity. Qed.

  Lemma strip_arr_arr e :
    strip_arr c false (DArr e) = if c_iw c then (true, e) else (false, DArr e).
  Proof.
    cbn [strip_arr]. unfold occ. rewrite strip_cond_single, andb_true_r.
    destruct (c_iw c); [apply strip_arr_multi|reflexivity].
  Qed.

  Lemma is_none_true v : is_none v = true -> v = DNone.
  Proof. destruct v; cbn; congruence. Qed.

  Lemma member_conf_some f x : is_none x = false ->
    member_conf c U poly f x = occurs_ok f x && conf' (dmulti f) (df_ty f) x.
  Proof. destruct x; cbn [is_none]; try discriminate; reflexivity. Qed.

  Lemma conf_true_list t v : conf' true t v = true -> exists xs, v = DList xs.
  Proof.
    destruct v as [|l|d fs|xs|j]; [discriminate| | |eauto|discriminate].
    - cbn. discriminate.
    - rewrite conf_obj. cbn. discriminate.
  Qed.

  Definition Pm (n : nat) : Prop :=
    forall t v fuel, (vdepth v <= n)%nat -> conf' true t v = true ->
                     (2 * n <= fuel + 1)%nat -> o2d c U fuel true t v = Ok (senc' true t v).
  Definition Q (n : nat) : Prop :=
    forall t x fuel, (vdepth x <= n)%nat -> conf' false t x = true ->
                     (2 * n <= fuel)%nat -> tdv_with c U (o2d c U fuel) t x = Ok (senc' false t x).
  Definition Ps (n : nat) : Prop :=
    forall t v fuel, (vdepth v <= n)%nat -> conf' false t v = true ->
                     (2 * n + 1 <= fuel)%nat -> o2d c U fuel false t v = Ok (senc' false t v).

  Lemma pm_step n : (forall m, (m < n)%nat -> Q m) -> Pm n.
  Proof.
    intros IH t v fuel Hd Hc Hf. destruct (conf_true_list _ _ Hc) as [xs ->].
    assert (Hn : (1 <= n)%nat) by (cbn [vdepth] in Hd; lia).
    destruct fuel as [|k]; [lia|].
    rewrite conf_multi in Hc. rewrite senc_multi.
    cbn [o2d]. rewrite strip_arr_multi. cbv beta iota zeta.
    rewrite (mapM_ok _ (senc' false t)); [reflexivity|].
    intros x Hx. apply (IH (n - 1)%nat); [lia| | |lia].
    - pose proof (vdepth_list_in _ _ Hx). lia.
    - eapply forallb_In; eauto.
  Qed.

  Lemma q_step n : Pm n -> (forall m, (m < n)%nat -> Ps m /\ Pm m) -> Q n.
  Proof.
    intros HPm IH t x fuel Hd Hc Hf. destruct x as [|l|d fs|xs|j]; try discriminate.
    - (* a leaf *)
      cbn [conf negb andb] in Hc. destruct t as [k|k|c0|e]; try discriminate.
      + unfold tdv_with, poly_target. destruct (c_poly c); cbn [senc]; apply Hleaf, Hc.
      + apply andb_true_iff in Hc as [Hc _].
        unfold tdv_with, poly_target. destruct (c_poly c); cbn [senc]; apply Hleaf, Hc.
    - (* an object *)
      rewrite conf_obj in Hc. cbn [negb andb] in Hc. destruct t as [k|k|c0|e]; try discriminate.
      apply andb_true_iff in Hc as [Hcls Hm].
      destruct (dflat U d) as [ffs|] eqn:Hdf; [|discriminate].
      assert (Hpt : poly_target c U (DRef c0) (DObj d fs) = DRef d).
      { unfold poly_target, class_ok in *. destruct (c_poly c) eqn:Hp.
        - destruct (Nat.eqb d c0) eqn:E; cbn [negb andb].
          + apply Nat.eqb_eq in E. subst. reflexivity.
          + destruct poly; [rewrite Hcls; reflexivity|]. first [discriminate Hcls | rewrite E in Hcls; discriminate].
        - destruct poly; [specialize (Hpoly eq_refl); congruence|].
          apply Nat.eqb_eq in Hcls. subst. reflexivity. }
      unfold tdv_with. rewrite Hpt.
      assert (Hn : (1 <= n)%nat) by (cbn [vdepth] in Hd; lia).
      apply complex_to_doc_spec with (ffs := ffs); [exact Hdf|apply (mconf_length _ _ _ _ _ Hm)|].
      intros f y Hin. pose proof (mconf_in _ _ _ _ _ _ _ Hm Hin) as Hmc.
      assert (Hy : In y fs) by (eapply in_combine_r; eauto).
      pose proof (vdepth_obj_in _ d _ Hy) as Hyd.
      destruct (is_none y) eqn:Hy0.
      + apply is_none_true in Hy0. subst y. destruct fuel as [|k]; [lia|]. split; reflexivity.
      + rewrite (member_conf_some _ _ Hy0) in Hmc. apply andb_true_iff in Hmc as [_ Hcf]. split.
        * destruct (IH (n - 1)%nat ltac:(lia)) as [HPs' HPm'].
          destruct (dmulti f); [apply HPm'|apply HPs']; try exact Hcf; lia.
        * apply (conf_nonnull _ _ _ Hcf).
    - (* a list *)
      destruct t as [k|k|c0|e]; try discriminate.
      unfold tdv_with, poly_target.
      assert (E : (if c_poly c then DArr e else DArr e) = DArr e) by (destruct (c_poly c); reflexivity).
      destruct (c_poly c); cbv beta iota;
        (rewrite senc_arr, <- senc_multi; apply HPm; [exact Hd|rewrite conf_multi, <- conf_arr; exact Hc|lia]).
  Qed.

  Lemma ps_step n : Q n -> (forall m, (m < n)%nat -> Q m) -> Ps n.
  Proof.
    intros HQ IH t v fuel Hd Hc Hf. destruct fuel as [|k]; [lia|].
    destruct v as [|l|d fs|xs|j]; try discriminate.
    - cbn [conf negb andb] in Hc. destruct t as [k0|k0|c0|e]; try discriminate.
      + cbn [o2d]. rewrite strip_arr_prim. cbv beta iota zeta.
        apply HQ; [exact Hd|cbn [conf negb andb]; exact Hc|lia].
      + cbn [o2d strip_arr]. cbv beta iota zeta.
        apply HQ; [exact Hd|cbn [conf negb andb]; exact Hc|lia].
    - pose proof Hc as Hc'. rewrite conf_obj in Hc. cbn [negb andb] in Hc.
      destruct t as [k0|k0|c0|e]; try discriminate.
      cbn [o2d]. rewrite strip_arr_ref. cbv beta iota zeta.
      apply HQ; [exact Hd|exact Hc'|lia].
    - destruct t as [k0|k0|c0|e]; try discriminate.
      assert (Hn : (1 <= n)%nat) by (cbn [vdepth] in Hd; lia).
      cbn [o2d]. rewrite strip_arr_arr.
      destruct (c_iw c) eqn:Hiw; cbv beta iota zeta.
      + rewrite senc_arr. rewrite conf_arr in Hc.
        rewrite (mapM_ok _ (senc' false e)); [reflexivity|].
        intros x Hx. apply (IH (n - 1)%nat); [lia| | |lia].
        * pose proof (vdepth_list_in _ _ Hx). lia.
        * eapply forallb_In; eauto.
      + apply HQ; [exact Hd|exact Hc|lia].
  Qed.

  Theorem enc_all n : Pm n /\ Q n /\ Ps n.
  Proof.
    induction n as [n IH] using lt_wf_ind.
    assert (HPm : Pm n) by (apply pm_step; intros m Hm; apply IH, Hm).
    assert (HQ : Q n).
    { apply q_step; [exact HPm|]. intros m Hm. destruct (IH m Hm) as (a & b & d). auto. }
    split; [exact HPm|]. split; [exact HQ|]. apply ps_step; [exact HQ|].
    intros m Hm. apply IH, Hm.
  Qed.

  (** a member value (None where allowed) is written as its conventional document *)
  Theorem o2d_member f x fuel :
    member_conf c U poly f x = true -> (2 * vdepth x + 1 <= fuel)%nat ->
    o2d c U fuel (dmulti f) (df_ty f) x = Ok (senc' (dmulti f) (df_ty f) x).
  Proof.
    intros Hm Hf. destruct (is_none x) eqn:Hx.
    - apply is_none_true in Hx. subst x. destruct fuel; [lia|]. reflexivity.
    - rewrite (member_conf_some _ _ Hx) in Hm. apply andb_true_iff in Hm as [_ Hc].
      destruct (enc_all (vdepth x)) as (HPm & _ & HPs).
      destruct (dmulti f); [apply HPm|apply HPs]; try exact Hc; lia.
  Qed.

  (** an object (in particular an out_message instance) through _to_dict_value *)
  Theorem tdv_object d fs fuel :
    conf' false (DRef d) (DObj d fs) = true -> (2 * vdepth (DObj d fs) <= fuel)%nat ->
    tdv c U fuel (DRef d) (DObj d fs) = Ok (senc' false (DRef d) (DObj d fs)).
  Proof.
    intros Hc Hf. destruct (enc_all (vdepth (DObj d fs))) as (_ & HQ & _).
    unfold tdv. apply HQ; [lia|exact Hc|lia].
  Qed.
End Enc.
