(** C02: the statements of Props/C02.v assembled from the proof files. *)
From Coq Require Import ZArith List Bool Lia Arith ZifyBool.
From SpyneV Require Import Base.Prelude Base.Digits Base.Ext Wire.Utf8 Wire.Decimal Wire.Dict.
From SpyneV Require Import Gen.DictDoc C02.GenProofs C02.Spec C02.Examples C02.Utf8Proofs C02.Lists
     C02.EncProofs C02.DecProofs C02.DecimalProofs C02.LeafProofs C02.CallProofs.
Import ListNotations.
Open Scope Z_scope.

Lemma integers_any_magnitude c msl z st nillable :
  (is_msgpack c = true -> in64 z = false -> ext_leb (Fin (len (str_int z))) msl = true) ->
  leaf_enc c (KInt msl) (DLeaf (LInt z)) = Ok (sleaf c spyne_style (KInt msl) (LInt z))
  /\ leaf_dec c nillable (KInt msl) (sleaf c st (KInt msl) (LInt z)) = Ok (DLeaf (LInt z))
  /\ sleaf_dec c nillable (KInt msl) (sleaf c spyne_style (KInt msl) (LInt z)) = Ok (DLeaf (LInt z)).
Proof.
  intros H.
  assert (Hok : leaf_ok c (KInt msl) (LInt z) = true).
  { unfold leaf_ok, msgpack. destruct (is_msgpack c) eqn:Hm; cbn [andb]; [|reflexivity].
    destruct (in64 z) eqn:Hi; cbn [negb]; [reflexivity|auto]. }
  split; [apply leaf_enc_spec, Hok|]. split.
  - exact (leaf_dec_spec c st nillable _ _ Hok).
  - exact (sleaf_dec_spec c spyne_style nillable _ _ Hok).
Qed.

Lemma decimals_any_magnitude c msl d st nillable :
  0 <= d_coef d -> ext_leb (Fin (len (dec_str d))) msl = true ->
  leaf_enc c (KDecimal msl) (DLeaf (LDecimal d)) = Ok (sleaf c spyne_style (KDecimal msl) (LDecimal d))
  /\ leaf_dec c nillable (KDecimal msl) (sleaf c st (KDecimal msl) (LDecimal d)) = Ok (DLeaf (LDecimal d))
  /\ sleaf_dec c nillable (KDecimal msl) (sleaf c spyne_style (KDecimal msl) (LDecimal d))
     = Ok (DLeaf (LDecimal d)).
Proof.
  intros Hc Hl.
  assert (Hok : leaf_ok c (KDecimal msl) (LDecimal d) = true).
  { unfold leaf_ok. rewrite Hl, andb_true_r. lia. }
  split; [apply leaf_enc_spec, Hok|]. split.
  - exact (leaf_dec_spec c st nillable _ _ Hok).
  - exact (sleaf_dec_spec c spyne_style nillable _ _ Hok).
Qed.

Lemma serializer_writes_conventions c U poly f x fuel :
  wf_universe U = true -> (poly = true -> c_poly c = true) ->
  negb (c_list c) || c_iw c = true ->
  member_conf c U poly f x = true -> (2 * vdepth x + 1 <= fuel)%nat ->
  o2d c U fuel (dmulti f) (df_ty f) x = Ok (senc c U spyne_style (dmulti f) (df_ty f) x).
Proof.
  intros Hwf Hp Hr Hm Hf.
  apply o2d_member with (poly := poly); auto using leaf_enc_spec, mkkey_spec.
Qed.

Lemma reader_reads_conventions c U poly st f x fuel :
  wf_universe U = true -> (poly = true -> c_iw c = false) ->
  member_conf c U poly f x = true -> dmulti f = false -> (vdepth x <= fuel)%nat ->
  (x = DNone -> c_list c = true \/ 0 < df_min f) ->
  fdv c U fuel (df_nillable f) (df_ty f) (senc c U st false (df_ty f) x) = Ok (vnorm x).
Proof.
  intros Hwf Hp Hm Hmul Hf Hn. unfold fdv, fdv_gen.
  apply (fdv_member c U poly st (leaf_dec c) Hwf Hp
                    (fun nillable k l => leaf_dec_spec c st nillable k l)
                    (leaf_dec_null c) (norm_key_spec c st) (key_name_spec c st) f x fuel Hm Hmul Hf Hn).
Qed.

Lemma response_positional_refuted :
  exists c U s rets fuel,
    wf_universe (ext_universe U s) = true
    /\ members_conf c (ext_universe U s) (rpoly c) (sg_results s) rets = true
    /\ (2 * vdepth (DObj (out_cid U) rets) + 1 <= fuel)%nat
    /\ serve_response c U fuel s rets <> Ok (sresp c U spyne_style s rets).
Proof.
  exists ex_positional, ex_U, ex_sig, ex_rets_flat, 20%nat.
  split; [vm_compute; reflexivity|]. split; [vm_compute; reflexivity|].
  split; [vm_compute; lia|]. intros H. vm_compute in H. discriminate H.
Qed.

Lemma subclass_without_wrappers_refuted :
  exists c U s rets fuel j,
    c_poly c = true /\ c_iw c = true
    /\ wf_universe (ext_universe U s) = true
    /\ members_conf c (ext_universe U s) true (sg_results s) rets = true
    /\ serve_response c U fuel s rets = Ok j
    /\ sresp_dec c U fuel s j <> Ok (map vnorm rets).
Proof.
  exists ex_poly_flat, ex_U, ex_sig, ex_rets, 20%nat.
  eexists. split; [reflexivity|]. split; [reflexivity|].
  split; [vm_compute; reflexivity|]. split; [vm_compute; reflexivity|].
  split; [vm_compute; reflexivity|]. intros H. vm_compute in H. discriminate H.
Qed.

(** empty_is_none: the empty text and the empty byte string are read as null; every other
    node (0, 0.0, false, [] among them) is read exactly as without the option *)
Lemma empty_is_none_only_empty_text c U fuel nillable k j :
  fdv c U fuel nillable (DPrimE k) j
  = fdv c U fuel nillable (DPrim k) (match j with JStr [] | JBytes [] => JNull | _ => j end).
Proof.
  unfold fdv, fdv_gen, fdv_with.
  destruct empty_is_none_spec as [-> ->].
  destruct j as [| | | |[|x s]|[|x b]| |]; reflexivity.
Qed.

Lemma source_tables :
  (forall z, mp_native_int z = in64 z)
  /\ (forall n m l, member_written n (Fin m) l = negb n || (0 <? m) || l)
  /\ strip_cond true (Fin 1) (Fin 1) = true /\ strip_cond true (Fin 1) PosInf = false
  /\ (forall m, reads_many (Fin m) = (1 <? m)) /\ reads_many PosInf = true
  /\ (forall n, wrapper_empty (Fin n) = (n =? 0) /\ wrapper_too_many (Fin n) = (1 <? n))
  /\ (forall n mn mx, freq_low (Fin n) (Fin mn) = (n <? mn) /\ freq_high (Fin n) (Fin mx) = (mx <? n)
                      /\ freq_high (Fin n) PosInf = false)
  /\ null_member_is_none = true /\ body_lookup_both_key_forms = true /\ single_none_is_null = true
  /\ int_slot_float_is_int = true /\ ret_bool_by_identity = true /\ hier_counts_array_items = false
  /\ cycle_guard_per_branch = true
  /\ ein_empty_str = true /\ ein_empty_bytes = true
  /\ bytes_encoded_as_one = true /\ bytes_no_chunks_ok = true
  /\ handlers = expected_handlers
  /\ GMsgpack_key_utf8 = true /\ GJson_key_utf8 = false /\ GYaml_key_utf8 = false
  /\ GMsgpack_writes_bytes = true /\ GJson_base64 = true /\ GYaml_base64 = true.
Proof.
  split; [exact mp_native_int_spec|]. split; [exact member_written_spec|].
  split; [exact strip_cond_single|]. split; [exact strip_cond_repeated|].
  split; [intros m; apply (reads_many_spec m)|]. split; [apply (reads_many_spec 0)|].
  split; [exact wrapper_arity_spec|]. split; [exact freq_spec|].
  destruct repairs_in_place as (A & B & C & _ & D & E & _ & F). split; [exact A|]. split; [exact B|]. split; [exact C|].
  split; [exact D|]. split; [exact E|]. split; [exact F|]. split; [exact cycle_guard_spec|].
  split; [apply empty_is_none_spec|]. split; [apply empty_is_none_spec|].
  split; [apply bytes_base64_spec|]. split; [apply bytes_base64_spec|].
  split; [exact handlers_as_modelled|].
  destruct protocol_facts as (j & y & m & _ & _ & mb & jb & yb & _).
  repeat split; assumption.
Qed.
