(** C02: how each protocol carries each primitive: the leaf writers produce the conventional
    forms, and the leaf readers (the implementation's, and the reference one) invert them.
    Integers as text reuse the C08 integer theorem, bytes the C08 base64 theorem. *)
From Coq Require Import ZArith List Bool Lia ZifyBool.
From SpyneV Require Import Base.Prelude Base.Digits Base.DigitsProofs Base.Ext.
From SpyneV Require Import Wire.Utf8 Wire.Decimal Wire.Dict C08.IntModel C08.BinModel C08.BinProofs.
From SpyneV Require Import Gen.DictDoc C02.GenProofs C02.Spec C02.Utf8Proofs C02.Lists C02.DecimalProofs.
Import ListNotations.
Open Scope Z_scope.

(** * ASCII text forms *)
Lemma all_ascii_digits l : digits l -> all_ascii l = true.
Proof.
  unfold all_ascii. intros H. apply forallb_forall. intros x Hx.
  apply is_digit_ascii. revert x Hx. apply Forall_forall, H.
Qed.

Lemma all_ascii_app a b : all_ascii a = true -> all_ascii b = true -> all_ascii (a ++ b) = true.
Proof. unfold all_ascii. intros Ha Hb. rewrite forallb_app, Ha, Hb. reflexivity. Qed.

Lemma all_ascii_str_nat n : 0 <= n -> all_ascii (str_nat n) = true.
Proof. intros H. apply all_ascii_digits, str_nat_digits, H. Qed.

Lemma all_ascii_str_int z : all_ascii (str_int z) = true.
Proof.
  unfold str_int. destruct (z <? 0) eqn:E.
  - change (45 :: str_nat (- z)) with ([45] ++ str_nat (- z)).
    apply all_ascii_app; [reflexivity|apply all_ascii_str_nat; lia].
  - apply all_ascii_str_nat. lia.
Qed.

Lemma all_ascii_fmt z : all_ascii (fmt_plus_d z) = true.
Proof.
  unfold fmt_plus_d. destruct (z <? 0) eqn:E.
  - change (45 :: str_nat (- z)) with ([45] ++ str_nat (- z)).
    apply all_ascii_app; [reflexivity|apply all_ascii_str_nat; lia].
  - change (43 :: str_nat z) with ([43] ++ str_nat z).
    apply all_ascii_app; [reflexivity|apply all_ascii_str_nat; lia].
Qed.

Ltac asc Hd :=
  repeat first
    [ reflexivity
    | apply all_ascii_app
    | apply all_ascii_digits, digits_zeros
    | apply all_ascii_digits, digits_firstn, Hd
    | apply all_ascii_digits, digits_skipn, Hd
    | apply all_ascii_digits, Hd
    | apply all_ascii_fmt
    | match goal with |- all_ascii (?c :: ?r) = true => change (c :: r) with ([c] ++ r) end ].

Lemma all_ascii_dec_str d : 0 <= d_coef d -> all_ascii (dec_str d) = true.
Proof.
  intros Hc. unfold dec_str.
  assert (Hd : digits (str_nat (d_coef d))) by (apply str_nat_digits, Hc).
  remember (str_nat (d_coef d)) as ds. cbv zeta.
  repeat match goal with |- context [if ?b then _ else _] => destruct b end; asc Hd.
Qed.

Lemma all_ascii_b64 bs : bytes bs -> all_ascii (b64encode false bs) = true.
Proof.
  unfold bytes, byte_ok, all_ascii.
  assert (Hc : forall v, 0 <= v < 64 -> (0 <=? b64_char false v) && (b64_char false v <? 128) = true).
  { intros v Hv. pose proof (b64_char_range false v Hv). lia. }
  induction bs as [|b0|b0 b1|b0 b1 b2 r IH] using list_ind3; intros Hb.
  - reflexivity.
  - inversion Hb as [|? ? H0 _]; subst. cbn [b64encode forallb]. rewrite !Hc by lia. reflexivity.
  - inversion Hb as [|? ? H0 Hb']; subst. inversion Hb' as [|? ? H1 _]; subst.
    cbn [b64encode forallb]. rewrite !Hc by lia. reflexivity.
  - inversion Hb as [|? ? H0 Hb']; subst. inversion Hb' as [|? ? H1 Hb'']; subst.
    inversion Hb'' as [|? ? H2 Hr]; subst. cbn [b64encode forallb].
    rewrite !Hc by lia. rewrite (IH Hr). reflexivity.
Qed.

Lemma utf8_bytes_ascii t : all_ascii t = true -> utf8_bytes t = t.
Proof. intros H. unfold utf8_bytes. rewrite (utf8_enc_ascii t H). reflexivity. Qed.

Lemma utf8_bytes_dec t : scalar_text t = true -> utf8_dec (utf8_bytes t) = Some t.
Proof.
  intros H. unfold utf8_bytes. destruct (utf8_enc_scalar t H) as [b Hb]. rewrite Hb.
  apply utf8_roundtrip, Hb.
Qed.

Lemma forallb_bytes b : forallb byte_ok b = true -> bytes b.
Proof. intros H. apply Forall_forall. intros x Hx. eapply forallb_In; eauto. Qed.

(** * Keys *)
Section Keys.
  Variable c : cfg.

  Lemma mkkey_spec n : scalar_text n = true -> mkkey c n = Ok (skey c spyne_style n).
  Proof.
    intros H. unfold mkkey, skey, msgpack, is_msgpack, key_bytes, spyne_style. cbn [st_key_bin].
    destruct (c_proto c); try reflexivity; cbn [andb];
      unfold utf8_bytes; destruct (utf8_enc_scalar n H) as [b ->]; reflexivity.
  Qed.

  Lemma norm_key_spec st n : scalar_text n = true -> norm_key c (skey c st n) = Ok (JStr n).
  Proof.
    intros H. unfold norm_key, skey, msgpack, is_msgpack, key_bytes.
    destruct (c_proto c); try reflexivity; cbn [andb]; (destruct (st_key_bin st); [|reflexivity]);
      rewrite (utf8_bytes_dec n H); reflexivity.
  Qed.

  Lemma key_name_spec st n : scalar_text n = true -> key_name (skey c st n) = Ok (Some n).
  Proof.
    intros H. unfold key_name, skey. destruct (msgpack c && st_key_bin st); [|reflexivity].
    rewrite (utf8_bytes_dec n H). reflexivity.
  Qed.
End Keys.

(** * Leaves *)
Section Leaves.
  Variable c : cfg.

  Lemma in_tf_range x z : in_true_false (JFlt x) = Some z -> z = 0 \/ z = 1.
  Proof.
    cbn [in_true_false]. destruct (float_class x); try discriminate.
    destruct ((z0 =? 0) || (z0 =? 1)) eqn:E; [|discriminate]. intros [= <-]. lia.
  Qed.

  Lemma in_tf_int z : z = 0 \/ z = 1 -> in_true_false (JInt z) = Some z.
  Proof. intros [->| ->]; reflexivity. Qed.

  (** the serializer's leaf writer produces the conventional form in Spyne's own style *)
  Theorem leaf_enc_spec k l :
    leaf_ok c k l = true -> leaf_enc c k (DLeaf l) = Ok (sleaf c spyne_style k l).
  Proof.
    unfold leaf_ok, leaf_enc, sleaf, stext, msgpack, spyne_style. cbn [st_text_bin st_dbl_int].
    destruct k as [msl| | | |msl| ], l as [z|t|b|bits|d|b]; try discriminate; intros H; destruct (is_msgpack c) eqn:Hm; cbn [andb]; try reflexivity.
    - (* Integer over MessagePack *)
      rewrite mp_native_int_spec. unfold in64 in *.
      destruct ((- 2 ^ 63 <=? z) && (z <? 2 ^ 64)); cbn [negb]; [reflexivity|].
      rewrite (utf8_bytes_ascii _ (all_ascii_str_int z)). reflexivity.
    - (* Unicode over MessagePack *)
      unfold utf8_bytes. destruct (utf8_enc_scalar t H) as [b ->]. reflexivity.
    - (* Double over MessagePack *)
      destruct (in_true_false (JFlt bits)); reflexivity.
    - (* Decimal over MessagePack *)
      apply andb_true_iff in H as [Hc _].
      rewrite (utf8_bytes_ascii _ (all_ascii_dec_str d ltac:(lia))). reflexivity.
  Qed.

  Lemma num_ok_norm x int_only :
    (match float_class x with FInf | FNan => false | _ => true end) = true ->
    int_only = false ->
    num_native_ok int_only (DLeaf (lnorm (LDouble x))) = Ok true.
  Proof.
    intros Hf ->. cbn [lnorm]. destruct (in_true_false (JFlt x)); [reflexivity|].
    cbn [num_native_ok]. destruct (float_class x); try discriminate; reflexivity.
  Qed.

  Lemma utf8_dec_ascii t : all_ascii t = true -> utf8_dec t = Some t.
  Proof. intros H. apply utf8_roundtrip, utf8_enc_ascii, H. Qed.

  Lemma leaf_dec_ok nillable k j j' r :
    (match k with KText => true | _ => false end)
    && negb (match j with JStr _ | JBytes _ => true | _ => false end) = false ->
    source_ok k j = true ->
    text_of_bytes k j = Ok j' ->
    (match j' with JStr s => negb (validate_string k s) | _ => false end) = false ->
    leaf_conv c k j' = Ok r -> validate_native nillable k r = Ok true ->
    leaf_dec c nillable k j = Ok r.
  Proof.
    intros C1 Hs Ht C2 Hc Hv. unfold leaf_dec.
    rewrite <- andb_assoc, C1, andb_false_r, Hs, Ht. cbn [negb bind].
    rewrite C2, andb_false_r, Hc. cbn [bind]. rewrite Hv. destruct (c_soft c); reflexivity.
  Qed.

  (** text in either MessagePack form is the same text once the byte string is decoded *)
  Lemma tob_stext st k t :
    (match k with KBytes => false | _ => true end) = true ->
    utf8_dec (utf8_bytes t) = Some t ->
    text_of_bytes k (stext c st t) = Ok (JStr t).
  Proof.
    intros Hk Hd. unfold stext. destruct (msgpack c && st_text_bin st).
    - destruct k; try discriminate; cbn [text_of_bytes]; rewrite Hd; reflexivity.
    - destruct k; try discriminate; reflexivity.
  Qed.

  Lemma stext_is_text st t :
    (match stext c st t with JStr _ | JBytes _ => true | _ => false end) = true.
  Proof. unfold stext. destruct (msgpack c && st_text_bin st); reflexivity. Qed.

  Lemma source_ok_text k j :
    (match j with JStr _ | JBytes _ => true | _ => false end) = true -> source_ok k j = true.
  Proof.
    destruct j; try discriminate; intros _; destruct k; cbn [source_ok]; rewrite ?orb_true_r; reflexivity.
  Qed.

  Lemma ascii_bytes_dec t : all_ascii t = true -> utf8_dec (utf8_bytes t) = Some t.
  Proof. intros H. rewrite (utf8_bytes_ascii t H). apply utf8_dec_ascii, H. Qed.

  Lemma validate_leaf nillable k l :
    (match k with KInt _ | KDouble => false | _ => true end) = true ->
    validate_native nillable k (DLeaf l) = Ok true.
  Proof.
    intros Hk. unfold validate_native. cbn [is_none]. rewrite andb_false_r.
    destruct k; try discriminate; reflexivity.
  Qed.

  Lemma validate_int nillable msl z : validate_native nillable (KInt msl) (DLeaf (LInt z)) = Ok true.
  Proof. unfold validate_native. cbn [is_none]. rewrite andb_false_r. reflexivity. Qed.

  (** the implementation's leaf reader inverts every conventional form, whichever way a
      MessagePack peer writes text (str or bin) and the doubles 0.0 / 1.0 *)
  Theorem leaf_dec_spec st nillable k l :
    leaf_ok c k l = true ->
    leaf_dec c nillable k (sleaf c st k l) = Ok (DLeaf (lnorm l)).
  Proof.
    unfold leaf_ok, sleaf, msgpack.
    destruct k as [msl| | | |msl| ], l as [z|t|b|bits|d|b]; try discriminate; intros H; cbn [lnorm].
    - (* Integer *)
      destruct (is_msgpack c) eqn:Hm; cbn [andb] in *.
      + destruct (in64 z) eqn:Hi; cbn [negb] in *.
        * eapply leaf_dec_ok; [reflexivity|reflexivity|reflexivity|reflexivity| |apply validate_int].
          unfold leaf_conv. rewrite Hm. reflexivity.
        * eapply leaf_dec_ok;
            [reflexivity
            |apply source_ok_text, stext_is_text
            |apply tob_stext; [reflexivity|apply ascii_bytes_dec, all_ascii_str_int]
            | | |apply validate_int].
          -- cbn [validate_string]. rewrite H. reflexivity.
          -- unfold leaf_conv. rewrite Hm. unfold integer_from_text. rewrite H. cbn [negb].
             rewrite int_of_text_str_int. reflexivity.
      + eapply leaf_dec_ok; [reflexivity|reflexivity|reflexivity|reflexivity| |apply validate_int].
        unfold leaf_conv. rewrite Hm. unfold ret_number.
        destruct (in_true_false (JInt z)) as [z'|] eqn:E; [|reflexivity].
        cbn [in_true_false] in E. destruct ((z =? 0) || (z =? 1)); [|discriminate].
        injection E as <-. reflexivity.
    - (* Unicode *)
      eapply leaf_dec_ok;
        [rewrite stext_is_text; reflexivity
        |apply source_ok_text, stext_is_text
        |apply tob_stext; [reflexivity|apply utf8_bytes_dec, H]
        |reflexivity|reflexivity|apply validate_leaf; reflexivity].
    - (* Boolean *)
      eapply leaf_dec_ok; [reflexivity|reflexivity|reflexivity|reflexivity|reflexivity|apply validate_leaf; reflexivity].
    - (* Double *)
      apply andb_true_iff in H as [_ Hf].
      assert (Hv : validate_native nillable KDouble (DLeaf (lnorm (LDouble bits))) = Ok true).
      { unfold validate_native. cbn [is_none]. rewrite andb_false_r. apply num_ok_norm; auto. }
      cbn [lnorm] in Hv.
      destruct (is_msgpack c && st_dbl_int st).
      + destruct (in_true_false (JFlt bits)) as [z|] eqn:E.
        * eapply leaf_dec_ok; [reflexivity|reflexivity|reflexivity|reflexivity| |exact Hv].
          unfold leaf_conv, ret_number. rewrite (in_tf_int z (in_tf_range _ _ E)). reflexivity.
        * eapply leaf_dec_ok; [reflexivity|reflexivity|reflexivity|reflexivity| |exact Hv].
          unfold leaf_conv, ret_number. rewrite E. reflexivity.
      + destruct (in_true_false (JFlt bits)) as [z|] eqn:E.
        * eapply leaf_dec_ok; [reflexivity|reflexivity|reflexivity|reflexivity| |exact Hv].
          unfold leaf_conv, ret_number. rewrite E. reflexivity.
        * eapply leaf_dec_ok; [reflexivity|reflexivity|reflexivity|reflexivity| |exact Hv].
          unfold leaf_conv, ret_number. rewrite E. reflexivity.
    - (* Decimal *)
      apply andb_true_iff in H as [Hc Hl].
      eapply leaf_dec_ok;
        [reflexivity
        |apply source_ok_text, stext_is_text
        |apply tob_stext; [reflexivity|apply ascii_bytes_dec, all_ascii_dec_str; lia]
        | | |apply validate_leaf; reflexivity].
      + cbn [validate_string]. rewrite Hl. reflexivity.
      + unfold leaf_conv, decimal_from_text. rewrite Hl. cbn [negb].
        rewrite (dec_roundtrip d ltac:(lia)). reflexivity.
    - (* ByteArray *)
      destruct (is_msgpack c) eqn:Hm.
      + eapply leaf_dec_ok; [reflexivity|reflexivity|reflexivity|reflexivity| |apply validate_leaf; reflexivity].
        unfold leaf_conv. rewrite Hm. reflexivity.
      + eapply leaf_dec_ok; [reflexivity|reflexivity|reflexivity|reflexivity| |apply validate_leaf; reflexivity].
        unfold leaf_conv. rewrite Hm.
        rewrite (all_ascii_b64 b (forallb_bytes b H)).
        rewrite (b64_roundtrip false b (forallb_bytes b H)). reflexivity.
  Qed.

  (** no conventional form of a non-empty value is the empty text or the empty byte string
      (each text form parses back, and the empty text parses to nothing) *)
  Lemma sleaf_nonempty st k l :
    leaf_ok c k l = true -> leaf_empty l = false ->
    (match sleaf c st k l with JStr [] | JBytes [] => true | _ => false end) = false.
  Proof.
    assert (Hst : forall t, t <> [] -> utf8_dec (utf8_bytes t) = Some t ->
                  (match stext c st t with JStr [] | JBytes [] => true | _ => false end) = false).
    { intros t Hne Hd. unfold stext. destruct (msgpack c && st_text_bin st).
      - destruct (utf8_bytes t) eqn:E; [|reflexivity]. cbn in Hd. congruence.
      - destruct t; [congruence|reflexivity]. }
    unfold leaf_ok, sleaf, leaf_empty.
    destruct k as [msl| | | |msl| ], l as [z|t|b|bits|d|b]; try discriminate; intros H He.
    - destruct (msgpack c && negb (in64 z)); [|reflexivity].
      apply Hst; [|apply ascii_bytes_dec, all_ascii_str_int].
      intros E. pose proof (int_of_text_str_int z) as R. rewrite E in R. discriminate R.
    - apply Hst; [destruct t; [discriminate|discriminate]|apply utf8_bytes_dec, H].
    - reflexivity.
    - destruct (msgpack c && st_dbl_int st); [|reflexivity].
      destruct (in_true_false (JFlt bits)); reflexivity.
    - apply andb_true_iff in H as [Hc _].
      apply Hst; [|apply ascii_bytes_dec, all_ascii_dec_str; lia].
      intros E. pose proof (dec_roundtrip d ltac:(lia)) as R. rewrite E in R. discriminate R.
    - destruct (msgpack c).
      + destruct b; [discriminate|reflexivity].
      + destruct (b64encode false b) eqn:E; [|reflexivity].
        pose proof (b64_roundtrip false b (forallb_bytes b H)) as R. rewrite E in R.
        destruct b; [discriminate|]. discriminate R.
  Qed.

  Theorem leaf_dec_null nillable k :
    nillable = true \/ c_soft c = false -> leaf_dec c nillable k JNull = Ok DNone.
  Proof.
    intros H. unfold leaf_dec. cbn [jv_is_null andb].
    assert (E : c_soft c && negb nillable = false) by (destruct H as [->| ->]; [apply andb_false_r|reflexivity]).
    replace (c_soft c && negb (true && nillable)) with false by (cbn [andb]; symmetry; exact E).
    cbn [andb source_ok negb].
    assert (Ht : text_of_bytes k JNull = Ok JNull) by (destruct k; reflexivity).
    rewrite Ht. cbn [bind]. rewrite andb_false_r.
    assert (Hc : leaf_conv c k JNull = Ok DNone) by (destruct k; reflexivity).
    rewrite Hc. cbn [bind]. destruct (c_soft c) eqn:Hs; [|reflexivity].
    unfold validate_native. cbn [is_none]. rewrite andb_true_r.
    cbn [andb] in E. rewrite E. destruct k; reflexivity.
  Qed.

  (** the reference leaf reader inverts the conventional forms of every style *)
  Theorem sleaf_dec_spec st nillable k l :
    leaf_ok c k l = true -> sleaf_dec c nillable k (sleaf c st k l) = Ok (DLeaf (lnorm l)).
  Proof.
    unfold leaf_ok, sleaf_dec, sleaf, stext.
    destruct k as [msl| | | |msl| ], l as [z|t|b|bits|d|b]; try discriminate; intros H; cbn [lnorm].
    - destruct (msgpack c && negb (in64 z)) eqn:Hbig; [|reflexivity].
      apply andb_true_iff in Hbig as [Hm _]. rewrite Hm. cbn [andb].
      destruct (st_text_bin st).
      + rewrite (utf8_bytes_ascii _ (all_ascii_str_int z)). cbn. rewrite int_of_text_str_int. reflexivity.
      + cbn. rewrite int_of_text_str_int. reflexivity.
    - destruct (msgpack c && st_text_bin st) eqn:E; [|reflexivity].
      apply andb_true_iff in E as [Hm _]. cbn. rewrite Hm, (utf8_bytes_dec t H). reflexivity.
    - reflexivity.
    - destruct (msgpack c && st_dbl_int st); [|reflexivity].
      destruct (in_true_false (JFlt bits)) as [z|] eqn:E; [reflexivity|]. cbn [lnorm]. rewrite E. reflexivity.
    - apply andb_true_iff in H as [Hc _].
      destruct (msgpack c && st_text_bin st) eqn:E.
      + apply andb_true_iff in E as [Hm _].
        rewrite (utf8_bytes_ascii _ (all_ascii_dec_str d ltac:(lia))). cbn. rewrite Hm.
        rewrite (dec_roundtrip d ltac:(lia)). reflexivity.
      + cbn. rewrite (dec_roundtrip d ltac:(lia)). reflexivity.
    - destruct (msgpack c) eqn:Hm; cbv beta iota; [reflexivity|].
      rewrite (b64_roundtrip false b (forallb_bytes b H)), text_eqb_refl. reflexivity.
  Qed.

  Theorem sleaf_dec_null nillable k : sleaf_dec c nillable k JNull = Ok DNone.
  Proof. reflexivity. Qed.
End Leaves.
