(** The concrete primitive codecs plugged into Wire/Xml.v for C01: Integer, Unicode and
    Boolean with default attributes, as modelled for C08 (integer_to_unicode /
    integer_from_bytes with the generated Attributes table, boolean_to_unicode /
    boolean_from_bytes), plus lxml's refusal of text that is not XML 1.0 Char.
    Definitions only. *)
From SpyneV Require Export Base.Prelude Base.Digits Base.Ext C08.IntModel C08.DurModel Gen.NumTypes Wire.Universe Wire.Xml.

(** XML 1.0 Char: #x9 | #xA | #xD | [#x20-#xD7FF] | [#xE000-#xFFFD] | [#x10000-#x10FFFF];
    lxml raises ValueError when element.text / an attribute is set to anything else *)
Definition xml_char (c : Z) : bool :=
  (c =? 9) || (c =? 10) || (c =? 13) || ((32 <=? c) && (c <=? 55295))
  || ((57344 <=? c) && (c <=? 65533)) || ((65536 <=? c) && (c <=? 1114111)).

Definition lxml_text (s : text) : out text := if forallb xml_char s then Ok s else Crash ValueError.

Definition leaf_pr (p : prim) (v : pval) : out text :=
  match p, v with
  | PInt, LInt z => lxml_text (integer_to_unicode z)
  | PText, LText s => lxml_text s
  | PBool, LBool b => lxml_text (boolean_to_unicode b)
  | _, _ => Crash TypeError
  end.

Definition leaf_rd (p : prim) (s : text) : out pval :=
  match p with
  | PInt => do z <- integer_from_unicode attrs_Integer s; Ok (LInt z)
  | PText => Ok (LText s)
  | PBool => Ok (LBool (boolean_from_unicode s))
  end.

(** the values for which the round trip is claimed: integers whose decimal text respects the
    declared max_str_len of Integer, text made of XML characters *)
Definition leaf_ok (p : prim) (v : pval) : bool :=
  match v with
  | LInt z => ext_leb (Fin (len (str_int z))) (na_max_str_len attrs_Integer)
  | LText s => forallb xml_char s
  | LBool _ => true
  end.

Definition spyne_leaf : leaf_codec := mkleaf leaf_pr leaf_rd leaf_ok.

(** configurations used by C01: no polymorphism, no xsi:type in the documents *)
Definition cfg (soft : bool) (tns : option text) : xcfg := mkxcfg soft tns false (fun _ => None).
