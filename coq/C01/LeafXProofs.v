(** C01 — the concrete leaf codec of C01/LeafX.v meets the leaf hypothesis of the XML round trip
    ([leaf_sound]); this is where the C08 theorems are used: integer_roundtrip (any customised
    Attributes, under the declared max_str_len), boolean_roundtrip, b64_roundtrip, date / time /
    datetime_roundtrip, duration_roundtrip. *)
From Coq Require Import ZArith List Bool Lia ZifyBool.
From SpyneV Require Import Base.Digits Base.DigitsProofs Base.Ext C08.IntModel C08.IntProofs C08.DtModel C08.DtProofs
     C08.DurModel C08.DurProofs C08.BinModel C08.BinProofs Gen.NumTypes C01.Univ C01.XmlX C01.LeafX C01.XmlXProofs.
Import ListNotations.
Open Scope Z_scope.

Lemma str_int_nonempty z : str_int z <> [].
Proof.
  unfold str_int. destruct (z <? 0) eqn:E; [discriminate|]. apply str_nat_nonempty. lia.
Qed.

Lemma app_cons_nonempty {A} (l : list A) x r : l ++ x :: r <> [].
Proof. destruct l; discriminate. Qed.

Lemma date_iso_nonempty d : date_iso d <> [].
Proof. unfold date_iso. apply app_cons_nonempty. Qed.
Lemma time_iso_nonempty t : time_iso t <> [].
Proof. unfold time_iso. apply app_cons_nonempty. Qed.
Lemma datetime_iso_nonempty v : datetime_iso v <> [].
Proof. unfold datetime_iso. intro H. apply app_eq_nil in H. destruct H as [H _]. exact (date_iso_nonempty _ H). Qed.
Lemma duration_nonempty n : duration_to_unicode n <> [].
Proof.
  unfold duration_to_unicode. cbv zeta.
  destruct (n / US_DAY <? 0); match goal with |- (if ?c then _ else _) <> [] => destruct c end; discriminate.
Qed.
Lemma b64encode_nil url bs : b64encode url bs = [] <-> bs = [].
Proof.
  split; [|intros ->; reflexivity].
  destruct bs as [|a [|b [|c r]]]; cbn; intro H; try reflexivity; discriminate.
Qed.

Lemma forallb_Forall {A} (p : A -> bool) l : forallb p l = true -> Forall (fun x => p x = true) l.
Proof. intro H. apply Forall_forall. intros x Hx. rewrite forallb_forall in H. exact (H x Hx). Qed.

Theorem spyne_leaf_sound : leaf_sound spyne_leaf.
Proof.
  intros [spec nm] v Hh Hok. cbn [lt_spec] in Hh.
  unfold spyne_leaf in *. cbn [lc_pr lc_rd lc_vs lc_vn lc_ok] in *.
  unfold leaf_pr, leaf_rd, leaf_vs, leaf_vn, leaf_ok in *. cbn [lt_spec] in *.
  destruct spec as [T a| | | | | | | |]; destruct v; try discriminate.
  - (* Integer family *)
    apply andb_true_iff in Hok. destruct Hok as [Hok Hvn]. apply andb_true_iff in Hok. destruct Hok as [Hlen Hvs].
    exists (str_int z). unfold integer_to_unicode. split; [reflexivity|]. split.
    { change (str_int z) with (integer_to_unicode z). rewrite integer_roundtrip by exact Hlen. reflexivity. }
    split; [intros _; split; assumption|]. split.
    { split; [intro H; exfalso; exact (str_int_nonempty z H)|intros [H|H]; discriminate]. }
    discriminate.
  - (* Unicode *)
    exists t. unfold lxml_text. rewrite Hok. split; [reflexivity|]. split; [reflexivity|]. split; [intros _; split; reflexivity|].
    split; [|discriminate]. split; [intros ->; left; reflexivity|intros [H|H]; [congruence|discriminate]].
  - (* Boolean *)
    exists (boolean_to_unicode b). split; [reflexivity|]. split; [rewrite boolean_roundtrip; reflexivity|].
    split; [intros _; split; reflexivity|]. split; [|discriminate].
    split; [destruct b; discriminate|intros [H|H]; discriminate].
  - (* ByteArray, base64 *)
    exists (b64encode false bs). split; [reflexivity|]. split.
    { rewrite b64_roundtrip by (apply forallb_Forall; exact Hok). reflexivity. }
    split; [intros _; split; reflexivity|]. split.
    { rewrite b64encode_nil. split; [intros ->; right; reflexivity|intros [H|H]; [discriminate|congruence]]. }
    intros _. split; reflexivity.
  - (* Date *)
    exists (date_iso d). split; [reflexivity|]. split; [rewrite date_roundtrip by exact Hok; reflexivity|].
    split; [intros _; split; reflexivity|]. split; [|discriminate].
    split; [intro H; exfalso; exact (date_iso_nonempty d H)|intros [H|H]; discriminate].
  - (* Time *)
    exists (time_iso t). split; [reflexivity|]. split; [rewrite time_roundtrip by exact Hok; reflexivity|].
    split; [intros _; split; reflexivity|]. split; [|discriminate].
    split; [intro H; exfalso; exact (time_iso_nonempty t H)|intros [H|H]; discriminate].
  - (* DateTime *)
    exists (datetime_iso v). split; [reflexivity|]. split; [rewrite datetime_roundtrip by exact Hok; reflexivity|].
    split; [intros _; split; reflexivity|]. split; [|discriminate].
    split; [intro H; exfalso; exact (datetime_iso_nonempty v H)|intros [H|H]; discriminate].
  - (* Duration *)
    exists (duration_to_unicode n). split; [reflexivity|]. split; [rewrite duration_roundtrip by exact Hok; reflexivity|].
    split; [intros _; split; reflexivity|]. split; [|discriminate].
    split; [intro H; exfalso; exact (duration_nonempty n H)|intros [H|H]; discriminate].
  - (* any other primitive, carried by its text *)
    apply andb_true_iff in Hok. destruct Hok as [Hx Hne].
    exists t. unfold lxml_text. rewrite Hx. split; [reflexivity|]. split; [reflexivity|]. split; [intros _; split; reflexivity|].
    split; [|discriminate]. split; [intros ->; discriminate|intros [H|H]; discriminate].
Qed.

(** the XML round trip with Spyne's primitive codecs: no hypothesis left but well-formedness and conformance *)
Theorem xmlx_rt_spyne : forall (soft : bool) (U : universe),
  wf_universe U = true ->
  forall n t v ns name nillable, xconf spyne_leaf U n t v = true ->
    (nonelike v = true -> soft && negb nillable = false) ->
    exists e, enc spyne_leaf U n t ns name v = Ok e
              /\ dec spyne_leaf (cfg soft) U n t nillable (wire e) = Ok (norm U n t v).
Proof.
  intros soft U Hwf n t v ns name nillable Hx Hn.
  apply xmlx_rt; [exact spyne_leaf_sound|exact Hwf|exact Hx|exact Hn].
Qed.
