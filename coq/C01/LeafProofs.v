(** The concrete leaf codec of C01/Leaf.v meets the leaf hypothesis of the XML round trip:
    this is where the C08 theorems (str(int)/int(str) round trip under the declared
    max_str_len) are used. *)
From Coq Require Import ZArith List Bool Lia ZifyBool.
From SpyneV Require Import Base.Prelude Base.Digits Base.DigitsProofs Base.Ext C08.IntModel C08.IntProofs
     C08.DurModel Gen.NumTypes Wire.Universe Wire.Xml C01.Leaf.
Import ListNotations.
Open Scope Z_scope.

Lemma digit_xml_char c : is_digit c = true -> xml_char c = true.
Proof. unfold is_digit, xml_char. intro H. lia. Qed.

Lemma str_int_xml z : forallb xml_char (str_int z) = true.
Proof.
  unfold str_int. destruct (z <? 0) eqn:E.
  - cbn [forallb]. replace (xml_char 45) with true by reflexivity. cbn [andb].
    apply forallb_forall. intros c Hc.
    pose proof (str_nat_digits (- z) ltac:(lia)) as H. rewrite Forall_forall in H.
    apply digit_xml_char. apply H. exact Hc.
  - apply forallb_forall. intros c Hc.
    pose proof (str_nat_digits z ltac:(lia)) as H. rewrite Forall_forall in H.
    apply digit_xml_char. apply H. exact Hc.
Qed.

Lemma str_int_nonempty z : str_int z <> [].
Proof.
  unfold str_int. destruct (z <? 0) eqn:E; [discriminate|]. apply str_nat_nonempty. lia.
Qed.

Theorem spyne_leaf_rt : forall p v, prim_has p v = true -> lc_ok spyne_leaf p v = true ->
  exists s, lc_pr spyne_leaf p v = Ok s /\ lc_rd spyne_leaf p s = Ok v /\ (p <> PText -> s <> []).
Proof.
  intros p v Hp Hok. destruct p, v; try discriminate; cbn in *.
  - exists (str_int z). unfold lxml_text, integer_to_unicode. rewrite str_int_xml.
    split; [reflexivity|]. split.
    + change (str_int z) with (integer_to_unicode z). rewrite integer_roundtrip by exact Hok. reflexivity.
    + intros _. apply str_int_nonempty.
  - exists t. unfold lxml_text. rewrite Hok. split; [reflexivity|]. split; [reflexivity|]. intro H. congruence.
  - exists (boolean_to_unicode b). destruct b; (split; [reflexivity|]); (split; [reflexivity|]); intros _; discriminate.
Qed.

From SpyneV Require Import C01.XmlProofs.
Theorem xml_rt_spyne : forall (soft : bool) (tns : option text) (U : universe),
  wf_universe U = true ->
  forall n t v ns name, xconf spyne_leaf U n t v = true ->
    exists e, to_parent spyne_leaf (cfg soft tns) U n t ns name v = Ok e
              /\ from_element spyne_leaf (cfg soft tns) U n t (wire e) = Ok (norm U n t v).
Proof.
  intros soft tns U Hwf. apply xml_rt; [exact spyne_leaf_rt| | |exact Hwf]; reflexivity.
Qed.
