(** C01 — the CALL level: one request through the server pipeline.  Definitions only.

    Mirrors (repaired tree):
      spyne/decorator.py   _produce_input_message / _produce_output_message / body-style
                           selection in rpc()                                 ([in_cls], [out_cls], [req_ty], [resp_ty], [eff_style])
      spyne/protocol/xml.py        decompose_incoming_envelope / deserialize / serialize
      spyne/protocol/soap/soap11.py _from_soap / decompose_incoming_envelope / deserialize /
                           serialize (Soap12 differs in the envelope namespace only)  ([decompose], [dec_headers], [serialize])
      spyne/protocol/_base.py      generate_method_contexts / get_call_handles ([dispatch])
      spyne/server/_base.py        generate_contexts / get_in_object / get_out_object / get_out_string
      spyne/application.py         process_request, spyne/service.py call_wrapper   ([server])
      spyne/client/_base.py        get_out_object / get_out_string / get_in_object  ([client_request], [client_response])

    The user function is a parameter [f]; the model records every invocation in a log, so that
    "invoked exactly once with these values" is a statement about the log.
    validator='lxml' is libxml2's XSD validation of the body: the predicate [schema_valid]
    (a parameter; C06 is about it). *)
From SpyneV Require Export C01.XmlX Base.Digits.

Definition ns_soap11 : text := xw_ns_soap11_env.  (* spyne.const.xml.NS_SOAP11_ENV, generated *)
Definition ns_soap12 : text := xw_ns_soap12_env.  (* spyne.const.xml.NS_SOAP12_ENV, generated *)
Definition t_Envelope : text := [69; 110; 118; 101; 108; 111; 112; 101].  (* Envelope *)
Definition t_Header : text := [72; 101; 97; 100; 101; 114].  (* Header *)
Definition t_Body : text := [66; 111; 100; 121].  (* Body *)
Definition t_Fault : text := [70; 97; 117; 108; 116].  (* Fault *)
Definition t_Response : text := xw_response_suffix.  (* spyne.const.RESPONSE_SUFFIX, generated *)
Definition t_Result : text := xw_result_suffix.  (* spyne.const.RESULT_SUFFIX, generated *)

Inductive proto := PXml | PSoap11 | PSoap12.
Inductive bstyle := SWrapped | SBare | SOutBare.          (* _body_style *)
Inductive vmode := ValNone | ValSoft | ValLxml.                 (* validator= *)

(** one @rpc method: argument names and declared types, declared return types (their
    [f_name] is not used: the names are synthesised), header classes *)
Record method := mkmethod {
  m_name : text; m_style : bstyle;
  m_params : list field; m_returns : list field;
  m_in_header : list cid; m_out_header : list cid }.

Record service := mkservice { s_tns : text; s_methods : list method }.

(* ------------------------------------------------------------ decorator.py: message classes *)

Definition rename (f : field) (n : text) : field :=
  mkfield n (f_ty f) (f_min f) (f_max f) (f_nillable f) (f_kind f) (f_sub_name f) (f_sub_ns f).

(** '%s%s%d' % (func_name, RESULT_SUFFIX, i) for a sequence of return types, '%s%s' for one *)
Fixpoint result_fields (name : text) (i : Z) (rs : list field) : list field :=
  match rs with
  | [] => []
  | r :: rest => rename r (name ++ t_Result ++ str_int i) :: result_fields name (i + 1) rest
  end.
Definition out_fields (m : method) : list field :=
  match m_style m, m_returns m with
  | SWrapped, [r] => [rename r (m_name m ++ t_Result)]
  | SWrapped, rs => result_fields (m_name m) 0 rs
  | _, _ => []                                            (* bare styles: ComplexModel.produce(members={}) when _returns is None *)
  end.

(** ComplexModel.produce(type_name=in_message_name, namespace=tns, members=in_params) *)
Definition in_cls (Sv : service) (m : method) : cls := mkcls (s_tns Sv) (m_name m) None (m_params m).
Definition out_cls (Sv : service) (m : method) : cls := mkcls (s_tns Sv) (m_name m ++ t_Response) None (out_fields m).

(** the class table the Application works with: the user's classes, then the two message
    classes of every method *)
Definition synth (U : universe) (Sv : service) : universe :=
  U ++ flat_map (fun m => [in_cls Sv m; out_cls Sv m]) (s_methods Sv).
Definition in_cid (U : universe) (i : nat) : cid := (length U + 2 * i)%nat.
Definition out_cid (U : universe) (i : nat) : cid := S (length U + 2 * i).

(** descriptor.in_message / out_message as (type, Attributes.nillable) of the body element:
    'bare' takes the single parameter type itself (customised with sub_name / sub_ns) *)
Definition req_ty (U : universe) (i : nat) (m : method) : ty * bool :=
  match m_style m, m_params m with
  | SBare, [p] => (f_ty p, f_nillable p)
  | _, _ => (TRef (in_cid U i), true)
  end.
Definition resp_ty (U : universe) (i : nat) (m : method) : ty * bool :=
  match m_style m, m_returns m with
  | SWrapped, _ => (TRef (out_cid U i), true)
  | _, [r] => (f_ty r, f_nillable r)
  | _, _ => (TRef (out_cid U i), true)
  end.

(** the effective body style chosen at the end of rpc(): a bare-ish method whose input
    message is an empty ComplexModel becomes EMPTY / EMPTY_OUT_BARE *)
Inductive estyle := EWrapped | EBare | EOutBare | EEmpty | EEmptyOutBare.
Definition eff_style (m : method) : estyle :=
  match m_style m with
  | SWrapped => EWrapped
  | SBare =>
      match m_params m with
      | [] => match m_returns m with [] => EEmpty | _ => EEmptyOutBare end
      | _ => EBare
      end
  | SOutBare =>
      match m_params m with
      | [] => match m_returns m with [] => EEmpty | _ => EEmptyOutBare end
      | _ => EOutBare
      end
  end.

(* ------------------------------------------------------------ envelopes *)

Definition env_ns (P : proto) : text := match P with PSoap12 => ns_soap12 | _ => ns_soap11 end.

Definition is_elt (ns name : text) (e : xnode) : bool :=
  match e with XElt n m _ _ _ => text_eqb n ns && text_eqb m name | XOther => false end.
Definition kids_of (e : xnode) : list xnode := match e with XElt _ _ _ _ k => k | XOther => [] end.
Fixpoint first_elt (ns name : text) (l : list xnode) : option xnode :=
  match l with [] => None | e :: r => if is_elt ns name e then Some e else first_elt ns name r end.

Inductive fcode :=
| FValidation          (* Client.ValidationError *)
| FSchema              (* Client.SchemaValidationError (validator='lxml') *)
| FSoapError           (* Client.SoapError *)
| FNotFound            (* Client.ResourceNotFound *)
| FServer.             (* Server: an exception inside process_request *)

(** ** The arguments of a client call: sequential ones fill the parameters in order, a name-based one that is passed
    takes the place of the sequential one, a parameter passed neither way is None.  The rule is generated
    ([xw_client_merge]); under [MergeKwTruthyWins] (kwargs.get(k) or ...) a falsy name-based value would be dropped. *)
Definition falsy (v : val) : bool :=
  match v with
  | VNone | VLeaf (LInt 0) | VLeaf (LBool false) | VLeaf (LText []) | VLeaf (LDur 0) | VList [] => true
  | _ => false
  end.
Fixpoint kw_find (k : text) (kw : list (text * val)) : option val :=
  match kw with
  | [] => None
  | (n, v) :: r => if text_eqb n k then Some v else kw_find k r
  end.
Fixpoint merge_args (rule : merge_rule) (names : list text) (pos : list val) (kw : list (text * val)) : list val :=
  match names with
  | [] => []
  | n :: ns =>
      let p := hd VNone pos in
      (match kw_find n kw with
       | Some x => match rule with MergeKwWins => x | MergeKwTruthyWins => if falsy x then p else x end
       | None => p
       end) :: merge_args rule ns (tl pos) kw
  end.

(** ** Documents as they are on the wire and the tree the parser hands to the protocol.
    An element's content is a sequence of character data, elements, comments and processing instructions.
    lxml (XMLParser( **self.parser_kwargs ), generated flags) drops the comments / PIs it is told to remove and
    joins the character data around them; a node it keeps ends the element's .text and is a child ([XOther]).
    Tails are not read by Spyne and are not part of [xnode]. *)
Inductive dnode :=
| DElt (ns name : text) (atts : list attr) (content : list dnode)
| DText (t : text)
| DComment
| DPI.

Fixpoint lead_text (rc rp : bool) (l : list dnode) : text :=
  match l with
  | DText t :: r => t ++ lead_text rc rp r
  | DComment :: r => if rc then lead_text rc rp r else []
  | DPI :: r => if rp then lead_text rc rp r else []
  | _ => []
  end.

Fixpoint parse_doc (rc rp : bool) (d : dnode) : xnode :=
  match d with
  | DElt ns n a c =>
      XElt ns n a (match lead_text rc rp c with [] => None | t => Some t end)
           (flat_map (fun x => match x with
                               | DElt _ _ _ _ => [parse_doc rc rp x]
                               | DText _ => []
                               | DComment => if rc then [] else [XOther]
                               | DPI => if rp then [] else [XOther]
                               end) c)
  | _ => XOther
  end.

(** what create_in_document builds from the bytes of a request (and the Spyne client from those of a response) *)
Definition parsed (d : dnode) : xnode := parse_doc xw_remove_comments xw_remove_pis d.

(** what the document denotes for an XML Schema processor: comments and PIs are not part of it *)
Definition denoted (d : dnode) : xnode := parse_doc true true d.

(** how Soap11.deserialize matches a header block to a declared header class: by '{namespace}type_name'
    (the generated flag; matching by the local name alone would confuse same-named blocks of other namespaces) *)
Definition hdr_match (ns name : text) (e : xnode) : bool :=
  if xw_hdr_qualified then is_elt ns name e
  else match e with XElt _ m _ _ _ => text_eqb m name | XOther => false end.

(** _from_soap: (children of the first Header, first child of the first Body) *)
Definition from_soap (P : proto) (doc : xnode) : fcode + (option (list xnode) * option xnode) :=
  if negb (is_elt (env_ns P) t_Envelope doc) then inl FSoapError
  else
    let h := first_elt (env_ns P) t_Header (kids_of doc) in
    let b := first_elt (env_ns P) t_Body (kids_of doc) in
    match h, b with
    | None, None => inl FSoapError
    | _, _ => inr (option_map kids_of h,
                   match b with Some be => match kids_of be with c :: _ => Some c | [] => None end | None => None end)
    end.

(** the SOAP envelope Soap11.serialize builds: Header (only when there are header values and
    header classes) before Body *)
Definition envelope (P : proto) (hdr : option (list xnode)) (body : xnode) : xnode :=
  match P with
  | PXml => body
  | _ =>
      XElt (env_ns P) t_Envelope [] None
        (match hdr with Some hs => [XElt (env_ns P) t_Header [] None hs] | None => [] end
         ++ [XElt (env_ns P) t_Body [] None [body]])
  end.

(** get_call_handles: service_method_map['{tns}name'] ; a tag without namespace gets the tns *)
Fixpoint find_method (tns ns name : text) (i : nat) (ms : list method) : option (nat * method) :=
  match ms with
  | [] => None
  | m :: r => if (text_eqb ns tns || match ns with [] => true | _ => false end) && text_eqb name (m_name m)
              then Some (i, m) else find_method tns ns name (S i) r
  end.

(** user code: (ctx.in_header, arguments) -> (return value, ctx.out_header).
    ctx.in_header: None when no header was decoded, else one value per declared class.
    A method with several return types returns a sequence (VList). *)
Definition ufun := text -> option (list val) -> list val -> (val * option (list val)).
Definition call := (text * option (list val) * list val)%type.

Inductive rsp :=
| RReturn (log : list call) (doc : xnode)
| RFault (log : list call) (c : fcode)
| RCrash (log : list call) (e : exn).

(** deserialize(), body_style WRAPPED only: a decoded message that is None (the request element is xsi:nil) is
    replaced by [None] * len(body_class._type_info) -- one None per OWN member of the message class; the only
    argument of a bare method is simply None, and for out_bare the None is kept (tuple(None) then fails) *)
Definition absent_args (wrapped : bool) (U : universe) (t : ty) (v : val) : exn + val :=
  if negb wrapped then inr v else
  match v with
  | VNone =>
      match t with
      | TLeaf _ => inl AttributeError
      | TRef c => match get_cls U c with
                  | Some cl => inr (VList (repeat VNone (length (c_own cl))))
                  | None => inl KeyError
                  end
      | TArr _ _ _ => inr (VList [VNone])                   (* an Array class has one member *)
      end
  | _ => inr v
  end.

Section Pipeline.
  Variable L : leaf_codec.
  Variable P : proto.
  Variable V : vmode.
  Variable schema_valid : xnode -> bool.
  Variable U0 : universe.
  Variable Sv : service.
  Variable fuel : nat.

  Let U := synth U0 Sv.
  Let C := mkxcfg (match V with ValSoft => true | _ => false end).

  (** Soap11.deserialize, header part: elements are matched to the declared classes by
      qualified name through a dict (a later duplicate wins) *)
  Fixpoint last_elt (ns name : text) (l : list xnode) (acc : option xnode) : option xnode :=
    match l with
    | [] => acc
    | e :: r => last_elt ns name r (if hdr_match ns name e then Some e else acc)
    end.
  Fixpoint dec_headers (classes : list cid) (hdoc : list xnode) : out (list val) :=
    match classes with
    | [] => Ok []
    | c :: r =>
        do v <- match last_elt (cls_ns U c) (cls_name U c) hdoc None with
                | None => Ok VNone
                | Some e => dec L C U fuel (TRef c) true e
                end;
        do vs <- dec_headers r hdoc; Ok (v :: vs)
    end.

  (** headers are decoded only when the envelope has a Header element and the method declares header classes *)
  Definition hdr_in (classes : list cid) (hdoc : option (list xnode)) : out (option (list val)) :=
    match hdoc, classes with
    | Some hd, _ :: _ => do hs <- dec_headers classes hd; Ok (Some hs)
    | _, _ => Ok None
    end.

  (** the value handed to to_parent and its (type, element name) *)
  Definition out_value (i : nat) (m : method) (ret : val) : out val :=
    match m_style m with
    | SWrapped =>
        match m_returns m with
        | [] => Ok (VObj (out_cid U0 i) [])
        | [_] => Ok (VObj (out_cid U0 i) [ret])
        | rs =>
            match ret with
            | VList l =>
                match P with
                | PXml => if Nat.ltb (length l) (length rs) then Crash IndexError     (* ctx.out_object[i] *)
                          else Ok (VObj (out_cid U0 i) (firstn (length rs) l))
                | _ => Ok (VObj (out_cid U0 i)                                       (* next(values) ... except StopIteration: None *)
                             (firstn (length rs) (l ++ repeat VNone (length rs))))
                end
            | _ => Crash TypeError                                                   (* indexing / iterating a non-sequence *)
            end
        end
    | _ =>                                                        (* ctx.out_object = [ret]; the item the serializer takes is generated *)
        match (match P with PXml => xw_xml_bare_index | _ => xw_soap_bare_index end) with
        | Some j => match nth_error [ret] (Z.to_nat j) with Some v => Ok v | None => Crash IndexError end
        | None => Crash TypeError                                 (* the whole sequence handed to to_parent *)
        end
    end.

  Fixpoint enc_headers (classes : list cid) (vals : list val) : out (list xnode) :=
    match classes, vals with
    | c :: r, v :: vs =>
        do e <- enc L U fuel (TRef c) (cls_ns U c) (cls_name U c) v;
        do es <- enc_headers r vs; Ok (e :: es)
    | _, _ => Ok []                                                                  (* zip *)
    end.

  (** a Header element is written only when there are header values and declared header classes *)
  Definition hdr_out (classes : list cid) (hv : option (list val)) : out (option (list xnode)) :=
    match hv, classes with
    | Some l, _ :: _ => do hs <- enc_headers classes l; Ok (Some hs)
    | _, _ => Ok None
    end.

  (** protocol.serialize(ctx, RESPONSE) *)
  Definition serialize (i : nat) (m : method) (ret : val) (ohdr : option (list val)) : out xnode :=
    do v <- out_value i m ret;
    do body <- enc L U fuel (fst (resp_ty U0 i m)) (s_tns Sv) (m_name m ++ t_Response) v;
    match P with
    | PXml => Ok body
    | _ => do hs <- hdr_out (m_out_header m) ohdr; Ok (envelope P hs body)
    end.

  (** ServerBase.generate_contexts + get_in_object + get_out_object + get_out_string *)
  Definition server (f : ufun) (doc : xnode) : rsp :=
    (* decompose_incoming_envelope *)
    match (match P with
           | PXml => inr (None, Some doc)
           | _ => from_soap P doc
           end) with
    | inl c => RFault [] c
    | inr (_, None) => RCrash [] AttributeError                       (* body_document.tag on None *)
    | inr (_, Some XOther) => RCrash [] AttributeError
    | inr (hdoc, Some (XElt bns bname _ _ _ as body)) =>
        if (match P with PXml => false | _ => text_eqb bns (env_ns P) && text_eqb bname t_Fault end)
        then RCrash [] AttributeError                                 (* method_request_string stays None *)
        else if (match V with ValLxml => negb (schema_valid body) | _ => false end) then RFault [] FSchema
        else
          match find_method (s_tns Sv) bns bname 0 (s_methods Sv) with
          | None => RFault [] FNotFound
          | Some (i, m) =>
              (* deserialize *)
              match hdr_in (m_in_header m) hdoc with
              | VFault => RFault [] FValidation
              | Crash e => RCrash [] e
              | Ok ihdr0 =>
                  (* if len(headers) == 1: ctx.in_header = headers[0] -- which may be None *)
                  let ihdr := match ihdr0 with Some [VNone] => None | _ => ihdr0 end in
                  match dec L C U fuel (fst (req_ty U0 i m)) (snd (req_ty U0 i m)) body with
                  | VFault => RFault [] FValidation
                  | Crash e => RCrash [] e
                  | Ok inobj0 =>
                    match absent_args (match eff_style m with EWrapped => true | _ => false end) U (fst (req_ty U0 i m)) inobj0 with
                    | inl e => RCrash [] e
                    | inr inobj =>
                      (* process_request: the argument sequence *)
                      let args := match eff_style m with
                                  | EBare => Some [inobj]
                                  | EEmpty => Some []
                                  | _ => match inobj with
                                         | VObj _ fs => Some fs                                  (* tuple(ctx.in_object) *)
                                         | VList l => Some l                                     (* already a sequence *)
                                         | _ => None
                                         end
                                  end in
                      match args with
                      | None => RFault [] FServer                     (* TypeError inside process_request *)
                      | Some a =>
                          let '(ret, ohdr) := f (m_name m) ihdr a in
                          let log := [(m_name m, ihdr, a)] in
                          match serialize i m ret ohdr with
                          | Ok d => RReturn log d
                          | VFault => RFault log FValidation
                          | Crash e => RCrash log e
                          end
                      end
                    end
                  end
              end
          end
    end.

  (* ---------------------------------------------------------- the client side *)

  (** what a client sends for method [i]: RemoteProcedureBase.get_out_object + serialize(REQUEST)
      for the wrapped styles (the message instance holds the arguments); for 'bare' the single
      argument under the message name, which is what the published schema asks for *)
  Definition client_request (i : nat) (m : method) (hdr : option (list val)) (args : list val) : out xnode :=
    let v := match eff_style m with
             | EBare => hd VNone args
             | _ => VObj (in_cid U0 i) args
             end in
    do body <- enc L U fuel (fst (req_ty U0 i m)) (s_tns Sv) (m_name m) v;
    match P with
    | PXml => Ok body
    | _ => do hs <- hdr_out (m_in_header m) hdr; Ok (envelope P hs body)
    end.

  (** RemoteProcedureBase.get_out_object: client.service.f( *pos, **kw ) *)
  Definition client_request_named (i : nat) (m : method) (hdr : option (list val)) (pos : list val) (kw : list (text * val)) : out xnode :=
    client_request i m hdr (merge_args xw_client_merge (map f_name (m_params m)) pos kw).

  (** reading the response with the out message: get_in_object's decompose + deserialize,
      then the result unwrapped: the single member / the sequence of members of the wrapper,
      or the value itself for the bare styles *)
  Definition client_response (i : nat) (m : method) (doc : xnode) : out (val * option (list val)) :=
    match (match P with
           | PXml => inr (None, Some doc)
           | _ => from_soap P doc
           end) with
    | inl _ => VFault
    | inr (_, None) => Crash AttributeError
    | inr (hdoc, Some body) =>
        do ohdr0 <- hdr_in (m_out_header m) hdoc;
        let ohdr := match ohdr0 with Some [VNone] => None | _ => ohdr0 end in   (* len(headers) == 1: the header itself *)
        do v0 <- dec L C U fuel (fst (resp_ty U0 i m)) (snd (resp_ty U0 i m)) body;
        do v <- match absent_args (match eff_style m with EWrapped => true | _ => false end) U (fst (resp_ty U0 i m)) v0 with
                | inl e => Crash e | inr v => Ok v end;
        match m_style m, m_returns m, v with
        | SWrapped, [], _ => Ok (VNone, ohdr)
        | SWrapped, [_], VObj _ [x] => Ok (x, ohdr)
        | SWrapped, [_], _ => Ok (VNone, ohdr)                        (* getattr(<list of None>, name, None) *)
        | SWrapped, _, VObj _ xs => Ok (VList xs, ohdr)
        | _, _, _ => Ok (v, ohdr)
        end
    end.
End Pipeline.

(** structural equality of observations, for case files *)
Definition olist_eqb (a b : option (list val)) : bool :=
  match a, b with
  | Some x, Some y => val_eqb (VList x) (VList y)
  | None, None => true
  | _, _ => false
  end.
Definition call_eqb (a b : call) : bool :=
  let '(n1, h1, a1) := a in let '(n2, h2, a2) := b in
  text_eqb n1 n2 && olist_eqb h1 h2 && val_eqb (VList a1) (VList a2).
Fixpoint log_eqb (a b : list call) : bool :=
  match a, b with
  | [], [] => true
  | x :: r, y :: s => call_eqb x y && log_eqb r s
  | _, _ => false
  end.
Definition fcode_eqb (a b : fcode) : bool :=
  match a, b with
  | FValidation, FValidation | FSchema, FSchema | FSoapError, FSoapError | FNotFound, FNotFound | FServer, FServer => true
  | _, _ => false
  end.
Definition rsp_eqb (a b : rsp) : bool :=
  match a, b with
  | RReturn l1 d1, RReturn l2 d2 => log_eqb l1 l2 && xnode_eqb d1 d2
  | RFault l1 c1, RFault l2 c2 => log_eqb l1 l2 && fcode_eqb c1 c2
  | RCrash l1 e1, RCrash l2 e2 => log_eqb l1 l2 && exn_eqb e1 e2
  | _, _ => false
  end.

(** what the transport does to a response document: serialise, parse *)
Definition rsp_wire (r : rsp) : rsp :=
  match r with RReturn l d => RReturn l (wire d) | _ => r end.
