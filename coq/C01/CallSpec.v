(** C01 — the vocabulary of the call-level property (definitions only): which argument / header /
    return values conform to a method's declared types under the published schema, and what the
    property says the user function and the client must see (the values up to the identifications
    of XmlX.norm). *)
From SpyneV Require Export C01.Call.

(** header classes with pairwise distinct qualified names (Soap11.deserialize matches header
    entries to the declared classes through a dict keyed by '{namespace}name') *)
Fixpoint hdr_distinct (U : universe) (cs : list cid) : bool :=
  match cs with
  | [] => true
  | c :: r => forallb (fun d => negb (text_eqb (cls_ns U c) (cls_ns U d) && text_eqb (cls_name U c) (cls_name U d))) r
              && hdr_distinct U r
  end.

Section Spec.
  Variable L : leaf_codec.
  Variable P : proto.
  Variable V : vmode.
  Variable U0 : universe.
  Variable Sv : service.
  Variable fuel : nat.

  Let U := synth U0 Sv.
  Let soft := match V with ValSoft => true | _ => false end.

  (** the value a client puts in the body element: the message instance holding the arguments, or,
      for 'bare', the single argument itself *)
  Definition req_value (i : nat) (m : method) (args : list val) : val :=
    match eff_style m with
    | EBare => hd VNone args
    | _ => VObj (in_cid U0 i) args
    end.

  (** the arguments conform to the declared parameter types (occurrence, nillable, member types,
      primitive domains); the argument of a bare method is the body element itself, which the published
      schema does not declare nillable: it cannot be None (nor the empty byte string, its wire twin) *)
  Definition args_conf (i : nat) (m : method) (args : list val) : bool :=
    xconf L U fuel (fst (req_ty U0 i m)) (req_value i m args)
    && match eff_style m with EBare => Nat.eqb (length args) 1 | _ => true end
    && negb (nonelike (req_value i m args)).

  (** header values: one per declared header class, each conforming to its class *)
  Definition hdrs_conf (cs : list cid) (hv : option (list val)) : bool :=
    match hv with
    | None => true
    | Some l => Nat.eqb (length cs) (length l)
                && forallb (fun cv => xconf L U fuel (TRef (fst cv)) (snd cv)) (combine cs l)
    end.

  (** what ctx.in_header holds: nothing over plain XML or without header values / classes; a single
      header class gives the header object itself, so a None entry is indistinguishable from no header *)
  Definition seen_header (cs : list cid) (hv : option (list val)) : option (list val) :=
    match P, hv, cs with
    | PXml, _, _ => None
    | _, Some l, _ :: _ =>
        match map (fun cv => norm U fuel (TRef (fst cv)) (snd cv)) (combine cs l) with
        | [VNone] => None
        | r => Some r
        end
    | _, _, _ => None
    end.

  (** the argument tuple the user function must be called with *)
  Definition seen_args (i : nat) (m : method) (args : list val) : list val :=
    match eff_style m with
    | EBare => [norm U fuel (fst (req_ty U0 i m)) (hd VNone args)]
    | EEmpty => []
    | _ => match norm U fuel (TRef (in_cid U0 i)) (VObj (in_cid U0 i) args) with
           | VObj _ fs => fs
           | _ => []
           end
    end.

  (** the value handed to the serializer for a returned value of the declared shape: one value, or a
      sequence with one item per declared return type *)
  Definition ret_value (i : nat) (m : method) (ret : val) : option val :=
    match m_style m with
    | SWrapped =>
        match m_returns m with
        | [] => Some (VObj (out_cid U0 i) [])
        | [_] => Some (VObj (out_cid U0 i) [ret])
        | rs => match ret with
                | VList l => if Nat.eqb (length l) (length rs) then Some (VObj (out_cid U0 i) l) else None
                | _ => None
                end
        end
    | _ => Some ret
    end.
  Definition ret_conf (i : nat) (m : method) (ret : val) : bool :=
    match ret_value i m ret with
    | Some v => xconf L U fuel (fst (resp_ty U0 i m)) v
                && negb (nonelike v)          (* a bare return value is the body element itself: not nillable in the schema *)
    | None => false
    end.

  (** the value the client must obtain *)
  Definition seen_ret (i : nat) (m : method) (ret : val) : val :=
    match m_style m, m_returns m with
    | SWrapped, [] => VNone
    | SWrapped, [_] =>
        match norm U fuel (TRef (out_cid U0 i)) (VObj (out_cid U0 i) [ret]) with
        | VObj _ [x] => x
        | _ => VNone
        end
    | SWrapped, _ =>
        match ret with
        | VList l => match norm U fuel (TRef (out_cid U0 i)) (VObj (out_cid U0 i) l) with
                     | VObj _ xs => VList xs
                     | _ => VNone
                     end
        | _ => VNone
        end
    | _, _ => norm U fuel (fst (resp_ty U0 i m)) ret
    end.
End Spec.

(** a document that denotes [e] and carries a comment before the content of every element, a processing
    instruction inside its character data (after the first character) and a comment after every child:
    the witness of the non-vacuity examples of the statements about documents *)
Fixpoint decorate (e : xnode) : dnode :=
  match e with
  | XElt ns n a t k =>
      DElt ns n a (DComment :: match t with
                               | Some s => [DText (firstn 1 s); DPI; DText (skipn 1 s)]
                               | None => []
                               end ++ flat_map (fun x => [decorate x; DComment]) k)
  | XOther => DComment
  end.
