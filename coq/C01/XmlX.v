(** C01 — model of spyne/protocol/xml.py (XmlDocument.to_parent / from_element) over the
    universe of C01/Univ.v.  Definitions only.

    Mirrors, function by function (repaired tree):
      to_parent / null_to_parent / modelbase_to_parent / byte_array_to_parent
      xmlattribute_to_parent / xmldata_to_parent + XmlData.marshall
      complex_to_parent / gen_members_parent / _get_members_etree      ([enc], [enc_field], [enc_members])
      from_element (xsi:nil) / base_from_element / unicode_from_element / byte_array_from_element
      array_from_element / complex_from_element (XmlData from element.text, member lookup by
      local name, the attribute loop with its soft validation, the [frequencies] check)
                                                                       ([dec], [dec_data], [dec_kids], [dec_atts])
    lxml is the tree type [xnode] plus [wire], the one identification a serialise/parse
    cycle makes on the trees Spyne builds (text '' is read back as no text).

    The primitive text codecs are a parameter ([leaf_codec]; C08 is about them, C01/LeafX.v
    plugs the C08 models in).  Members may carry another name / namespace on the wire
    (Attributes.sub_name / sub_ns, looked up through the alternate-key table).  Not modelled:
    polymorphism and xsi:type (C16), Attributes.default, AnyXml/AnyDict/AnyHtml/File/Enum members; the generators
    never produce them. *)
From SpyneV Require Export C01.Univ Gen.XmlWire.

(** lxml trees as the harness prints them: namespace ("" = none), local name, attributes
    (ns, name, value), element.text, children; comments / PIs / entities = XOther.  Tails are
    not part of the vocabulary (Spyne never reads one). *)
Inductive xnode :=
| XElt (ns name : text) (atts : list (text * text * text)) (txt : option text) (kids : list xnode)
| XOther.

Definition attr := (text * text * text)%type.

(** the tokens of the source that decide the codec are GENERATED from it (Gen/XmlWire.v, harness/translate/xmlwire.py):
    xw_nil_literals, xw_write_each, xw_write_one, xw_read_multi, xw_freq_bad, xw_ns_xsi *)
Definition xsi_ns : text := xw_ns_xsi.  (* spyne.const.xml.NS_XSI *)
Definition t_nil : text := [110; 105; 108].  (* nil *)
Definition t_true : text := [116; 114; 117; 101].  (* true *)
Definition t_one : text := [49].  (* 1 *)

(** ProtocolBase.to_unicode / from_unicode and ModelBase.validate_string / validate_native
    per leaf type; the bool is Attributes.nillable of the member's type.
    [lc_pr] includes lxml's refusal of text that is not XML-compatible (ValueError).
    [lc_rd] is from_unicode on a str: None where the handler returns None.
    [lc_ok] is the set of native values on which the codec is claimed lossless (C08). *)
Record leaf_codec := mkleaf {
  lc_pr : ltype -> pval -> out text;
  lc_rd : ltype -> text -> out (option pval);
  lc_vs : ltype -> bool -> option text -> bool;
  lc_vn : ltype -> bool -> option pval -> bool;
  lc_ok : ltype -> pval -> bool }.

Record xcfg := mkxcfg {
  x_soft : bool           (* validator='soft' *)
}.

(** the lxml serialise/parse cycle on Spyne-built trees *)
Fixpoint wire (e : xnode) : xnode :=
  match e with
  | XElt ns n a t k => XElt ns n a (match t with Some [] => None | _ => t end) (map wire k)
  | XOther => XOther
  end.

Fixpoint mapM {A B} (f : A -> out B) (l : list A) : out (list B) :=
  match l with
  | [] => Ok []
  | x :: r => do y <- f x; do ys <- mapM f r; Ok (y :: ys)
  end.

Fixpoint find_field (k : text) (fs : list field) : option field :=
  match fs with
  | [] => None
  | f :: r => if text_eqb (f_name f) k then Some f else find_field k r
  end.

(** _type_info_alt: the alternate keys _sanitize_type_info registers for a member with sub_name / sub_ns:
      sub_name only            -> 'sub_name'                 (found by the local name of a child, whatever its namespace)
      sub_ns [and sub_name]    -> '{sub_ns}sub_name-or-key'  (found by the qualified tag)
    Keys are compared structurally (namespace, local name): names do not contain braces. *)
Fixpoint find_by (p : field -> bool) (fs : list field) : option field :=
  match fs with [] => None | f :: r => if p f then Some f else find_by p r end.
Definition alt_bare (local : text) (f : field) : bool :=
  match f_sub_ns f, f_sub_name f with None, Some n => text_eqb n local | _, _ => false end.
Definition alt_q (ns local : text) (f : field) : bool :=
  match f_sub_ns f with Some s => text_eqb s ns && text_eqb (wname f) local | None => false end.

(** complex_from_element, child elements: flat_type_info.get(local) or _type_info_alt.get(local)
    or _type_info_alt.get(tag).  [alts]: the members whose alternate keys the class knows. *)
Definition lookup_member (fields alts : list field) (ns local : text) : option field :=
  match find_field local fields with
  | Some f => Some f
  | None => match find_by (alt_bare local) alts with
            | Some f => Some f
            | None => find_by (alt_q ns local) alts
            end
  end.

(** instance attributes: a Python object's __dict__ as an association list, newest first;
    _init_member sets every member to None *)
Definition pystate := list (text * val).
Fixpoint getattr (st : pystate) (k : text) : val :=
  match st with
  | [] => VNone
  | (k', v) :: r => if text_eqb k' k then v else getattr r k
  end.
Definition setattr (st : pystate) (k : text) (v : val) : pystate := (k, v) :: st.

Fixpoint count_text (k : text) (l : list text) : Z :=
  match l with
  | [] => 0
  | x :: r => (if text_eqb x k then 1 else 0) + count_text k r
  end.

Fixpoint lookup_att (ns name : text) (atts : list attr) : option text :=
  match atts with
  | [] => None
  | (a, n, v) :: r => if text_eqb a ns && text_eqb n name then Some v else lookup_att ns name r
  end.

(** element.get(XSI('nil')) in <the generated tuple of literals> *)
Definition is_nil (atts : list attr) : bool :=
  match lookup_att xsi_ns t_nil atts with
  | Some v => existsb (text_eqb v) xw_nil_literals
  | None => false
  end.

(** Attributes.max_occurs as the number the source compares (decimal.Decimal('inf') for 'unbounded') *)
Definition fmax (f : field) : ext := match f_max f with Some m => Fin m | None => PosInf end.

(** lxml attribute key: Clark notation *)
Definition clark (ns name : text) : text :=
  match ns with [] => name | _ => 123 :: ns ++ 125 :: name end.

Definition nil_att : attr := (xsi_ns, t_nil, t_true).

(** native values that are written as an element without content *)
Definition nonelike (v : val) : bool :=
  match v with VNone | VLeaf (LBytes []) => true | _ => false end.

Definition of_opt (o : option pval) : val := match o with Some p => VLeaf p | None => VNone end.
Definition is_text_leaf (l : ltype) : bool := match lt_spec l with SText => true | _ => false end.
Definition no_kids (l : list xnode) : bool := match l with [] => true | _ => false end.
(** the namespace a member element is written in: its sub_ns, else the namespace of the class that declares it *)
Definition wns (dns : text) (f : field) : text := match f_sub_ns f with Some n => n | None => dns end.

Section Codec.
  Variable L : leaf_codec.
  Variable C : xcfg.
  Variable U : universe.

  Definition cls_ns (c : cid) : text := match get_cls U c with Some cl => c_ns cl | None => [] end.
  Definition cls_name (c : cid) : text := match get_cls U c with Some cl => c_name cl | None => [] end.

  (* ---------------------------------------------------------------- output *)

  (** what one entry of _type_info adds to the parent element in _get_members_etree:
      child elements, attributes, and the text XmlData.marshall sets.
      [nk]: the parent has no child element yet (len(parent_elt) == 0). *)
  Definition enc_field (encf : ty -> text -> text -> val -> out xnode) (dns : text) (f : field) (x : val) (nk : bool)
    : out (list xnode * list attr * option text) :=
    match f_kind f with
    | KAttr =>                                       (* to_parent -> xmlattribute_to_parent / null_to_parent *)
        if is_multi f then Crash OtherExn            (* outside the modelled shapes *)
        else
        match x with
        | VNone => Ok ([], [], None)
        | VLeaf pv => match f_ty f with
                      | TLeaf l => do s <- lc_pr L l pv; Ok ([], [([], wname f, s)], None)   (* _gen_tagname(sub_ns, sub_name or key) *)
                      | _ => Crash TypeError
                      end
        | _ => Crash TypeError
        end
    | KData =>                                       (* to_parent -> xmldata_to_parent -> XmlData.marshall *)
        if is_multi f then Crash OtherExn
        else
        match x with
        | VNone => if 0 <? f_min f then Ok ([], [nil_att], None)   (* null_to_parent: parent.attrib.update(NIL_ATTR) *)
                   else Ok ([], [], None)
        | VLeaf pv => match f_ty f with
                      | TLeaf l => do s <- lc_pr L l pv;
                                   Ok ([], [], if nk then Some s else None)   (* else: the tail of the last child, never read *)
                      | _ => Crash TypeError
                      end
        | _ => Crash TypeError
        end
    | KElem =>
        let isnone := match x with VNone => true | _ => false end in
        if xw_write_each isnone (fmax f) then        (* if subvalue is not None and mo > 1: for sv in subvalue: to_parent(sv) *)
          match x with
          | VList xs => do es <- mapM (encf (f_ty f) (wns dns f) (wname f)) xs; Ok (es, [], None)
          | _ => Crash TypeError                     (* iterating a non-sequence *)
          end
        else if xw_write_one isnone (f_min f) then   (* elif subvalue is not None or min_occurs > 0: to_parent(subvalue) *)
          do e <- encf (f_ty f) (wns dns f) (wname f) x; Ok ([e], [], None)
        else Ok ([], [], None)
    end.

  (** sub_ns = v.Attributes.sub_ns or cls.get_namespace() of the declaring class *)
  Definition or_text (a b : option text) : option text := match b with Some _ => b | None => a end.

  (** the loop over the flattened _type_info (parents first); getattr(inst, k, None).
      MEMBER-NAMESPACE RULE: [ffs] is [flat_decl]: every member comes with the namespace [dns] of the class that
      DECLARES it (_get_members_etree recurses into __extends__ and takes cls.get_namespace() of the class it is
      iterating), so a member inherited from a base in another namespace is written {base}a inside {derived}K *)
  Fixpoint enc_members (encf : ty -> text -> text -> val -> out xnode)
           (ffs : list (text * field)) (vals : list val) (nk : bool) : out (list xnode * list attr * option text) :=
    match ffs with
    | [] => Ok ([], [], None)
    | (dns, f) :: r =>
        do a <- enc_field encf dns f (hd VNone vals) nk;
        do b <- enc_members encf r (tl vals) (nk && no_kids (fst (fst a)));
        Ok (fst (fst a) ++ fst (fst b), snd (fst a) ++ snd (fst b), or_text (snd a) (snd b))
    end.

  (** XmlDocument.to_parent for a value that is written as an element.
      Fuel bounds the nesting depth of the value; exhaustion is [Crash OtherExn]. *)
  Fixpoint enc (fuel : nat) (t : ty) (ns name : text) (v : val) : out xnode :=
    match fuel with
    | O => Crash OtherExn
    | S k =>
        match v with
        | VNone => Ok (XElt ns name [nil_att] None [])                     (* null_to_parent *)
        | VLeaf pv =>
            match t with
            | TLeaf l => do s <- lc_pr L l pv; Ok (XElt ns name [] (Some s) [])   (* modelbase_to_parent / byte_array_to_parent *)
            | _ => Crash TypeError
            end
        | VList xs =>
            match t with
            | TArr e mns mname =>                                          (* Array: one unbounded member, in the Array class's namespace *)
                do kids <- mapM (enc k e mns mname) xs;
                Ok (XElt ns name [] None kids)
            | _ => Crash TypeError
            end
        | VObj d fs =>
            match t with
            | TRef c =>
                if negb (Nat.eqb d c) then Crash OtherExn                  (* polymorphism is outside this model *)
                else
                  match flat_decl U c with
                  | None => Crash KeyError
                  | Some ffs =>
                      do r <- enc_members (enc k) ffs fs true;
                      Ok (XElt ns name (snd (fst r)) (snd r) (fst (fst r)))
                  end
            | _ => Crash TypeError
            end
        end
    end.

  (* ---------------------------------------------------------------- input *)

  Definition as_list (v : val) : out (list val) :=
    match v with
    | VNone => Ok []
    | VList l => Ok l
    | _ => Crash AttributeError                      (* value.append on a non-list *)
    end.

  (** base_from_element / byte_array_from_element ([istext = false]) and
      unicode_from_element ([istext = true]) on element.text *)
  Definition dec_leaf (l : ltype) (nillable : bool) (txt : option text) : out val :=
    if is_text_leaf l then
      let s := match txt with None => [] | Some s => s end in
      if x_soft C && negb (lc_vs L l nillable (Some s)) then VFault
      else do v <- lc_rd L l s;
           if x_soft C && negb (lc_vn L l nillable v) then VFault else Ok (of_opt v)
    else
      if x_soft C && negb (lc_vs L l nillable txt) then VFault
      else do v <- match txt with None => Ok None | Some s => lc_rd L l s end;   (* from_unicode(cls, None) is None *)
           if x_soft C && negb (lc_vn L l nillable v) then VFault else Ok (of_opt v).

  (** the _xml_tag_body_as loop: every XmlData member gets from_unicode(type, elt.text), unvalidated *)
  Fixpoint dec_data (fields : list field) (txt : option text) (st : pystate) : out pystate :=
    match fields with
    | [] => Ok st
    | f :: r =>
        match f_kind f with
        | KData =>
            match f_ty f with
            | TLeaf l =>
                do v <- match txt with None => Ok None | Some s => lc_rd L l s end;
                dec_data r txt (setattr st (f_name f) (of_opt v))
            | _ => Crash TypeError
            end
        | _ => dec_data r txt st
        end
    end.

  (** the loop over the children of complex_from_element; [freq] is the multiset of local
      names seen (the [frequencies] defaultdict) *)
  Fixpoint dec_kids (decf : field -> xnode -> out val) (fields alts : list field)
           (kids : list xnode) (st : pystate) (freq : list text) : out (pystate * list text) :=
    match kids with
    | [] => Ok (st, freq)
    | XOther :: r => dec_kids decf fields alts r st freq                   (* comments are skipped *)
    | (XElt ens name _ _ _ as c) :: r =>
        match lookup_member fields alts ens name with
        | None => dec_kids decf fields alts r st freq                      (* unknown member: ignored *)
        | Some f =>
            let key := f_name f in                       (* the member's own key: attribute name and frequency counter *)
            let freq' := key :: freq in
            match f_kind f with
            | KElem =>
                do v <- decf f c;
                if xw_read_multi (fmax f) then           (* if mo > 1: value.append(...) *)
                  do l <- as_list (getattr st key);
                  dec_kids decf fields alts r (setattr st key (VList (l ++ [v]))) freq'
                else dec_kids decf fields alts r (setattr st key v) freq'
            | _ => Crash OtherExn          (* a child element named like an XmlAttribute / XmlData member: not modelled *)
            end
        end
    end.

  (** the loop over elt.attrib: only XmlAttribute members are read *)
  (** flat_type_info.get(attribute key) or _type_info_alt.get(attribute key) *)
  Definition lookup_attr (fields alts : list field) (ans an : text) : option field :=
    match find_field (clark ans an) fields with
    | Some f => Some f
    | None => match ans with
              | [] => find_by (alt_bare an) alts
              | _ => find_by (alt_q ans an) alts
              end
    end.

  Fixpoint dec_atts (fields alts : list field) (atts : list attr) (st : pystate) (freq : list text)
    : out (pystate * list text) :=
    match atts with
    | [] => Ok (st, freq)
    | (ans, an, av) :: r =>
        match lookup_attr fields alts ans an with
        | None => dec_atts fields alts r st freq
        | Some f =>
            let key := f_name f in
            match f_kind f with
            | KAttr =>
                match f_ty f with
                | TLeaf l =>
                    if x_soft C && negb (lc_vs L l (f_nillable f) (Some av)) then VFault
                    else do v <- lc_rd L l av;
                         if x_soft C && negb (lc_vn L l (f_nillable f) v) then VFault
                         else dec_atts fields alts r (setattr st key (of_opt v)) (key :: freq)
                | _ => Crash TypeError
                end
            | _ => dec_atts fields alts r st freq
            end
        end
    end.

  (** validator='soft': every member's count within [min_occurs, max_occurs] *)
  Definition freq_ok (fields : list field) (freq : list text) : bool :=
    forallb (fun f => negb (xw_freq_bad (count_text (f_name f) freq) (f_min f) (fmax f))) fields.

  (** XmlDocument.from_element; [nillable] is the Attributes.nillable of the member type *)
  Fixpoint dec (fuel : nat) (t : ty) (nillable : bool) (e : xnode) : out val :=
    match fuel with
    | O => Crash OtherExn
    | S k =>
        match e with
        | XOther => Crash AttributeError
        | XElt _ _ atts txt kids =>
            if is_nil atts then
              (if x_soft C && negb nillable then VFault else Ok VNone)
            else
              match t with
              | TLeaf l => dec_leaf l nillable txt
              | TArr el _ _ =>                                             (* array_from_element *)
                  do vs <- mapM (dec k el true) kids; Ok (VList vs)
              | TRef c =>                                                  (* complex_from_element *)
                  match flat_fields U c with
                  | None => Crash KeyError
                  | Some fields =>
                      (* cls._type_info_alt: ComplexModelMeta merges the bases' tables into the class's own (generated flag) *)
                      let alts := if xw_alt_inherited then fields
                                  else match get_cls U c with Some cl => c_own cl | None => [] end in
                      do st0 <- dec_data fields txt [];
                      do r1 <- dec_kids (fun f => dec k (f_ty f) (f_nillable f)) fields alts kids st0 [];
                      do r2 <- dec_atts fields alts atts (fst r1) (snd r1);
                      if x_soft C && negb (freq_ok fields (snd r2)) then VFault
                      else Ok (VObj c (map (fun f => getattr (fst r2) (f_name f)) fields))
                  end
              end
        end
    end.

  (* ---------------------------------------------------------------- the property's vocabulary *)

  (** number of times a member occurs on the wire (elements named after it, or its attribute) *)
  Definition occ (f : field) (x : val) : Z :=
    match f_kind f with
    | KAttr => match x with VNone => 0 | _ => 1 end
    | KData => 0
    | KElem =>
        match x with
        | VNone => if 0 <? f_min f then 1 else 0
        | VList xs => if is_multi f then Z.of_nat (length xs) else 1
        | _ => 1
        end
    end.

  (** values that conform to a member *under the published schema*: occurrence, nillable,
      shape, and (through [rec]) the member's type.  A value that denotes None as element content
      (None itself, the empty byte string) needs a nillable member. *)
  Definition field_conf (rec : ty -> val -> bool) (f : field) (x : val) : bool :=
    (f_min f <=? occ f x)
    && match f_max f with Some m => occ f x <=? m | None => true end
    && match f_kind f with
       | KAttr | KData =>
           negb (is_multi f)
           && match f_ty f with TLeaf _ => true | _ => false end
           && match x with
              | VNone => true
              | VLeaf _ => rec (f_ty f) x
              | _ => false
              end
       | KElem =>
           if is_multi f then
             match x with
             | VNone => f_min f <=? 0
             | VList xs => forallb (fun y => (if nonelike y then f_nillable f else true) && rec (f_ty f) y) xs
             | _ => false
             end
           else
             match x with
             | VNone => (f_min f <=? 0) || f_nillable f
             | _ => if nonelike x then f_nillable f else true
             end && rec (f_ty f) x
       end.

  Fixpoint xconf (fuel : nat) (t : ty) (v : val) : bool :=
    match fuel with
    | O => false
    | S k =>
        match v with
        | VNone => true                   (* whether None is allowed is decided by the position *)
        | VLeaf p => match t with TLeaf l => leaf_has (lt_spec l) p && lc_ok L l p | _ => false end
        | VList vs => match t with TArr e _ _ => forallb (xconf k e) vs | _ => false end
        | VObj d fs =>
            match t with
            | TRef c =>
                Nat.eqb d c
                && match flat_fields U c with
                   | Some ffs => Nat.eqb (length ffs) (length fs)
                                 && forallb (fun fv => field_conf (xconf k) (fst fv) (snd fv)) (combine ffs fs)
                   | None => false
                   end
            | _ => false
            end
        end
    end.

  (** the identifications the property allows, and the one XML forces on XmlData:
      an empty unwrapped sequence is None; an empty byte string written as element content is
      None; an XmlData member holding '' (or b'') is None — element content cannot be absent.
      Absent optional element = None needs no clause: None is the only native form. *)
  Definition norm_leaf (k : fkind) (v : val) : val :=
    match k, v with
    | KElem, VLeaf (LBytes []) => VNone
    | KData, VLeaf (LBytes []) => VNone
    | KData, VLeaf (LText []) => VNone
    | _, _ => v
    end.
  Definition norm_field (rec : ty -> val -> val) (f : field) (x : val) : val :=
    match f_kind f with
    | KAttr => x
    | KData => norm_leaf KData x
    | KElem =>
        if is_multi f then
          match x with
          | VList [] => VNone
          | VList xs => VList (map (rec (f_ty f)) xs)
          | _ => x
          end
        else rec (f_ty f) x
    end.
  Fixpoint norm_fields (rec : ty -> val -> val) (ffs : list field) (vals : list val) : list val :=
    match ffs, vals with
    | f :: r, x :: xs => norm_field rec f x :: norm_fields rec r xs
    | _, _ => []
    end.
  Fixpoint norm (fuel : nat) (t : ty) (v : val) : val :=
    match fuel with
    | O => v
    | S k =>
        match t, v with
        | TLeaf _, _ => norm_leaf KElem v
        | TArr e _ _, VList xs => VList (map (norm k e) xs)
        | TRef c, VObj d fs =>
            match flat_fields U c with
            | Some ffs => VObj c (norm_fields (norm k) ffs fs)
            | None => v
            end
        | _, _ => v
        end
    end.

  (** entry points with the names of the source *)
  Definition to_parent (fuel : nat) (t : ty) (ns name : text) (v : val) : out xnode := enc fuel t ns name v.
  Definition from_element (fuel : nat) (t : ty) (e : xnode) : out val := dec fuel t true e.
End Codec.

(** structural equality of trees for case files; attribute lists compared as sets *)
Definition attr_eqb (a b : attr) : bool :=
  let '(x1, y1, z1) := a in let '(x2, y2, z2) := b in text_eqb x1 x2 && text_eqb y1 y2 && text_eqb z1 z2.
Definition atts_eqb (a b : list attr) : bool :=
  Nat.eqb (length a) (length b)
  && forallb (fun x => existsb (attr_eqb x) b) a && forallb (fun x => existsb (attr_eqb x) a) b.
Definition otext_eqb (a b : option text) : bool :=
  match a, b with Some x, Some y => text_eqb x y | None, None => true | _, _ => false end.
Fixpoint xnode_eqb (a b : xnode) : bool :=
  match a, b with
  | XOther, XOther => true
  | XElt n1 m1 a1 t1 k1, XElt n2 m2 a2 t2 k2 =>
      text_eqb n1 n2 && text_eqb m1 m2 && atts_eqb a1 a2 && otext_eqb t1 t2
      && (fix go (l1 l2 : list xnode) : bool :=
            match l1, l2 with
            | [], [] => true
            | x :: r1, y :: r2 => xnode_eqb x y && go r1 r2
            | _, _ => false
            end) k1 k2
  | _, _ => false
  end.
