(** Round-trip theorem for the XML codec model of Wire/Xml.v. *)
From Coq Require Import ZArith List Bool Lia ZifyBool.
From SpyneV Require Import Base.Prelude Wire.Universe Wire.Xml.
Import ListNotations.
Open Scope Z_scope.

(* ------------------------------------------------------------------ text, attributes *)
Lemma text_eqb_refl a : text_eqb a a = true.
Proof. induction a; cbn; [reflexivity|]. rewrite Z.eqb_refl, IHa. reflexivity. Qed.

Lemma text_eqb_eq a : forall b, text_eqb a b = true <-> a = b.
Proof.
  induction a as [|x a IH]; intros [|y b]; cbn; split; intro H; try reflexivity; try discriminate.
  - apply andb_true_iff in H. destruct H as [H1 H2]. apply Z.eqb_eq in H1. apply IH in H2. congruence.
  - inversion H; subst. rewrite Z.eqb_refl. cbn. apply text_eqb_refl.
Qed.

Lemma text_eqb_neq a b : a <> b -> text_eqb a b = false.
Proof. intro H. destruct (text_eqb a b) eqn:E; [|reflexivity]. apply text_eqb_eq in E. contradiction. Qed.

Lemma text_eqb_sym a b : text_eqb a b = text_eqb b a.
Proof.
  destruct (text_eqb a b) eqn:E.
  - apply text_eqb_eq in E. subst. symmetry. apply text_eqb_refl.
  - destruct (text_eqb b a) eqn:E2; [|reflexivity]. apply text_eqb_eq in E2. subst.
    rewrite text_eqb_refl in E. discriminate.
Qed.

Lemma text_mem_In x l : text_mem x l = true <-> In x l.
Proof.
  induction l as [|y l IH]; cbn; [split; [discriminate|tauto]|].
  rewrite orb_true_iff, IH, text_eqb_eq. split; intros [H|H]; auto.
Qed.

Lemma getattr_set_same st k v : getattr (setattr st k v) k = v.
Proof. unfold setattr. cbn. rewrite text_eqb_refl. reflexivity. Qed.

Lemma getattr_set_other st k k' v : k <> k' -> getattr (setattr st k v) k' = getattr st k'.
Proof. intro H. unfold setattr. cbn. rewrite text_eqb_neq by exact H. reflexivity. Qed.

Lemma count_repeat key nm n fr :
  count_text key (repeat nm n ++ fr) = (if text_eqb nm key then Z.of_nat n else 0) + count_text key fr.
Proof.
  induction n as [|n IH]; cbn [repeat app count_text].
  - destruct (text_eqb nm key); reflexivity.
  - rewrite IH. destruct (text_eqb nm key); lia.
Qed.

(* ------------------------------------------------------------------ universe lemmas *)
Lemma flat_decl_fuel_snd n U : forall c,
  option_map (map snd) (flat_decl_fuel n U c) = flat_fields_fuel n U c.
Proof.
  induction n as [|n IH]; intro c; cbn; [reflexivity|].
  destruct (get_cls U c) as [cl|]; [|reflexivity].
  destruct (c_parent cl) as [p|].
  - rewrite <- IH. destruct (flat_decl_fuel n U p); cbn; [|reflexivity].
    rewrite map_app, map_map. cbn. rewrite map_id. reflexivity.
  - cbn. rewrite map_map. cbn. rewrite map_id. reflexivity.
Qed.

Lemma flat_decl_snd U c ffs : flat_fields U c = Some ffs ->
  exists fds, flat_decl U c = Some fds /\ map snd fds = ffs.
Proof.
  unfold flat_fields, flat_decl. rewrite <- flat_decl_fuel_snd.
  destruct (flat_decl_fuel (S c) U c) as [fds|]; cbn; [|discriminate].
  intro H. inversion H. eauto.
Qed.

Lemma wf_from_nth U : forall l i, wf_from U i l = true ->
  forall j cl, nth_error l j = Some cl -> cls_ok U (i + j) cl = true.
Proof.
  induction l as [|c l IH]; intros i H j cl Hn; [destruct j; discriminate|].
  cbn in H. apply andb_true_iff in H. destruct H as [H1 H2].
  destruct j as [|j]; cbn in Hn.
  - inversion Hn; subst. rewrite Nat.add_0_r. exact H1.
  - replace (i + S j)%nat with (S i + j)%nat by lia. eapply IH; eauto.
Qed.

Lemma wf_flat_nodup U c ffs : wf_universe U = true -> flat_fields U c = Some ffs ->
  nodup_text (map f_name ffs) = true.
Proof.
  intros Hwf Hf.
  assert (exists cl, get_cls U c = Some cl) as [cl Hc].
  { unfold flat_fields in Hf. cbn in Hf. destruct (get_cls U c); [eauto|discriminate]. }
  pose proof (wf_from_nth U U 0 Hwf c cl Hc) as H. cbn in H.
  unfold cls_ok in H. rewrite Hf in H. apply andb_true_iff in H. apply H.
Qed.

Lemma find_field_nodup fs : nodup_text (map f_name fs) = true ->
  forall f, In f fs -> find_field (f_name f) fs = Some f.
Proof.
  induction fs as [|g fs IH]; intros Hn f Hin; [destruct Hin|].
  cbn in Hn. apply andb_true_iff in Hn. destruct Hn as [Hm Hn]. cbn.
  destruct Hin as [->|Hin]; [rewrite text_eqb_refl; reflexivity|].
  destruct (text_eqb (f_name g) (f_name f)) eqn:E.
  - apply text_eqb_eq in E. apply negb_true_iff in Hm.
    assert (text_mem (f_name g) (map f_name fs) = true) as X; [|congruence].
    apply text_mem_In. rewrite E. apply in_map. exact Hin.
  - apply IH; assumption.
Qed.

(* ------------------------------------------------------------------ mapM *)
Lemma mapM_Forall2 {A B} (f : A -> out B) (P : A -> B -> Prop) l :
  (forall x, In x l -> exists y, f x = Ok y /\ P x y) ->
  exists ys, mapM f l = Ok ys /\ Forall2 P l ys.
Proof.
  induction l as [|x l IH]; intro H; cbn.
  - exists []. split; [reflexivity|constructor].
  - destruct (H x (or_introl eq_refl)) as [y [Hy Py]]. rewrite Hy. cbn.
    destruct IH as [ys [Hys Pys]]; [intros; apply H; right; assumption|].
    rewrite Hys. cbn. exists (y :: ys). split; [reflexivity|constructor; assumption].
Qed.

Lemma Forall2_len {A B} (P : A -> B -> Prop) l1 l2 : Forall2 P l1 l2 -> length l1 = length l2.
Proof. induction 1; cbn; congruence. Qed.

Lemma mapM_map_Forall2 {A B V} (g : B -> out V) (w : B -> B) (h : A -> V) l ys :
  Forall2 (fun x y => g (w y) = Ok (h x)) l ys -> mapM g (map w ys) = Ok (map h l).
Proof.
  induction 1; cbn; [reflexivity|]. rewrite H. cbn. rewrite IHForall2. reflexivity.
Qed.

Lemma is_nil_nil_att : is_nil [nil_att] = true.
Proof. vm_compute. reflexivity. Qed.

Lemma lookup_att_plain ns nm atts : ns <> [] ->
  Forall (fun a : attr => fst (fst a) = []) atts -> lookup_att ns nm atts = None.
Proof.
  intros Hns H. induction H as [|[[a n] v] l Ha _ IH]; cbn; [reflexivity|].
  cbn in Ha. subst a. rewrite text_eqb_neq by (intro; subst; congruence). cbn. exact IH.
Qed.

Lemma is_nil_plain atts : Forall (fun a : attr => fst (fst a) = []) atts -> is_nil atts = false.
Proof. intro H. unfold is_nil. rewrite lookup_att_plain; [reflexivity|discriminate|exact H]. Qed.

Lemma in_combine_ex {A B} (l1 : list A) : forall (l2 : list B) a,
  length l1 = length l2 -> In a l1 -> exists b, In (a, b) (combine l1 l2).
Proof.
  induction l1 as [|x l1 IH]; intros [|y l2] a Hl Hin; try discriminate; [destruct Hin|].
  cbn in Hl. injection Hl as Hl. destruct Hin as [->|Hin].
  - exists y. left. reflexivity.
  - destruct (IH l2 a Hl Hin) as [b Hb]. exists b. right. exact Hb.
Qed.

Lemma map_norm_fields (rec : ty -> val -> val) (g : field -> val) : forall ffs fs,
  length ffs = length fs ->
  (forall f x, In (f, x) (combine ffs fs) -> g f = norm_field rec f x) ->
  map g ffs = norm_fields rec ffs fs.
Proof.
  induction ffs as [|f ffs IH]; intros [|x fs] Hl H; try discriminate; [reflexivity|].
  cbn in Hl. injection Hl as Hl. cbn. f_equal.
  - apply H. left. reflexivity.
  - apply IH; [exact Hl|]. intros. apply H. right. assumption.
Qed.

Section RT.
  Variable L : leaf_codec.
  Variable C : xcfg.
  Variable U : universe.
  (** the leaf codec is lossless on its declared domain, and only Unicode may print as '' *)
  Hypothesis Hleaf : forall p v, prim_has p v = true -> lc_ok L p v = true ->
    exists s, lc_pr L p v = Ok s /\ lc_rd L p s = Ok v /\ (p <> PText -> s <> []).
  (** the documents carry no xsi:type (or parse_xsi_type=False); output is not polymorphic *)
  Hypothesis Hres : forall e, x_resolve C e = None.
  Hypothesis Hpoly : x_poly C = false.
  Hypothesis Hwf : wf_universe U = true.

  Notation enc := (enc L C U).
  Notation dec := (dec L C U).
  Notation norm := (norm U).
  Notation xconf := (xconf L U).

  Definition rt_stmt (k : nat) : Prop :=
    forall t v ns name nillable,
      xconf k t v = true ->
      (v = VNone -> x_soft C && negb nillable = false) ->
      exists a tx ks, enc k t ns name v = Ok (XElt ns name a tx ks)
                      /\ dec k t nillable (wire (XElt ns name a tx ks)) = Ok (norm k t v).

  Lemma norm_none k t : norm k t VNone = VNone.
  Proof. destruct k; cbn; [reflexivity|]. destruct t; reflexivity. Qed.

  Section Members.
    Variable k : nat.
    Hypothesis IH : rt_stmt k.
    Variable fields : list field.
    Let decf := fun f : field => dec k (f_ty f) (f_nillable f).

    (** one single-valued element *)
    Lemma block_single f ns a tx ks v st fr rest :
      find_field (f_name f) fields = Some f -> is_multi f = false ->
      decf f (XElt ns (f_name f) a tx ks) = Ok v ->
      dec_kids decf fields (XElt ns (f_name f) a tx ks :: rest) st fr
      = dec_kids decf fields rest (setattr st (f_name f) v) (f_name f :: fr).
    Proof. intros Hf Hm Hd. cbn. rewrite Hf, Hd. cbn. rewrite Hm. reflexivity. Qed.

    (** a run of elements of one max_occurs > 1 member *)
    Lemma block_multi f : find_field (f_name f) fields = Some f -> is_multi f = true ->
      forall es vs,
        Forall2 (fun e v => (exists ns a tx ks, e = XElt ns (f_name f) a tx ks) /\ decf f e = Ok v) es vs ->
        forall st fr l, as_list (getattr st (f_name f)) = Ok l ->
        exists st',
          (forall rest, dec_kids decf fields (es ++ rest) st fr
                        = dec_kids decf fields rest st' (repeat (f_name f) (length es) ++ fr))
          /\ (es <> [] -> getattr st' (f_name f) = VList (l ++ vs))
          /\ (es = [] -> st' = st)
          /\ (forall key, key <> f_name f -> getattr st' key = getattr st key).
    Proof.
      intros Hf Hm es vs H. induction H as [|e v es vs [[ns [a [tx [ks ->]]]] Hd] Hrest IHf]; intros st fr l Hl.
      - exists st. repeat split; try reflexivity; try congruence.
      - set (st1 := setattr st (f_name f) (VList (l ++ [v]))).
        destruct (IHf st1 (f_name f :: fr) (l ++ [v])) as [st' [H1 [H2 [H3 H4]]]].
        { unfold st1. rewrite getattr_set_same. reflexivity. }
        exists st'. split; [|split; [|split]].
        + intro rest. cbn [app]. cbn [dec_kids]. rewrite Hf, Hd. cbn [bind]. rewrite Hm, Hl. cbn [bind].
          fold st1. rewrite H1. cbn [length repeat]. f_equal.
          change (f_name f :: fr) with ([f_name f] ++ fr). rewrite app_assoc.
          replace (repeat (f_name f) (length es) ++ [f_name f]) with (f_name f :: repeat (f_name f) (length es)); [reflexivity|].
          clear. induction (length es); cbn; [reflexivity|]. f_equal. exact IHn.
        + intros _. destruct es as [|e' es'].
          * inversion Hrest; subst. rewrite (H3 eq_refl). unfold st1. rewrite getattr_set_same. reflexivity.
          * rewrite H2 by discriminate. rewrite <- app_assoc. reflexivity.
        + discriminate.
        + intros key Hk. rewrite H4 by exact Hk. unfold st1. apply getattr_set_other. congruence.
    Qed.

    Definition kval (f : field) (x : val) : val :=
      match f_kind f with KElem => norm_field (norm k) f x | KAttr => VNone end.
    Definition kocc (f : field) (x : val) : Z :=
      match f_kind f with KElem => occ f x | KAttr => 0 end.

    Definition kids_pass (f : field) (x : val) (blk : list xnode) : Prop :=
      forall st fr, getattr st (f_name f) = VNone ->
        exists st' fr',
          (forall rest, dec_kids decf fields (map wire blk ++ rest) st fr = dec_kids decf fields rest st' fr')
          /\ getattr st' (f_name f) = kval f x
          /\ (forall key, key <> f_name f -> getattr st' key = getattr st key)
          /\ (forall key, count_text key fr' = (if text_eqb (f_name f) key then kocc f x else 0) + count_text key fr).
    Definition atts_pass (f : field) (x : val) (ats : list attr) : Prop :=
      forall st fr, getattr st (f_name f) = kval f x ->
        exists st' fr',
          (forall rest, dec_atts L fields (ats ++ rest) st fr = dec_atts L fields rest st' fr')
          /\ getattr st' (f_name f) = norm_field (norm k) f x
          /\ (forall key, key <> f_name f -> getattr st' key = getattr st key)
          /\ (forall key, count_text key fr' = (if text_eqb (f_name f) key then occ f x - kocc f x else 0) + count_text key fr).

    Lemma pass_nothing_k f x : kval f x = VNone -> kocc f x = 0 -> kids_pass f x [].
    Proof.
      intros Hv Ho st fr Hst. exists st, fr. rewrite Hv, Ho. repeat split; auto.
      intro key. destruct (text_eqb (f_name f) key); reflexivity.
    Qed.
    Lemma pass_nothing_a f x : kval f x = norm_field (norm k) f x -> occ f x = kocc f x -> atts_pass f x [].
    Proof.
      intros Hv Ho st fr Hst. exists st, fr. rewrite Ho, <- Hv, Z.sub_diag. repeat split; auto.
      intro key. destruct (text_eqb (f_name f) key); reflexivity.
    Qed.

    Lemma xconf_leaf p pv : xconf k (TPrim p) (VLeaf pv) = true -> prim_has p pv = true /\ lc_ok L p pv = true.
    Proof. destruct k; cbn; [discriminate|]. intro H. apply andb_true_iff in H. exact H. Qed.

    (** one element produced by the induction hypothesis *)
    Lemma one_elt f dns y :
      xconf k (f_ty f) y = true -> (y = VNone -> f_nillable f = true) ->
      exists a tx ks, enc k (f_ty f) dns (f_name f) y = Ok (XElt dns (f_name f) a tx ks)
                      /\ decf f (wire (XElt dns (f_name f) a tx ks)) = Ok (norm k (f_ty f) y).
    Proof.
      intros Hx Hn. apply IH; [exact Hx|]. intro Hy. rewrite (Hn Hy). cbn. apply andb_false_r.
    Qed.

    Lemma field_rt dns f x :
      find_field (f_name f) fields = Some f ->
      field_conf (xconf k) f x = true ->
      exists blk ats, enc_field L (enc k) dns f x = Ok (blk, ats)
        /\ Forall (fun a : attr => fst (fst a) = []) ats
        /\ kids_pass f x blk /\ atts_pass f x ats.
    Proof.
      intros Hf Hc. unfold field_conf in Hc.
      apply andb_true_iff in Hc. destruct Hc as [Hc Hk]. clear Hc.
      unfold enc_field. destruct (f_kind f) eqn:Ek.
      - (* element member *)
        destruct (is_multi f) eqn:Em.
        + (* max_occurs > 1 *)
          destruct x as [| |c fs|xs]; try discriminate.
          * (* None: nothing is written *)
            apply Z.leb_le in Hk. replace (0 <? f_min f) with false by lia.
            exists [], []. split; [reflexivity|]. split; [constructor|]. split.
            -- apply pass_nothing_k; unfold kval, kocc, occ, norm_field; rewrite Ek, ?Em; [reflexivity|].
               replace (0 <? f_min f) with false by lia. reflexivity.
            -- apply pass_nothing_a; unfold kval, kocc; rewrite Ek; reflexivity.
          * (* a list *)
            destruct (mapM_Forall2 (enc k (f_ty f) dns (f_name f))
                        (fun y e => (exists ns a tx ks, wire e = XElt ns (f_name f) a tx ks)
                                    /\ decf f (wire e) = Ok (norm k (f_ty f) y)) xs) as [es [He HF]].
            { intros y Hy. rewrite forallb_forall in Hk. specialize (Hk y Hy).
              apply andb_true_iff in Hk. destruct Hk as [Hn Hx].
              destruct (one_elt f dns y Hx) as [a [tx [ks [H1 H2]]]].
              { intros ->. exact Hn. }
              eexists. split; [exact H1|]. split; [|exact H2]. cbn [wire]. eauto. }
            rewrite He. cbn [bind]. exists es, []. split; [reflexivity|]. split; [constructor|]. split.
            -- intros st fr Hst.
               assert (Forall2 (fun e v => (exists ns a tx ks, e = XElt ns (f_name f) a tx ks) /\ decf f e = Ok v)
                               (map wire es) (map (norm k (f_ty f)) xs)) as HF2.
               { clear - HF. induction HF; cbn; constructor; auto. }
               destruct (block_multi f Hf Em _ _ HF2 st fr []) as [st' [H1 [H2 [H3 H4]]]].
               { rewrite Hst. reflexivity. }
               exists st', (repeat (f_name f) (length (map wire es)) ++ fr). split; [exact H1|]. split; [|split].
               ++ unfold kval, norm_field. rewrite Ek, Em. destruct xs as [|y ys].
                  ** inversion HF; subst. rewrite (H3 eq_refl). exact Hst.
                  ** inversion HF; subst. rewrite H2 by (cbn; discriminate). reflexivity.
               ++ exact H4.
               ++ intro key. rewrite count_repeat. unfold kocc, occ. rewrite Ek, Em.
                  rewrite map_length. rewrite (Forall2_len _ _ _ HF). reflexivity.
            -- apply pass_nothing_a; unfold kval, kocc; rewrite Ek; reflexivity.
        + (* single-valued *)
          apply andb_true_iff in Hk. destruct Hk as [Hn Hx].
          assert (x <> VNone \/ (0 <? f_min f) = true ->
                  exists e, enc k (f_ty f) dns (f_name f) x = Ok e /\ kids_pass f x [e]) as Hone.
          { intro Hcase.
            destruct (one_elt f dns x Hx) as [a [tx [ks [H1 H2]]]].
            { intros ->. destruct Hcase as [Hcase|Hcase]; [congruence|].
              apply orb_true_iff in Hn. destruct Hn as [Hn|Hn]; [|exact Hn]. lia. }
            eexists. split; [exact H1|]. intros st fr Hst.
            exists (setattr st (f_name f) (norm k (f_ty f) x)), (f_name f :: fr). split; [|split; [|split]].
            - intro rest. cbn [map app]. cbn [wire] in *. apply block_single; assumption.
            - rewrite getattr_set_same. unfold kval, norm_field. rewrite Ek, Em. reflexivity.
            - intros key Hkey. apply getattr_set_other. congruence.
            - intro key. cbn [count_text]. unfold kocc, occ. rewrite Ek.
              destruct x; try reflexivity.
              + destruct Hcase as [Hcase|Hcase]; [congruence|]. rewrite Hcase. reflexivity.
              + rewrite Em. reflexivity. }
          destruct x as [|pv|c fs|xs].
          * destruct (0 <? f_min f) eqn:Emin.
            -- destruct Hone as [e [He Hp]]; [right; reflexivity|]. rewrite He. cbn [bind].
               exists [e], []. split; [reflexivity|]. split; [constructor|]. split; [exact Hp|].
               apply pass_nothing_a; unfold kval, kocc; rewrite Ek; reflexivity.
            -- exists [], []. split; [reflexivity|]. split; [constructor|]. split.
               ++ apply pass_nothing_k; unfold kval, kocc, occ, norm_field; rewrite Ek, ?Em, ?Emin; [apply norm_none|reflexivity].
               ++ apply pass_nothing_a; unfold kval, kocc; rewrite Ek; reflexivity.
          * destruct Hone as [e [He Hp]]; [left; discriminate|]. rewrite He. cbn [bind].
            exists [e], []. split; [reflexivity|]. split; [constructor|]. split; [exact Hp|].
            apply pass_nothing_a; unfold kval, kocc; rewrite Ek; reflexivity.
          * destruct Hone as [e [He Hp]]; [left; discriminate|]. rewrite He. cbn [bind].
            exists [e], []. split; [reflexivity|]. split; [constructor|]. split; [exact Hp|].
            apply pass_nothing_a; unfold kval, kocc; rewrite Ek; reflexivity.
          * destruct Hone as [e [He Hp]]; [left; discriminate|]. rewrite He. cbn [bind].
            exists [e], []. split; [reflexivity|]. split; [constructor|]. split; [exact Hp|].
            apply pass_nothing_a; unfold kval, kocc; rewrite Ek; reflexivity.
      - (* XmlAttribute member *)
        apply andb_true_iff in Hk. destruct Hk as [Hk Hx]. apply andb_true_iff in Hk. destruct Hk as [Hm Ht].
        apply negb_true_iff in Hm.
        destruct (f_ty f) as [p| |] eqn:Et; try discriminate.
        destruct x as [|pv|c fs|xs]; try discriminate.
        + exists [], []. split; [reflexivity|]. split; [constructor|]. split.
          * apply pass_nothing_k; unfold kval, kocc; rewrite Ek; reflexivity.
          * apply pass_nothing_a; unfold kval, kocc, occ, norm_field; rewrite Ek; reflexivity.
        + destruct (xconf_leaf _ _ Hx) as [Hp Hok].
          destruct (Hleaf p pv Hp Hok) as [s [Hs [Hr _]]]. rewrite Hs. cbn [bind].
          exists [], [([], f_name f, s)]. split; [reflexivity|].
          split; [constructor; [reflexivity|constructor]|]. split.
          * apply pass_nothing_k; unfold kval, kocc; rewrite Ek; reflexivity.
          * intros st fr Hst. exists (setattr st (f_name f) (VLeaf pv)), (f_name f :: fr).
            split; [|split; [|split]].
            -- intro rest. cbn [app dec_atts clark]. rewrite Hf, Ek, Et, Hr. reflexivity.
            -- rewrite getattr_set_same. unfold norm_field. rewrite Ek. reflexivity.
            -- intros key Hkey. apply getattr_set_other. congruence.
            -- intro key. cbn [count_text]. unfold kocc, occ. rewrite Ek.
               destruct (text_eqb (f_name f) key); reflexivity.
    Qed.

    Definition names (fl : list (text * field)) : list text := map (fun p => f_name (snd p)) fl.

    Lemma name_in (fl : list (text * field)) (vals : list val) (g : field) (y : val) :
      In (g, y) (combine (map snd fl) vals) -> In (f_name g) (names fl).
    Proof.
      intro H. apply in_combine_l in H. unfold names. rewrite <- (map_map snd f_name).
      apply in_map. exact H.
    Qed.

    Lemma members_rt : forall fl vals,
      length fl = length vals ->
      (forall p, In p fl -> find_field (f_name (snd p)) fields = Some (snd p)) ->
      nodup_text (names fl) = true ->
      forallb (fun fv => field_conf (xconf k) (fst fv) (snd fv)) (combine (map snd fl) vals) = true ->
      exists kids atts, enc_members L (enc k) fl vals = Ok (kids, atts)
        /\ Forall (fun a : attr => fst (fst a) = []) atts
        /\ (forall st fr, (forall p, In p fl -> getattr st (f_name (snd p)) = VNone) ->
             exists st' fr',
               (forall rest, dec_kids decf fields (map wire kids ++ rest) st fr = dec_kids decf fields rest st' fr')
               /\ (forall key, ~ In key (names fl) ->
                     getattr st' key = getattr st key /\ count_text key fr' = count_text key fr)
               /\ (forall f x, In (f, x) (combine (map snd fl) vals) ->
                     getattr st' (f_name f) = kval f x
                     /\ count_text (f_name f) fr' = kocc f x + count_text (f_name f) fr))
        /\ (forall st fr, (forall f x, In (f, x) (combine (map snd fl) vals) -> getattr st (f_name f) = kval f x) ->
             exists st' fr',
               (forall rest, dec_atts L fields (atts ++ rest) st fr = dec_atts L fields rest st' fr')
               /\ (forall key, ~ In key (names fl) ->
                     getattr st' key = getattr st key /\ count_text key fr' = count_text key fr)
               /\ (forall f x, In (f, x) (combine (map snd fl) vals) ->
                     getattr st' (f_name f) = norm_field (norm k) f x
                     /\ count_text (f_name f) fr' = (occ f x - kocc f x) + count_text (f_name f) fr)).
    Proof.
      induction fl as [|[dns f] fl IHl]; intros vals Hlen Hfind Hnd Hconf.
      - destruct vals; [|discriminate]. exists [], []. split; [reflexivity|]. split; [constructor|].
        split; intros st fr _; exists st, fr; (split; [reflexivity|]); split; auto; intros ? ? [].
      - destruct vals as [|x vals]; [discriminate|]. cbn in Hlen. injection Hlen as Hlen.
        cbn [names map snd nodup_text] in Hnd. apply andb_true_iff in Hnd. destruct Hnd as [Hnotin Hnd].
        apply negb_true_iff in Hnotin.
        assert (~ In (f_name f) (names fl)) as Hnf.
        { intro X. apply text_mem_In in X. unfold names in X. congruence. }
        cbn [map snd combine forallb fst] in Hconf. apply andb_true_iff in Hconf. destruct Hconf as [Hcf Hconf].
        destruct (field_rt dns f x) as [blk [ats [He [Hplain [Hkp Hap]]]]].
        { apply (Hfind (dns, f)). left. reflexivity. }
        { exact Hcf. }
        destruct (IHl vals Hlen) as [kids [atts [He' [Hplain' [Hkp' Hap']]]]]; try assumption.
        { intros p Hp. apply Hfind. right. exact Hp. }
        exists (blk ++ kids), (ats ++ atts). split.
        { cbn [enc_members hd tl]. rewrite He. cbn [bind]. rewrite He'. reflexivity. }
        split; [apply Forall_app; split; assumption|]. split.
        + (* children pass *)
          intros st fr Hpre.
          destruct (Hkp st fr) as [st1 [fr1 [K1 [K2 [K3 K4]]]]].
          { apply (Hpre (dns, f)). left. reflexivity. }
          destruct (Hkp' st1 fr1) as [st' [fr' [J1 [J2 J3]]]].
          { intros p Hp. rewrite K3.
            - apply Hpre. right. exact Hp.
            - intro X. apply Hnf. rewrite <- X. unfold names. apply (in_map (fun p => f_name (snd p))). exact Hp. }
          exists st', fr'. split; [|split].
          * intro rest. rewrite map_app, <- app_assoc, K1, J1. reflexivity.
          * intros key Hkey. cbn [names map snd] in Hkey.
            assert (key <> f_name f) as N1 by (intro; apply Hkey; left; congruence).
            assert (~ In key (names fl)) as N2 by (intro; apply Hkey; right; assumption).
            destruct (J2 key N2) as [A B]. rewrite A, B, K3, K4 by exact N1.
            rewrite text_eqb_neq by congruence. split; reflexivity.
          * intros g y Hin. cbn [map snd combine] in Hin. destruct Hin as [Heq|Hin].
            -- inversion Heq; subst g y. destruct (J2 (f_name f) Hnf) as [A B].
               rewrite A, B, K2, K4, text_eqb_refl. split; reflexivity.
            -- destruct (J3 g y Hin) as [A B]. rewrite A, B, K4.
               rewrite text_eqb_neq; [split; reflexivity|].
               intro X. apply Hnf. rewrite X. eapply name_in; eauto.
        + (* attributes pass *)
          intros st fr Hpre.
          destruct (Hap st fr) as [st1 [fr1 [K1 [K2 [K3 K4]]]]].
          { apply Hpre. left. reflexivity. }
          destruct (Hap' st1 fr1) as [st' [fr' [J1 [J2 J3]]]].
          { intros g y Hin. rewrite K3.
            - apply Hpre. right. exact Hin.
            - intro X. apply Hnf. rewrite <- X. eapply name_in; eauto. }
          exists st', fr'. split; [|split].
          * intro rest. rewrite <- app_assoc, K1, J1. reflexivity.
          * intros key Hkey. cbn [names map snd] in Hkey.
            assert (key <> f_name f) as N1 by (intro; apply Hkey; left; congruence).
            assert (~ In key (names fl)) as N2 by (intro; apply Hkey; right; assumption).
            destruct (J2 key N2) as [A B]. rewrite A, B, K3, K4 by exact N1.
            rewrite text_eqb_neq by congruence. split; reflexivity.
          * intros g y Hin. cbn [map snd combine] in Hin. destruct Hin as [Heq|Hin].
            -- inversion Heq; subst g y. destruct (J2 (f_name f) Hnf) as [A B].
               rewrite A, B, K2, K4, text_eqb_refl. split; reflexivity.
            -- destruct (J3 g y Hin) as [A B]. rewrite A, B, K4.
               rewrite text_eqb_neq; [split; reflexivity|].
               intro X. apply Hnf. rewrite X. eapply name_in; eauto.
    Qed.
  End Members.

  Theorem xml_rt_gen : forall k, rt_stmt k.
  Proof.
    induction k as [|k IH]; intros t v ns name nillable Hx Hnone; [discriminate|].
    destruct v as [|pv|d fs|xs].
    - (* None: an element with xsi:nil *)
      exists [nil_att], None, []. split; [reflexivity|].
      cbn [wire map Xml.dec]. rewrite is_nil_nil_att, (Hnone eq_refl), norm_none. reflexivity.
    - (* primitive *)
      destruct t as [p| |]; try discriminate. cbn in Hx. apply andb_true_iff in Hx. destruct Hx as [Hp Hok].
      destruct (Hleaf p pv Hp Hok) as [s [Hs [Hr Hne]]].
      exists [], (Some s), []. split; [cbn; rewrite Hs; reflexivity|].
      cbn [wire map Xml.dec]. replace (is_nil []) with false by reflexivity. rewrite Hres. cbn [bind].
      destruct p.
      + destruct s as [|c s]; [exfalso; apply Hne; [discriminate|reflexivity]|]. rewrite Hr. reflexivity.
      + destruct s as [|c s]; rewrite Hr; reflexivity.
      + destruct s as [|c s]; [exfalso; apply Hne; [discriminate|reflexivity]|]. rewrite Hr. reflexivity.
    - (* object *)
      destruct t as [|c|]; try discriminate. cbn [Xml.xconf] in Hx.
      apply andb_true_iff in Hx. destruct Hx as [Hd Hx]. apply Nat.eqb_eq in Hd. subst d.
      destruct (flat_fields U c) as [ffs|] eqn:Eff; [|discriminate].
      apply andb_true_iff in Hx. destruct Hx as [Hlen Hconf]. apply Nat.eqb_eq in Hlen.
      destruct (flat_decl_snd U c ffs Eff) as [fds [Efd Hsnd]].
      pose proof (wf_flat_nodup U c ffs Hwf Eff) as Hnd.
      destruct (members_rt k IH ffs fds fs) as [kids [atts [Henc [Hplain [Hk Ha]]]]].
      { rewrite <- Hlen, <- Hsnd, map_length. reflexivity. }
      { intros p Hp. apply find_field_nodup; [exact Hnd|]. rewrite <- Hsnd. apply in_map. exact Hp. }
      { unfold names. rewrite <- (map_map snd f_name), Hsnd. exact Hnd. }
      { rewrite Hsnd. exact Hconf. }
      exists atts, None, kids. split.
      { cbn [Xml.enc]. unfold is_subclass. cbn [is_subclass_fuel]. rewrite Nat.eqb_refl. cbn [negb].
        rewrite Hpoly. cbn [andb]. rewrite Efd, Henc. reflexivity. }
      cbn [wire Xml.dec]. rewrite (is_nil_plain atts Hplain), Hres. cbn [bind]. rewrite Efd, Hsnd.
      destruct (Hk [] []) as [st1 [fr1 [K1 [K2 K3]]]]; [reflexivity|].
      specialize (K1 []). rewrite app_nil_r in K1. rewrite K1. cbn [dec_kids bind fst snd].
      destruct (Ha st1 fr1) as [st2 [fr2 [A1 [A2 A3]]]].
      { intros f x Hin. rewrite Hsnd in *. apply K3. exact Hin. }
      specialize (A1 []). rewrite app_nil_r in A1. rewrite A1. cbn [dec_atts bind fst snd].
      rewrite Hsnd in *.
      assert (freq_ok ffs fr2 = true) as Hfq.
      { unfold freq_ok. apply forallb_forall. intros f Hf.
        destruct (in_combine_ex ffs fs f Hlen Hf) as [x Hin].
        destruct (A3 f x Hin) as [_ B]. destruct (K3 f x Hin) as [_ B']. rewrite B, B'. cbn [count_text].
        rewrite forallb_forall in Hconf. specialize (Hconf (f, x) Hin). cbn [fst snd] in Hconf.
        unfold field_conf in Hconf. apply andb_true_iff in Hconf. destruct Hconf as [Hconf _].
        apply andb_true_iff in Hconf. destruct Hconf as [H1 H2].
        replace (occ f x - kocc f x + (kocc f x + 0)) with (occ f x) by lia.
        rewrite H1. exact H2. }
      rewrite Hfq. cbn [negb]. rewrite andb_false_r. f_equal.
      cbn [Xml.norm]. rewrite Eff. f_equal.
      apply map_norm_fields; [exact Hlen|]. intros f x Hin. apply A3. exact Hin.
    - (* wrapped array *)
      destruct t as [| |e]; try discriminate. cbn [Xml.xconf] in Hx.
      destruct (mapM_Forall2 (enc k e (arr_ns C U e) (type_name U e))
                  (fun y el => dec k e true (wire el) = Ok (norm k e y)) xs) as [es [He HF]].
      { intros y Hy. rewrite forallb_forall in Hx.
        destruct (IH e y (arr_ns C U e) (type_name U e) true (Hx y Hy)) as [a [tx [ks [H1 H2]]]].
        { intros _. apply andb_false_r. }
        eexists. split; [exact H1|exact H2]. }
      exists [], None, es. split; [cbn [Xml.enc]; rewrite He; reflexivity|].
      cbn [wire Xml.dec]. replace (is_nil []) with false by reflexivity. rewrite Hres. cbn [bind].
      rewrite (mapM_map_Forall2 (dec k e true) wire (norm k e) xs es HF). reflexivity.
  Qed.
End RT.

Theorem xml_rt : forall (L : leaf_codec) (C : xcfg) (U : universe),
  (forall p v, prim_has p v = true -> lc_ok L p v = true ->
     exists s, lc_pr L p v = Ok s /\ lc_rd L p s = Ok v /\ (p <> PText -> s <> [])) ->
  (forall e, x_resolve C e = None) -> x_poly C = false -> wf_universe U = true ->
  forall n t v ns name, xconf L U n t v = true ->
    exists e, to_parent L C U n t ns name v = Ok e
              /\ from_element L C U n t (wire e) = Ok (norm U n t v).
Proof.
  intros L C U Hleaf Hres Hpoly Hwf n t v ns name Hx.
  destruct (xml_rt_gen L C U Hleaf Hres Hpoly Hwf n t v ns name true Hx) as [a [tx [ks [H1 H2]]]].
  { intros _. apply andb_false_r. }
  eexists. split; [exact H1|exact H2].
Qed.
