(** C01 — call fidelity: a request written for conformant arguments makes the server invoke the
    user function exactly once with the (normalised) arguments and headers, and the response it
    writes is read back as the (normalised) value the function returned.  Lemmas only; the model
    is C01/Call.v over C01/XmlX.v. *)
From Coq Require Import ZArith List Bool Lia ZifyBool.
From SpyneV Require Import C01.Univ C01.XmlX C01.Call C01.XmlXProofs.
Import ListNotations.
Open Scope Z_scope.

(* ------------------------------------------------------------------ the synthesised class table *)
Lemma nth_flat_pair {A B} (g h : A -> B) : forall (l : list A) (i : nat),
  nth_error (flat_map (fun x => [g x; h x]) l) (2 * i) = option_map g (nth_error l i)
  /\ nth_error (flat_map (fun x => [g x; h x]) l) (S (2 * i)) = option_map h (nth_error l i).
Proof.
  induction l as [|x l IH]; intro i.
  - cbn [flat_map]. destruct i; cbn; split; try reflexivity; destruct (i + S (i + 0))%nat; reflexivity.
  - destruct i as [|i]; [cbn; split; reflexivity|].
    replace (2 * S i)%nat with (S (S (2 * i))) by lia. cbn [flat_map app nth_error].
    destruct (IH i) as [H1 H2]. split; assumption.
Qed.

Lemma synth_get_in U0 Sv i m : nth_error (s_methods Sv) i = Some m ->
  get_cls (synth U0 Sv) (in_cid U0 i) = Some (in_cls Sv m).
Proof.
  intro H. unfold get_cls, synth, in_cid. rewrite nth_error_app2 by lia.
  replace (length U0 + 2 * i - length U0)%nat with (2 * i)%nat by lia.
  destruct (nth_flat_pair (in_cls Sv) (out_cls Sv) (s_methods Sv) i) as [H1 _]. rewrite H1, H. reflexivity.
Qed.
Lemma synth_get_out U0 Sv i m : nth_error (s_methods Sv) i = Some m ->
  get_cls (synth U0 Sv) (out_cid U0 i) = Some (out_cls Sv m).
Proof.
  intro H. unfold get_cls, synth, out_cid. rewrite nth_error_app2 by lia.
  replace (S (length U0 + 2 * i) - length U0)%nat with (S (2 * i)) by lia.
  destruct (nth_flat_pair (in_cls Sv) (out_cls Sv) (s_methods Sv) i) as [_ H2]. rewrite H2, H. reflexivity.
Qed.

Lemma flat_decl_root U c cl : get_cls U c = Some cl -> c_parent cl = None ->
  flat_decl U c = Some (map (fun f => (c_ns cl, f)) (c_own cl)).
Proof. intros H Hp. unfold flat_decl. cbn [flat_decl_fuel]. rewrite H, Hp. reflexivity. Qed.

Lemma flat_fields_root U c cl : get_cls U c = Some cl -> c_parent cl = None -> flat_fields U c = Some (c_own cl).
Proof.
  intros H Hp. unfold flat_fields. rewrite (flat_decl_root U c cl H Hp). cbn [option_map].
  rewrite map_map. cbn [snd]. rewrite map_id. reflexivity.
Qed.

(** dispatch: distinct method names *)
Lemma find_method_nth tns : forall ms j i m,
  nodup_text (map m_name ms) = true -> nth_error ms i = Some m ->
  find_method tns tns (m_name m) j ms = Some ((j + i)%nat, m).
Proof.
  induction ms as [|m0 ms IH]; intros j i m Hnd Hn; [destruct i; discriminate|].
  cbn [map nodup_text] in Hnd. apply andb_true_iff in Hnd. destruct Hnd as [Hn1 Hn2].
  cbn [find_method]. rewrite text_eqb_refl. cbn [orb andb].
  destruct i as [|i]; cbn [nth_error] in Hn.
  - injection Hn as ->. rewrite text_eqb_refl. rewrite Nat.add_0_r. reflexivity.
  - destruct (text_eqb (m_name m) (m_name m0)) eqn:E.
    + apply text_eqb_eq in E. apply negb_true_iff in Hn1.
      assert (text_mem (m_name m0) (map m_name ms) = true) as X.
      { apply text_mem_In. rewrite <- E. apply in_map. eapply nth_error_In; eauto. }
      congruence.
    + rewrite (IH (S j) i m Hn2 Hn). f_equal. f_equal. lia.
Qed.

Lemma text_eqb_sym a b : text_eqb a b = text_eqb b a.
Proof.
  destruct (text_eqb a b) eqn:E.
  - apply text_eqb_eq in E. subst. symmetry. apply text_eqb_refl.
  - destruct (text_eqb b a) eqn:E'; [|reflexivity]. apply text_eqb_eq in E'. subst. rewrite text_eqb_refl in E. discriminate.
Qed.

(* ------------------------------------------------------------------ SOAP headers *)
Lemma last_elt_none ns name : forall l acc,
  (forall e, In e l -> is_elt ns name e = false) -> last_elt ns name l acc = acc.
Proof.
  induction l as [|e l IH]; intros acc H; [reflexivity|]. cbn [last_elt].
  rewrite (H e (or_introl eq_refl)). apply IH. intros e' He'. apply H. right. exact He'.
Qed.
Lemma last_elt_pick ns name : forall l1 e l2 acc, is_elt ns name e = true ->
  (forall e', In e' l2 -> is_elt ns name e' = false) -> last_elt ns name (l1 ++ e :: l2) acc = Some e.
Proof.
  induction l1 as [|x l1 IH]; intros e l2 acc He H2; cbn [app last_elt].
  - rewrite He. apply last_elt_none. exact H2.
  - apply IH; assumption.
Qed.

Lemma Forall2_in_r {A B} (P : A -> B -> Prop) l1 l2 : Forall2 P l1 l2 -> forall y, In y l2 -> exists x, In x l1 /\ P x y.
Proof.
  induction 1 as [|x y l1 l2 Hxy _ IH]; intros z Hz; [destruct Hz|].
  destruct Hz as [<-|Hz]; [exists x; split; [left; reflexivity|exact Hxy]|].
  destruct (IH z Hz) as [x' [H1 H2]]. exists x'. split; [right; exact H1|exact H2].
Qed.

(** header classes with pairwise distinct qualified names *)
Fixpoint hdr_distinct (U : universe) (cs : list cid) : bool :=
  match cs with
  | [] => true
  | c :: r => forallb (fun d => negb (text_eqb (cls_ns U c) (cls_ns U d) && text_eqb (cls_name U c) (cls_name U d))) r
              && hdr_distinct U r
  end.

Definition cfgV (V : vmode) (Sv : service) : xcfg :=
  mkxcfg (match V with ValSoft => true | _ => false end).

Section Headers.
  Variable L : leaf_codec.
  Variable V : vmode.
  Variable U0 : universe.
  Variable Sv : service.
  Variable fuel : nat.
  Let U := synth U0 Sv.
  Let C := cfgV V Sv.
  Hypothesis Hleaf : leaf_sound L.
  Hypothesis Hwf : wf_universe U = true.

  Definition hdr_ok (cv : cid * val) (h : xnode) : Prop :=
    (exists a tx ks, h = XElt (cls_ns U (fst cv)) (cls_name U (fst cv)) a tx ks)
    /\ dec L C U fuel (TRef (fst cv)) true (wire h) = Ok (norm U fuel (TRef (fst cv)) (snd cv)).

  Lemma enc_headers_ok : forall cs vs, length cs = length vs ->
    (forall c v, In (c, v) (combine cs vs) -> xconf L U fuel (TRef c) v = true) ->
    exists hs, enc_headers L U0 Sv fuel cs vs = Ok hs /\ Forall2 hdr_ok (combine cs vs) hs.
  Proof.
    induction cs as [|c cs IH]; intros [|v vs] Hl Hc; try discriminate.
    - exists []. split; [reflexivity|constructor].
    - cbn in Hl. injection Hl as Hl.
      destruct (xmlx_rt_gen L C U Hleaf Hwf fuel (TRef c) v (cls_ns U c) (cls_name U c) true) as [a [tx [ks [H1 H2]]]].
      { apply Hc. left. reflexivity. }
      { intros _. apply andb_false_r. }
      destruct (IH vs Hl) as [hs [He HF]]; [intros c' v' Hin; apply Hc; right; exact Hin|].
      exists (XElt (cls_ns U c) (cls_name U c) a tx ks :: hs). cbn [enc_headers].
      pose proof H1 as H1'. unfold C, U, cfgV in H1'. rewrite H1'. cbn [bind]. rewrite He.
      split; [reflexivity|]. cbn [combine]. constructor; [|exact HF]. split; [cbn; eauto|exact H2].
  Qed.

  Lemma hdr_ok_is_elt cv h ns name : hdr_ok cv h ->
    is_elt ns name (wire h) = text_eqb (cls_ns U (fst cv)) ns && text_eqb (cls_name U (fst cv)) name.
  Proof. intros [[a [tx [ks ->]]] _]. reflexivity. Qed.

  Lemma dec_headers_ok : forall cs vs hs pre, length cs = length vs ->
    Forall2 hdr_ok (combine cs vs) hs -> hdr_distinct U cs = true ->
    dec_headers L V U0 Sv fuel cs (map wire (pre ++ hs))
    = Ok (map (fun cv => norm U fuel (TRef (fst cv)) (snd cv)) (combine cs vs)).
  Proof.
    induction cs as [|c cs IH]; intros [|v vs] hs pre Hl HF Hd; try discriminate; [reflexivity|].
    cbn in Hl. injection Hl as Hl. cbn [combine] in HF. inversion HF as [|cv h cvs hr Hh Hr]; subst.
    cbn [hdr_distinct] in Hd. apply andb_true_iff in Hd. destruct Hd as [Hd1 Hd2].
    cbn [dec_headers].
    change (cls_ns (synth U0 Sv) c) with (cls_ns U c). change (cls_name (synth U0 Sv) c) with (cls_name U c).
    rewrite map_app. cbn [map].
    rewrite (last_elt_pick (cls_ns U c) (cls_name U c) (map wire pre) (wire h) (map wire hr) None).
    - destruct Hh as [_ Hdec]. cbn [fst snd] in Hdec. pose proof Hdec as Hdec'. unfold C, U, cfgV in Hdec'.
      rewrite Hdec'. cbn [bind].
      specialize (IH vs hr (pre ++ [h]) Hl Hr Hd2).
      rewrite <- app_assoc in IH. cbn [app] in IH. rewrite map_app in IH. cbn [map] in IH. rewrite IH. reflexivity.
    - rewrite (hdr_ok_is_elt (c, v) h _ _ Hh). cbn [fst]. rewrite !text_eqb_refl. reflexivity.
    - intros e' He'. apply in_map_iff in He'. destruct He' as [h' [<- Hin]].
      destruct (Forall2_in_r _ _ _ Hr h' Hin) as [[c' v'] [Hcv Hok]].
      rewrite (hdr_ok_is_elt (c', v') h' _ _ Hok). cbn [fst].
      rewrite forallb_forall in Hd1. apply in_combine_l in Hcv. specialize (Hd1 c' Hcv).
      apply negb_true_iff in Hd1. rewrite (text_eqb_sym (cls_ns U c')), (text_eqb_sym (cls_name U c')). exact Hd1.
  Qed.
End Headers.
