(** C01 — call fidelity: a request written for conformant arguments makes the server invoke the
    user function exactly once with the (normalised) arguments and headers, and the response it
    writes is read back as the (normalised) value the function returned.  Lemmas only; the model
    is C01/Call.v over C01/XmlX.v. *)
From Coq Require Import ZArith List Bool Lia ZifyBool.
From SpyneV Require Import C01.Univ C01.XmlX C01.Call C01.CallSpec C01.XmlXProofs.
Import ListNotations.
Open Scope Z_scope.

(** the model writes the request under the method name: spyne.const.REQUEST_SUFFIX is empty *)
Lemma request_suffix_empty : xw_request_suffix = [].
Proof. reflexivity. Qed.

(* ------------------------------------------------------------------ the synthesised class table *)
Lemma nth_flat_pair {A B} (g h : A -> B) : forall (l : list A) (i : nat),
  nth_error (flat_map (fun x => [g x; h x]) l) (2 * i) = option_map g (nth_error l i)
  /\ nth_error (flat_map (fun x => [g x; h x]) l) (S (2 * i)) = option_map h (nth_error l i).
Proof.
  induction l as [|x l IH]; intro i.
  - cbn [flat_map]. destruct i; cbn; split; try reflexivity; destruct (i + S (i + 0))%nat; reflexivity.
  - destruct i as [|i]; [cbn; split; reflexivity|].
    replace (2 * S i)%nat with (S (S (2 * i))) by lia. cbn [flat_map app nth_error].
    destruct (IH i) as [H1 H2]. split; assumption.
Qed.

Lemma synth_get_in U0 Sv i m : nth_error (s_methods Sv) i = Some m ->
  get_cls (synth U0 Sv) (in_cid U0 i) = Some (in_cls Sv m).
Proof.
  intro H. unfold get_cls, synth, in_cid. rewrite nth_error_app2 by lia.
  replace (length U0 + 2 * i - length U0)%nat with (2 * i)%nat by lia.
  destruct (nth_flat_pair (in_cls Sv) (out_cls Sv) (s_methods Sv) i) as [H1 _]. rewrite H1, H. reflexivity.
Qed.
Lemma synth_get_out U0 Sv i m : nth_error (s_methods Sv) i = Some m ->
  get_cls (synth U0 Sv) (out_cid U0 i) = Some (out_cls Sv m).
Proof.
  intro H. unfold get_cls, synth, out_cid. rewrite nth_error_app2 by lia.
  replace (S (length U0 + 2 * i) - length U0)%nat with (S (2 * i)) by lia.
  destruct (nth_flat_pair (in_cls Sv) (out_cls Sv) (s_methods Sv) i) as [_ H2]. rewrite H2, H. reflexivity.
Qed.

Lemma flat_decl_root U c cl : get_cls U c = Some cl -> c_parent cl = None ->
  flat_decl U c = Some (map (fun f => (c_ns cl, f)) (c_own cl)).
Proof. intros H Hp. unfold flat_decl. cbn [flat_decl_fuel]. rewrite H, Hp. reflexivity. Qed.

Lemma flat_fields_root U c cl : get_cls U c = Some cl -> c_parent cl = None -> flat_fields U c = Some (c_own cl).
Proof.
  intros H Hp. unfold flat_fields. rewrite (flat_decl_root U c cl H Hp). cbn [option_map].
  rewrite map_map. cbn [snd]. rewrite map_id. reflexivity.
Qed.

(** dispatch: distinct method names *)
Lemma find_method_nth tns : forall ms j i m,
  nodup_text (map m_name ms) = true -> nth_error ms i = Some m ->
  find_method tns tns (m_name m) j ms = Some ((j + i)%nat, m).
Proof.
  induction ms as [|m0 ms IH]; intros j i m Hnd Hn; [destruct i; discriminate|].
  cbn [map nodup_text] in Hnd. apply andb_true_iff in Hnd. destruct Hnd as [Hn1 Hn2].
  cbn [find_method]. rewrite text_eqb_refl. cbn [orb andb].
  destruct i as [|i]; cbn [nth_error] in Hn.
  - injection Hn as ->. rewrite text_eqb_refl. rewrite Nat.add_0_r. reflexivity.
  - destruct (text_eqb (m_name m) (m_name m0)) eqn:E.
    + apply text_eqb_eq in E. apply negb_true_iff in Hn1.
      assert (text_mem (m_name m0) (map m_name ms) = true) as X.
      { apply text_mem_In. rewrite <- E. apply in_map. eapply nth_error_In; eauto. }
      congruence.
    + rewrite (IH (S j) i m Hn2 Hn). f_equal. f_equal. lia.
Qed.

Lemma text_eqb_sym a b : text_eqb a b = text_eqb b a.
Proof.
  destruct (text_eqb a b) eqn:E.
  - apply text_eqb_eq in E. subst. symmetry. apply text_eqb_refl.
  - destruct (text_eqb b a) eqn:E'; [|reflexivity]. apply text_eqb_eq in E'. subst. rewrite text_eqb_refl in E. discriminate.
Qed.

(* ------------------------------------------------------------------ SOAP headers *)
(** the parser of a protocol built with the default arguments removes comments and PIs (generated flags) *)
Lemma parsed_denoted d : parsed d = denoted d.
Proof. reflexivity. Qed.

(** the client hands a name-based argument on whatever its value (generated rule) *)
Lemma client_merge_rule : xw_client_merge = MergeKwWins.
Proof. reflexivity. Qed.

Lemma client_named_args L P U0 Sv fuel i m hdr pos kw :
  client_request_named L P U0 Sv fuel i m hdr pos kw
  = client_request L P U0 Sv fuel i m hdr (merge_args MergeKwWins (map f_name (m_params m)) pos kw).
Proof. unfold client_request_named. rewrite client_merge_rule. reflexivity. Qed.

Lemma hdr_match_qualified ns name e : hdr_match ns name e = is_elt ns name e.
Proof. reflexivity. Qed.

Lemma last_elt_none ns name : forall l acc,
  (forall e, In e l -> is_elt ns name e = false) -> last_elt ns name l acc = acc.
Proof.
  induction l as [|e l IH]; intros acc H; [reflexivity|]. cbn [last_elt]. rewrite hdr_match_qualified.
  rewrite (H e (or_introl eq_refl)). apply IH. intros e' He'. apply H. right. exact He'.
Qed.
Lemma last_elt_pick ns name : forall l1 e l2 acc, is_elt ns name e = true ->
  (forall e', In e' l2 -> is_elt ns name e' = false) -> last_elt ns name (l1 ++ e :: l2) acc = Some e.
Proof.
  induction l1 as [|x l1 IH]; intros e l2 acc He H2; cbn [app last_elt].
  - rewrite hdr_match_qualified, He. apply last_elt_none. exact H2.
  - apply IH; assumption.
Qed.

Lemma Forall2_in_r {A B} (P : A -> B -> Prop) l1 l2 : Forall2 P l1 l2 -> forall y, In y l2 -> exists x, In x l1 /\ P x y.
Proof.
  induction 1 as [|x y l1 l2 Hxy _ IH]; intros z Hz; [destruct Hz|].
  destruct Hz as [<-|Hz]; [exists x; split; [left; reflexivity|exact Hxy]|].
  destruct (IH z Hz) as [x' [H1 H2]]. exists x'. split; [right; exact H1|exact H2].
Qed.


Definition cfgV (V : vmode) (Sv : service) : xcfg :=
  mkxcfg (match V with ValSoft => true | _ => false end).

Section Headers.
  Variable L : leaf_codec.
  Variable V : vmode.
  Variable U0 : universe.
  Variable Sv : service.
  Variable fuel : nat.
  Let U := synth U0 Sv.
  Let C := cfgV V Sv.
  Hypothesis Hleaf : leaf_sound L.
  Hypothesis Hwf : wf_universe U = true.

  Definition hdr_ok (cv : cid * val) (h : xnode) : Prop :=
    (exists a tx ks, h = XElt (cls_ns U (fst cv)) (cls_name U (fst cv)) a tx ks)
    /\ dec L C U fuel (TRef (fst cv)) true (wire h) = Ok (norm U fuel (TRef (fst cv)) (snd cv)).

  Lemma enc_headers_ok : forall cs vs, length cs = length vs ->
    (forall c v, In (c, v) (combine cs vs) -> xconf L U fuel (TRef c) v = true) ->
    exists hs, enc_headers L U0 Sv fuel cs vs = Ok hs /\ Forall2 hdr_ok (combine cs vs) hs.
  Proof.
    induction cs as [|c cs IH]; intros [|v vs] Hl Hc; try discriminate.
    - exists []. split; [reflexivity|constructor].
    - cbn in Hl. injection Hl as Hl.
      destruct (xmlx_rt_gen L C U Hleaf Hwf fuel (TRef c) v (cls_ns U c) (cls_name U c) true) as [a [tx [ks [H1 H2]]]].
      { apply Hc. left. reflexivity. }
      { intros _. apply andb_false_r. }
      destruct (IH vs Hl) as [hs [He HF]]; [intros c' v' Hin; apply Hc; right; exact Hin|].
      exists (XElt (cls_ns U c) (cls_name U c) a tx ks :: hs). cbn [enc_headers].
      pose proof H1 as H1'. unfold C, U, cfgV in H1'. rewrite H1'. cbn [bind]. rewrite He.
      split; [reflexivity|]. cbn [combine]. constructor; [|exact HF]. split; [cbn; eauto|exact H2].
  Qed.

  Lemma hdr_ok_is_elt cv h ns name : hdr_ok cv h ->
    is_elt ns name (wire h) = text_eqb (cls_ns U (fst cv)) ns && text_eqb (cls_name U (fst cv)) name.
  Proof. intros [[a [tx [ks ->]]] _]. reflexivity. Qed.

  Lemma dec_headers_ok : forall cs vs hs pre, length cs = length vs ->
    Forall2 hdr_ok (combine cs vs) hs -> hdr_distinct U cs = true ->
    dec_headers L V U0 Sv fuel cs (map wire (pre ++ hs))
    = Ok (map (fun cv => norm U fuel (TRef (fst cv)) (snd cv)) (combine cs vs)).
  Proof.
    induction cs as [|c cs IH]; intros [|v vs] hs pre Hl HF Hd; try discriminate; [reflexivity|].
    cbn in Hl. injection Hl as Hl. cbn [combine] in HF. inversion HF as [|cv h cvs hr Hh Hr]; subst.
    cbn [hdr_distinct] in Hd. apply andb_true_iff in Hd. destruct Hd as [Hd1 Hd2].
    cbn [dec_headers].
    change (cls_ns (synth U0 Sv) c) with (cls_ns U c). change (cls_name (synth U0 Sv) c) with (cls_name U c).
    rewrite map_app. cbn [map].
    rewrite (last_elt_pick (cls_ns U c) (cls_name U c) (map wire pre) (wire h) (map wire hr) None).
    - destruct Hh as [_ Hdec]. cbn [fst snd] in Hdec. pose proof Hdec as Hdec'. unfold C, U, cfgV in Hdec'.
      rewrite Hdec'. cbn [bind].
      specialize (IH vs hr (pre ++ [h]) Hl Hr Hd2).
      rewrite <- app_assoc in IH. cbn [app] in IH. rewrite map_app in IH. cbn [map] in IH. rewrite IH. reflexivity.
    - rewrite (hdr_ok_is_elt (c, v) h _ _ Hh). cbn [fst]. rewrite !text_eqb_refl. reflexivity.
    - intros e' He'. apply in_map_iff in He'. destruct He' as [h' [<- Hin]].
      destruct (Forall2_in_r _ _ _ Hr h' Hin) as [[c' v'] [Hcv Hok]].
      rewrite (hdr_ok_is_elt (c', v') h' _ _ Hok). cbn [fst].
      rewrite forallb_forall in Hd1. apply in_combine_l in Hcv. specialize (Hd1 c' Hcv).
      apply negb_true_iff in Hd1. rewrite (text_eqb_sym (cls_ns U c')), (text_eqb_sym (cls_name U c')). exact Hd1.
  Qed.
End Headers.

(* ------------------------------------------------------------------ envelopes *)
Lemma from_soap_envelope P hs body : P <> PXml ->
  from_soap P (XElt (env_ns P) t_Envelope [] None
                 (match hs with Some h => [XElt (env_ns P) t_Header [] None h] | None => [] end
                  ++ [XElt (env_ns P) t_Body [] None [body]]))
  = inr (hs, Some body).
Proof.
  intro HP. unfold from_soap. cbn [is_elt kids_of]. rewrite !text_eqb_refl. cbn [andb negb].
  destruct hs as [h|]; cbn [app first_elt is_elt]; rewrite ?text_eqb_refl; cbn [andb].
  - change (text_eqb t_Header t_Body) with false. cbn [andb first_elt is_elt option_map kids_of].
    rewrite ?text_eqb_refl. cbn [andb kids_of]. reflexivity.
  - change (text_eqb t_Body t_Header) with false. cbn [andb first_elt is_elt option_map kids_of].
    rewrite ?text_eqb_refl. cbn [andb kids_of]. reflexivity.
Qed.

Lemma wire_envelope P hs body : P <> PXml ->
  wire (envelope P hs body)
  = XElt (env_ns P) t_Envelope [] None
      (match option_map (map wire) hs with Some h => [XElt (env_ns P) t_Header [] None h] | None => [] end
       ++ [XElt (env_ns P) t_Body [] None [wire body]]).
Proof.
  intro HP. destruct P; try congruence; destruct hs; reflexivity.
Qed.

Lemma collapse_eq (l : list val) :
  match l with [VNone] => None | r => Some r end = match l with [VNone] => None | _ => Some l end.
Proof. destruct l as [|[| | |] [|? ?]]; reflexivity. Qed.

Lemma norm_obj_shape U n c d fs : exists c2 fs2, norm U n (TRef c) (VObj d fs) = VObj c2 fs2.
Proof.
  destruct n; cbn [norm]; [eauto|]. destruct (flat_fields U c); eauto.
Qed.

Lemma absent_args_id w U t v : v <> VNone -> absent_args w U t v = inr v.
Proof. destruct w; destruct v; try congruence; reflexivity. Qed.

Lemma norm_not_none U n t v : nonelike v = false -> norm U n t v <> VNone.
Proof.
  intro H. destruct n as [|k]; cbn [norm].
  - destruct v; try discriminate.
  - destruct t as [l|c|e mns mname]; destruct v as [|[| | |[|? ?]| | | | |]|d fs|xs]; cbn [norm_leaf] in *; try discriminate.
    destruct (flat_fields U c); discriminate.
Qed.

Lemma firstn_all_pad {A} (l : list A) (x : A) n : length l = n -> firstn n (l ++ repeat x n) = l.
Proof. intros <-. rewrite firstn_app, Nat.sub_diag, firstn_all. cbn. apply app_nil_r. Qed.

(* ------------------------------------------------------------------ the call *)

Definition open_doc (P : proto) (doc : xnode) : fcode + (option (list xnode) * option xnode) :=
  match P with PXml => inr (None, Some doc) | _ => from_soap P doc end.

Lemma open_envelope P hs e :
  open_doc P (wire (envelope P hs e))
  = inr (match P with PXml => None | _ => option_map (map wire) hs end, Some (wire e)).
Proof.
  destruct P; [reflexivity| |]; (rewrite wire_envelope by discriminate); unfold open_doc;
    rewrite (from_soap_envelope _ (option_map (map wire) hs) (wire e)) by discriminate; reflexivity.
Qed.

Section Fidelity.
  Variable L : leaf_codec.
  Hypothesis Hleaf : leaf_sound L.
  Variable P : proto.
  Variable V : vmode.
  Variable schema_valid : xnode -> bool.
  Variable U0 : universe.
  Variable Sv : service.
  Variable fuel : nat.
  Let U := synth U0 Sv.
  Let C := cfgV V Sv.
  Hypothesis Hwf : wf_universe U = true.
  Hypothesis Hnames : nodup_text (map m_name (s_methods Sv)) = true.
  Hypothesis Htns : s_tns Sv <> env_ns P.

  (** what the peer decodes from the header entries written for [hv] *)
  Definition raw_seen (cs : list cid) (hv : option (list val)) : option (list val) :=
    match P, hv, cs with
    | PXml, _, _ => None
    | _, Some l, _ :: _ => Some (map (fun cv => norm U fuel (TRef (fst cv)) (snd cv)) (combine cs l))
    | _, _, _ => None
    end.

  Lemma seen_header_raw cs hv :
    seen_header P U0 Sv fuel cs hv = match raw_seen cs hv with Some [VNone] => None | _ => raw_seen cs hv end.
  Proof.
    unfold seen_header, raw_seen. destruct P; [reflexivity| |]; destruct hv as [l|]; try reflexivity;
      destruct cs as [|c cs]; try reflexivity; unfold U;
      match goal with |- match ?t with _ => _ end = _ => destruct t as [|[| | |] [|? ?]] end; reflexivity.
  Qed.

  (** header entries: written by one side, read by the other *)
  Lemma headers_rt cs hv : hdrs_conf L U0 Sv fuel cs hv = true -> hdr_distinct U cs = true ->
    exists hsopt,
      hdr_out L U0 Sv fuel cs hv = Ok hsopt
      /\ hdr_in L V U0 Sv fuel cs (match P with PXml => None | _ => option_map (map wire) hsopt end) = Ok (raw_seen cs hv).
  Proof.
    intros Hc Hd. unfold raw_seen, hdr_out, hdr_in. destruct hv as [l|].
    - destruct cs as [|c cs]; [exists None; split; [reflexivity|destruct P; reflexivity]|].
      cbn [hdrs_conf] in Hc. apply andb_true_iff in Hc. destruct Hc as [Hlen Hall]. apply Nat.eqb_eq in Hlen.
      destruct (enc_headers_ok L V U0 Sv fuel Hleaf Hwf (c :: cs) l Hlen) as [hs [He HF]].
      { intros c' v' Hin. rewrite forallb_forall in Hall. exact (Hall (c', v') Hin). }
      exists (Some hs). rewrite He. split; [reflexivity|].
      pose proof (dec_headers_ok L V U0 Sv fuel (c :: cs) l hs [] Hlen HF Hd) as Hdh. cbn [app] in Hdh.
      destruct P; [reflexivity| |]; cbn [option_map]; rewrite Hdh; reflexivity.
    - exists None. split; [destruct cs; reflexivity|]. destruct P; destruct cs; reflexivity.
  Qed.

  (** the argument tuple the server extracts from the decoded message *)
  Lemma args_of i m args :
    (match eff_style m with
     | EBare => Some [norm U fuel (fst (req_ty U0 i m)) (req_value U0 i m args)]
     | EEmpty => Some []
     | _ => match norm U fuel (fst (req_ty U0 i m)) (req_value U0 i m args) with
            | VObj _ fs => Some fs
            | VList l => Some l
            | _ => None
            end
     end) = Some (seen_args U0 Sv fuel i m args).
  Proof.
    unfold seen_args, req_value, req_ty, eff_style.
    destruct (m_style m); destruct (m_params m) as [|p [|p2 ps]]; destruct (m_returns m) as [|r rs]; cbn [fst];
      try reflexivity;
      match goal with
      | |- context [norm U fuel (TRef ?c) (VObj ?d ?fs)] =>
          destruct (norm_obj_shape U fuel c d fs) as [c2 [fs2 Hn]]; unfold U in Hn |- *; rewrite Hn; reflexivity
      end.
  Qed.

  Theorem call_fidelity_lemma : forall i m (f : ufun) hv args ret oh,
    nth_error (s_methods Sv) i = Some m ->
    hdr_distinct U (m_in_header m) = true -> hdr_distinct U (m_out_header m) = true ->
    args_conf L U0 Sv fuel i m args = true ->
    hdrs_conf L U0 Sv fuel (m_in_header m) hv = true ->
    (V = ValLxml -> forall e, enc L U fuel (fst (req_ty U0 i m)) (s_tns Sv) (m_name m) (req_value U0 i m args) = Ok e ->
                    schema_valid (wire e) = true) ->
    f (m_name m) (seen_header P U0 Sv fuel (m_in_header m) hv) (seen_args U0 Sv fuel i m args) = (ret, oh) ->
    ret_conf L U0 Sv fuel i m ret = true ->
    hdrs_conf L U0 Sv fuel (m_out_header m) oh = true ->
    exists req resp,
      client_request L P U0 Sv fuel i m hv args = Ok req
      /\ server L P V schema_valid U0 Sv fuel f (wire req)
         = RReturn [(m_name m, seen_header P U0 Sv fuel (m_in_header m) hv, seen_args U0 Sv fuel i m args)] resp
      /\ client_response L P V U0 Sv fuel i m (wire resp)
         = Ok (seen_ret U0 Sv fuel i m ret, seen_header P U0 Sv fuel (m_out_header m) oh).
  Proof.
    intros i m f hv args ret oh Hnth Hdi Hdo Hargs Hhin Hsv Hf Hret Hhout.
    (* ---- the request body *)
    unfold args_conf in Hargs. apply andb_true_iff in Hargs. destruct Hargs as [Hargs Hnl].
    apply andb_true_iff in Hargs. destruct Hargs as [Hx Hlen1].
    destruct (xmlx_rt_gen L C U Hleaf Hwf fuel (fst (req_ty U0 i m)) (req_value U0 i m args) (s_tns Sv) (m_name m)
                          (snd (req_ty U0 i m)) Hx) as [a [tx [ks [He Hd]]]].
    { intro Hne. rewrite Hne in Hnl. discriminate. }
    apply negb_true_iff in Hnl.
    destruct (headers_rt (m_in_header m) hv Hhin Hdi) as [hsin [Hhe Hhd]].
    set (body := XElt (s_tns Sv) (m_name m) a tx ks) in *.
    exists (envelope P hsin body).
    assert (client_request L P U0 Sv fuel i m hv args = Ok (envelope P hsin body)) as Hreq.
    { unfold client_request. fold (req_value U0 i m args). unfold U in He. rewrite He. cbn [bind].
      destruct P; [reflexivity| |]; rewrite Hhe; reflexivity. }
    (* ---- the response body *)
    unfold ret_conf in Hret. destruct (ret_value U0 i m ret) as [vout|] eqn:Erv; [|discriminate].
    apply andb_true_iff in Hret. destruct Hret as [Hxr Hnlr].
    destruct (xmlx_rt_gen L C U Hleaf Hwf fuel (fst (resp_ty U0 i m)) vout (s_tns Sv) (m_name m ++ t_Response)
                          (snd (resp_ty U0 i m)) Hxr) as [a2 [tx2 [ks2 [He2 Hd2]]]].
    { intro Hne. rewrite Hne in Hnlr. discriminate. }
    apply negb_true_iff in Hnlr.
    destruct (headers_rt (m_out_header m) oh Hhout Hdo) as [hsout [Hhe2 Hhd2]].
    set (rbody := XElt (s_tns Sv) (m_name m ++ t_Response) a2 tx2 ks2) in *.
    exists (envelope P hsout rbody).
    split; [exact Hreq|].
    assert (out_value P U0 i m ret = Ok vout) as Hov.
    { unfold ret_value in Erv. unfold out_value.
      destruct (m_style m); try (injection Erv as <-; destruct P; reflexivity).
      destruct (m_returns m) as [|r [|r2 rs]]; try (injection Erv as <-; reflexivity).
      destruct ret as [| | |l]; try discriminate.
      destruct (Nat.eqb (length l) (length (r :: r2 :: rs))) eqn:El; [|discriminate]. injection Erv as <-.
      apply Nat.eqb_eq in El. destruct P.
      - rewrite El, Nat.ltb_irrefl. rewrite <- El at 1. rewrite firstn_all. reflexivity.
      - rewrite firstn_all_pad by exact El. reflexivity.
      - rewrite firstn_all_pad by exact El. reflexivity. }
    assert (serialize L P U0 Sv fuel i m ret oh = Ok (envelope P hsout rbody)) as Hser.
    { unfold serialize. rewrite Hov. cbn [bind]. unfold U in He2. rewrite He2. cbn [bind].
      destruct P; [reflexivity| |]; rewrite Hhe2; reflexivity. }
    split.
    - (* ---- the server *)
      unfold server. fold (open_doc P (wire (envelope P hsin body))). rewrite open_envelope.
      unfold body at 1. rewrite wire_elt.
      assert ((match P with PXml => false | _ => text_eqb (s_tns Sv) (env_ns P) && text_eqb (m_name m) t_Fault end) = false) as Hnf.
      { destruct P; [reflexivity| |]; rewrite (text_eqb_neq _ _ Htns); reflexivity. }
      rewrite Hnf.
      assert ((match V with ValLxml => negb (schema_valid (wire body)) | _ => false end) = false) as Hval.
      { destruct V; try reflexivity. rewrite (Hsv eq_refl body); [reflexivity|]. exact He. }
      rewrite Hval.
      rewrite (find_method_nth (s_tns Sv) (s_methods Sv) 0 i m Hnames Hnth). cbn [Nat.add].
      rewrite Hhd.
      unfold C, U, cfgV in Hd. rewrite Hd.
      rewrite (absent_args_id _ _ _ _ (norm_not_none (synth U0 Sv) fuel _ _ Hnl)).
      rewrite <- seen_header_raw.
      fold U. rewrite (args_of i m args).
      rewrite Hf. rewrite Hser. reflexivity.
    - (* ---- the client *)
      unfold client_response. fold (open_doc P (wire (envelope P hsout rbody))). rewrite open_envelope.
      rewrite Hhd2. cbn [bind]. unfold C, U, cfgV in Hd2. rewrite Hd2. cbn [bind].
      rewrite (absent_args_id _ _ _ _ (norm_not_none (synth U0 Sv) fuel _ _ Hnlr)). cbn [bind].
      rewrite <- seen_header_raw.
      unfold seen_ret. unfold ret_value in Erv.
      destruct (m_style m) eqn:Es.
      + destruct (m_returns m) as [|r [|r2 rs]] eqn:Er.
        * reflexivity.
        * injection Erv as <-. fold U.
          destruct (norm_obj_shape U fuel (out_cid U0 i) (out_cid U0 i) [ret]) as [c2 [fs2 Hn]].
          unfold resp_ty. rewrite Es. cbn [fst]. rewrite Hn. destruct fs2 as [|x [|? ?]]; reflexivity.
        * destruct ret as [| | |l]; try discriminate.
          destruct (Nat.eqb (length l) (length (r :: r2 :: rs))); [|discriminate]. injection Erv as <-. fold U.
          destruct (norm_obj_shape U fuel (out_cid U0 i) (out_cid U0 i) l) as [c2 [fs2 Hn]].
          unfold resp_ty. rewrite Es. cbn [fst]. rewrite Hn. reflexivity.
      + injection Erv as <-. fold U. destruct (m_returns m) as [|r [|? ?]]; destruct (norm U fuel (fst (resp_ty U0 i m)) ret); reflexivity.
      + injection Erv as <-. fold U. destruct (m_returns m) as [|r [|? ?]]; destruct (norm U fuel (fst (resp_ty U0 i m)) ret); reflexivity.
  Qed.

  (** the same for every DOCUMENT that denotes the client's request (the server's response): comments and
      processing instructions anywhere in it -- between the items of an array, inside character data -- change nothing *)
  Theorem call_fidelity_documents : forall i m (f : ufun) hv args ret oh,
    nth_error (s_methods Sv) i = Some m ->
    hdr_distinct U (m_in_header m) = true -> hdr_distinct U (m_out_header m) = true ->
    args_conf L U0 Sv fuel i m args = true ->
    hdrs_conf L U0 Sv fuel (m_in_header m) hv = true ->
    (V = ValLxml -> forall e, enc L U fuel (fst (req_ty U0 i m)) (s_tns Sv) (m_name m) (req_value U0 i m args) = Ok e ->
                    schema_valid (wire e) = true) ->
    f (m_name m) (seen_header P U0 Sv fuel (m_in_header m) hv) (seen_args U0 Sv fuel i m args) = (ret, oh) ->
    ret_conf L U0 Sv fuel i m ret = true ->
    hdrs_conf L U0 Sv fuel (m_out_header m) oh = true ->
    exists req resp,
      client_request L P U0 Sv fuel i m hv args = Ok req
      /\ (forall d : dnode, denoted d = wire req ->
          server L P V schema_valid U0 Sv fuel f (parsed d)
          = RReturn [(m_name m, seen_header P U0 Sv fuel (m_in_header m) hv, seen_args U0 Sv fuel i m args)] resp)
      /\ (forall d : dnode, denoted d = wire resp ->
          client_response L P V U0 Sv fuel i m (parsed d)
          = Ok (seen_ret U0 Sv fuel i m ret, seen_header P U0 Sv fuel (m_out_header m) oh)).
  Proof.
    intros i m f hv args ret oh H1 H2 H3 H4 H5 H6 H7 H8 H9.
    destruct (call_fidelity_lemma i m f hv args ret oh H1 H2 H3 H4 H5 H6 H7 H8 H9) as [req [resp [Hq [Hs Hc]]]].
    exists req, resp. split; [exact Hq|]. split; intros d Hd; rewrite parsed_denoted, Hd; assumption.
  Qed.
End Fidelity.
