(** C01 — XmlDocument.from_element after XmlDocument.to_parent is the identity up to [norm]
    on the universe of C01/Univ.v (leaf types, XmlAttribute, XmlData, arrays, inheritance).
    Lemmas only; the model is C01/XmlX.v. *)
From Coq Require Import ZArith List Bool Lia ZifyBool.
From SpyneV Require Import C01.Univ C01.XmlX.
Import ListNotations.
Open Scope Z_scope.

(* ------------------------------------------------------------------ generic facts *)
Lemma text_eqb_refl a : text_eqb a a = true.
Proof. induction a; cbn; [reflexivity|]. rewrite Z.eqb_refl, IHa. reflexivity. Qed.

Lemma text_eqb_eq a : forall b, text_eqb a b = true <-> a = b.
Proof.
  induction a as [|x a IH]; intros [|y b]; cbn; split; intro H; try reflexivity; try discriminate.
  - apply andb_true_iff in H. destruct H as [H1 H2]. apply Z.eqb_eq in H1. apply IH in H2. congruence.
  - injection H as -> ->. rewrite Z.eqb_refl. cbn. apply IH. reflexivity.
Qed.

Lemma text_eqb_neq a b : a <> b -> text_eqb a b = false.
Proof. intro H. destruct (text_eqb a b) eqn:E; [|reflexivity]. apply text_eqb_eq in E. contradiction. Qed.

Lemma text_mem_In x l : text_mem x l = true <-> In x l.
Proof.
  induction l as [|y l IH]; cbn; [split; [discriminate|tauto]|].
  rewrite orb_true_iff, IH, text_eqb_eq. split; intros [H|H]; auto.
Qed.

Lemma getattr_set_same st k v : getattr (setattr st k v) k = v.
Proof. unfold setattr. cbn. rewrite text_eqb_refl. reflexivity. Qed.

Lemma getattr_set_other st k k' v : k <> k' -> getattr (setattr st k v) k' = getattr st k'.
Proof. intro H. unfold setattr. cbn. rewrite text_eqb_neq by exact H. reflexivity. Qed.

Lemma count_repeat key nm n fr :
  count_text key (repeat nm n ++ fr) = (if text_eqb nm key then Z.of_nat n else 0) + count_text key fr.
Proof.
  induction n as [|n IH]; cbn [repeat app count_text].
  - destruct (text_eqb nm key); reflexivity.
  - rewrite IH. destruct (text_eqb nm key); lia.
Qed.

Lemma wf_from_nth U : forall l i, wf_from U i l = true ->
  forall j cl, nth_error l j = Some cl -> cls_ok U (i + j) cl = true.
Proof.
  induction l as [|c l IH]; intros i H j cl Hn; [destruct j; discriminate|].
  cbn in H. apply andb_true_iff in H. destruct H as [H1 H2]. destruct j as [|j]; cbn in Hn.
  - injection Hn as <-. rewrite Nat.add_0_r. exact H1.
  - replace (i + S j)%nat with (S i + j)%nat by lia. eapply IH; eauto.
Qed.

Lemma flat_some_cls U c ffs : flat_fields U c = Some ffs -> exists cl, get_cls U c = Some cl.
Proof.
  unfold flat_fields, flat_decl. cbn [flat_decl_fuel]. destruct (get_cls U c) as [cl|]; [eauto|discriminate].
Qed.

Lemma wf_flat U c ffs : wf_universe U = true -> flat_fields U c = Some ffs ->
  nodup_text (map f_name ffs ++ sub_names ffs) = true /\ flat_content_ok ffs = true /\ forallb field_shape_ok ffs = true.
Proof.
  intros Hwf Hf. destruct (flat_some_cls U c ffs Hf) as [cl Hc].
  pose proof (wf_from_nth U U 0 Hwf c cl Hc) as Hok. cbn in Hok. unfold cls_ok in Hok.
  rewrite Hf in Hok. apply andb_true_iff in Hok. destruct Hok as [_ Hok].
  apply andb_true_iff in Hok. destruct Hok as [Hok H3]. apply andb_true_iff in Hok. destruct Hok as [H1 H2]. auto.
Qed.



Lemma find_field_nodup fs : nodup_text (map f_name fs) = true ->
  forall f, In f fs -> find_field (f_name f) fs = Some f.
Proof.
  induction fs as [|g fs IH]; intros Hn f Hin; [destruct Hin|].
  cbn in Hn. apply andb_true_iff in Hn. destruct Hn as [Hn1 Hn2]. cbn.
  destruct Hin as [->|Hin]; [rewrite text_eqb_refl; reflexivity|].
  destruct (text_eqb (f_name g) (f_name f)) eqn:E.
  - apply text_eqb_eq in E. apply negb_true_iff in Hn1.
    assert (text_mem (f_name g) (map f_name fs) = true) as X.
    { apply text_mem_In. rewrite E. apply in_map. exact Hin. }
    congruence.
  - apply IH; assumption.
Qed.

(* ------------------------------------------------------------------ wire names and the alternate-key lookup *)
Lemma text_mem_app x l1 l2 : text_mem x (l1 ++ l2) = text_mem x l1 || text_mem x l2.
Proof. induction l1 as [|y l1 IH]; cbn; [reflexivity|]. rewrite IH, orb_assoc. reflexivity. Qed.

Lemma nodup_app l1 : forall l2, nodup_text (l1 ++ l2) = true ->
  nodup_text l1 = true /\ nodup_text l2 = true /\ (forall x, In x l1 -> In x l2 -> False).
Proof.
  induction l1 as [|y l1 IH]; intros l2 H; cbn in *; [repeat split; auto|].
  apply andb_true_iff in H. destruct H as [H1 H2]. apply negb_true_iff in H1. rewrite text_mem_app in H1.
  apply orb_false_iff in H1. destruct H1 as [A B]. destruct (IH l2 H2) as [I1 [I2 I3]].
  split; [rewrite A, I1; reflexivity|]. split; [exact I2|].
  intros x [<-|Hx] Hx2; [|eauto]. apply text_mem_In in Hx2. congruence.
Qed.

Definition wire_ok (fs : list field) : Prop := nodup_text (map f_name fs ++ sub_names fs) = true.

Lemma sub_names_in fs : forall f n, In f fs -> f_sub_name f = Some n -> In n (sub_names fs).
Proof.
  induction fs as [|g fs IH]; intros f n Hin Hs; [destruct Hin|]. cbn [sub_names]. destruct Hin as [<-|Hin].
  - rewrite Hs. left. reflexivity.
  - destruct (f_sub_name g); [right|]; eapply IH; eauto.
Qed.

Lemma sub_name_inj fs : nodup_text (sub_names fs) = true -> forall f g n, In f fs -> In g fs ->
  f_sub_name f = Some n -> f_sub_name g = Some n -> f = g.
Proof.
  induction fs as [|h fs IH]; intros Hn f g n Hf Hg Sf Sg; [destruct Hf|].
  cbn [sub_names] in Hn. destruct (f_sub_name h) as [m|] eqn:Eh.
  - cbn in Hn. apply andb_true_iff in Hn. destruct Hn as [N1 N2]. apply negb_true_iff in N1.
    assert (forall x, In x fs -> f_sub_name x = Some m -> False) as Hno.
    { intros x Hx Sx. assert (text_mem m (sub_names fs) = true) as X by (apply text_mem_In; eapply sub_names_in; eauto). congruence. }
    destruct Hf as [<-|Hf], Hg as [<-|Hg]; [reflexivity| | |eauto].
    + exfalso. rewrite Eh in Sf. injection Sf as <-. eauto.
    + exfalso. rewrite Eh in Sg. injection Sg as <-. eauto.
  - destruct Hf as [<-|Hf]; [congruence|]. destruct Hg as [<-|Hg]; [congruence|]. eauto.
Qed.

Lemma find_field_none k fs : ~ In k (map f_name fs) -> find_field k fs = None.
Proof.
  induction fs as [|g fs IH]; intro H; cbn; [reflexivity|].
  rewrite text_eqb_neq; [apply IH; intro X; apply H; right; exact X|]. intro E. apply H. left. exact E.
Qed.

Lemma name_inj fs f g : nodup_text (map f_name fs) = true -> In f fs -> In g fs -> f_name f = f_name g -> f = g.
Proof.
  intros Hn Hf Hg E. pose proof (find_field_nodup fs Hn f Hf) as A. pose proof (find_field_nodup fs Hn g Hg) as B.
  rewrite E in A. congruence.
Qed.

Lemma wname_inj fs f g : wire_ok fs -> In f fs -> In g fs -> wname f = wname g -> f = g.
Proof.
  intros Hw Hf Hg E. destruct (nodup_app _ _ Hw) as [N1 [N2 N3]]. unfold wname in E.
  destruct (f_sub_name f) as [n|] eqn:Sf; destruct (f_sub_name g) as [m|] eqn:Sg.
  - subst m. exact (sub_name_inj fs N2 f g n Hf Hg Sf Sg).
  - exfalso. apply (N3 n); [rewrite E; apply in_map; exact Hg|exact (sub_names_in fs f n Hf Sf)].
  - exfalso. apply (N3 m); [rewrite <- E; apply in_map; exact Hf|exact (sub_names_in fs g m Hg Sg)].
  - eapply name_inj; eauto.
Qed.

Lemma find_by_unique p fs f : In f fs -> p f = true -> (forall g, In g fs -> p g = true -> g = f) -> find_by p fs = Some f.
Proof.
  induction fs as [|h fs IH]; intros Hin Hp Hu; [destruct Hin|]. cbn [find_by].
  destruct (p h) eqn:Eh; [f_equal; apply Hu; [left; reflexivity|exact Eh]|].
  destruct Hin as [->|Hin]; [congruence|]. apply IH; [exact Hin|exact Hp|]. intros g Hg. apply Hu. right. exact Hg.
Qed.

Lemma find_by_none p fs : (forall g, In g fs -> p g = false) -> find_by p fs = None.
Proof.
  induction fs as [|h fs IH]; intro H; [reflexivity|]. cbn [find_by]. rewrite (H h (or_introl eq_refl)).
  apply IH. intros g Hg. apply H. right. exact Hg.
Qed.

(** a renamed member is not found under flat_type_info.get(wire name) *)
Lemma find_field_wire_none fs f n : wire_ok fs -> In f fs -> f_sub_name f = Some n -> find_field n fs = None.
Proof.
  intros Hw Hf Sf. destruct (nodup_app _ _ Hw) as [_ [_ N3]]. apply find_field_none.
  intro X. apply (N3 n X). exact (sub_names_in fs f n Hf Sf).
Qed.

(** the element written for a member is resolved to that member: by its key, else by the bare alternate
    key (sub_name only), else by the qualified alternate key (sub_ns) *)
Lemma lookup_member_ok fs f dns : wire_ok fs -> In f fs -> f_sub_ns f <> Some [] ->
  lookup_member fs fs (wns dns f) (wname f) = Some f.
Proof.
  intros Hw Hf Hne. unfold lookup_member. destruct (nodup_app _ _ Hw) as [N1 _].
  destruct (f_sub_name f) as [n|] eqn:Sf.
  - assert (wname f = n) as Wn by (unfold wname; rewrite Sf; reflexivity). rewrite Wn.
    rewrite (find_field_wire_none fs f n Hw Hf Sf).
    destruct (f_sub_ns f) as [s|] eqn:Ss.
    + rewrite find_by_none.
      * apply find_by_unique; [exact Hf| |].
        -- unfold alt_q, wns. rewrite Ss, Wn, !text_eqb_refl. reflexivity.
        -- intros g Hg Pg. unfold alt_q in Pg. destruct (f_sub_ns g); [|discriminate].
           apply andb_true_iff in Pg. destruct Pg as [_ Pg]. apply text_eqb_eq in Pg. symmetry.
           eapply wname_inj; eauto. congruence.
      * intros g Hg. unfold alt_bare. destruct (f_sub_ns g) eqn:Sg; [reflexivity|].
        destruct (f_sub_name g) as [m|] eqn:Sm; [|reflexivity].
        destruct (text_eqb m n) eqn:E; [|reflexivity]. apply text_eqb_eq in E. subst m.
        assert (f = g) by (exact (sub_name_inj fs (proj1 (proj2 (nodup_app _ _ Hw))) f g n Hf Hg Sf Sm)). subst g. congruence.
    + rewrite (find_by_unique (alt_bare n) fs f Hf); [reflexivity| |].
      * unfold alt_bare. rewrite Ss, Sf, text_eqb_refl. reflexivity.
      * intros g Hg Pg. unfold alt_bare in Pg. destruct (f_sub_ns g); [discriminate|].
        destruct (f_sub_name g) as [m|] eqn:Sm; [|discriminate]. apply text_eqb_eq in Pg. subst m.
        exact (sub_name_inj fs (proj1 (proj2 (nodup_app _ _ Hw))) g f n Hg Hf Sm Sf).
  - assert (wname f = f_name f) as Wn by (unfold wname; rewrite Sf; reflexivity). rewrite Wn.
    rewrite (find_field_nodup fs N1 f Hf). reflexivity.
Qed.

Lemma lookup_attr_ok fs f : wire_ok fs -> In f fs -> f_sub_ns f = None ->
  lookup_attr fs fs [] (wname f) = Some f.
Proof.
  intros Hw Hf Ss. unfold lookup_attr. cbn [clark]. destruct (nodup_app _ _ Hw) as [N1 _].
  destruct (f_sub_name f) as [n|] eqn:Sf.
  - assert (wname f = n) as Wn by (unfold wname; rewrite Sf; reflexivity). rewrite Wn.
    rewrite (find_field_wire_none fs f n Hw Hf Sf).
    apply find_by_unique; [exact Hf| |].
    + unfold alt_bare. rewrite Ss, Sf, text_eqb_refl. reflexivity.
    + intros g Hg Pg. unfold alt_bare in Pg. destruct (f_sub_ns g); [discriminate|].
      destruct (f_sub_name g) as [m|] eqn:Sm; [|discriminate]. apply text_eqb_eq in Pg. subst m.
      exact (sub_name_inj fs (proj1 (proj2 (nodup_app _ _ Hw))) g f n Hg Hf Sm Sf).
  - assert (wname f = f_name f) as Wn by (unfold wname; rewrite Sf; reflexivity). rewrite Wn.
    rewrite (find_field_nodup fs N1 f Hf). reflexivity.
Qed.

Lemma alt_inherited : xw_alt_inherited = true.
Proof. reflexivity. Qed.

Lemma mapM_Forall2 {A B} (f : A -> out B) (P : A -> B -> Prop) l :
  (forall x, In x l -> exists y, f x = Ok y /\ P x y) ->
  exists ys, mapM f l = Ok ys /\ Forall2 P l ys.
Proof.
  induction l as [|x l IH]; intro H; [exists []; split; [reflexivity|constructor]|].
  destruct (H x (or_introl eq_refl)) as [y [Hy Py]].
  destruct IH as [ys [Hys Pys]]; [intros z Hz; apply H; right; exact Hz|].
  exists (y :: ys). cbn. rewrite Hy. cbn. rewrite Hys. split; [reflexivity|constructor; assumption].
Qed.

Lemma Forall2_len {A B} (P : A -> B -> Prop) l1 l2 : Forall2 P l1 l2 -> length l1 = length l2.
Proof. induction 1; cbn; congruence. Qed.

Lemma mapM_map_Forall2 {A B V} (g : B -> out V) (w : B -> B) (h : A -> V) l ys :
  Forall2 (fun x y => g (w y) = Ok (h x)) l ys -> mapM g (map w ys) = Ok (map h l).
Proof.
  induction 1; cbn; [reflexivity|]. rewrite H. cbn. rewrite IHForall2. reflexivity.
Qed.

Lemma is_nil_nil_att : is_nil [nil_att] = true.
Proof. vm_compute. reflexivity. Qed.

Definition plain (a : attr) : Prop := fst (fst a) = [].

Lemma lookup_att_plain ns nm atts : ns <> [] -> Forall plain atts -> lookup_att ns nm atts = None.
Proof.
  intros Hns H. induction H as [|[[a n] v] l Ha _ IH]; cbn; [reflexivity|].
  unfold plain in Ha. cbn in Ha. subst a. destruct ns; [congruence|]. cbn. exact IH.
Qed.

Lemma is_nil_plain atts : Forall plain atts -> is_nil atts = false.
Proof. intro H. unfold is_nil. rewrite lookup_att_plain; [reflexivity|discriminate|exact H]. Qed.

Lemma in_combine_ex {A B} (l1 : list A) : forall (l2 : list B) a,
  length l1 = length l2 -> In a l1 -> exists b, In (a, b) (combine l1 l2).
Proof.
  induction l1 as [|x l1 IH]; intros [|y l2] a Hl Hin; try discriminate; [destruct Hin|].
  cbn in Hl. injection Hl as Hl. destruct Hin as [->|Hin].
  - exists y. left. reflexivity.
  - destruct (IH l2 a Hl Hin) as [b Hb]. exists b. right. exact Hb.
Qed.

Lemma map_norm_fields (rec : ty -> val -> val) (g : field -> val) : forall ffs fs,
  length ffs = length fs ->
  (forall f x, In (f, x) (combine ffs fs) -> g f = norm_field rec f x) ->
  map g ffs = norm_fields rec ffs fs.
Proof.
  induction ffs as [|f ffs IH]; intros [|x fs] Hl H; try discriminate; [reflexivity|].
  cbn. f_equal; [apply H; left; reflexivity|]. apply IH; [cbn in Hl; lia|].
  intros f' x' Hin. apply H. right. exact Hin.
Qed.

Lemma has_kind_false_in k fs f : has_kind k fs = false -> In f fs -> kind_eqb (f_kind f) k = false.
Proof.
  unfold has_kind. intros H Hin. destruct (kind_eqb (f_kind f) k) eqn:E; [|reflexivity].
  assert (existsb (fun f => kind_eqb (f_kind f) k) fs = true) as X by (apply existsb_exists; eauto). congruence.
Qed.

Lemma or_text_none_l t : or_text None t = t.
Proof. destruct t; reflexivity. Qed.

(** the generated tests of the source (Gen/XmlWire.v) in the vocabulary of the proofs; these are the
    lemmas that stop holding when one of those tokens is edited *)
Lemma read_multi_eq f : xw_read_multi (fmax f) = is_multi f.
Proof. unfold xw_read_multi, fmax, is_multi. destruct (f_max f); reflexivity. Qed.
Lemma write_each_eq isnone f : xw_write_each isnone (fmax f) = negb isnone && is_multi f.
Proof. unfold xw_write_each, fmax, is_multi. destruct (f_max f); reflexivity. Qed.
Lemma write_one_eq isnone mn : xw_write_one isnone mn = negb isnone || (0 <? mn).
Proof. reflexivity. Qed.
Lemma freq_bad_eq n f :
  negb (xw_freq_bad n (f_min f) (fmax f)) = (f_min f <=? n) && match f_max f with Some m => n <=? m | None => true end.
Proof.
  unfold xw_freq_bad, fmax. rewrite negb_orb, <- Z.leb_antisym. destruct (f_max f) as [m|]; cbn [ext_ltb negb].
  - rewrite <- Z.leb_antisym. reflexivity.
  - reflexivity.
Qed.

(** [wtxt]: what [wire] does to element.text *)
Definition wtxt (t : option text) : option text := match t with Some [] => None | _ => t end.
Lemma wire_elt ns n a t k : wire (XElt ns n a t k) = XElt ns n a (wtxt t) (map wire k).
Proof. reflexivity. Qed.

(** the leaf codec is lossless on its declared domain, passes its own validation there, and only
    the empty string and the empty byte string print as '' *)
Definition leaf_sound (L : leaf_codec) : Prop :=
  forall l v, leaf_has (lt_spec l) v = true -> lc_ok L l v = true ->
    exists s, lc_pr L l v = Ok s /\ lc_rd L l s = Ok (Some v)
      /\ (forall nil, lc_vs L l nil (Some s) = true /\ lc_vn L l nil (Some v) = true)
      /\ (s = [] <-> (v = LText [] \/ v = LBytes []))
      /\ (v = LBytes [] -> lc_vs L l true None = true /\ lc_vn L l true None = true).

Section RT.
  Variable L : leaf_codec.
  Variable C : xcfg.
  Variable U : universe.
  Hypothesis Hleaf : leaf_sound L.
  Hypothesis Hwf : wf_universe U = true.

  Notation enc := (enc L U).
  Notation dec := (dec L C U).
  Notation norm := (norm U).
  Notation xconf := (xconf L U).

  Definition rt_stmt (k : nat) : Prop :=
    forall t v ns name nillable,
      xconf k t v = true ->
      (nonelike v = true -> x_soft C && negb nillable = false) ->
      exists a tx ks, enc k t ns name v = Ok (XElt ns name a tx ks)
                      /\ dec k t nillable (wire (XElt ns name a tx ks)) = Ok (norm k t v).

  Lemma norm_none k t : norm k t VNone = VNone.
  Proof. destruct k; cbn; [reflexivity|]. destruct t; reflexivity. Qed.

  (** a primitive value written as element content and read back *)
  Lemma leaf_elt l pv nillable :
    leaf_has (lt_spec l) pv = true -> lc_ok L l pv = true ->
    (pv = LBytes [] -> x_soft C && negb nillable = false) ->
    exists s, lc_pr L l pv = Ok s
              /\ dec_leaf L C l nillable (wtxt (Some s)) = Ok (norm_leaf KElem (VLeaf pv)).
  Proof.
    intros Hh Hok Hnone. destruct (Hleaf l pv Hh Hok) as [s [Hs [Hr [Hv [He Hb]]]]].
    exists s. split; [exact Hs|]. unfold dec_leaf.
    destruct (is_text_leaf l) eqn:Et.
    - (* unicode_from_element *)
      assert (pv <> LBytes []) as Hnb.
      { intros ->. unfold is_text_leaf in Et. destruct (lt_spec l); try discriminate. }
      destruct (Hv nillable) as [V1 V2].
      assert (match wtxt (Some s) with None => [] | Some s0 => s0 end = s) as Hw.
      { destruct s; reflexivity. }
      rewrite Hw, V1, Hr. cbn [negb andb bind]. rewrite andb_false_r. cbn [of_opt]. rewrite V2. cbn [negb].
      rewrite andb_false_r. destruct pv as [| | |[|b bs]| | | | |]; try reflexivity. congruence.
    - destruct s as [|c s].
      + (* only b'' prints as '' here *)
        assert (pv = LBytes []) as ->.
        { destruct (proj1 He eq_refl) as [->| ->]; [|reflexivity].
          unfold is_text_leaf in Et. destruct (lt_spec l); discriminate. }
        cbn [wtxt]. destruct (Hb eq_refl) as [B1 B2]. specialize (Hnone eq_refl).
        destruct (x_soft C) eqn:Es; cbn [andb] in *.
        * apply negb_false_iff in Hnone. subst nillable. rewrite B1. cbn [negb bind]. rewrite B2. reflexivity.
        * reflexivity.
      + destruct (Hv nillable) as [V1 V2]. cbn [wtxt]. rewrite V1, Hr. cbn [negb bind of_opt]. rewrite andb_false_r, V2.
        cbn [negb]. rewrite andb_false_r.
        assert (pv <> LBytes []) as Hnb.
        { intros ->. assert (c :: s = []) as X by (apply He; right; reflexivity). discriminate. }
        destruct pv as [| | |[|b bs]| | | | |]; try reflexivity. congruence.
  Qed.

  Section Members.
    Variable k : nat.
    Hypothesis IH : rt_stmt k.
    Variable fields : list field.
    Hypothesis Hwire : wire_ok fields.
    Let decf := fun f : field => dec k (f_ty f) (f_nillable f).

    (** one single-valued element *)
    Lemma block_single f ens a tx ks v st fr rest :
      lookup_member fields fields ens (wname f) = Some f -> f_kind f = KElem -> is_multi f = false ->
      decf f (XElt ens (wname f) a tx ks) = Ok v ->
      dec_kids decf fields fields (XElt ens (wname f) a tx ks :: rest) st fr
      = dec_kids decf fields fields rest (setattr st (f_name f) v) (f_name f :: fr).
    Proof. intros Hf Hk Hm Hd. cbn [dec_kids]. rewrite Hf, Hk, Hd. cbn [bind]. rewrite read_multi_eq, Hm. reflexivity. Qed.

    (** a run of elements of one max_occurs > 1 member *)
    Lemma block_multi f ens : lookup_member fields fields ens (wname f) = Some f -> f_kind f = KElem -> is_multi f = true ->
      forall es vs,
        Forall2 (fun e v => (exists a tx ks, e = XElt ens (wname f) a tx ks) /\ decf f e = Ok v) es vs ->
        forall st fr l, as_list (getattr st (f_name f)) = Ok l ->
        exists st',
          (forall rest, dec_kids decf fields fields (es ++ rest) st fr
                        = dec_kids decf fields fields rest st' (repeat (f_name f) (length es) ++ fr))
          /\ (es <> [] -> getattr st' (f_name f) = VList (l ++ vs))
          /\ (es = [] -> st' = st)
          /\ (forall key, key <> f_name f -> getattr st' key = getattr st key).
    Proof.
      intros Hf Hk Hm es vs H. induction H as [|e v es vs [[a [tx [ks ->]]] Hd] Hrest IHf]; intros st fr l Hl.
      - exists st. repeat split; try reflexivity; try congruence.
      - set (st1 := setattr st (f_name f) (VList (l ++ [v]))).
        destruct (IHf st1 (f_name f :: fr) (l ++ [v])) as [st' [H1 [H2 [H3 H4]]]].
        { unfold st1. rewrite getattr_set_same. reflexivity. }
        exists st'. split; [|split; [|split]].
        + intro rest. cbn [app]. cbn [dec_kids]. rewrite Hf, Hk, Hd. cbn [bind]. rewrite read_multi_eq, Hm, Hl. cbn [bind].
          fold st1. rewrite H1. cbn [length repeat]. f_equal.
          change (f_name f :: fr) with ([f_name f] ++ fr). rewrite app_assoc.
          replace (repeat (f_name f) (length es) ++ [f_name f]) with (f_name f :: repeat (f_name f) (length es)); [reflexivity|].
          clear. induction (length es); cbn; [reflexivity|]. f_equal. exact IHn.
        + intros _. destruct es as [|e' es'].
          * inversion Hrest; subst. rewrite (H3 eq_refl). unfold st1. rewrite getattr_set_same. reflexivity.
          * rewrite H2 by discriminate. rewrite <- app_assoc. reflexivity.
        + discriminate.
        + intros key Hkey. rewrite H4 by exact Hkey. unfold st1. apply getattr_set_other. congruence.
    Qed.

    (** value of a member after the XmlData pass, after the children pass; occurrences counted by the children pass *)
    Definition dval (f : field) (x : val) : val :=
      match f_kind f with KData => norm_leaf KData x | _ => VNone end.
    Definition kval (f : field) (x : val) : val :=
      match f_kind f with KElem => norm_field (norm k) f x | KAttr => VNone | KData => norm_leaf KData x end.
    Definition kocc (f : field) (x : val) : Z :=
      match f_kind f with KElem => occ f x | _ => 0 end.

    Definition kids_pass (f : field) (x : val) (blk : list xnode) : Prop :=
      forall st fr, getattr st (f_name f) = dval f x ->
        exists st' fr',
          (forall rest, dec_kids decf fields fields (map wire blk ++ rest) st fr = dec_kids decf fields fields rest st' fr')
          /\ getattr st' (f_name f) = kval f x
          /\ (forall key, key <> f_name f -> getattr st' key = getattr st key)
          /\ (forall key, count_text key fr' = (if text_eqb (f_name f) key then kocc f x else 0) + count_text key fr).
    Definition atts_pass (f : field) (x : val) (ats : list attr) : Prop :=
      forall st fr, getattr st (f_name f) = kval f x ->
        exists st' fr',
          (forall rest, dec_atts L C fields fields (ats ++ rest) st fr = dec_atts L C fields fields rest st' fr')
          /\ getattr st' (f_name f) = norm_field (norm k) f x
          /\ (forall key, key <> f_name f -> getattr st' key = getattr st key)
          /\ (forall key, count_text key fr' = (if text_eqb (f_name f) key then occ f x - kocc f x else 0) + count_text key fr).
    (** what the XmlData pass reads for this member from the text the encoder set *)
    Definition data_fact (f : field) (x : val) (tx : option text) : Prop :=
      match f_ty f with
      | TLeaf l => exists v', match wtxt tx with None => Ok None | Some s => lc_rd L l s end = Ok v'
                              /\ of_opt v' = norm_leaf KData x
      | _ => False
      end.

    Lemma pass_nothing_k f x : kval f x = dval f x -> kocc f x = 0 -> kids_pass f x [].
    Proof.
      intros Hv Ho st fr Hst. exists st, fr. rewrite Hv, Ho. repeat split; auto.
      intro key. destruct (text_eqb (f_name f) key); reflexivity.
    Qed.
    Lemma pass_nothing_a f x : kval f x = norm_field (norm k) f x -> occ f x = kocc f x -> atts_pass f x [].
    Proof.
      intros Hv Ho st fr Hst. exists st, fr. rewrite Ho, <- Hv, Z.sub_diag. repeat split; auto.
      intro key. destruct (text_eqb (f_name f) key); reflexivity.
    Qed.

    Lemma xconf_leaf l pv : xconf k (TLeaf l) (VLeaf pv) = true -> leaf_has (lt_spec l) pv = true /\ lc_ok L l pv = true.
    Proof. destruct k; cbn; [discriminate|]. intro H. apply andb_true_iff in H. exact H. Qed.

    (** one element produced by the induction hypothesis *)
    Lemma one_elt f dns y :
      xconf k (f_ty f) y = true -> (nonelike y = true -> f_nillable f = true) ->
      exists a tx ks, enc k (f_ty f) dns (wname f) y = Ok (XElt dns (wname f) a tx ks)
                      /\ decf f (wire (XElt dns (wname f) a tx ks)) = Ok (norm k (f_ty f) y).
    Proof.
      intros Hx Hn. apply IH; [exact Hx|]. intro Hy. rewrite (Hn Hy). cbn. apply andb_false_r.
    Qed.

    Lemma field_rt dns f x nk :
      In f fields -> field_shape_ok f = true ->
      field_conf (xconf k) f x = true ->
      exists blk ats tx, enc_field L (enc k) dns f x nk = Ok (blk, ats, tx)
        /\ Forall plain ats
        /\ (f_kind f <> KElem -> blk = [])
        /\ (f_kind f <> KData -> tx = None)
        /\ (f_kind f = KData -> nk = true -> data_fact f x tx)
        /\ kids_pass f x blk /\ atts_pass f x ats.
    Proof.
      intros Hin Hshape Hc. unfold field_conf in Hc.
      assert (f_kind f = KElem -> lookup_member fields fields (wns dns f) (wname f) = Some f) as Hf.
      { intro Ek'. apply lookup_member_ok; [exact Hwire|exact Hin|]. unfold field_shape_ok in Hshape. rewrite Ek' in Hshape.
        destruct (f_sub_ns f) as [[|? ?]|]; try discriminate; cbn in Hshape; congruence. }
      assert (f_kind f = KAttr -> lookup_attr fields fields [] (wname f) = Some f) as Hfa.
      { intro Ek'. apply lookup_attr_ok; [exact Hwire|exact Hin|]. unfold field_shape_ok in Hshape. rewrite Ek' in Hshape.
        apply andb_true_iff in Hshape. destruct Hshape as [Hshape _]. apply andb_true_iff in Hshape. destruct Hshape as [_ Hshape].
        destruct (f_sub_ns f); [discriminate|reflexivity]. }
      apply andb_true_iff in Hc. destruct Hc as [Hc Hk].
      apply andb_true_iff in Hc. destruct Hc as [Hmin _].
      unfold enc_field. destruct (f_kind f) eqn:Ek.
      - (* element member *)
        rewrite write_each_eq, write_one_eq.
        destruct (is_multi f) eqn:Em.
        + (* max_occurs > 1 *)
          destruct x as [| |c fs|xs]; try discriminate; cbn [negb andb orb].
          * (* None: nothing is written *)
            apply Z.leb_le in Hk. replace (0 <? f_min f) with false by lia.
            exists [], [], None. split; [reflexivity|]. split; [constructor|]. split; [reflexivity|]. split; [reflexivity|].
            split; [discriminate|]. split.
            -- apply pass_nothing_k; unfold kval, dval, kocc, occ, norm_field; rewrite Ek, ?Em; [reflexivity|].
               replace (0 <? f_min f) with false by lia. reflexivity.
            -- apply pass_nothing_a; unfold kval, kocc; rewrite Ek; reflexivity.
          * (* a list *)
            destruct (mapM_Forall2 (enc k (f_ty f) (wns dns f) (wname f))
                        (fun y e => (exists a tx ks, wire e = XElt (wns dns f) (wname f) a tx ks)
                                    /\ decf f (wire e) = Ok (norm k (f_ty f) y)) xs) as [es [He HF]].
            { intros y Hy. rewrite forallb_forall in Hk. specialize (Hk y Hy).
              apply andb_true_iff in Hk. destruct Hk as [Hn Hx].
              destruct (one_elt f (wns dns f) y Hx) as [a [tx [ks [H1 H2]]]].
              { intro Hne. rewrite Hne in Hn. exact Hn. }
              eexists. split; [exact H1|]. split; [|exact H2]. rewrite wire_elt. eauto. }
            rewrite He. cbn [bind]. exists es, [], None. split; [reflexivity|]. split; [constructor|].
            split; [congruence|]. split; [reflexivity|]. split; [discriminate|]. split.
            -- intros st fr Hst. unfold dval in Hst. rewrite Ek in Hst.
               assert (Forall2 (fun e v => (exists a tx ks, e = XElt (wns dns f) (wname f) a tx ks) /\ decf f e = Ok v)
                               (map wire es) (map (norm k (f_ty f)) xs)) as HF2.
               { clear - HF. induction HF; cbn; constructor; auto. }
               destruct (block_multi f (wns dns f) (Hf eq_refl) Ek Em _ _ HF2 st fr []) as [st' [H1 [H2 [H3 H4]]]].
               { rewrite Hst. reflexivity. }
               exists st', (repeat (f_name f) (length (map wire es)) ++ fr). split; [exact H1|]. split; [|split].
               ++ unfold kval, norm_field. rewrite Ek, Em. destruct xs as [|y ys].
                  ** inversion HF; subst. rewrite (H3 eq_refl). exact Hst.
                  ** inversion HF; subst. rewrite H2 by (cbn; discriminate). reflexivity.
               ++ exact H4.
               ++ intro key. rewrite count_repeat. unfold kocc, occ. rewrite Ek, Em.
                  rewrite map_length. rewrite (Forall2_len _ _ _ HF). reflexivity.
            -- apply pass_nothing_a; unfold kval, kocc; rewrite Ek; reflexivity.
        + (* single-valued *)
          apply andb_true_iff in Hk. destruct Hk as [Hn Hx].
          assert (x <> VNone \/ (0 <? f_min f) = true ->
                  exists e, enc k (f_ty f) (wns dns f) (wname f) x = Ok e /\ kids_pass f x [e]) as Hone.
          { intro Hcase.
            destruct (one_elt f (wns dns f) x Hx) as [a [tx [ks [H1 H2]]]].
            { intro Hne. destruct x as [|pv0| |]; try discriminate.
              - destruct Hcase as [Hcase|Hcase]; [congruence|].
                apply orb_true_iff in Hn. destruct Hn as [Hn|Hn]; [lia|exact Hn].
              - rewrite Hne in Hn. exact Hn. }
            eexists. split; [exact H1|]. intros st fr Hst.
            exists (setattr st (f_name f) (norm k (f_ty f) x)), (f_name f :: fr). split; [|split; [|split]].
            - intro rest. cbn [map app]. rewrite wire_elt in *. apply block_single; [exact (Hf eq_refl)|exact Ek|exact Em|exact H2].
            - rewrite getattr_set_same. unfold kval, norm_field. rewrite Ek, Em. reflexivity.
            - intros key Hkey. apply getattr_set_other. congruence.
            - intro key. cbn [count_text]. unfold kocc, occ. rewrite Ek.
              destruct x; try reflexivity.
              + destruct Hcase as [Hcase|Hcase]; [congruence|]. rewrite Hcase. reflexivity.
              + rewrite Em. reflexivity. }
          assert (forall e, enc k (f_ty f) (wns dns f) (wname f) x = Ok e -> kids_pass f x [e] ->
                  exists blk ats tx, (do e0 <- enc k (f_ty f) (wns dns f) (wname f) x; Ok ([e0], [], None)) = Ok (blk, ats, tx)
                    /\ Forall plain ats /\ (KElem <> KElem -> blk = []) /\ (KElem <> KData -> tx = None)
                    /\ (KElem = KData -> nk = true -> data_fact f x tx) /\ kids_pass f x blk /\ atts_pass f x ats) as Hfin.
          { intros e He Hp. rewrite He. cbn [bind]. exists [e], [], None. split; [reflexivity|]. split; [constructor|].
            split; [congruence|]. split; [reflexivity|]. split; [discriminate|]. split; [exact Hp|].
            apply pass_nothing_a; unfold kval, kocc; rewrite Ek; reflexivity. }
          destruct x as [|pv|c fs|xs]; cbn [negb andb orb].
          * destruct (0 <? f_min f) eqn:Emin.
            -- destruct Hone as [e [He Hp]]; [right; reflexivity|]. exact (Hfin e He Hp).
            -- exists [], [], None. split; [reflexivity|]. split; [constructor|]. split; [reflexivity|]. split; [reflexivity|].
               split; [discriminate|]. split.
               ++ apply pass_nothing_k; unfold kval, dval, kocc, occ, norm_field; rewrite Ek, ?Em, ?Emin; [apply norm_none|reflexivity].
               ++ apply pass_nothing_a; unfold kval, kocc; rewrite Ek; reflexivity.
          * destruct Hone as [e [He Hp]]; [left; discriminate|]. exact (Hfin e He Hp).
          * destruct Hone as [e [He Hp]]; [left; discriminate|]. exact (Hfin e He Hp).
          * destruct Hone as [e [He Hp]]; [left; discriminate|]. exact (Hfin e He Hp).
      - (* XmlAttribute member *)
        apply andb_true_iff in Hk. destruct Hk as [Hk Hx]. apply andb_true_iff in Hk. destruct Hk as [Hm Ht].
        apply negb_true_iff in Hm. rewrite Hm.
        destruct (f_ty f) as [l| |] eqn:Et; try discriminate.
        destruct x as [|pv|c fs|xs]; try discriminate.
        + exists [], [], None. split; [reflexivity|]. split; [constructor|]. split; [reflexivity|]. split; [reflexivity|].
          split; [discriminate|]. split.
          * apply pass_nothing_k; unfold kval, dval, kocc; rewrite Ek; reflexivity.
          * apply pass_nothing_a; unfold kval, kocc, occ, norm_field; rewrite Ek; reflexivity.
        + destruct (xconf_leaf _ _ Hx) as [Hp Hok].
          destruct (Hleaf l pv Hp Hok) as [s [Hs [Hr [Hv _]]]]. rewrite Hs. cbn [bind].
          exists [], [([], wname f, s)], None. split; [reflexivity|].
          split; [constructor; [reflexivity|constructor]|]. split; [reflexivity|]. split; [reflexivity|].
          split; [discriminate|]. split.
          * apply pass_nothing_k; unfold kval, dval, kocc; rewrite Ek; reflexivity.
          * intros st fr Hst. exists (setattr st (f_name f) (VLeaf pv)), (f_name f :: fr).
            destruct (Hv (f_nillable f)) as [V1 V2].
            split; [|split; [|split]].
            -- intro rest. cbn [app dec_atts]. rewrite (Hfa eq_refl), Ek, Et, V1, Hr. cbn [negb bind of_opt].
               rewrite andb_false_r, V2. cbn [negb]. rewrite andb_false_r. reflexivity.
            -- rewrite getattr_set_same. unfold norm_field. rewrite Ek. reflexivity.
            -- intros key Hkey. apply getattr_set_other. congruence.
            -- intro key. cbn [count_text]. unfold kocc, occ. rewrite Ek.
               destruct (text_eqb (f_name f) key); reflexivity.
      - (* XmlData member *)
        apply andb_true_iff in Hk. destruct Hk as [Hk Hx]. apply andb_true_iff in Hk. destruct Hk as [Hm Ht].
        apply negb_true_iff in Hm. rewrite Hm.
        unfold occ in Hmin. rewrite Ek in Hmin. apply Z.leb_le in Hmin.
        destruct (f_ty f) as [l| |] eqn:Et; try discriminate.
        assert (kids_pass f x [] /\ atts_pass f x []) as [Kp Ap].
        { split.
          - apply pass_nothing_k; unfold kval, dval, kocc; rewrite Ek; reflexivity.
          - apply pass_nothing_a; unfold kval, kocc, occ, norm_field; rewrite Ek; reflexivity. }
        destruct x as [|pv|c fs|xs]; try discriminate.
        + replace (0 <? f_min f) with false by lia.
          exists [], [], None. split; [reflexivity|]. split; [constructor|]. split; [reflexivity|]. split; [congruence|].
          split; [|split; assumption]. intros _ _. unfold data_fact. rewrite Et. exists None. split; reflexivity.
        + destruct (xconf_leaf _ _ Hx) as [Hp Hok].
          destruct (Hleaf l pv Hp Hok) as [s [Hs [Hr [_ [He _]]]]]. rewrite Hs. cbn [bind].
          exists [], [], (if nk then Some s else None). split; [reflexivity|]. split; [constructor|].
          split; [reflexivity|]. split; [congruence|]. split; [|split; assumption].
          intros _ ->. unfold data_fact. rewrite Et. destruct s as [|c s].
          * exists None. split; [reflexivity|]. destruct (proj1 He eq_refl) as [-> | ->]; reflexivity.
          * exists (Some pv). split; [cbn [wtxt]; exact Hr|]. cbn [of_opt].
            assert (pv <> LText [] /\ pv <> LBytes []) as [N1 N2].
            { split; intros ->; [assert (c :: s = []) as X by (apply He; left; reflexivity)
                                |assert (c :: s = []) as X by (apply He; right; reflexivity)]; discriminate. }
            destruct pv as [|[|? ?]| |[|? ?]| | | | |]; try reflexivity; congruence.
    Qed.

    Definition names (fl : list (text * field)) : list text := map (fun p => f_name (snd p)) fl.

    Lemma name_in (fl : list (text * field)) (vals : list val) (g : field) (y : val) :
      In (g, y) (combine (map snd fl) vals) -> In (f_name g) (names fl).
    Proof.
      intro H. apply in_combine_l in H. unfold names. rewrite <- (map_map snd f_name).
      apply in_map. exact H.
    Qed.

    Lemma dec_data_nodata : forall fs t st, has_kind KData fs = false -> dec_data L fs t st = Ok st.
    Proof.
      induction fs as [|f fs IHf]; intros t st H; [reflexivity|].
      unfold has_kind in H. cbn [existsb] in H. apply orb_false_iff in H. destruct H as [H1 H2].
      cbn [dec_data]. destruct (f_kind f); try discriminate; apply IHf; exact H2.
    Qed.

    Lemma members_rt : forall fl vals nk,
      length fl = length vals ->
      (forall p, In p fl -> In (snd p) fields /\ field_shape_ok (snd p) = true) ->
      nodup_text (names fl) = true ->
      forallb (fun fv => field_conf (xconf k) (fst fv) (snd fv)) (combine (map snd fl) vals) = true ->
      count_kind KData (map snd fl) <= 1 ->
      (has_kind KData (map snd fl) = true -> has_kind KElem (map snd fl) = false /\ nk = true) ->
      exists kids atts tx, enc_members L (enc k) fl vals nk = Ok (kids, atts, tx)
        /\ Forall plain atts
        /\ (has_kind KElem (map snd fl) = false -> kids = [])
        /\ (has_kind KData (map snd fl) = false -> tx = None)
        /\ (forall st, (forall p, In p fl -> getattr st (f_name (snd p)) = VNone) ->
             exists st', dec_data L (map snd fl) (wtxt tx) st = Ok st'
               /\ (forall key, ~ In key (names fl) -> getattr st' key = getattr st key)
               /\ (forall f x, In (f, x) (combine (map snd fl) vals) -> getattr st' (f_name f) = dval f x))
        /\ (forall st fr, (forall f x, In (f, x) (combine (map snd fl) vals) -> getattr st (f_name f) = dval f x) ->
             exists st' fr',
               (forall rest, dec_kids decf fields fields (map wire kids ++ rest) st fr = dec_kids decf fields fields rest st' fr')
               /\ (forall key, ~ In key (names fl) ->
                     getattr st' key = getattr st key /\ count_text key fr' = count_text key fr)
               /\ (forall f x, In (f, x) (combine (map snd fl) vals) ->
                     getattr st' (f_name f) = kval f x
                     /\ count_text (f_name f) fr' = kocc f x + count_text (f_name f) fr))
        /\ (forall st fr, (forall f x, In (f, x) (combine (map snd fl) vals) -> getattr st (f_name f) = kval f x) ->
             exists st' fr',
               (forall rest, dec_atts L C fields fields (atts ++ rest) st fr = dec_atts L C fields fields rest st' fr')
               /\ (forall key, ~ In key (names fl) ->
                     getattr st' key = getattr st key /\ count_text key fr' = count_text key fr)
               /\ (forall f x, In (f, x) (combine (map snd fl) vals) ->
                     getattr st' (f_name f) = norm_field (norm k) f x
                     /\ count_text (f_name f) fr' = (occ f x - kocc f x) + count_text (f_name f) fr)).
    Proof.
      induction fl as [|[dns f] fl IHl]; intros vals nk Hlen Hfind Hnd Hconf Hcnt Hshape.
      - destruct vals; [|discriminate]. exists [], [], None. split; [reflexivity|]. split; [constructor|].
        split; [reflexivity|]. split; [reflexivity|]. split.
        { intros st _. exists st. split; [reflexivity|]. split; auto. intros ? ? []. }
        split; intros st fr _; exists st, fr; (split; [reflexivity|]); split; auto; intros ? ? [].
      - destruct vals as [|x vals]; [discriminate|]. cbn in Hlen. injection Hlen as Hlen.
        cbn [names map snd nodup_text] in Hnd. apply andb_true_iff in Hnd. destruct Hnd as [Hnotin Hnd].
        apply negb_true_iff in Hnotin.
        assert (~ In (f_name f) (names fl)) as Hnf.
        { intro X. apply text_mem_In in X. unfold names in X. congruence. }
        cbn [map snd combine forallb fst] in Hconf. apply andb_true_iff in Hconf. destruct Hconf as [Hcf Hconf].
        cbn [map snd count_kind] in Hcnt. unfold has_kind in Hshape. cbn [map snd existsb] in Hshape.
        fold (has_kind KData (map snd fl)) in Hshape. fold (has_kind KElem (map snd fl)) in Hshape.
        destruct (field_rt dns f x nk) as [blk [ats [tx1 [He [Hplain [Hblk [Htx [Hdf [Hkp Hap]]]]]]]]].
        { apply (Hfind (dns, f)). left. reflexivity. }
        { apply (Hfind (dns, f)). left. reflexivity. }
        { exact Hcf. }
        assert (count_kind KData (map snd fl) >= 0) as Hge.
        { clear. induction (map snd fl) as [|g r IHr]; cbn; [lia|]. destruct (kind_eqb (f_kind g) KData); lia. }
        destruct (IHl vals (nk && no_kids blk) Hlen) as [kids [atts [tx2 [He' [Hplain' [Hnok [Hnod [Hdp' [Hkp' Hap']]]]]]]]]; try assumption.
        { intros p Hp. apply Hfind. right. exact Hp. }
        { destruct (kind_eqb (f_kind f) KData); lia. }
        { intro Hd. rewrite Hd in Hshape. rewrite orb_true_r in Hshape. destruct (Hshape eq_refl) as [S1 S2].
          apply orb_false_iff in S1. destruct S1 as [S1 S1']. split; [exact S1'|].
          rewrite S2, Hblk; [reflexivity|]. intro X. rewrite X in S1. discriminate. }
        exists (blk ++ kids), (ats ++ atts), (or_text tx1 tx2). split.
        { cbn [enc_members hd tl]. rewrite He. cbn [bind fst snd]. rewrite He'. reflexivity. }
        split; [apply Forall_app; split; assumption|]. split.
        { intro Hn. unfold has_kind in Hn. cbn [map snd existsb] in Hn. apply orb_false_iff in Hn. destruct Hn as [N1 N2].
          rewrite Hblk, (Hnok N2); [reflexivity|]. intro X. rewrite X in N1. discriminate. }
        split.
        { intro Hn. unfold has_kind in Hn. cbn [map snd existsb] in Hn. apply orb_false_iff in Hn. destruct Hn as [N1 N2].
          rewrite Htx, (Hnod N2); [reflexivity|]. intro X. rewrite X in N1. discriminate. }
        split; [|split].
        + (* XmlData pass *)
          intros st Hpre. cbn [map snd dec_data].
          destruct (f_kind f) eqn:Ek.
          * (* element: skipped; the text is the tail's *)
            rewrite (Htx ltac:(discriminate)), or_text_none_l.
            destruct (Hdp' st) as [st' [D1 [D2 D3]]]; [intros p Hp; apply Hpre; right; exact Hp|].
            exists st'. split; [exact D1|]. split.
            -- intros key Hkey. apply D2. intro X. apply Hkey. right. exact X.
            -- intros g y [Heq|Hin].
               ++ inversion Heq; subst g y. rewrite D2 by exact Hnf. unfold dval. rewrite Ek.
                  apply (Hpre (dns, f)). left. reflexivity.
               ++ apply D3. exact Hin.
          * rewrite (Htx ltac:(discriminate)), or_text_none_l.
            destruct (Hdp' st) as [st' [D1 [D2 D3]]]; [intros p Hp; apply Hpre; right; exact Hp|].
            exists st'. split; [exact D1|]. split.
            -- intros key Hkey. apply D2. intro X. apply Hkey. right. exact X.
            -- intros g y [Heq|Hin].
               ++ inversion Heq; subst g y. rewrite D2 by exact Hnf. unfold dval. rewrite Ek.
                  apply (Hpre (dns, f)). left. reflexivity.
               ++ apply D3. exact Hin.
          * (* the XmlData member: the tail has none *)
            cbn [kind_eqb] in Hcnt, Hshape.
            assert (has_kind KData (map snd fl) = false) as Hnd2.
            { destruct (has_kind KData (map snd fl)) eqn:E; [|reflexivity]. exfalso.
              assert (count_kind KData (map snd fl) >= 1) as X.
              { clear - E. unfold has_kind in E. induction (map snd fl) as [|g r IHr]; cbn in *; [discriminate|].
                destruct (kind_eqb (f_kind g) KData); cbn in E.
                - assert (count_kind KData r >= 0) by (clear; induction r as [|h r' IHr']; cbn; [lia|]; destruct (kind_eqb (f_kind h) KData); lia). lia.
                - specialize (IHr E). lia. }
              lia. }
            rewrite (Hnod Hnd2). cbn [or_text].
            destruct (Hshape eq_refl) as [_ Hnk].
            pose proof (Hdf eq_refl Hnk) as Hd. unfold data_fact in Hd.
            destruct (f_ty f) as [l| |] eqn:Et; try contradiction.
            destruct Hd as [v' [Hrd Hov]]. rewrite Hrd. cbn [bind].
            rewrite dec_data_nodata by exact Hnd2.
            eexists. split; [reflexivity|]. split.
            -- intros key Hkey. apply getattr_set_other. intro X. apply Hkey. left. exact X.
            -- intros g y [Heq|Hin].
               ++ inversion Heq; subst g y. rewrite getattr_set_same. unfold dval. rewrite Ek. exact Hov.
               ++ rewrite getattr_set_other.
                  ** pose proof (in_combine_l _ _ _ _ Hin) as Hg.
                     pose proof (has_kind_false_in KData (map snd fl) g Hnd2 Hg) as Hkg.
                     apply in_map_iff in Hg. destruct Hg as [p [Hp1 Hp2]].
                     unfold dval. destruct (f_kind g) eqn:Eg; [| |cbn in Hkg; discriminate];
                       rewrite <- Hp1; apply Hpre; right; exact Hp2.
                  ** intro X. apply Hnf. rewrite X. eapply name_in; eauto.
        + (* children pass *)
          intros st fr Hpre.
          destruct (Hkp st fr) as [st1 [fr1 [K1 [K2 [K3 K4]]]]].
          { apply Hpre. left. reflexivity. }
          destruct (Hkp' st1 fr1) as [st' [fr' [J1 [J2 J3]]]].
          { intros g y Hin. rewrite K3.
            - apply Hpre. right. exact Hin.
            - intro X. apply Hnf. rewrite <- X. eapply name_in; eauto. }
          exists st', fr'. split; [|split].
          * intro rest. rewrite map_app, <- app_assoc, K1, J1. reflexivity.
          * intros key Hkey. cbn [names map snd] in Hkey.
            assert (key <> f_name f) as N1 by (intro; apply Hkey; left; congruence).
            assert (~ In key (names fl)) as N2 by (intro; apply Hkey; right; assumption).
            destruct (J2 key N2) as [A B]. rewrite A, B, K3, K4 by exact N1.
            rewrite text_eqb_neq by congruence. split; reflexivity.
          * intros g y Hin. cbn [map snd combine] in Hin. destruct Hin as [Heq|Hin].
            -- inversion Heq; subst g y. destruct (J2 (f_name f) Hnf) as [A B].
               rewrite A, B, K2, K4, text_eqb_refl. split; reflexivity.
            -- destruct (J3 g y Hin) as [A B]. rewrite A, B, K4.
               rewrite text_eqb_neq; [split; reflexivity|].
               intro X. apply Hnf. rewrite X. eapply name_in; eauto.
        + (* attributes pass *)
          intros st fr Hpre.
          destruct (Hap st fr) as [st1 [fr1 [K1 [K2 [K3 K4]]]]].
          { apply Hpre. left. reflexivity. }
          destruct (Hap' st1 fr1) as [st' [fr' [J1 [J2 J3]]]].
          { intros g y Hin. rewrite K3.
            - apply Hpre. right. exact Hin.
            - intro X. apply Hnf. rewrite <- X. eapply name_in; eauto. }
          exists st', fr'. split; [|split].
          * intro rest. rewrite <- app_assoc, K1, J1. reflexivity.
          * intros key Hkey. cbn [names map snd] in Hkey.
            assert (key <> f_name f) as N1 by (intro; apply Hkey; left; congruence).
            assert (~ In key (names fl)) as N2 by (intro; apply Hkey; right; assumption).
            destruct (J2 key N2) as [A B]. rewrite A, B, K3, K4 by exact N1.
            rewrite text_eqb_neq by congruence. split; reflexivity.
          * intros g y Hin. cbn [map snd combine] in Hin. destruct Hin as [Heq|Hin].
            -- inversion Heq; subst g y. destruct (J2 (f_name f) Hnf) as [A B].
               rewrite A, B, K2, K4, text_eqb_refl. split; reflexivity.
            -- destruct (J3 g y Hin) as [A B]. rewrite A, B, K4.
               rewrite text_eqb_neq; [split; reflexivity|].
               intro X. apply Hnf. rewrite X. eapply name_in; eauto.
    Qed.
  End Members.

  Theorem xmlx_rt_gen : forall k, rt_stmt k.
  Proof.
    induction k as [|k IH]; intros t v ns name nillable Hx Hnone; [discriminate|].
    destruct v as [|pv|d fs|xs].
    - (* None: an element with xsi:nil *)
      exists [nil_att], None, []. split; [reflexivity|].
      rewrite wire_elt. cbn [wtxt map XmlX.dec]. rewrite is_nil_nil_att, (Hnone eq_refl), norm_none. reflexivity.
    - (* primitive *)
      destruct t as [l| |]; try discriminate. cbn [XmlX.xconf] in Hx. apply andb_true_iff in Hx. destruct Hx as [Hp Hok].
      destruct (leaf_elt l pv nillable Hp Hok) as [s [Hs Hd]].
      { intros ->. apply Hnone. reflexivity. }
      exists [], (Some s), []. split; [cbn [XmlX.enc]; rewrite Hs; reflexivity|].
      rewrite wire_elt. cbn [map XmlX.dec]. replace (is_nil []) with false by reflexivity.
      cbn [XmlX.norm]. exact Hd.
    - (* object *)
      destruct t as [|c|]; try discriminate. cbn [XmlX.xconf] in Hx.
      apply andb_true_iff in Hx. destruct Hx as [Hd Hx]. apply Nat.eqb_eq in Hd. subst d.
      destruct (flat_fields U c) as [ffs|] eqn:Eff; [|discriminate].
      apply andb_true_iff in Hx. destruct Hx as [Hlen Hconf]. apply Nat.eqb_eq in Hlen.
      destruct (wf_flat U c ffs Hwf Eff) as [Hwire [Hcont Hshapes]].
      pose proof (proj1 (nodup_app _ _ Hwire)) as Hnd.
      unfold flat_fields in Eff. destruct (flat_decl U c) as [fds|] eqn:Efd; [|discriminate].
      cbn [option_map] in Eff. injection Eff as Hsnd.
      unfold flat_content_ok in Hcont. apply andb_true_iff in Hcont. destruct Hcont as [Hc1 Hc2].
      apply Z.leb_le in Hc1.
      destruct (members_rt k IH ffs Hwire fds fs true) as [kids [atts [tx [Henc [Hplain [_ [_ [Hdp [Hk Ha]]]]]]]]].
      { rewrite <- Hlen, <- Hsnd, map_length. reflexivity. }
      { intros p Hp. assert (In (snd p) ffs) as Hi by (rewrite <- Hsnd; apply in_map; exact Hp).
        split; [exact Hi|]. rewrite forallb_forall in Hshapes. exact (Hshapes _ Hi). }
      { unfold names. rewrite <- (map_map snd f_name), Hsnd. exact Hnd. }
      { rewrite Hsnd. exact Hconf. }
      { rewrite Hsnd. exact Hc1. }
      { rewrite Hsnd. intro Hdt. rewrite Hdt in Hc2. cbn [negb orb] in Hc2. apply negb_true_iff in Hc2. split; [exact Hc2|reflexivity]. }
      exists atts, tx, kids. split.
      { cbn [XmlX.enc]. rewrite Nat.eqb_refl. cbn [negb]. rewrite Efd, Henc. reflexivity. }
      rewrite wire_elt. cbn [XmlX.dec]. rewrite (is_nil_plain atts Hplain).
      unfold flat_fields. rewrite Efd. cbn [option_map]. rewrite Hsnd, alt_inherited.
      destruct (Hdp []) as [st0 [D1 [_ D3]]]; [reflexivity|]. rewrite Hsnd in D1, D3. rewrite D1. cbn [bind].
      destruct (Hk st0 []) as [st1 [fr1 [K1 [K2 K3]]]].
      { intros f x Hin. rewrite Hsnd in Hin. apply D3. exact Hin. }
      specialize (K1 []). rewrite app_nil_r in K1. rewrite K1. cbn [dec_kids bind fst snd].
      destruct (Ha st1 fr1) as [st2 [fr2 [A1 [A2 A3]]]].
      { intros f x Hin. apply K3. exact Hin. }
      specialize (A1 []). rewrite app_nil_r in A1. rewrite A1. cbn [dec_atts bind fst snd].
      rewrite Hsnd in *.
      assert (freq_ok ffs fr2 = true) as Hfq.
      { unfold freq_ok. apply forallb_forall. intros f Hf. rewrite freq_bad_eq.
        destruct (in_combine_ex ffs fs f Hlen Hf) as [x Hin].
        destruct (A3 f x Hin) as [_ B]. destruct (K3 f x Hin) as [_ B']. rewrite B, B'. cbn [count_text].
        rewrite forallb_forall in Hconf. specialize (Hconf (f, x) Hin). cbn [fst snd] in Hconf.
        unfold field_conf in Hconf. apply andb_true_iff in Hconf. destruct Hconf as [Hconf _].
        apply andb_true_iff in Hconf. destruct Hconf as [H1 H2].
        replace (occ f x - kocc f x + (kocc f x + 0)) with (occ f x) by lia.
        rewrite H1. exact H2. }
      rewrite Hfq. cbn [negb]. rewrite andb_false_r. f_equal.
      cbn [XmlX.norm]. unfold flat_fields. rewrite Efd. cbn [option_map]. rewrite Hsnd. f_equal.
      apply map_norm_fields; [exact Hlen|]. intros f x Hin. apply A3. exact Hin.
    - (* wrapped array *)
      destruct t as [| |e mns mname]; try discriminate. cbn [XmlX.xconf] in Hx.
      destruct (mapM_Forall2 (enc k e mns mname)
                  (fun y el => dec k e true (wire el) = Ok (norm k e y)) xs) as [es [He HF]].
      { intros y Hy. rewrite forallb_forall in Hx.
        destruct (IH e y mns mname true (Hx y Hy)) as [a [tx [ks [H1 H2]]]].
        { intros _. apply andb_false_r. }
        eexists. split; [exact H1|exact H2]. }
      exists [], None, es. split; [cbn [XmlX.enc]; rewrite He; reflexivity|].
      rewrite wire_elt. cbn [wtxt XmlX.dec]. replace (is_nil []) with false by reflexivity.
      rewrite (mapM_map_Forall2 (dec k e true) wire (norm k e) xs es HF). reflexivity.
  Qed.
End RT.

(** XmlDocument.from_element after XmlDocument.to_parent and an lxml serialise/parse cycle is [norm] *)
Theorem xmlx_rt : forall (L : leaf_codec) (C : xcfg) (U : universe),
  leaf_sound L -> wf_universe U = true ->
  forall n t v ns name nillable, xconf L U n t v = true ->
    (nonelike v = true -> x_soft C && negb nillable = false) ->
    exists e, enc L U n t ns name v = Ok e
              /\ dec L C U n t nillable (wire e) = Ok (norm U n t v).
Proof.
  intros L C U Hleaf Hwf n t v ns name nillable Hx Hn.
  destruct (xmlx_rt_gen L C U Hleaf Hwf n t v ns name nillable Hx Hn) as [a [tx [ks [H1 H2]]]].
  eexists. split; [exact H1|exact H2].
Qed.
