(** C01 — the type universe of the XML/SOAP wire model.  Definitions only.

    A richer sibling of Wire/Universe.v (which stays as it is for the other wire-level
    checks): primitive members are described by a *leaf type* (which to_unicode /
    from_unicode pair, with which Attributes, under which XSD type name), members may be
    elements, XmlAttribute or XmlData, and Array(T) carries the name of its single member
    (Array._set_serializer / _fill_empty_type_name decide it; the harness copies it from the
    class that exists).

    Mirrors spyne.model.complex: ComplexModel classes with an ordered _type_info, single
    inheritance (__extends__), Array(T) wrapper classes, per-type Attributes min_occurs /
    max_occurs / nillable, XmlAttribute(T) and XmlData(T) members. *)
From SpyneV Require Export Base.Prelude Base.Ext C08.IntModel C08.DtModel.

(** which primitive: decides the text codec, the validation functions and the
    deserialization handler of XmlDocument *)
Inductive lspec :=
| SInt (T : int_type) (a : num_attrs)   (* Integer family with its (possibly customised) Attributes *)
| SText                                  (* Unicode, default Attributes: unicode_from_element *)
| SBool | SBytes | SDate | STime | SDateTime | SDur
| STok.                                  (* any other primitive (Decimal, Double, Uuid, ...): carried as its text *)

Record ltype := mkltype { lt_spec : lspec; lt_name : text (* get_type_name() *) }.

Inductive pval :=
| LInt (z : Z) | LText (t : text) | LBool (b : bool) | LBytes (bs : list Z)
| LDate (d : date) | LTime (t : tod) | LDateTime (v : datetime)
| LDur (n : Z)                           (* timedelta as its number of microseconds *)
| LTok (t : text).

Definition leaf_has (s : lspec) (v : pval) : bool :=
  match s, v with
  | SInt _ _, LInt _ | SText, LText _ | SBool, LBool _ | SBytes, LBytes _
  | SDate, LDate _ | STime, LTime _ | SDateTime, LDateTime _ | SDur, LDur _ | STok, LTok _ => true
  | _, _ => false
  end.

Definition cid := nat.

Inductive val :=
| VNone
| VLeaf (p : pval)
| VObj (c : cid) (fs : list val)         (* one value per flattened member, ancestors first *)
| VList (vs : list val).

Inductive ty :=
| TLeaf (l : ltype)
| TRef (c : cid)
| TArr (elt : ty) (mns mname : text).    (* Array(elt); mname = the key of its one-entry _type_info, mns = the namespace the
                                             Array class was given when the interface resolved it (both copied from the class that exists) *)

Inductive fkind := KElem | KAttr | KData.   (* ordinary member | XmlAttribute(T) | XmlData(T) *)

(** one entry of _type_info with the Attributes of its type.  f_max = None is 'unbounded'.
    f_name is the key of the entry (the Python attribute); Attributes.sub_name / sub_ns give the member another
    name / namespace on the wire (it is then found through _type_info_alt when a document is read). *)
Record field := mkfield {
  f_name : text; f_ty : ty; f_min : Z; f_max : option Z; f_nillable : bool; f_kind : fkind;
  f_sub_name : option text; f_sub_ns : option text }.

(** the local name a member has on the wire *)
Definition wname (f : field) : text := match f_sub_name f with Some n => n | None => f_name f end.
Fixpoint sub_names (fs : list field) : list text :=
  match fs with
  | [] => []
  | f :: r => match f_sub_name f with Some n => n :: sub_names r | None => sub_names r end
  end.

Record cls := mkcls { c_ns : text; c_name : text; c_parent : option cid; c_own : list field }.

Definition universe := list cls.
Definition get_cls (U : universe) (c : cid) : option cls := nth_error U c.

(** get_flat_type_info: ancestors' members first, each with the namespace of the class that
    declares it (_get_members_etree uses cls.get_namespace() of the class it is iterating) *)
Fixpoint flat_decl_fuel (fuel : nat) (U : universe) (c : cid) : option (list (text * field)) :=
  match fuel with
  | O => None
  | S k =>
      match get_cls U c with
      | None => None
      | Some cl =>
          let own := map (fun f => (c_ns cl, f)) (c_own cl) in
          match c_parent cl with
          | None => Some own
          | Some p => match flat_decl_fuel k U p with
                      | Some pf => Some (pf ++ own)
                      | None => None
                      end
          end
      end
  end.
Definition flat_decl (U : universe) (c : cid) : option (list (text * field)) := flat_decl_fuel (S c) U c.
Definition flat_fields (U : universe) (c : cid) : option (list field) := option_map (map snd) (flat_decl U c).

Definition is_multi (f : field) : bool := match f_max f with Some m => 1 <? m | None => true end.

Definition kind_eqb (a b : fkind) : bool :=
  match a, b with KElem, KElem | KAttr, KAttr | KData, KData => true | _, _ => false end.
Definition has_kind (k : fkind) (fs : list field) : bool := existsb (fun f => kind_eqb (f_kind f) k) fs.
Fixpoint count_kind (k : fkind) (fs : list field) : Z :=
  match fs with [] => 0 | f :: r => (if kind_eqb (f_kind f) k then 1 else 0) + count_kind k r end.

(** ---- well-formedness: what Spyne's class machinery and the XML Schema emitter demand ---- *)
Fixpoint ty_ok (n : nat) (t : ty) : bool :=
  match t with
  | TLeaf _ => true
  | TRef c => Nat.ltb c n
  | TArr e _ _ => ty_ok n e
  end.
Fixpoint text_mem (x : text) (l : list text) : bool :=
  match l with [] => false | y :: r => text_eqb x y || text_mem x r end.
Fixpoint nodup_text (l : list text) : bool :=
  match l with [] => true | x :: r => negb (text_mem x r) && nodup_text r end.

(** XmlAttribute / XmlData wrap a primitive and are single-valued; an XmlData member is
    optional (nothing on the wire can be counted for it); the nillable flag of an Integer
    member is the one in its Attributes table *)
Definition no_text (o : option text) : bool := match o with None => true | Some _ => false end.
Definition field_shape_ok (f : field) : bool :=
  match f_kind f with
  | KElem => match f_sub_ns f with Some [] => false | _ => true end
  | KAttr => negb (is_multi f) && match f_ty f with TLeaf _ => true | _ => false end && no_text (f_sub_ns f)
  | KData => negb (is_multi f) && match f_ty f with TLeaf _ => true | _ => false end && (f_min f <=? 0)
             && no_text (f_sub_ns f) && no_text (f_sub_name f)
  end
  && match f_ty f with
     | TLeaf (mkltype (SInt _ a) _) => Bool.eqb (na_nillable a) (f_nillable f)
     | _ => true
     end.

(** a class with an XmlData member is an xs:simpleContent extension: one XmlData, attributes,
    no element members, and it neither extends nor is extended *)
Definition content_ok (U : universe) (cl : cls) : bool :=
  (if has_kind KData (c_own cl)
   then (count_kind KData (c_own cl) =? 1) && negb (has_kind KElem (c_own cl))
        && match c_parent cl with None => true | Some _ => false end
   else true)
  && match c_parent cl with
     | Some p => match get_cls U p with Some pc => negb (has_kind KData (c_own pc)) | None => false end
     | None => true
     end.

(** the same on the flattened member list: at most one XmlData, and then no element member *)
Definition flat_content_ok (fs : list field) : bool :=
  (count_kind KData fs <=? 1) && (negb (has_kind KData fs) || negb (has_kind KElem fs)).

Definition cls_ok (U : universe) (i : nat) (cl : cls) : bool :=
  match c_parent cl with Some p => Nat.ltb p i | None => true end
  && forallb (fun f => ty_ok (length U) (f_ty f) && field_shape_ok f) (c_own cl)
  && content_ok U cl
  && match flat_fields U i with
     | Some fs => nodup_text (map f_name fs ++ sub_names fs)       (* member keys and wire names: pairwise distinct *)
                  && flat_content_ok fs && forallb field_shape_ok fs
     | None => false
     end.
Fixpoint wf_from (U : universe) (i : nat) (l : list cls) : bool :=
  match l with [] => true | cl :: r => cls_ok U i cl && wf_from U (S i) r end.
Definition wf_universe (U : universe) : bool := wf_from U 0 U.

(** ---- structural equality, for case files ---- *)
Definition date_eqb' (a b : date) : bool := (yr a =? yr b) && (mo a =? mo b) && (dy a =? dy b).
Definition tod_eqb' (a b : tod) : bool := (hr a =? hr b) && (mi a =? mi b) && (se a =? se b) && (us a =? us b).
Definition optz_eqb' (a b : option Z) : bool :=
  match a, b with Some x, Some y => x =? y | None, None => true | _, _ => false end.
Definition pval_eqb (a b : pval) : bool :=
  match a, b with
  | LInt x, LInt y => x =? y
  | LText x, LText y => text_eqb x y
  | LBool x, LBool y => Bool.eqb x y
  | LBytes x, LBytes y => text_eqb x y
  | LDate x, LDate y => date_eqb' x y
  | LTime x, LTime y => tod_eqb' x y
  | LDateTime x, LDateTime y => date_eqb' (dt_d x) (dt_d y) && tod_eqb' (dt_t x) (dt_t y) && optz_eqb' (dt_off x) (dt_off y)
  | LDur x, LDur y => x =? y
  | LTok x, LTok y => text_eqb x y
  | _, _ => false
  end.
Fixpoint val_eqb (a b : val) : bool :=
  match a, b with
  | VNone, VNone => true
  | VLeaf x, VLeaf y => pval_eqb x y
  | VObj c xs, VObj d ys =>
      Nat.eqb c d &&
      (fix go (l1 l2 : list val) : bool :=
         match l1, l2 with
         | [], [] => true
         | x :: r1, y :: r2 => val_eqb x y && go r1 r2
         | _, _ => false
         end) xs ys
  | VList xs, VList ys =>
      (fix go (l1 l2 : list val) : bool :=
         match l1, l2 with
         | [], [] => true
         | x :: r1, y :: r2 => val_eqb x y && go r1 r2
         | _, _ => false
         end) xs ys
  | _, _ => false
  end.
