(** C01 — the concrete primitive codecs plugged into C01/XmlX.v: the C08 models of
    ProtocolBase.to_unicode / from_unicode (integer family with the generated Attributes
    tables and validation functions, Unicode, Boolean, ByteArray in base64, Date, Time,
    DateTime, Duration) plus lxml's refusal of text that is not XML 1.0 Char.  [STok] is any
    other primitive, carried by its lexical form.  Definitions only. *)
From SpyneV Require Export C01.XmlX C08.DurModel C08.BinModel Gen.NumTypes.

(** XML 1.0 Char: #x9 | #xA | #xD | [#x20-#xD7FF] | [#xE000-#xFFFD] | [#x10000-#x10FFFF];
    lxml raises ValueError when element.text / an attribute is set to anything else *)
Definition xml_char (c : Z) : bool :=
  (c =? 9) || (c =? 10) || (c =? 13) || ((32 <=? c) && (c <=? 55295))
  || ((57344 <=? c) && (c <=? 65533)) || ((65536 <=? c) && (c <=? 1114111)).

Definition lxml_text (s : text) : out text := if forallb xml_char s then Ok s else Crash ValueError.

Definition leaf_pr (l : ltype) (v : pval) : out text :=
  match lt_spec l, v with
  | SInt _ _, LInt z => Ok (integer_to_unicode z)
  | SText, LText s => lxml_text s
  | SBool, LBool b => Ok (boolean_to_unicode b)
  | SBytes, LBytes bs => Ok (b64encode false bs)          (* binary_encoding = base64 *)
  | SDate, LDate d => Ok (date_iso d)
  | STime, LTime t => Ok (time_iso t)
  | SDateTime, LDateTime v => Ok (datetime_iso v)
  | SDur, LDur n => Ok (duration_to_unicode n)
  | STok, LTok s => lxml_text s
  | _, _ => Crash TypeError
  end.

Definition leaf_rd (l : ltype) (s : text) : out (option pval) :=
  match lt_spec l with
  | SInt _ a => do z <- integer_from_unicode a s; Ok (Some (LInt z))
  | SText => Ok (Some (LText s))
  | SBool => Ok (Some (LBool (boolean_from_unicode s)))
  | SBytes => do bs <- b64decode false s; Ok (Some (LBytes bs))
  | SDate => do d <- date_from_unicode s; Ok (Some (LDate d))
  | STime => do t <- time_from_unicode s; Ok (Some (LTime t))
  | SDateTime => do v <- datetime_from_unicode_iso s; Ok (Some (LDateTime v))
  | SDur => do n <- duration_from_unicode s; Ok (Some (LDur n))
  | STok => Ok (Some (LTok s))
  end.

(** validate_string: the generated functions for the integer family; ModelBase's
    (nillable or value is not None) for the others, whose Attributes are the defaults *)
Definition leaf_vs (l : ltype) (nillable : bool) (txt : option text) : bool :=
  match lt_spec l with
  | SInt T a => match txt with None => it_vs_none T a | Some s => it_vs T a (len s) end
  | _ => match txt with None => nillable | Some _ => true end
  end.
Definition leaf_vn (l : ltype) (nillable : bool) (v : option pval) : bool :=
  match lt_spec l with
  | SInt T a => match v with None => it_vn_none T a | Some (LInt z) => it_vn T a z | Some _ => false end
  | _ => match v with None => nillable | Some _ => true end
  end.

(** the native values for which fidelity is claimed = the values that conform to the declared
    type: integers within the declared facets and length guard, XML-compatible text, byte
    strings, calendar dates/times Python can hold, timedeltas in range *)
Definition leaf_ok (l : ltype) (v : pval) : bool :=
  match lt_spec l, v with
  | SInt T a, LInt z => ext_leb (Fin (len (str_int z))) (na_max_str_len a)
                        && it_vs T a (len (str_int z)) && it_vn T a z
  | SText, LText s => forallb xml_char s
  | SBool, LBool _ => true
  | SBytes, LBytes bs => forallb byte_ok bs
  | SDate, LDate d => valid_date d
  | STime, LTime t => valid_tod t
  | SDateTime, LDateTime v => valid_datetime v
  | SDur, LDur n => td_ok n
  | STok, LTok s => forallb xml_char s && negb (match s with [] => true | _ => false end)
  | _, _ => false
  end.

Definition spyne_leaf : leaf_codec := mkleaf leaf_pr leaf_rd leaf_vs leaf_vn leaf_ok.

Definition cfg (soft : bool) : xcfg := mkxcfg soft.

(** leaf types with default Attributes, under their XSD names *)
Definition lt_integer : ltype := mkltype (SInt class_Integer attrs_Integer) type_name_Integer.
Definition lt_string : ltype := mkltype SText [115; 116; 114; 105; 110; 103].
Definition lt_boolean : ltype := mkltype SBool [98; 111; 111; 108; 101; 97; 110].
