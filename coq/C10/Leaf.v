(** C10 leaf layer: text -> native value for the primitive kinds of the modelled universe, as
    the (repaired) readers of spyne/protocol/_inbase.py and spyne/model/binary.py behave, with
    Python exceptions as outcomes and the [except] clauses taken from Gen/ReqPipe.v.
    Definitions only.

    The scanners (regular expressions, strptime, int(), base64) are the ones of C08
    (C08/DtModel.v, DurModel.v, BinModel.v, Base/Digits.v); what is added here is the
    exception flow around the constructors [datetime()], [date()], [time()],
    [pytz.FixedOffset()], which C08 records as [Crash ValueError] and the repaired code
    turns into ValidationError. *)
From SpyneV Require Export C10.Exn Gen.ReqPipe Gen.NumTypes.
From SpyneV Require Export Base.Digits Base.Ext C08.IntModel C08.DtModel C08.DurModel C08.BinModel.

Definition nth_try (k : nat) (l : list (list handler)) : list handler := nth k l [].
Definition tryS {A} (hs : list handler) (x : res A) : res A := try_simple exn_bases hs x.
Definition tryO {A} (hs : list handler) (x : res A) (other : pyexn -> text -> res A) : res A :=
  try_ exn_bases hs x other.
Definition catchesG (cs : list pyexn) (e : pyexn) : bool := catches exn_bases cs e.

(** raise ValidationError(...) *)
Definition vfault {A} : res A := Raise EValidationError (fault_code EValidationError).

(** the outcomes of the C08 models, embedded *)
Definition conv_exn (e : Prelude.exn) : pyexn :=
  match e with
  | ValueError => EValueError | TypeError => ETypeError | AttributeError => EAttributeError
  | KeyError => EKeyError | IndexError => EIndexError | OverflowError => EOverflowError
  | BinasciiError => EBinasciiError | InvalidOperation => EInvalidOperation
  | UnicodeError => EUnicodeError | AssertionError => EAssertionError | OtherExn => EException
  end.
Definition of_out {A} (x : out A) : res A :=
  match x with Ok a => Ret a | VFault => vfault | Crash e => Raise (conv_exn e) [] end.

(** a guard [if cond: raise Fault(...)]; when the guard is not in the source the code falls
    through to [absent] (what Python does next, usually an exception) *)
Definition guard_raise {A} (g : guard) (cond : bool) (absent : res A) (k : res A) : res A :=
  if cond then (if g_present g then Raise (g_cls g) (g_code g) else absent) else k.
(** a guard [if cond: continue / return ...] *)
Definition guard_skip {A} (g : guard) (cond : bool) (skip : res A) (absent : res A) (k : res A) : res A :=
  if cond then (if g_present g then skip else absent) else k.

(** the binary encodings of spyne/model/binary.py; BDefault = BINARY_ENCODING_USE_DEFAULT (the
    protocol decides) *)
Inductive benc := BDefault | BBase64 | BUrl | BHex.

(** ---- primitive kinds of the modelled universe ---- *)
Inductive lkind :=
| LInt (max_str_len : ext)    (* Integer; a customised Integer has max_str_len = total_digits + 2 = inf *)
| LText | LBool | LDateTime | LDate | LTime | LDur
| LBytes (e : benc)           (* ByteArray with its Attributes.encoding *)
| LEnum (vals : list text).

(** native values, as far as validation looks at them *)
Inductive lval :=
| VInt (z : Z) | VBool (b : bool) | VText (t : text) | VDt (d : datetime) | VDate (d : date)
| VTime (t : tod) | VDur (us : Z) | VBytes (b : list Z) | VEnum (name : text)
| VOpaque.      (* a value handed through untouched (number protocols, validator None) *)

(** ---- readers on text (the from_unicode handler of each kind, for a non-empty str) ---- *)

(** integer_from_bytes *)
Definition read_int (msl : ext) (s : text) : res lval :=
  if negb (ext_leb (Fin (len s)) msl) then vfault
  else tryS (nth_try 0 integer_from_bytes_tries)
         (match int_of_text s with Some z => Ret (VInt z) | None => Raise EValueError [] end).

(** pytz.FixedOffset(minutes): ValueError for a day or more *)
Definition fixed_offset (m : Z) : res Z :=
  if (-1440 <? m) && (m <? 1440) then Ret m else Raise EValueError [].
(** _parse_datetime_iso_match: datetime(y, mo, d, h, mi, s, us, tz) inside its try *)
Definition parse_datetime_iso_match (d : date) (h m x : Z) (f : option text) (o : option Z) : res lval :=
  tryS (nth_try 0 parse_datetime_iso_match_tries)
       (let v := mkdt d (mktod h m x (usec_of f)) o in
        if valid_date d && valid_tod (dt_t v) then Ret (VDt v) else Raise EValueError []).
(** datetime_from_unicode_iso: _utc_re, then _offset_re, then _local_re (each ends in \Z) *)
Definition read_datetime (s : text) : res lval :=
  match scan_date s with
  | None => vfault
  | Some (d, s1) =>
      match s1 with
      | sep :: s2 =>
          if (sep =? 84) || (sep =? 32) then
            match scan_time s2 with
            | None => vfault
            | Some (h, m, x, f, rest) =>
                match rest with
                | [90] => parse_datetime_iso_match d h m x f (Some 0)
                | [] => parse_datetime_iso_match d h m x f None
                | _ =>
                    match scan_offset rest with
                    | Some (neg, oh, om, []) =>
                        let! tz := tryS (nth_try 0 datetime_from_unicode_iso_tries)
                                        (fixed_offset (offset_minutes neg oh om)) in
                        parse_datetime_iso_match d h m x f (Some tz)
                    | _ => vfault
                    end
                end
            end
          else vfault
      | [] => vfault
      end
  end.

(** date_from_unicode_iso:
      try: return date of strptime(string, '%Y-%m-%d')
      except ValueError:
          match = cls._offset_re.match(string)
          if match:
              try: return date(year, month, day)
              except ValueError: raise ValidationError(string)
          raise ValidationError(string) *)
Definition read_date_iso (s : text) : res lval :=
  tryO (nth_try 0 date_from_unicode_iso_tries)
       (match strptime_ymd s with Some d => Ret (VDate d) | None => Raise EValueError [] end)
       (fun _ _ =>
          match scan_date_tz s with
          | Some d => tryS (nth_try 1 date_from_unicode_iso_tries)
                           (if valid_date d then Ret (VDate d) else Raise EValueError [])
          | None => vfault
          end).
(** date_from_unicode with date_format None: date_from_unicode_iso inside
      try: ... except ValueError as e: <offset regex, date() in its own try>; raise ValidationError *)
Definition read_date (s : text) : res lval :=
  tryO (nth_try 0 date_from_unicode_tries) (read_date_iso s)
       (fun _ _ =>
          match scan_date_tz s with
          | Some d => tryO (nth_try 1 date_from_unicode_tries)
                           (if valid_date d then Ret (VDate d) else Raise EValueError [])
                           (fun _ _ => vfault)
          | None => vfault
          end).

(** time_from_unicode: _time_re.match (a prefix match), then time(h, m, s, us) inside its try *)
Definition read_time (s : text) : res lval :=
  match scan_time s with
  | None => vfault
  | Some (h, m, x, f, _) =>
      tryS (nth_try 0 time_from_unicode_tries)
           (let t := mktod h m x (usec_of f) in
            if valid_tod t then Ret (VTime t) else Raise EValueError [])
  end.

Definition read_duration (s : text) : res lval :=
  match of_out (duration_from_unicode s) with Ret n => Ret (VDur n) | Raise e c => Raise e c end.
(** binary_decoding_handlers[encoding](value): from_base64 / from_urlsafe_base64 / from_hex of
    spyne/model/binary.py.  The decoders are the C08 models of b64decode, urlsafe_b64decode and
    unhexlify, with their verdict "binascii.Error" taken back out ([raw_out]) so that it meets the
    [except (TypeError, ValueError)] clause that the translator read from the source. *)
Definition raw_out {A} (x : out A) : res A :=
  match x with Ok a => Ret a | VFault => Raise EBinasciiError [] | Crash e => Raise (conv_exn e) [] end.
Definition is_ascii (s : text) : bool := forallb (fun c => c <? 128) s.

(** from_base64(value) for text: b64decode(''.join(value)); a non-ASCII string is a ValueError *)
Definition from_base64 (s : text) : res (list Z) :=
  tryS (nth_try 0 from_base64_tries) (raw_out (b64decode false s)).
(** from_hex(value) for text or bytes: unhexlify(value) *)
Definition from_hex (s : text) : res (list Z) :=
  tryS (nth_try 0 from_hex_tries) (raw_out (unhexlify s)).
(** from_urlsafe_base64(value): text is encoded as UTF-8 first (every byte of a non-ASCII character
    is outside the alphabet and discarded, like the character itself in the C08 model).  Without
    that step ([g_urlsafe_text_to_bytes] absent) urlsafe_b64decode refuses non-ASCII text with
    ValueError, and the handler, which abbreviates a value of 100 characters or more with
    [value[:100] + b"(...)"], raises TypeError for text: that exception leaves the handler. *)
Definition from_urlsafe_bytes (b : list Z) : res (list Z) :=
  tryS (nth_try 1 from_urlsafe_base64_tries) (raw_out (a2b_go true 0 0 0 [] b)).
(** a lone surrogate (a JSON string may carry one) cannot be encoded: UnicodeEncodeError, under the
    first try of the function *)
Definition is_surrogate (c : Z) : bool := (55296 <=? c) && (c <=? 57343).
Definition from_urlsafe_text (s : text) : res (list Z) :=
  guard_skip g_urlsafe_text_to_bytes true
    (let! _ := tryS (nth_try 0 from_urlsafe_base64_tries)
                 (if existsb is_surrogate s then Raise EUnicodeEncodeError [] else Ret tt) in
     from_urlsafe_bytes s)
    (match (if is_ascii s then a2b_go true 0 0 0 [] s else VFault) with
     | Ok b => Ret b
     | _ => if Z.of_nat (length s) <? 100 then from_urlsafe_bytes s    (* the same ValidationError *)
            else Raise ETypeError []
     end)
    (from_urlsafe_bytes s).

Definition decode_text (e : benc) (s : text) : res (list Z) :=
  match e with
  | BDefault | BBase64 => from_base64 s
  | BUrl => from_urlsafe_text s
  | BHex => from_hex s
  end.
Definition read_bytes (e : benc) (s : text) : res lval :=
  match decode_text e s with Ret b => Ret (VBytes b) | Raise x c => Raise x c end.
Definition read_bool (s : text) : res lval := Ret (VBool (boolean_from_unicode s)).

Fixpoint text_in (x : text) (l : list text) : bool :=
  match l with [] => false | y :: r => text_eqb x y || text_in x r end.
(** enum_from_element / enum_base_from_bytes after validation: the membership guard, then
    getattr(cls, value); without the guard getattr raises AttributeError for an unknown name *)
Definition read_enum (g : guard) (vals : list text) (s : text) : res lval :=
  guard_raise g (negb (text_in s vals)) (Raise EAttributeError []) (Ret (VEnum s)).

(** the from_unicode handler of the XML protocols; [soap] selects Soap11's table, which maps
    Date to date_from_unicode_iso; [ge] is the membership guard of the calling function *)
Definition read_leaf (soap : bool) (ge : guard) (k : lkind) (s : text) : res lval :=
  match k with
  | LInt msl => read_int msl s
  | LText => Ret (VText s)
  | LBool => read_bool s
  | LDateTime => read_datetime s
  | LDate => if soap then read_date_iso s else read_date s
  | LTime => read_time s
  | LDur => read_duration s
  | LBytes e => read_bytes e s     (* XmlDocument / Soap11: the protocol default is base64 *)
  | LEnum vals => read_enum ge vals s
  end.

(** ---- soft validation of leaves with default facets ---- *)
(** validate_string(cls, value) for text [Some s] / None *)
Definition vstring (k : lkind) (nillable : bool) (txt : option text) : bool :=
  match txt with
  | None => match k with
            | LEnum _ => false                          (* None in cls.__values__ *)
            | LInt msl => validate_string_none_Integer
                        {| na_nillable := nillable; na_gt := na_gt attrs_Integer; na_ge := na_ge attrs_Integer;
                           na_lt := na_lt attrs_Integer; na_le := na_le attrs_Integer; na_values := [];
                           na_max_str_len := msl; na_min_bound := None; na_max_bound := None |}
            | _ => nillable
            end
  | Some s => match k with
              | LEnum vals => text_in s vals
              | LInt msl => validate_string_Integer
                        {| na_nillable := nillable; na_gt := na_gt attrs_Integer; na_ge := na_ge attrs_Integer;
                           na_lt := na_lt attrs_Integer; na_le := na_le attrs_Integer; na_values := [];
                           na_max_str_len := msl; na_min_bound := None; na_max_bound := None |} (len s)
              | _ => true
              end
  end.

(** days since 0001-01-01 of a valid date *)
Definition days_before_year (y : Z) : Z := (y - 1) * 365 + (y - 1) / 4 - (y - 1) / 100 + (y - 1) / 400.
Definition days_before_month (y m : Z) : Z :=
  (if 1 <? m then 31 else 0) + (if 2 <? m then (if is_leap y then 29 else 28) else 0)
  + (if 3 <? m then 31 else 0) + (if 4 <? m then 30 else 0) + (if 5 <? m then 31 else 0)
  + (if 6 <? m then 30 else 0) + (if 7 <? m then 31 else 0) + (if 8 <? m then 31 else 0)
  + (if 9 <? m then 30 else 0) + (if 10 <? m then 31 else 0) + (if 11 <? m then 30 else 0).
Definition ordinal (d : date) : Z := days_before_year (yr d) + days_before_month (yr d) (mo d) + dy d - 1.
(** microseconds since 0001-01-01T00:00:00 UTC (naive values are taken as UTC: spyne.LOCAL_TZ) *)
Definition instant (v : datetime) : Z :=
  ordinal (dt_d v) * 86400000000
  + (hr (dt_t v) * 3600 + mi (dt_t v) * 60 + se (dt_t v)) * 1000000 + us (dt_t v)
  - match dt_off v with Some m => m * 60000000 | None => 0 end.
Definition MAX_INSTANT : Z := (ordinal (mkdate 9999 12 31) + 1) * 86400000000 - 1.
(** validate_native(cls, value) for a value [Some v] / None *)
Definition vnative (k : lkind) (nillable : bool) (v : option lval) : bool :=
  match v with
  | None => nillable
  | Some (VDt d) => (0 <=? instant d) && (instant d <=? MAX_INSTANT)   (* ge = min_dt, le = max_dt, both UTC *)
  | Some _ => true
  end.
