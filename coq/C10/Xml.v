(** C10, XML / SOAP path: parsed document -> call, as the (repaired) code of
    spyne/protocol/xml.py (XmlDocument.create_in_document, decompose_incoming_envelope,
    deserialize, from_element, complex_from_element, array_from_element, *_from_element),
    spyne/protocol/soap/soap11.py (_parse_xml_string, _from_soap, Soap11.decompose_incoming_envelope,
    deserialize) and spyne/protocol/_base.py (generate_method_contexts, get_call_handles) does it.
    Definitions only.  [except] clauses, guards and raised fault classes come from Gen/ReqPipe.v.

    The document is what lxml hands over: elements with their in-scope namespace map,
    attributes, text and children, and the content-only nodes (comment, processing
    instruction, unresolved entity reference). *)
From SpyneV Require Export C10.Leaf.

(** ---- type universe ---- *)
Inductive ty :=
| TLeaf (k : lkind)
| TRef (c : nat)          (* a ComplexModel class of the application *)
| TAttr (k : lkind)             (* an XmlAttribute(T) class standing for a child ELEMENT *)
| TArr (aid : nat) (elt : ty).   (* Array(elt): a wrapper class whose handler is array_from_element;
                                   aid identifies the class object (two Array(T) calls make two classes) *)
Inductive fkind := KElem | KAttr.        (* ordinary member | XmlAttribute(T) *)
(** one entry of _type_info; f_min / f_max / f_nillable are the Attributes of the member class *)
Record field := mkfield {
  f_name : text; f_ty : ty; f_min : Z; f_max : ext; f_nillable : bool; f_kind : fkind }.
Record cls := mkcls { c_name : text; c_nillable : bool; c_fields : list field }.
(** a method: its number, its in_message (a wrapper class for a wrapped method; the argument type
    itself - primitive, Array or class - customised with sub_name = method name for a bare one)
    and that class's Attributes.nillable *)
Record msig := mkmsig { ms_id : nat; ms_ty : ty; ms_nillable : bool; ms_bare : option text }.
Record app := mkapp {
  a_tns : text;
  a_classes : list cls;
  a_registry : list (text * option (ty * bool));
                                      (* interface.classes: '{ns}TypeName' -> class and its Attributes.nillable;
                                         None: a class that is a subclass of nothing in the universe *)
  a_methods : list (text * msig)      (* interface.service_method_map: '{tns}name' -> method *)
}.

Fixpoint assoc {V} (k : text) (l : list (text * V)) : option V :=
  match l with [] => None | (x, v) :: r => if text_eqb k x then Some v else assoc k r end.
Fixpoint find_field (k : text) (fs : list field) : option field :=
  match fs with [] => None | f :: r => if text_eqb k (f_name f) then Some f else find_field k r end.
Fixpoint count_text (k : text) (l : list text) : Z :=
  match l with [] => 0 | x :: r => (if text_eqb k x then 1 else 0) + count_text k r end.

(** ---- documents ---- *)
Inductive okind := OComment | OPI | OEntity.
Inductive xnode :=
| XE (tag : text) (nsmap : list (option text * text)) (attrs : list (text * text))
     (txt : option text) (kids : list xnode)
| XO (k : okind) (txt : text).

Definition t_xsi_nil : text := [123; 104; 116; 116; 112; 58; 47; 47; 119; 119; 119; 46; 119; 51; 46; 111; 114; 103; 47; 50; 48; 48; 49; 47; 88; 77; 76; 83; 99; 104; 101; 109; 97; 45; 105; 110; 115; 116; 97; 110; 99; 101; 125; 110; 105; 108].  (* {http://www.w3.org/2001/XMLSchema-instance}nil *)
Definition t_xsi_type : text := [123; 104; 116; 116; 112; 58; 47; 47; 119; 119; 119; 46; 119; 51; 46; 111; 114; 103; 47; 50; 48; 48; 49; 47; 88; 77; 76; 83; 99; 104; 101; 109; 97; 45; 105; 110; 115; 116; 97; 110; 99; 101; 125; 116; 121; 112; 101].  (* {http://www.w3.org/2001/XMLSchema-instance}type *)
Definition t_true : text := [116; 114; 117; 101].
Definition t_one : text := [49].
Definition t_Envelope : text := [69; 110; 118; 101; 108; 111; 112; 101].
Definition t_Header : text := [72; 101; 97; 100; 101; 114].
Definition t_Body : text := [66; 111; 100; 121].
Definition t_Fault : text := [70; 97; 117; 108; 116].
Definition NS_SOAP11 : text := [104; 116; 116; 112; 58; 47; 47; 115; 99; 104; 101; 109; 97; 115; 46; 120; 109; 108; 115; 111; 97; 112; 46; 111; 114; 103; 47; 115; 111; 97; 112; 47; 101; 110; 118; 101; 108; 111; 112; 101; 47].
Definition NS_SOAP12 : text := [104; 116; 116; 112; 58; 47; 47; 119; 119; 119; 46; 119; 51; 46; 111; 114; 103; 47; 50; 48; 48; 51; 47; 48; 53; 47; 115; 111; 97; 112; 45; 101; 110; 118; 101; 108; 111; 112; 101].

(** tag.split('}', 1)[-1] *)
Fixpoint after_brace (s : text) : option text :=
  match s with
  | [] => None
  | c :: r => if c =? 125 then Some r else after_brace r
  end.
Definition local_name (tag : text) : text :=
  match after_brace tag with Some r => r | None => tag end.
(** '{%s}%s' % (ns, name) *)
Definition qname (ns name : text) : text := 123 :: ns ++ 125 :: name.
(** s.split(':', 1) when ':' in s *)
Fixpoint split_colon (s : text) : option (text * text) :=
  match s with
  | [] => None
  | c :: r => if c =? 58 then Some ([], r)
              else match split_colon r with Some (a, b) => Some (c :: a, b) | None => None end
  end.
Definition opt_text_eqb (a b : option text) : bool :=
  match a, b with Some x, Some y => text_eqb x y | None, None => true | _, _ => false end.
Fixpoint nsmap_get (p : option text) (m : list (option text * text)) : option text :=
  match m with [] => None | (k, v) :: r => if opt_text_eqb p k then Some v else nsmap_get p r end.

(** the k-th [raise <Fault>(...)] statement of a function, as the translator found it *)
Definition raise_nth {A} (k : nat) (l : list (pyexn * text)) : res A :=
  match nth_error l k with Some (c, code) => Raise c code | None => Raise EException [] end.

Definition is_multi (mx : ext) : bool := ext_ltb (Fin 1) mx.        (* max_occurs > 1 *)
Definition occurs_ok (mn : Z) (mx : ext) (n : Z) : bool := (mn <=? n) && ext_leb (Fin n) mx.

Section XmlDeser.
  Variable soap : bool.      (* Soap11/Soap12 leaf table (Date read by date_from_unicode_iso) *)
  Variable soft : bool.      (* validator is SOFT_VALIDATION *)
  Variable A : app.

  (** base_from_element / unicode_from_element / byte_array_from_element / enum_from_element on
      the text of a node.  [from_unicode] returns None for None (and would for '' only with
      Attributes.empty_is_none, which no default type sets). *)
  Definition leaf_from_element (k : lkind) (nillable : bool) (txt : option text) : res unit :=
    match k with
    | LText =>
        (* unicode_from_element: s = element.text or ''; validate_string(cls, s); from_unicode(cls, s) *)
        let s := match txt with Some s => s | None => [] end in
        if soft && negb (vstring k nillable (Some s)) then raise_nth 0 xml_unicode_from_element_raises
        else if soft && negb (vnative k nillable (Some (VText s))) then raise_nth 1 xml_unicode_from_element_raises
             else Ret tt
    | LEnum vals =>
        if soft && negb (vstring k nillable txt) then raise_nth 0 xml_enum_from_element_raises
        else guard_raise g_xml_enum_member
               (negb (match txt with Some s => text_in s vals | None => false end))
               (match txt with Some _ => Raise EAttributeError [] | None => Raise ETypeError [] end)
               (Ret tt)
    | _ =>
        let rs := match k with LBytes _ => xml_byte_array_from_element_raises | _ => xml_base_from_element_raises end in
        if soft && negb (vstring k nillable txt) then raise_nth 0 rs
        else
          let! v := match txt with
                    | None => Ret None
                    | Some s => match read_leaf soap g_xml_enum_member k s with
                                | Ret v => Ret (Some v) | Raise e c => Raise e c end
                    end in
          if soft && negb (vnative k nillable v) then raise_nth 1 rs else Ret tt
    end.

  (** from_unicode(member.type, value_str) for an XML attribute value *)
  Definition attr_from_unicode (k : lkind) (s : text) : res lval := read_leaf soap g_inbase_enum_member k s.

  (** the own attributes of a complex element (second loop of complex_from_element): returns the
      names counted in [frequencies] *)
  Fixpoint own_attrs (fs : list field) (attrs : list (text * text)) : res (list text) :=
    match attrs with
    | [] => Ret []
    | (k, v) :: r =>
        match find_field k fs with
        | None => own_attrs fs r
        | Some f =>
            guard_skip g_xml_member_attr (match f_kind f with KAttr => false | KElem => true end)
              (own_attrs fs r)
              (Raise EAttributeError [])                 (* member.type on a class that has none *)
              (match f_ty f with
               | TLeaf lk =>
                   if soft && negb (vstring lk (f_nillable f) (Some v)) then raise_nth 1 xml_complex_from_element_raises
                   else let! x := attr_from_unicode lk v in
                        if soft && negb (vnative lk (f_nillable f) (Some x)) then raise_nth 2 xml_complex_from_element_raises
                        else let! names := own_attrs fs r in Ret (k :: names)
               | _ => Raise ETypeError []                (* XmlAttribute of a non-primitive: not in the universe *)
               end)
        end
    end.

  (** the frequency check at the end of complex_from_element *)
  Fixpoint freq_check (fs : list field) (seen : list text) : res unit :=
    match fs with
    | [] => Ret tt
    | f :: r => if occurs_ok (f_min f) (f_max f) (count_text (f_name f) seen) then freq_check r seen
                else raise_nth 3 xml_complex_from_element_raises
    end.

  Definition node_attrs (n : xnode) : list (text * text) :=
    match n with XE _ _ a _ _ => a | XO _ _ => [] end.
  Definition node_text (n : xnode) : option text :=
    match n with XE _ _ _ t _ => t | XO _ t => Some t end.
  Definition node_nsmap (n : xnode) : list (option text * text) :=
    match n with XE _ m _ _ _ => m | XO _ _ => [] end.

  (** _get_xsi_target(cls, newclass): the tag must name the declared class itself (whatever its
      customisation; Array classes all originate from Array and are told apart by namespace and
      type name, which [aid] stands for) or, for complex types, a subclass - of which the
      universe has none *)
  Definition kind_same (k' k : lkind) : bool :=
    match k', k with
    | LInt _, LInt _ | LText, LText | LBool, LBool | LDateTime, LDateTime | LDate, LDate
    | LTime, LTime | LDur, LDur | LBytes _, LBytes _ => true
    | LEnum a, LEnum b => (fix eq (x y : list text) : bool :=
                             match x, y with
                             | [], [] => true
                             | u :: x', v :: y' => text_eqb u v && eq x' y'
                             | _, _ => false
                             end) a b
    | _, _ => false
    end.
  Definition xsi_target (t' t : ty) : res unit :=
    match t', t with
    | TLeaf k', TLeaf k => if kind_same k' k then Ret tt else raise_nth 1 xml_get_xsi_target_raises
    | TAttr k', TAttr k => if kind_same k' k then Ret tt else raise_nth 1 xml_get_xsi_target_raises
    | TRef c', TRef c => if Nat.eqb c' c then Ret tt else raise_nth 1 xml_get_xsi_target_raises
    | TArr a' _, TArr a _ => if Nat.eqb a' a then Ret tt else raise_nth 0 xml_get_xsi_target_raises
    | _, _ => raise_nth 1 xml_get_xsi_target_raises
    end.

  (** the head of from_element: xsi:nil, then xsi:type; returns None when the element is nil,
      else the class to deserialise and its Attributes.nillable *)
  Definition resolve_class (t : ty) (nillable : bool) (n : xnode) : res (option (ty * bool)) :=
    let at_ := node_attrs n in
    let nil := match assoc t_xsi_nil at_ with
               | Some v => text_eqb v t_true || text_eqb v t_one | None => false end in
    if nil then
      if soft && negb nillable then raise_nth 0 xml_from_element_raises else Ret None
    else
      match assoc t_xsi_type at_ with
      | None => Ret (Some (t, nillable))
      | Some v =>
          let '(p, objtype) := match split_colon v with Some (a, b) => (Some a, b) | None => (None, v) end in
          match nsmap_get p (node_nsmap n) with
          | None => raise_nth 1 xml_from_element_raises
          | Some ns =>
              match assoc (qname ns objtype) (a_registry A) with
              | None => guard_raise g_xml_xsi_type_unknown true (Raise EKeyError []) (Ret None)
              | Some None => raise_nth 1 xml_get_xsi_target_raises
              | Some (Some (t', _)) =>
                  (* the declared class is kept: xsi:type only confirms it *)
                  let! _ := xsi_target t' t in Ret (Some (t, nillable))
              end
          end
      end.

  Definition class_fields (c : nat) : option (list field) :=
    match nth_error (a_classes A) c with Some cl => Some (c_fields cl) | None => None end.

  (** from_element(ctx, cls, element): structural recursion on the document *)
  Fixpoint from_element (n : xnode) (t : ty) (nillable : bool) {struct n} : res unit :=
    let! ot := resolve_class t nillable n in
    match ot with
    | None => Ret tt
    | Some (TLeaf k, nil') => leaf_from_element k nil' (node_text n)
    | Some (TAttr k, nil') =>
        (* base_from_element on the XmlAttribute class: ModelBase validation, and
           from_unicode -> xmlattribute_from_bytes -> from_bytes(cls.type, text) *)
        let txt := node_text n in
        if soft && negb (nil' || match txt with Some _ => true | None => false end)
        then raise_nth 0 xml_base_from_element_raises
        else
          let! v := match txt with
                    | None => Ret None
                    | Some s => match read_leaf soap g_inbase_enum_member k s with
                                | Ret v => Ret (Some v) | Raise e c => Raise e c end
                    end in
          if soft && negb (nil' || match v with Some _ => true | None => false end)
          then raise_nth 1 xml_base_from_element_raises else Ret tt
    | Some (TArr _ elt, _) =>
        (* array_from_element: every child node, whatever its tag; under soft validation the
           number of items is then held against the occurrence bounds of the item type, which are
           (0, unbounded) for every Array of the universe *)
        match n with
        | XO _ _ => Ret tt
        | XE _ _ _ _ kids =>
            (fix go (l : list xnode) : res unit :=
               match l with
               | [] => Ret tt
               | k :: r => let! _ := from_element k elt true in go r
               end) kids
        end
    | Some (TRef c, _) =>
        match class_fields c with
        | None => Raise EKeyError []                     (* outside the universe *)
        | Some fs =>
            (* complex_from_element *)
            let! seen :=
              match n with
              | XO _ _ => Ret []
              | XE _ _ _ _ kids =>
                  (fix go (l : list xnode) : res (list text) :=
                     match l with
                     | [] => Ret []
                     | k :: r =>
                         match k with
                         | XO OEntity _ =>
                             guard_skip g_xml_skip_comment_pi false (go r) (Raise EAttributeError [])
                               (guard_raise g_xml_entity true (Raise EAttributeError []) (go r))
                         | XO _ _ =>
                             guard_skip g_xml_skip_comment_pi true (go r) (Raise EAttributeError []) (go r)
                         | XE tag _ _ _ _ =>
                             let key := local_name tag in
                             match find_field key fs with
                             | None => let! names := go r in Ret (key :: names)
                             | Some f =>
                                 (* a child element named like an XmlAttribute member is no occurrence
                                    of it: skipped, neither counted nor decoded.  Without that guard it
                                    is decoded as the attribute's type and counted *)
                                 let decode :=
                                   let t := match f_kind f, f_ty f with
                                            | KAttr, TLeaf lk => TAttr lk | _, t => t end in
                                   let! _ := from_element k t (f_nillable f) in
                                   let! names := go r in Ret (key :: names) in
                                 guard_skip g_xml_child_attr_member
                                   (match f_kind f with KAttr => true | KElem => false end)
                                   (go r) decode decode
                             end
                         end
                     end) kids
              end in
            let! anames := own_attrs fs (node_attrs n) in
            if soft then freq_check fs (seen ++ anames) else Ret tt
        end
    end.
End XmlDeser.

(** ---- method lookup (ProtocolBase.generate_method_contexts / get_call_handles) ---- *)
Definition get_call_handles (A : app) (name : option text) : res (option msig) :=
  match name with
  | None => guard_skip g_call_handles_name_none true (Ret None) (Raise EAttributeError []) (Ret None)
  | Some nm =>
      let full := match nm with 123 :: _ => nm | _ => qname (a_tns A) nm end in
      Ret (assoc full (a_methods A))
  end.
Definition generate_method_contexts (A : app) (name : option text) : res msig :=
  let! h := get_call_handles A name in
  match h with
  | Some c => Ret c
  | None => guard_raise g_method_not_found true (Raise EIndexError []) (Raise EIndexError [])
  end.

(** ---- what the parser library may do ---- *)
Inductive lib_result (D : Type) := LibOk (d : D) | LibRaise (e : pyexn).
Arguments LibOk {D} d.
Arguments LibRaise {D} e.
Definition of_lib {D} (r : lib_result D) : res D :=
  match r with LibOk d => Ret d | LibRaise e => Raise e [] end.

(** validate_document: the lxml XMLSchema verdict when the validator is 'lxml' *)
Definition validate_document (schema_verdict : option bool) : res unit :=
  match schema_verdict with
  | Some false => raise_nth 0 xml_validate_lxml_raises
  | _ => Ret tt
  end.

(** ---- XmlDocument ---- *)
(** create_in_document: etree.fromstring(bytes) inside
      try: try: ... except ValueError: <decode with the charset and parse again>
      except XMLSyntaxError: raise Fault('Client.XMLSyntaxError')
    [second] is what the second attempt does (decode + parse), consulted only when the first
    raised something the inner clause catches *)
Definition xml_create_in_document (first second : lib_result xnode) : res xnode :=
  tryS (nth_try 0 xml_create_in_document_tries)
       (tryO (nth_try 1 xml_create_in_document_tries) (of_lib first) (fun _ _ => of_lib second)).

Definition node_tag (n : xnode) : option text :=
  match n with XE tag _ _ _ _ => Some tag | XO _ _ => None end.

Record xml_request := mkxreq {
  xr_first : lib_result xnode; xr_second : lib_result xnode; xr_schema : option bool }.

(** ServerBase.generate_contexts + get_in_object for XmlDocument, before the Fault handlers of
    server/_base.py are applied: returns the in_message class and the body element *)
Definition xml_decode_head (A : app) (rq : xml_request) : res (msig * xnode) :=
  let! root := xml_create_in_document (xr_first rq) (xr_second rq) in
  (* decompose_incoming_envelope: method_request_string = root.tag; validate_body *)
  let! _ := validate_document (xr_schema rq) in
  let! c := generate_method_contexts A (node_tag root) in
  Ret (c, root).
(** deserialize: from_element on the request element with the in_message class.  A None result
    (empty or xsi:nil request element) becomes a list of absent arguments for a wrapped method
    and stays None for a bare one: neither raises *)
Definition xml_deserialize (soft : bool) (A : app) (m : msig) (body : xnode) : res unit :=
  from_element false soft A body (ms_ty m) (ms_nillable m).

(** ---- Soap11 / Soap12 ---- *)
(** _parse_xml_string(in_string, parser, charset):
      if charset: try: string.decode(charset) except UnicodeDecodeError: raise Fault(XMLSyntaxError)
      try: try: etree.XMLID(string) except ValueError: XMLID(string.encode(charset))
      except XMLSyntaxError: raise Fault('Client.XMLSyntaxError') *)
Definition soap_parse_xml_string (decode : option pyexn) (first second : lib_result xnode) : res xnode :=
  let! _ := tryS (nth_try 0 soap_parse_xml_string_tries)
                 (match decode with Some e => Raise e [] | None => Ret tt end) in
  tryS (nth_try 1 soap_parse_xml_string_tries)
       (tryO (nth_try 2 soap_parse_xml_string_tries) (of_lib first) (fun _ _ => of_lib second)).

Definition is_elem_named (nm : text) (n : xnode) : bool :=
  match n with XE tag _ _ _ _ => text_eqb tag nm | XO _ _ => false end.
Fixpoint first_elem (l : list xnode) : option xnode :=
  match l with
  | [] => None
  | (XE _ _ _ _ _ as e) :: _ => Some e
  | XO _ _ :: r => first_elem r
  end.
Definition node_kids (n : xnode) : list xnode :=
  match n with XE _ _ _ _ k => k | XO _ _ => [] end.

(** _from_soap without href resolution (the envelope carries no id attribute): the body element *)
Definition from_soap (ns_soap : text) (env : xnode) : res (option xnode) :=
  guard_raise g_soap_envelope_tag
    (negb (match node_tag env with Some t => text_eqb t (qname ns_soap t_Envelope) | None => false end))
    (Ret None)      (* without the check the xpath calls below just find nothing *)
    (let headers := filter (is_elem_named (qname ns_soap t_Header)) (node_kids env) in
     let bodies := filter (is_elem_named (qname ns_soap t_Body)) (node_kids env) in
     guard_raise g_soap_envelope_empty
       (match headers, bodies with [], [] => true | _, _ => false end)
       (Ret None)
       (match bodies with
        | [] => Ret None
        | b :: _ => Ret (first_elem (node_kids b))
        end)).

Record soap_request := mksreq {
  sr_decode : option pyexn; sr_first : lib_result xnode; sr_second : lib_result xnode;
  sr_schema : option bool }.

Definition soap_decode_head (ns_soap : text) (A : app) (rq : soap_request) : res (msig * xnode) :=
  let! env := soap_parse_xml_string (sr_decode rq) (sr_first rq) (sr_second rq) in
  let! ob := from_soap ns_soap env in
  (* Soap11.decompose_incoming_envelope *)
  match ob with
  | None => guard_raise g_soap_body_none true (Raise EAttributeError []) (Raise EAttributeError [])
  | Some body =>
      let is_fault := match node_tag body with
                      | Some t => text_eqb t (qname ns_soap t_Fault) | None => false end in
      let! mrs := if is_fault then Ret None
                  else let! _ := validate_document (sr_schema rq) in Ret (node_tag body) in
      let! c := generate_method_contexts A mrs in
      Ret (c, body)
  end.
Definition soap_deserialize (soft : bool) (A : app) (m : msig) (body : xnode) : res unit :=
  from_element true soft A body (ms_ty m) (ms_nillable m).
