(** C10: comparison functions for the correspondence case files.  Definitions only. *)
From SpyneV Require Export C10.Pipe.

Definition outcome_eqb (a b : outcome) : bool :=
  match a, b with
  | Called x, Called y => Nat.eqb x y
  | Answered c1 k1, Answered c2 k2 => exn_eq c1 c2 && text_eqb k1 k2
  | Escaped e1 _, Escaped e2 _ => exn_eq e1 e2
  | _, _ => false
  end.
(** the class of what a leaf reader did: None = a value *)
Definition res_class {A} (x : res A) : option (pyexn * text) :=
  match x with Ret _ => None | Raise e c => Some (e, c) end.
Definition oclass_eqb (a b : option (pyexn * text)) : bool :=
  match a, b with
  | None, None => true
  | Some (e1, c1), Some (e2, c2) => exn_eq e1 e2 && text_eqb c1 c2
  | _, _ => false
  end.
Definition fmt_const (t : text) (_ : jv) : text := t.
(** through WSGI the harness sees the fault code of the response, not the class of the fault *)
Definition outcome_code_eqb (a b : outcome) : bool :=
  match a, b with
  | Called x, Called y => Nat.eqb x y
  | Answered _ k1, Answered _ k2 => text_eqb k1 k2
  | Escaped e1 _, Escaped e2 _ => exn_eq e1 e2
  | _, _ => false
  end.
