(** C10 proofs, part 3: the property-level statements (used by Props/C10.v). *)
From SpyneV Require Import C10.Pipe C10.Proofs C10.ProofsDict.
From Coq Require Import Lia.
Set Default Timeout 60.

Lemma exn_eq_fuel e : exn_eq e EOutOfFuel = true -> e = EOutOfFuel.
Proof. destruct e; vm_compute; intros H; try discriminate H; reflexivity. Qed.

(** the transports, when deserialisation may run out of model fuel *)
Section ServerFuel.
  Variable H : Type.
  Variable head : res H.
  Variable deser : H -> res unit.
  Variable cls_of : H -> nat.
  Hypothesis Hhead : safe head.
  Hypothesis Hdeser : forall h, head = Ret h -> safeF (deser h).

  Lemma get_in_object_okF h : head = Ret h ->
    match get_in_object H deser h with
    | Ret None => deser h = Ret tt
    | Ret (Some (e, c)) => is_fault e = true /\ is_client c = true
    | Raise e _ => e = EOutOfFuel
    end.
  Proof.
    intros Eh. unfold get_in_object.
    replace (psteps_eqb get_in_object_steps _) with true by reflexivity.
    pose proof (Hdeser h Eh) as Hd.
    destruct (deser h) as [[]|e c] eqn:E.
    - reflexivity.
    - simpl rbind. destruct Hd as [Hf|Hd].
      + apply exn_eq_fuel in Hf. subst e. vm_compute. reflexivity.
      + rewrite (caught_by_fault e c _ _ eq_refl); [exact Hd | apply Hd].
  Qed.

  Lemma server_run_goodF : good_or_fuel (server_run H head deser cls_of) = true.
  Proof.
    unfold server_run. pose proof (generate_contexts_ok H head Hhead) as G.
    destruct (generate_contexts H head) as [[h|[e c]]|e c]; [| |contradiction].
    - pose proof (get_in_object_okF h G) as I.
      destruct (get_in_object H deser h) as [[[e c]|]|e c].
      + simpl. destruct I as [I1 I2]. unfold is_fault in I1. rewrite I1, I2. reflexivity.
      + reflexivity.
      + subst e. reflexivity.
    - simpl. destruct G as [I1 I2]. unfold is_fault in I1. rewrite I1, I2. reflexivity.
  Qed.

  Variable reconstruct : res unit.
  Hypothesis Hrec : safe reconstruct.
  Lemma wsgi_run_goodF : good_or_fuel (wsgi_run H head deser cls_of reconstruct) = true.
  Proof.
    unfold wsgi_run. unfold handle_rpc_steps. cbn [wsgi_steps].
    destruct reconstruct as [[]|e c] eqn:Er.
    - simpl rbind. cbn [tryO try_].
      pose proof (generate_contexts_ok H head Hhead) as G.
      destruct (generate_contexts H head) as [[h|[e c]]|e c]; [| |contradiction].
      + cbn [w_in_error w_ctx w_called].
        pose proof (get_in_object_okF h G) as I.
        destruct (get_in_object H deser h) as [[[e c]|]|e c].
        * cbn [w_in_error]. simpl. destruct I as [I1 I2]. unfold is_fault in I1. rewrite I1, I2. reflexivity.
        * cbn [w_in_error w_ctx w_called]. reflexivity.
        * subst e. reflexivity.
      + cbn [w_in_error]. simpl. destruct G as [I1 I2]. unfold is_fault in I1. rewrite I1, I2. reflexivity.
    - simpl rbind. rewrite (caught_by_fault e c _ _ eq_refl); [|apply Hrec].
      simpl. destruct Hrec as [I1 I2]. unfold is_fault in I1. rewrite I1, I2. reflexivity.
  Qed.
End ServerFuel.

(** ---- XmlDocument ---- *)
Lemma xml_deser_safe soft A rq h :
  wf_app A = true -> xml_request_ok rq -> xml_decode_head A rq = Ret h ->
  safe (xml_deserialize soft A (fst h) (snd h)).
Proof.
  intros WF Hr E. destruct h as [m body]. unfold xml_deserialize.
  apply from_element_safe; auto. apply ty_wf_top_of_wf.
  destruct (xml_decode_head_safe A rq WF Hr) as [_ Hl]. eapply Hl; eauto.
Qed.

Theorem xml_total soft A rq :
  wf_app A = true -> xml_request_ok rq -> good (xml_server soft A rq) = true.
Proof.
  intros WF Hr. unfold xml_server. apply server_run_good.
  - apply xml_decode_head_safe; auto.
  - intros h E. eapply xml_deser_safe; eauto.
Qed.
Theorem xml_wsgi_total soft A reconstruct rq :
  wf_app A = true -> xml_request_ok rq -> safe reconstruct -> good (xml_wsgi soft A reconstruct rq) = true.
Proof.
  intros WF Hr Hrec. unfold xml_wsgi. apply wsgi_run_good; auto.
  - apply xml_decode_head_safe; auto.
  - intros h E. eapply xml_deser_safe; eauto.
Qed.

(** ---- Soap11 / Soap12 ---- *)
Lemma soap_deser_safe ns soft A rq h :
  wf_app A = true -> soap_request_ok rq -> soap_decode_head ns A rq = Ret h ->
  safe (soap_deserialize soft A (fst h) (snd h)).
Proof.
  intros WF Hr E. destruct h as [m body]. unfold soap_deserialize.
  apply from_element_safe; auto. apply ty_wf_top_of_wf.
  destruct (soap_decode_head_safe ns A rq WF Hr) as [_ Hl]. eapply Hl; eauto.
Qed.
Theorem soap_total ns soft A rq :
  wf_app A = true -> soap_request_ok rq -> good (soap_server ns soft A rq) = true.
Proof.
  intros WF Hr. unfold soap_server. apply server_run_good.
  - apply soap_decode_head_safe; auto.
  - intros h E. eapply soap_deser_safe; eauto.
Qed.
Theorem soap_wsgi_total ns soft A reconstruct rq :
  wf_app A = true -> soap_request_ok rq -> safe reconstruct ->
  good (soap_wsgi ns soft A reconstruct rq) = true.
Proof.
  intros WF Hr Hrec. unfold soap_wsgi. apply wsgi_run_good; auto.
  - apply soap_decode_head_safe; auto.
  - intros h E. eapply soap_deser_safe; eauto.
Qed.

(** ---- Json / Yaml / MessagePack ---- *)
Lemma dict_deser_safeF fmt P soft A fuel rq h :
  wf_app A = true -> dict_request_ok P rq -> dict_decode_head fmt P A rq = Ret h ->
  safeF (dict_deserialize P soft A fuel (fst (fst h)) (snd (fst h)) (snd h)).
Proof.
  intros WF Hr E. destruct h as [[m k] v]. simpl.
  apply dict_deserialize_safeF; auto.
  destruct (dict_decode_head_safe fmt P A rq WF Hr) as [_ Hl]. eapply Hl; eauto.
Qed.
Theorem dict_total fmt P soft A fuel rq :
  wf_app A = true -> dict_request_ok P rq -> good_or_fuel (dict_server fmt P soft A fuel rq) = true.
Proof.
  intros WF Hr. unfold dict_server. apply server_run_goodF.
  - apply dict_decode_head_safe; auto.
  - intros h E. eapply dict_deser_safeF; eauto.
Qed.
Theorem dict_wsgi_total fmt P soft A fuel reconstruct rq :
  wf_app A = true -> dict_request_ok P rq -> safe reconstruct ->
  good_or_fuel (dict_wsgi fmt P soft A fuel reconstruct rq) = true.
Proof.
  intros WF Hr Hrec. unfold dict_wsgi. apply wsgi_run_goodF; auto.
  - apply dict_decode_head_safe; auto.
  - intros h E. eapply dict_deser_safeF; eauto.
Qed.

(** enough fuel for every method's message class *)
Definition fuel_fits (A : app) (fuel : nat) : bool :=
  forallb (fun kv => fits A fuel (ms_ty (snd kv))) (a_methods A).

Lemma fits_of_methods A fuel k c :
  fuel_fits A fuel = true -> assoc k (a_methods A) = Some c -> fits A fuel (ms_ty c) = true.
Proof.
  unfold fuel_fits. intros F H. rewrite forallb_forall in F.
  induction (a_methods A) as [|[x v] r IH]; simpl in *; [discriminate|].
  destruct (text_eqb k x).
  - inversion H; subst. exact (F (x, c) (or_introl eq_refl)).
  - apply IH; auto.
Qed.

Lemma generate_method_contexts_fits A name fuel c :
  fuel_fits A fuel = true -> generate_method_contexts A name = Ret c -> fits A fuel (ms_ty c) = true.
Proof.
  intros F. unfold generate_method_contexts, get_call_handles.
  destruct name as [nm|].
  - simpl. destruct (assoc _ (a_methods A)) as [c'|] eqn:E.
    + intros H. inversion H; subst. eapply fits_of_methods; eauto.
    + vm_compute. discriminate.
  - vm_compute. discriminate.
Qed.

Lemma dict_decode_head_fits fmt P A rq fuel c k v :
  fuel_fits A fuel = true -> dict_decode_head fmt P A rq = Ret (c, k, v) -> fits A fuel (ms_ty c) = true.
Proof.
  intros F. unfold dict_decode_head.
  destruct (dict_create_in_document P rq) as [doc|e x]; [|discriminate].
  cbn [rbind].
  assert (Bad : @guard_raise (msig * jv * jv) g_dict_one_key true (Raise EValueError []) (Raise EValueError [])
                = Ret (c, k, v) -> fits A fuel (ms_ty c) = true).
  { vm_compute. discriminate. }
  destruct doc as [| | | | | | |kv|]; try exact Bad.
  destruct kv as [|[k0 v0] [|]]; try exact Bad.
  destruct (method_request_string fmt P A k0) as [mrs|e x]; [|discriminate].
  cbn [rbind].
  destruct (generate_method_contexts A (Some mrs)) as [c'|e x] eqn:E; [|discriminate].
  cbn [rbind]. intros H. inversion H; subst. eapply generate_method_contexts_fits; eauto.
Qed.

Theorem dict_fuel_sufficient fmt P soft A fuel rq :
  wf_app A = true -> dict_request_ok P rq -> fuel_fits A fuel = true ->
  good (dict_server fmt P soft A fuel rq) = true.
Proof.
  intros WF Hr F. unfold dict_server. apply server_run_good.
  - apply dict_decode_head_safe; auto.
  - intros [[m k] v] E. simpl. unfold dict_deserialize. cbv zeta.
    match goal with |- context [if ?b then v else JNull] => set (doc := if b then v else JNull) end. clearbody doc.
    destruct (dict_decode_head_safe fmt P A rq WF Hr) as [_ Hl].
    pose proof (Hl _ _ _ E) as Wm.
    pose proof (dict_decode_head_fits fmt P A rq fuel _ _ _ F E) as Fm.
    pose proof (complex_of_wf A _ Wm) as Hc.
    assert (G : safe (match ms_ty m with
                      | TLeaf kd => leaf_from_dict_value P soft kd (ms_nillable m) doc
                      | t => doc_to_object P soft A fuel t doc end)).
    { destruct (ms_ty m); try (apply doc_to_object_safe; auto).
      apply leaf_from_dict_value_safe. }
    destruct (ms_bare m); [destruct doc; try exact G; exact I | exact G].
Qed.

(** ---- the user function runs only when nothing was raised at any stage ---- *)
Theorem called_only_without_fault (H : Type) (head : res H) (deser : H -> res unit) (cls_of : H -> nat)
    (reconstruct : res unit) c :
  safe head -> (forall h, head = Ret h -> safeF (deser h)) -> safe reconstruct ->
  (server_run H head deser cls_of = Called c -> exists h, head = Ret h /\ deser h = Ret tt /\ c = cls_of h)
  /\ (wsgi_run H head deser cls_of reconstruct = Called c ->
      reconstruct = Ret tt /\ exists h, head = Ret h /\ deser h = Ret tt /\ c = cls_of h).
Proof.
  intros Hh Hd Hr. split.
  - unfold server_run. pose proof (generate_contexts_ok H head Hh) as G.
    destruct (generate_contexts H head) as [[h|[e k]]|e k]; try discriminate.
    pose proof (get_in_object_okF H head deser Hd h G) as I.
    destruct (get_in_object H deser h) as [[[e k]|]|e k]; try discriminate.
    intros E. inversion E. exists h. auto.
  - unfold wsgi_run. unfold handle_rpc_steps. cbn [wsgi_steps].
    destruct reconstruct as [[]|e k] eqn:Er.
    + simpl rbind. cbn [tryO try_].
      pose proof (generate_contexts_ok H head Hh) as G.
      destruct (generate_contexts H head) as [[h|[e k]]|e k]; [| |contradiction].
      * cbn [w_in_error w_ctx w_called].
        pose proof (get_in_object_okF H head deser Hd h G) as I.
        destruct (get_in_object H deser h) as [[[e k]|]|e k].
        -- cbn [w_in_error]. discriminate.
        -- cbn [w_in_error w_ctx w_called]. intros E. inversion E. split; auto. exists h. auto.
        -- discriminate.
      * cbn [w_in_error]. discriminate.
    + simpl rbind. rewrite (caught_by_fault e k _ _ eq_refl); [|apply Hr]. discriminate.
Qed.

Theorem get_out_object_guard e c : get_out_object_on_error e c = Escaped e c.
Proof. reflexivity. Qed.

(** ---- binary data: every encoding, text of every length, byte strings ---- *)
Theorem binary_total e s :
  safe (read_bytes e s) /\ safe (from_urlsafe_bytes s) /\ safe (from_hex s).
Proof. auto using read_bytes_safe, from_urlsafe_bytes_safe, from_hex_safe. Qed.

(** ---- the charset of the Content-Type header ---- *)
Definition CODEC_LOOKUP_RAISES := [ELookupError; ETypeError; EValueError].
Theorem reconstruct_safe cl :
  match cl with CLRaise e => mem_exn e CODEC_LOOKUP_RAISES = true | _ => True end ->
  safe (reconstruct_wsgi_request cl).
Proof.
  destruct cl as [|e|[|]]; intros H; try conc.
  destruct e; vm_compute in H; try discriminate H; conc.
Qed.

(** ---- what escapes when PyYAML itself fails with something that is no YAMLError ---- *)
Theorem yaml_syntax_refuted :
  exists e, ~ safe (yaml_create_in_document None (@LibRaise jv e)).
Proof. exists EAttributeError. vm_compute. intros [H _]. discriminate H. Qed.
