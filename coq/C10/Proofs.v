(** C10 proofs, part 1: outcomes that are "safe" (a value or a fault of the Client family), the
    leaf readers, the try/except tables. *)
From SpyneV Require Import C10.Pipe C08.DurProofs C08.BinProofs.
From Coq Require Import Lia.

Set Default Timeout 60.
Arguments vstring : simpl never.
Arguments vnative : simpl never.
Arguments read_leaf : simpl never.
Arguments attr_from_unicode : simpl never.
Arguments raise_nth : simpl never.
Arguments guard_raise : simpl never.
Arguments guard_skip : simpl never.
Arguments occurs_ok : simpl never.

Definition is_fault (e : pyexn) : bool := isinst exn_bases e EFault.

(** a value, or a spyne Fault whose code is in the Client family *)
Definition safe {A} (x : res A) : Prop :=
  match x with Ret _ => True | Raise e c => is_fault e = true /\ is_client c = true end.
(** the same, or the model's own fuel sentinel *)
Definition safeF {A} (x : res A) : Prop :=
  match x with
  | Ret _ => True
  | Raise e c => exn_eq e EOutOfFuel = true \/ (is_fault e = true /\ is_client c = true)
  end.

Lemma safe_safeF {A} (x : res A) : safe x -> safeF x.
Proof. destruct x; simpl; auto. Qed.

Lemma safe_bind {A B} (x : res A) (f : A -> res B) :
  safe x -> (forall a, x = Ret a -> safe (f a)) -> safe (rbind x f).
Proof. destruct x; simpl; auto. Qed.
Lemma safeF_bind {A B} (x : res A) (f : A -> res B) :
  safeF x -> (forall a, x = Ret a -> safeF (f a)) -> safeF (rbind x f).
Proof. destruct x; simpl; auto. Qed.

Lemma safe_ret {A} (a : A) : safe (Ret a).
Proof. exact I. Qed.
Lemma safe_vfault {A} : safe (@vfault A).
Proof. vm_compute. auto. Qed.
#[export] Hint Resolve safe_ret safe_vfault : c10.

(** closing a goal whose outcome is concrete *)
Ltac conc := first [ exact I | apply safe_vfault | (timeout 10 vm_compute; (exact I || (split; reflexivity))) ].
(** case analysis on the condition of the [if] at the head of the outcome *)
Ltac dif := match goal with |- safe (if ?c then _ else _) => destruct c end.

(** a guard that the translator found in the source: take its branch *)
Ltac useg :=
  unfold guard_skip, guard_raise;
  repeat match goal with |- context [g_present ?g] => change (g_present g) with true end;
  cbv iota.

(** of_out of a C08 reader that never crashes *)
Lemma of_out_safe {A} (x : out A) : is_crash x = false -> safe (of_out x).
Proof. destruct x; simpl; intros; try discriminate; conc. Qed.

(** ---- leaf readers ---- *)
Lemma read_int_safe msl s : safe (read_int msl s).
Proof.
  unfold read_int. destruct (negb _); [conc|].
  destruct (int_of_text s); conc.
Qed.

Lemma parse_match_safe d h m x f o : safe (parse_datetime_iso_match d h m x f o).
Proof. unfold parse_datetime_iso_match. cbv zeta. destruct (valid_date d && _); conc. Qed.

Lemma offset_branch_safe d h m x f rest :
  safe (match scan_offset rest with
        | Some (neg, oh, om, []) =>
            let! tz := tryS (nth_try 0 datetime_from_unicode_iso_tries)
                            (fixed_offset (offset_minutes neg oh om)) in
            parse_datetime_iso_match d h m x f (Some tz)
        | _ => vfault end).
Proof.
  destruct (scan_offset rest) as [[[[neg oh] om] r']|]; [|conc].
  destruct r'; [|conc].
  apply safe_bind.
  - unfold fixed_offset. destruct (_ && _); conc.
  - intros. apply parse_match_safe.
Qed.

Lemma read_datetime_safe s : safe (read_datetime s).
Proof.
  unfold read_datetime.
  destruct (scan_date s) as [[d s1]|]; [|conc].
  destruct s1 as [|sep s2]; [conc|].
  destruct ((sep =? 84) || (sep =? 32)); [|conc].
  destruct (scan_time s2) as [[[[[h m] x] f] rest]|]; [|conc].
  repeat match goal with
         | |- safe (parse_datetime_iso_match _ _ _ _ _ _) => apply parse_match_safe
         | |- safe (match scan_offset ?r with _ => _ end) => apply offset_branch_safe
         | |- safe (match ?x with _ => _ end) => destruct x
         end.
Qed.

Lemma read_date_iso_safe s : safe (read_date_iso s).
Proof.
  unfold read_date_iso. destruct (strptime_ymd s); [conc|].
  unfold tryO, try_, nth_try; simpl.
  change (safe (match scan_date_tz s with
                | Some d => tryS (nth_try 1 date_from_unicode_iso_tries)
                                 (if valid_date d then Ret (VDate d) else Raise EValueError [])
                | None => vfault end)) || idtac.
  destruct (scan_date_tz s); [|conc]. destruct (valid_date d); conc.
Qed.

Lemma read_date_safe s : safe (read_date s).
Proof.
  unfold read_date.
  pose proof (read_date_iso_safe s) as H.
  destruct (read_date_iso s) as [v|e c]; [conc|].
  (* a Fault is not a ValueError: the handler does not catch it; anything it did catch is
     turned into ValidationError *)
  destruct H as [Hf Hc].
  unfold tryO, try_, nth_try. cbn [nth date_from_unicode_tries].
  cbn [find_handler h_classes].
  destruct (catches exn_bases [EValueError] e) eqn:Ec.
  - cbn [h_action]. destruct (scan_date_tz s); [|conc]. destruct (valid_date d); conc.
  - simpl. auto.
Qed.

Lemma read_time_safe s : safe (read_time s).
Proof.
  unfold read_time. destruct (scan_time s) as [[[[[h m] x] f] rest]|]; [|conc].
  cbv zeta. destruct (valid_tod _); conc.
Qed.

Lemma read_duration_safe s : safe (read_duration s).
Proof.
  unfold read_duration. pose proof (of_out_safe _ (duration_total s)) as H.
  destruct (of_out (duration_from_unicode s)); auto.
Qed.

(** a C08 decoder that never crashes, under the except clause of its caller *)
Lemma from_base64_safe s : safe (from_base64 s).
Proof. unfold from_base64. pose proof (b64decode_total false s). destruct (b64decode false s); try discriminate; conc. Qed.
Lemma from_hex_safe s : safe (from_hex s).
Proof. unfold from_hex. pose proof (unhexlify_total s). destruct (unhexlify s); try discriminate; conc. Qed.
Lemma from_urlsafe_bytes_safe b : safe (from_urlsafe_bytes b).
Proof.
  unfold from_urlsafe_bytes. pose proof (a2b_go_total true b 0 0 0 []).
  destruct (a2b_go true 0 0 0 [] b); try discriminate; conc.
Qed.
Lemma from_urlsafe_text_safe s : safe (from_urlsafe_text s).
Proof. unfold from_urlsafe_text. useg. destruct (existsb _ s); [conc|]. apply from_urlsafe_bytes_safe. Qed.
Lemma decode_text_safe e s : safe (decode_text e s).
Proof. destruct e; simpl; auto using from_base64_safe, from_hex_safe, from_urlsafe_text_safe. Qed.
Lemma read_bytes_safe e s : safe (read_bytes e s).
Proof. unfold read_bytes. pose proof (decode_text_safe e s). destruct (decode_text e s); auto. Qed.

Lemma read_enum_safe_xml vals s : safe (read_enum g_xml_enum_member vals s).
Proof. unfold read_enum. destruct (negb _); conc. Qed.
Lemma read_enum_safe_inbase vals s : safe (read_enum g_inbase_enum_member vals s).
Proof. unfold read_enum. destruct (negb _); conc. Qed.

(** C10_leaf_total: every reader of the modelled kinds, on every text, returns a value or raises
    a Client fault *)
Lemma read_leaf_safe_xml soap k s : safe (read_leaf soap g_xml_enum_member k s).
Proof.
  unfold read_leaf. destruct k; auto using read_int_safe, read_datetime_safe, read_time_safe, read_duration_safe,
    read_bytes_safe, read_enum_safe_xml; try exact I.
  destruct soap; auto using read_date_iso_safe, read_date_safe.
Qed.
Lemma read_leaf_safe_inbase soap k s : safe (read_leaf soap g_inbase_enum_member k s).
Proof.
  unfold read_leaf. destruct k; auto using read_int_safe, read_datetime_safe, read_time_safe, read_duration_safe,
    read_bytes_safe, read_enum_safe_inbase; try exact I.
  destruct soap; auto using read_date_iso_safe, read_date_safe.
Qed.

(** ---- universes ---- *)
(** a declared type: class references resolve; an XmlAttribute class occurs only as the class of
    a child element or in the registry (ty_wf_top), never inside an array *)
Fixpoint ty_wf (n : nat) (t : ty) : bool :=
  match t with
  | TLeaf _ => true
  | TAttr _ => false
  | TRef c => Nat.ltb c n
  | TArr _ e => ty_wf n e
  end.
Definition ty_wf_top (n : nat) (t : ty) : bool :=
  match t with TAttr _ => true | _ => ty_wf n t end.
Lemma ty_wf_top_of_wf n t : ty_wf n t = true -> ty_wf_top n t = true.
Proof. destruct t; simpl; auto. Qed.
Definition field_wf (n : nat) (f : field) : bool :=
  ty_wf n (f_ty f) && match f_kind f, f_ty f with KAttr, TLeaf _ => true | KAttr, _ => false | KElem, _ => true end.
Definition wf_app (A : app) : bool :=
  let n := length (a_classes A) in
  forallb (fun c => forallb (field_wf n) (c_fields c)) (a_classes A)
  && forallb (fun kv => match snd kv with Some (t, _) => ty_wf_top n t | None => true end) (a_registry A)
  && forallb (fun kv => ty_wf n (ms_ty (snd kv))) (a_methods A).

Lemma wf_class_fields A c :
  wf_app A = true -> (c < length (a_classes A))%nat ->
  exists fs, class_fields A c = Some fs /\ forallb (field_wf (length (a_classes A))) fs = true.
Proof.
  unfold wf_app, class_fields. intros W Hc.
  apply andb_prop in W as [W _]. apply andb_prop in W as [W _].
  destruct (nth_error (a_classes A) c) as [cl|] eqn:E.
  - exists (c_fields cl). split; auto.
    rewrite forallb_forall in W. apply W. eapply nth_error_In; eauto.
  - apply nth_error_None in E. lia.
Qed.
Lemma wf_registry A k t nil :
  wf_app A = true -> assoc k (a_registry A) = Some (Some (t, nil)) -> ty_wf_top (length (a_classes A)) t = true.
Proof.
  unfold wf_app. intros W H.
  apply andb_prop in W as [W _]. apply andb_prop in W as [_ W].
  rewrite forallb_forall in W.
  induction (a_registry A) as [|[x v] r IH]; simpl in *; [discriminate|].
  destruct (text_eqb k x).
  - inversion H; subst. exact (W (x, Some (t, nil)) (or_introl eq_refl)).
  - apply IH; auto.
Qed.
Lemma wf_methods A k m :
  wf_app A = true -> assoc k (a_methods A) = Some m -> ty_wf (length (a_classes A)) (ms_ty m) = true.
Proof.
  unfold wf_app. intros W H. apply andb_prop in W as [_ W].
  rewrite forallb_forall in W.
  induction (a_methods A) as [|[x v] r IH]; simpl in *; [discriminate|].
  destruct (text_eqb k x).
  - inversion H; subst. exact (W (x, m) (or_introl eq_refl)).
  - apply IH; auto.
Qed.
Lemma find_field_wf n k fs f :
  forallb (field_wf n) fs = true -> find_field k fs = Some f -> field_wf n f = true.
Proof.
  induction fs as [|g r IH]; simpl; [discriminate|].
  intros W H. apply andb_prop in W as [Wg Wr].
  destruct (text_eqb k (f_name g)); [inversion H; subst; auto | auto].
Qed.

(** ---- XML ---- *)
Section XmlProofs.
  Variable soap soft : bool.
  Variable A : app.
  Hypothesis WF : wf_app A = true.
  Let N := length (a_classes A).

  Lemma leaf_from_element_safe k nillable txt : safe (leaf_from_element soap soft k nillable txt).
  Proof.
    unfold leaf_from_element.
    destruct k; try (destruct (soft && negb (vstring _ nillable txt)); [conc|];
      apply safe_bind;
      [ destruct txt as [s|]; [|conc];
        match goal with |- safe (match read_leaf ?a ?g ?k ?s with _ => _ end) =>
          pose proof (read_leaf_safe_xml a k s) as H; destruct (read_leaf a g k s); auto end
      | intros v _; destruct (soft && negb _); conc ]).
    - (* LText *)
      cbv zeta. dif; [conc|]. dif; conc.
    - (* LEnum *)
      destruct (soft && negb (vstring (LEnum vals) nillable txt)); [conc|].
      destruct (negb _); destruct txt; conc.
  Qed.

  Lemma attr_from_unicode_safe k s : safe (attr_from_unicode soap k s).
  Proof. apply read_leaf_safe_inbase. Qed.

  Lemma own_attrs_safe fs attrs : forallb (field_wf N) fs = true -> safe (own_attrs soap soft fs attrs).
  Proof.
    intros W. induction attrs as [|[k v] r IH]; simpl; [conc|].
    destruct (find_field k fs) as [f|] eqn:E; [|exact IH].
    pose proof (find_field_wf _ _ _ _ W E) as Wf. unfold field_wf in Wf.
    apply andb_prop in Wf as [_ Wk].
    destruct (f_kind f); [exact IH|].
    destruct (f_ty f); try discriminate.
    useg.
    dif; [conc|].
    apply safe_bind; [apply attr_from_unicode_safe|].
    intros x _. dif; [conc|].
    apply safe_bind; [exact IH|]. intros; conc.
  Qed.

  Lemma freq_check_safe fs seen : safe (freq_check fs seen).
  Proof. induction fs as [|f r IH]; simpl; [conc|]. destruct (occurs_ok _ _ _); [exact IH|conc]. Qed.

  Lemma xsi_target_safe t' t : safe (xsi_target t' t).
  Proof.
    unfold xsi_target. destruct t', t; try conc;
      match goal with |- safe (if ?c then _ else _) => destruct c end; conc.
  Qed.

  Lemma resolve_class_safe t nillable n :
    ty_wf_top N t = true ->
    safe (resolve_class soft A t nillable n) /\
    forall t' nil', resolve_class soft A t nillable n = Ret (Some (t', nil')) -> ty_wf_top N t' = true.
  Proof.
    intros Wt. unfold resolve_class. cbv zeta.
    destruct (match assoc t_xsi_nil (node_attrs n) with Some v => _ | None => false end).
    - split; [destruct (soft && negb nillable); conc|].
      intros t' nil'. destruct (soft && negb nillable); [vm_compute; discriminate|discriminate].
    - destruct (assoc t_xsi_type (node_attrs n)) as [v|].
      2:{ split; [conc|]. intros t' nil' H. inversion H; subst; auto. }
      destruct (match split_colon v with Some (a, b) => (Some a, b) | None => (None, v) end) as [p objtype].
      destruct (nsmap_get p (node_nsmap n)) as [ns|].
      2:{ split; [conc|]. intros t' nil'. vm_compute. discriminate. }
      destruct (assoc (qname ns objtype) (a_registry A)) as [[[t0 nil0]|]|] eqn:E.
      + pose proof (xsi_target_safe t0 t) as Hx.
        destruct (xsi_target t0 t) as [[]|e c].
        * split; [conc|]. intros t' nil' H. inversion H; subst. exact Wt.
        * split; [exact Hx|]. intros t' nil'. discriminate.
      + split; [conc|]. intros t' nil'. vm_compute. discriminate.
      + split; [conc|]. intros t' nil'. vm_compute. discriminate.
  Qed.
End XmlProofs.

Arguments resolve_class : simpl never.
Arguments leaf_from_element : simpl never.
Arguments own_attrs : simpl never.
Arguments freq_check : simpl never.
Arguments class_fields : simpl never.
Arguments find_field : simpl never.
Arguments local_name : simpl never.

(** induction over documents with the hypothesis on every child *)
Section XnodeInd.
  Variable P : xnode -> Prop.
  Hypothesis HO : forall k t, P (XO k t).
  Hypothesis HE : forall tag nsmap attrs txt kids, Forall P kids -> P (XE tag nsmap attrs txt kids).
  Fixpoint xnode_ind' (n : xnode) : P n :=
    match n with
    | XO k t => HO k t
    | XE tag nsmap attrs txt kids =>
        HE tag nsmap attrs txt kids
           ((fix go (l : list xnode) : Forall P l :=
               match l with
               | [] => Forall_nil P
               | x :: r => Forall_cons x (xnode_ind' x) (go r)
               end) kids)
    end.
End XnodeInd.

Section XmlTotal.
  Variable soap soft : bool.
  Variable A : app.
  Hypothesis WF : wf_app A = true.
  Let N := length (a_classes A).

  Lemma attr_elem_safe k nil' n :
    safe (if soft && negb (nil' || match node_text n with Some _ => true | None => false end)
          then raise_nth 0 xml_base_from_element_raises
          else
            let! v := match node_text n with
                      | None => Ret None
                      | Some s => match read_leaf soap g_inbase_enum_member k s with
                                  | Ret v => Ret (Some v) | Raise e c => Raise e c end
                      end in
            if soft && negb (nil' || match v with Some _ => true | None => false end)
            then raise_nth 1 xml_base_from_element_raises else Ret tt).
  Proof.
    destruct (soft && negb _); [conc|].
    apply safe_bind.
    - destruct (node_text n) as [s|]; [|conc].
      pose proof (read_leaf_safe_inbase soap k s) as H.
      destruct (read_leaf soap g_inbase_enum_member k s); auto.
    - intros v _. destruct (soft && negb _); conc.
  Qed.

  (** C10 core, XML: from_element on ANY document node, for any declared type of a well-formed
      universe, returns or raises a Client fault *)
  Lemma from_element_safe : forall n t nillable,
    ty_wf_top N t = true -> safe (from_element soap soft A n t nillable).
  Proof.
    induction n using xnode_ind'; intros t0 nillable Wt.
    - (* content-only node: no children *)
      cbn [from_element]. destruct (resolve_class_safe soft A t0 nillable (XO k t) Wt) as [Hs Hw].
      apply safe_bind; [exact Hs|].
      intros [[t' nil']|] E; [|conc].
      specialize (Hw _ _ E).
      destruct t' as [lk|c|lk|aid elt].
      + apply leaf_from_element_safe.
      + simpl in Hw. apply Nat.ltb_lt in Hw.
        destruct (wf_class_fields A c WF Hw) as [fs [Ef Wfs]]. rewrite Ef.
        apply safe_bind; [conc|]. intros seen _.
        apply safe_bind; [apply (own_attrs_safe soap soft A); auto|]. intros an _.
        destruct soft; [apply freq_check_safe|conc].
      + apply attr_elem_safe.
      + conc.
    - cbn [from_element]. destruct (resolve_class_safe soft A t0 nillable (XE tag nsmap attrs txt kids) Wt) as [Hs Hw].
      apply safe_bind; [exact Hs|].
      intros [[t' nil']|] E; [|conc].
      specialize (Hw _ _ E).
      destruct t' as [lk|c|lk|aid elt].
      + apply leaf_from_element_safe.
      + simpl in Hw. apply Nat.ltb_lt in Hw.
        destruct (wf_class_fields A c WF Hw) as [fs [Ef Wfs]]. rewrite Ef.
        apply safe_bind.
        * (* the children *)
          clear E Hs. induction H as [|k r Hk Hr IH]; [conc|].
          destruct k as [tg nm cat tx kk|ok tx].
          -- destruct (find_field (local_name tg) fs) as [f|] eqn:Ff.
             ++ pose proof (find_field_wf _ _ _ _ Wfs Ff) as Wf. unfold field_wf in Wf.
                apply andb_prop in Wf as [Wty Wk].
                cbv zeta.
                destruct (f_kind f) eqn:Fk.
                ** (* an element child: decoded and counted *)
                   useg. apply safe_bind.
                   --- apply Hk. destruct (f_ty f); auto using ty_wf_top_of_wf.
                   --- intros _ _. apply safe_bind; [exact IH|]. intros; conc.
                ** (* named like an XmlAttribute member: skipped *)
                   useg. exact IH.
             ++ apply safe_bind; [exact IH|]. intros; conc.
          -- destruct ok.
             ++ useg. exact IH.
             ++ useg. exact IH.
             ++ useg. conc.
        * intros seen _. apply safe_bind; [apply (own_attrs_safe soap soft A); auto|]. intros an _.
          destruct soft; [apply freq_check_safe|conc].
      + apply attr_elem_safe.
      + simpl in Hw. clear E Hs.
        induction H as [|k r Hk Hr IH]; [conc|].
        apply safe_bind; [apply Hk; apply ty_wf_top_of_wf; exact Hw|]. intros; exact IH.
  Qed.
End XmlTotal.

(** ---- method lookup, parsing, envelopes ---- *)
Lemma generate_method_contexts_safe A name :
  wf_app A = true ->
  safe (generate_method_contexts A name) /\
  forall m, generate_method_contexts A name = Ret m -> ty_wf (length (a_classes A)) (ms_ty m) = true.
Proof.
  intros WF. unfold generate_method_contexts, get_call_handles.
  destruct name as [nm|].
  - simpl. destruct (assoc _ (a_methods A)) as [c|] eqn:E.
    + split; [conc|]. intros c' H. inversion H; subst. eapply wf_methods; eauto.
    + split; [conc|]. intros c'. vm_compute. discriminate.
  - split; [conc|]. intros c'. vm_compute. discriminate.
Qed.

(** what a parser may raise *)
Definition lib_in {D} (allowed : list pyexn) (r : lib_result D) : Prop :=
  match r with LibOk _ => True | LibRaise e => mem_exn e allowed = true end.

Ltac case_mem H :=
  unfold lib_in in H;
  match type of H with
  | mem_exn ?e _ = true => destruct e; vm_compute in H; try discriminate H
  end.

(** lxml: XMLSyntaxError; ValueError only for a str argument that carries an encoding
    declaration, and then the second attempt (on bytes) raises XMLSyntaxError at most *)
Definition XML_FIRST := [EXMLSyntaxError; EValueError].
Definition XML_SECOND := [EXMLSyntaxError].
Lemma xml_create_in_document_safe first second :
  lib_in XML_FIRST first -> lib_in XML_SECOND second -> safe (xml_create_in_document first second).
Proof.
  unfold xml_create_in_document. intros H1 H2.
  destruct first as [d|e]; [conc|].
  case_mem H1.
  - destruct second as [d|e2]; [conc|]. case_mem H2. conc.
  - conc.
Qed.

Lemma validate_document_safe v : safe (validate_document v).
Proof. destruct v as [[|]|]; conc. Qed.

Definition xml_request_ok (rq : xml_request) : Prop :=
  lib_in XML_FIRST (xr_first rq) /\ lib_in XML_SECOND (xr_second rq).

Lemma xml_decode_head_safe A rq :
  wf_app A = true -> xml_request_ok rq ->
  safe (xml_decode_head A rq) /\
  forall m body, xml_decode_head A rq = Ret (m, body) -> ty_wf (length (a_classes A)) (ms_ty m) = true.
Proof.
  intros WF [H1 H2]. unfold xml_decode_head.
  pose proof (xml_create_in_document_safe _ _ H1 H2) as Hc.
  destruct (xml_create_in_document (xr_first rq) (xr_second rq)) as [root|e c]; [|split; [exact Hc|discriminate]].
  simpl. pose proof (validate_document_safe (xr_schema rq)) as Hv.
  destruct (validate_document (xr_schema rq)) as [[]|e c]; [|split; [exact Hv|discriminate]].
  simpl. destruct (generate_method_contexts_safe A (node_tag root) WF) as [Hg Hl].
  destruct (generate_method_contexts A (node_tag root)) as [c|e c]; [|split; [exact Hg|discriminate]].
  simpl. split; [conc|]. intros c' b H. inversion H; subst. apply Hl; reflexivity.
Qed.

(** SOAP: the optional decoding with the declared charset raises UnicodeDecodeError at most (the
    charset itself was looked up by the transport) *)
Definition SOAP_DECODE_RAISES := [EUnicodeError; EUnicodeDecodeError].
Definition soap_request_ok (rq : soap_request) : Prop :=
  match sr_decode rq with None => True | Some e => mem_exn e SOAP_DECODE_RAISES = true end
  /\ lib_in XML_FIRST (sr_first rq) /\ lib_in XML_SECOND (sr_second rq).

Lemma soap_parse_safe d first second :
  match d with None => True | Some e => mem_exn e SOAP_DECODE_RAISES = true end ->
  lib_in XML_FIRST first -> lib_in XML_SECOND second -> safe (soap_parse_xml_string d first second).
Proof.
  unfold soap_parse_xml_string. intros Hd H1 H2.
  destruct d as [e|].
  - case_mem Hd; conc.
  - simpl. destruct first as [x|e]; [conc|].
    case_mem H1.
    + destruct second as [x|e2]; [conc|]. case_mem H2. conc.
    + conc.
Qed.

Lemma from_soap_safe ns env : safe (from_soap ns env).
Proof.
  unfold from_soap. destruct (negb _); [conc|]. cbv zeta.
  destruct (filter _ (node_kids env)), (filter (is_elem_named (qname ns t_Body)) (node_kids env)); conc.
Qed.

Lemma soap_decode_head_safe ns A rq :
  wf_app A = true -> soap_request_ok rq ->
  safe (soap_decode_head ns A rq) /\
  forall m body, soap_decode_head ns A rq = Ret (m, body) -> ty_wf (length (a_classes A)) (ms_ty m) = true.
Proof.
  intros WF [Hd [H1 H2]]. unfold soap_decode_head.
  pose proof (soap_parse_safe _ _ _ Hd H1 H2) as Hp.
  destruct (soap_parse_xml_string _ _ _) as [env|e c]; [|split; [exact Hp|discriminate]].
  simpl. pose proof (from_soap_safe ns env) as Hf.
  destruct (from_soap ns env) as [[body|]|e c]; [| |split; [exact Hf|discriminate]].
  - simpl.
    set (isf := match node_tag body with Some t => text_eqb t (qname ns t_Fault) | None => false end).
    destruct isf.
    + split; [conc|]. intros c' b. vm_compute. discriminate.
    + pose proof (validate_document_safe (sr_schema rq)) as Hv.
      destruct (validate_document (sr_schema rq)) as [[]|e c]; [|split; [exact Hv|discriminate]].
      simpl. destruct (generate_method_contexts_safe A (node_tag body) WF) as [Hg Hl].
      destruct (generate_method_contexts A (node_tag body)) as [c|e c]; [|split; [exact Hg|discriminate]].
      simpl. split; [conc|]. intros c' b H. inversion H; subst. apply Hl; reflexivity.
  - split; [conc|]. intros c b. vm_compute. discriminate.
Qed.

(** ---- the transports ---- *)
Lemma caught_by_fault {X} e c (other : pyexn -> text -> res X) hs :
  hs = [mkh [EFault] HOther] -> is_fault e = true -> tryO hs (Raise e c) other = other e c.
Proof.
  intros -> H. unfold tryO, try_. simpl. unfold is_fault in H.
  unfold catches. simpl. rewrite H. reflexivity.
Qed.

Lemma generate_contexts_ok (H : Type) (head : res H) :
  safe head ->
  match generate_contexts H head with
  | Ret (inl h) => head = Ret h
  | Ret (inr (e, c)) => is_fault e = true /\ is_client c = true
  | Raise _ _ => False
  end.
Proof.
  intros Hhead. unfold generate_contexts.
  replace (psteps_eqb generate_contexts_steps _) with true by reflexivity.
  destruct head as [h|e c] eqn:E.
  - reflexivity.
  - simpl rbind. rewrite (caught_by_fault e c _ _ eq_refl); [exact Hhead | apply Hhead].
Qed.

Section ServerProofs.
  Variable H : Type.
  Variable head : res H.
  Variable deser : H -> res unit.
  Variable cls_of : H -> nat.
  Hypothesis Hhead : safe head.
  Hypothesis Hdeser : forall h, head = Ret h -> safe (deser h).

  Lemma get_in_object_ok h : head = Ret h ->
    match get_in_object H deser h with
    | Ret None => deser h = Ret tt
    | Ret (Some (e, c)) => is_fault e = true /\ is_client c = true
    | Raise _ _ => False
    end.
  Proof.
    intros Eh. unfold get_in_object.
    replace (psteps_eqb get_in_object_steps _) with true by reflexivity.
    pose proof (Hdeser h Eh) as Hd.
    destruct (deser h) as [[]|e c] eqn:E.
    - reflexivity.
    - simpl rbind. rewrite (caught_by_fault e c _ _ eq_refl); [exact Hd | apply Hd].
  Qed.

  Lemma server_run_good : good (server_run H head deser cls_of) = true.
  Proof.
    unfold server_run. pose proof (generate_contexts_ok H head Hhead) as G.
    destruct (generate_contexts H head) as [[h|[e c]]|e c]; [| |contradiction].
    - pose proof (get_in_object_ok h G) as I.
      destruct (get_in_object H deser h) as [[[e c]|]|e c]; [| |contradiction].
      + simpl. destruct I as [I1 I2]. unfold is_fault in I1. rewrite I1, I2. reflexivity.
      + reflexivity.
    - simpl. destruct G as [I1 I2]. unfold is_fault in I1. rewrite I1, I2. reflexivity.
  Qed.

  (** the user function runs only when nothing was raised at any stage *)
  Lemma server_run_called c :
    server_run H head deser cls_of = Called c -> exists h, head = Ret h /\ deser h = Ret tt /\ c = cls_of h.
  Proof.
    unfold server_run. pose proof (generate_contexts_ok H head Hhead) as G.
    destruct (generate_contexts H head) as [[h|[e k]]|e k]; try discriminate.
    pose proof (get_in_object_ok h G) as I.
    destruct (get_in_object H deser h) as [[[e k]|]|e k]; try discriminate.
    intros E. inversion E. exists h. auto.
  Qed.

  Variable reconstruct : res unit.
  Hypothesis Hrec : safe reconstruct.

  Lemma wsgi_run_good : good (wsgi_run H head deser cls_of reconstruct) = true.
  Proof.
    unfold wsgi_run. unfold handle_rpc_steps. cbn [wsgi_steps].
    destruct reconstruct as [[]|e c] eqn:Er.
    - simpl rbind. cbn [tryO try_].
      pose proof (generate_contexts_ok H head Hhead) as G.
      destruct (generate_contexts H head) as [[h|[e c]]|e c]; [| |contradiction].
      + cbn [w_in_error w_ctx w_called].
        pose proof (get_in_object_ok h G) as I.
        destruct (get_in_object H deser h) as [[[e c]|]|e c]; [| |contradiction].
        * cbn [w_in_error]. simpl. destruct I as [I1 I2]. unfold is_fault in I1. rewrite I1, I2. reflexivity.
        * cbn [w_in_error w_ctx w_called]. reflexivity.
      + cbn [w_in_error]. simpl. destruct G as [I1 I2]. unfold is_fault in I1. rewrite I1, I2. reflexivity.
    - simpl rbind. rewrite (caught_by_fault e c _ _ eq_refl); [|apply Hrec].
      simpl. destruct Hrec as [I1 I2]. unfold is_fault in I1. rewrite I1, I2. reflexivity.
  Qed.

  Lemma wsgi_run_called c :
    wsgi_run H head deser cls_of reconstruct = Called c ->
    reconstruct = Ret tt /\ exists h, head = Ret h /\ deser h = Ret tt /\ c = cls_of h.
  Proof.
    unfold wsgi_run. unfold handle_rpc_steps. cbn [wsgi_steps].
    destruct reconstruct as [[]|e k] eqn:Er.
    - simpl rbind. cbn [tryO try_].
      pose proof (generate_contexts_ok H head Hhead) as G.
      destruct (generate_contexts H head) as [[h|[e k]]|e k]; [| |contradiction].
      + cbn [w_in_error w_ctx w_called].
        pose proof (get_in_object_ok h G) as I.
        destruct (get_in_object H deser h) as [[[e k]|]|e k]; [| |contradiction].
        * cbn [w_in_error]. discriminate.
        * cbn [w_in_error w_ctx w_called]. intros E. inversion E. split; auto. exists h. auto.
      + cbn [w_in_error]. discriminate.
    - simpl rbind. rewrite (caught_by_fault e k _ _ eq_refl); [|apply Hrec]. discriminate.
  Qed.
End ServerProofs.

