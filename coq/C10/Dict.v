(** C10, dict-document path (JsonDocument, YamlDocument, MessagePackDocument): parsed document ->
    call, as the (repaired) code of spyne/protocol/dictdoc/_base.py (decompose_incoming_envelope,
    gen_method_request_string, _check_freq_dict), dictdoc/hier.py (deserialize, _doc_to_object,
    _from_dict_value, validate) and json.py / yaml.py / msgpack.py (create_in_document,
    _ret_number, _ret_bool, integer_from_bytes, validate) does it.  Definitions only.

    Python's dynamic typing is written out: a document value is any of the shapes the three
    parsers can return, and every operation the code applies to it ([.items()], iteration,
    [isinstance], [in], [int()], regular-expression matching) has its Python outcome. *)
From SpyneV Require Export C10.Xml.

(** a Python float as far as the code looks at it *)
Inductive fclass := FInt (z : Z) | FFrac | FNan | FPosInf | FNegInf.

Inductive jv :=
| JNull | JBool (b : bool) | JInt (z : Z) | JFlt (c : fclass)
| JStr (s : text)
| JBytes (b : list Z) (utf8 : option text)   (* bytes, and their UTF-8 decoding when they have one *)
| JList (l : list jv)                        (* list or tuple *)
| JMap (kv : list (jv * jv))
| JObj.        (* any other object: datetime.date / datetime from YAML, msgpack ExtType / Timestamp:
                  not a string, not iterable, no .items(), not a number *)

Inductive dproto := PJson | PYaml | PMsgpack.

Definition is_textlike (v : jv) : bool :=          (* isinstance(v, VALID_UNICODE_SOURCES) *)
  match v with JStr _ | JBytes _ _ => true | _ => false end.
Definition is_number (v : jv) : bool :=            (* isinstance(v, NUMBER_TYPES): bool is an int *)
  match v with JBool _ | JInt _ | JFlt _ => true | _ => false end.
(** iter(v) for the AbcIterable shapes *)
Definition iterate (v : jv) : option (list jv) :=
  match v with
  | JList l => Some l
  | JMap kv => Some (map fst kv)
  | JStr s => Some (map (fun c => JStr [c]) s)
  | JBytes b _ => Some (map JInt b)
  | _ => None
  end.

(** [zip(names, values)] *)
Fixpoint zip_names (fs : list field) (vs : list jv) : list (jv * jv) :=
  match fs, vs with
  | f :: fr, v :: vr => (JStr (f_name f), v) :: zip_names fr vr
  | _, _ => []
  end.

(** value is True or value is False *)
Definition is_bool (v : jv) : bool := match v with JBool _ => true | _ => false end.
(** isinstance(value, NON_NUMBER_TYPES): list, dict, str, bytes *)
Definition is_non_number (v : jv) : bool :=
  match v with JList _ | JMap _ | JStr _ | JBytes _ _ => true | _ => false end.
(** isinstance(inst, VALID_NUMBER_SOURCES): int (bool included), float, Decimal, str, bytes *)
Definition is_number_source (v : jv) : bool := is_number v || is_textlike v.

Definition ret_number_guard (P : dproto) : guard :=
  match P with PJson => g_json_ret_number | PYaml => g_yaml_ret_number | PMsgpack => g_msgpack_ret_number end.
Definition ret_number_raises (P : dproto) : list (pyexn * text) :=
  match P with PJson => json_ret_number_raises | PYaml => yaml_ret_number_raises | PMsgpack => msgpack_ret_number_raises end.
Definition ret_bool_raises (P : dproto) : list (pyexn * text) :=
  match P with PJson => json_ret_bool_raises | PYaml => yaml_ret_bool_raises | PMsgpack => msgpack_ret_bool_raises end.

(** a float handed to an Integer: an int when integral, refused otherwise (NaN and the infinities
    are not integral) *)
Definition integral_float (rs : list (pyexn * text)) (c : fclass) : res lval :=
  match c with FInt z => Ret (VInt z) | _ => raise_nth 1 rs end.

(** JsonDocument / YamlDocument._ret_number(Integer, value) *)
Definition ret_number (P : dproto) (v : jv) : res lval :=
  guard_raise (ret_number_guard P) (is_non_number v) (Ret VOpaque)
    (match v with
     | JInt z => Ret (VInt z)
     | JBool b => Ret (VInt (if b then 1 else 0))
     | JFlt c => match P with
                 | PMsgpack => Ret VOpaque      (* MessagePackDocument._ret_number (Double only) *)
                 | _ => integral_float (ret_number_raises P) c
                 end
     | _ => Ret VOpaque
     end).
(** MessagePackDocument.integer_from_bytes for a value that is no str / bytes *)
Definition msgpack_integer (v : jv) : res lval :=
  guard_raise g_msgpack_integer_non_number (is_non_number v) (Ret VOpaque)
    (match v with
     | JInt z => Ret (VInt z)
     | JBool b => Ret (VInt (if b then 1 else 0))       (* a bool is handed through *)
     | JFlt c => integral_float msgpack_integer_from_bytes_raises c
     | _ => Ret VOpaque
     end).
(** _ret_bool(cls, value): if value is None or value is True or value is False: return value; raise *)
Definition ret_bool (P : dproto) (v : jv) : res lval :=
  if is_bool v then Ret VOpaque else raise_nth 0 (ret_bool_raises P).

Definition is_dt_kind (k : lkind) : bool :=
  match k with LDateTime | LDate | LTime => true | _ => false end.
(** issubclass(cls, self.stringified_types) within the universe: DateTime, Date, Time, Duration *)
Definition is_stringified_kind (k : lkind) : bool :=
  match k with LDateTime | LDate | LTime | LDur => true | _ => false end.
Definition is_text_only_kind (k : lkind) : bool :=
  match k with LDateTime | LDate | LTime | LDur | LBytes _ => true | _ => false end.
Definition is_number_kind (k : lkind) : bool := match k with LInt _ => true | _ => false end.

Section DictDeser.
  Variable P : dproto.
  Variable soft : bool.
  Variable A : app.

  (** the leaf branch of _from_dict_value for a member of primitive kind k (an XmlAttribute(T)
      member is read as a plain member of type T) *)
  Definition leaf_from_dict_value (k : lkind) (nillable : bool) (inst : jv) : res unit :=
    (* validate(key, cls, inst) *)
    let! _ :=
      if soft then
        let! _ :=
          match inst with
          | JNull => if nillable then Ret tt
                     else match k with
                          | LText => guard_raise g_hier_validate_unicode true (Ret tt) (Ret tt)
                          | _ => Ret tt end
          | _ =>
              match k with
              | LText => guard_raise g_hier_validate_unicode (negb (is_textlike inst)) (Ret tt) (Ret tt)
              | _ => guard_raise g_hier_validate_stringified
                       (is_stringified_kind k && negb (is_textlike inst)) (Ret tt) (Ret tt)
              end
          end in
        match P with
        | PJson =>
            guard_raise g_json_validate_dt
              (match inst with
               | JNull => false
               | JStr s => is_dt_kind k && negb (vstring k nillable (Some s))
               | _ => is_dt_kind k
               end)
              (Ret tt) (Ret tt)
        | _ => Ret tt
        end
      else Ret tt in
    (* a value of a type that travels as text must arrive as text *)
    guard_raise g_hier_text_only
      (match inst with JNull => false | _ => negb (is_textlike inst) && is_text_only_kind k end)
      (match k with LBytes _ => Raise EAttributeError [] | _ => Raise ETypeError [] end)
    (* a number arrives as a number or as its text *)
    (guard_raise g_hier_number_sources
      (match inst with JNull => false | _ => is_number_kind k && negb (is_number_source inst) end)
      (Raise ETypeError [])
      (* text that arrived as a byte string is decoded and then read like any other text *)
      (let! inst :=
         match inst with
         | JBytes b dec =>
             match k with
             | LBytes _ => Ret inst
             | _ => tryS (nth_try 0 hier_from_dict_value_tries)
                         (match dec with Some s => Ret (JStr s) | None => Raise EUnicodeDecodeError [] end)
             end
         | _ => Ret inst
         end in
       if soft && negb (match inst with JStr s => vstring k nillable (Some s) | _ => true end)
       then raise_nth 3 hier_from_dict_value_raises
       else
         let! ok :=
           match inst with
           | JNull => Ret nillable            (* from_unicode(cls, None) = None; validate_native(None) *)
           | _ =>
             match k with
             | LText => Ret true
             | LBytes e =>
                 (* from_serstr(cls, inst, self.binary_encoding): the encoding of the class, else the
                    protocol's (base64 for Json and Yaml; None for MessagePackDocument, whose decoding
                    handler is the identity).  On bytes: from_base64 joins the value as a sequence
                    of chunks, which for a non-empty bytes object is a TypeError (caught);
                    from_urlsafe_base64 and from_hex decode it *)
                 match e, P, inst with
                 | BDefault, PMsgpack, _ => Ret true
                 | BUrl, _, JStr s => let! _ := read_bytes BUrl s in Ret true
                 | BUrl, _, JBytes b _ => let! _ := from_urlsafe_bytes b in Ret true
                 | BHex, _, JStr s => let! _ := read_bytes BHex s in Ret true
                 | BHex, _, JBytes b _ => let! _ := from_hex b in Ret true
                 | _, _, JStr s => let! _ := read_bytes BBase64 s in Ret true
                 | _, _, JBytes [] _ => Ret true
                 | _, _, JBytes _ _ => tryS (nth_try 0 from_base64_tries) (Raise ETypeError [])
                 | _, _, _ => Raise EAttributeError []            (* type(value)().join *)
                 end
             | LInt msl =>
                 match P, inst with
                 | PMsgpack, JStr s => let! _ := read_int msl s in Ret true
                 | PMsgpack, _ => let! _ := msgpack_integer inst in Ret true
                 | _, _ => let! _ := ret_number P inst in Ret true
                 end
             | LBool => let! _ := ret_bool P inst in Ret true
             | LEnum vals =>
                 guard_raise g_inbase_enum_member
                   (negb (match inst with JStr s => text_in s vals | _ => false end))
                   (match inst with JStr _ => Raise EAttributeError [] | _ => Raise ETypeError [] end)
                   (Ret true)
             | _ =>
                 match inst with
                 | JStr s =>
                     let! v := read_leaf false g_inbase_enum_member k s in
                     Ret (vnative k nillable (Some v))
                 | _ => Raise ETypeError []                 (* a pattern applied to a non-string *)
                 end
             end
           end in
         if soft && negb ok then raise_nth 5 hier_from_dict_value_raises else Ret tt)).

  (** _check_freq_dict (flat=False): every member, arrays included, by its own occurrence bounds *)
  Fixpoint check_freq (fs : list field) (seen : list text) : res unit :=
    match fs with
    | [] => Ret tt
    | f :: r =>
        let n := count_text (f_name f) seen in
        if n <? f_min f then raise_nth 0 dict_check_freq_raises
        else if negb (ext_leb (Fin n) (f_max f)) then raise_nth 1 dict_check_freq_raises
        else check_freq r seen
    end.

  (** the key of a member: decoded when the protocol has a key_encoding (msgpack: utf8) *)
  Definition member_key (k : jv) : res (option text) :=
    match k with
    | JStr s => Ret (Some s)
    | JBytes _ dec =>
        match P with
        | PMsgpack => tryS (nth_try 2 hier_doc_to_object_tries)
                           (match dec with Some s => Ret (Some s) | None => Raise EUnicodeDecodeError [] end)
        | _ => Ret None
        end
    | _ => Ret None
    end.

  (** _doc_to_object / _from_dict_value.  Every recursive call descends in the declared type;
      [fuel] bounds that descent.  The body is written over the recursive call [rec]. *)
  Section Body.
    Variable rec : ty -> jv -> res unit.      (* _doc_to_object on a member *)

    (** _from_dict_value(ctx, key, cls, inst, validator) *)
    Definition from_dict_value (t : ty) (nillable : bool) (inst : jv) : res unit :=
      match t with
      | TLeaf k => leaf_from_dict_value k nillable inst
      | _ =>
          (* validate() does nothing for a complex type.  A null member is None (whether that is
             acceptable is up to validate_native); anything else goes to _doc_to_object *)
          match inst with
          | JNull =>
              guard_skip g_hier_null_member true
                (if soft && negb nillable then raise_nth 5 hier_from_dict_value_raises else Ret tt)
                (rec t inst) (rec t inst)
          | _ => rec t inst
          end
      end.

    (** the Array branch: for i, child in enumerate(doc) *)
    Fixpoint array_items (elt : ty) (l : list jv) : res unit :=
      match l with
      | [] => Ret tt
      | x :: r => let! _ := from_dict_value elt true x in array_items elt r
      end.

    (** for a in v: subinst.append(_from_dict_value(...)); frequencies[k] += 1 *)
    Fixpoint repeated_items (key : text) (f : field) (l : list jv) : res (list text) :=
      match l with
      | [] => Ret []
      | a :: ar =>
          let! _ := from_dict_value (f_ty f) (f_nillable f) a in
          let! names := repeated_items key f ar in Ret (key :: names)
      end.

    (** for k, v in items: the names counted in [frequencies] *)
    Fixpoint member_items (fs : list field) (l : list (jv * jv)) : res (list text) :=
      match l with
      | [] => Ret []
      | (k, v) :: r =>
          let! ok := member_key k in
          match ok with
          | None => member_items fs r
          | Some key =>
              match find_field key fs with
              | None => member_items fs r
              | Some f =>
                  if is_multi (f_max f) then
                    match iterate v with
                    | None => guard_raise g_hier_repeated_iterable true (Raise ETypeError []) (Ret [])
                    | Some vs =>
                        let! n := repeated_items key f vs in
                        let! names := member_items fs r in Ret (n ++ names)
                    end
                  else
                    let! _ := from_dict_value (f_ty f) (f_nillable f) v in
                    let! names := member_items fs r in Ret (key :: names)
              end
          end
      end.

    (** items = doc.items(), else zip(field names, doc), else ValidationError *)
    Definition doc_items (fs : list field) (doc : jv) : res (list (jv * jv)) :=
      tryO (nth_try 0 hier_doc_to_object_tries)
        (match doc with JMap kv => Ret kv | _ => Raise EAttributeError [] end)
        (fun _ _ =>
           tryS (nth_try 1 hier_doc_to_object_tries)
             (match iterate doc with
              | Some vs => Ret (zip_names fs vs)
              | None => Raise ETypeError []
              end)).

    Definition doc_to_object_body (t : ty) (doc : jv) : res unit :=
      match doc with
      | JNull => Ret tt
      | _ =>
        match t with
        | TLeaf _ | TAttr _ => Raise ETypeError []   (* _doc_to_object is only entered with complex classes *)
        | TArr _ elt =>
            match iterate doc with
            | None => guard_raise g_hier_array_iterable true (Raise ETypeError []) (Ret tt)
            | Some items => array_items elt items
            end
        | TRef c =>
            match class_fields A c with
            | None => Raise EKeyError []
            | Some fs =>
                let! items := doc_items fs doc in
                let! seen := member_items fs items in
                if soft then check_freq fs seen else Ret tt
            end
        end
      end.
  End Body.

  Fixpoint doc_to_object (fuel : nat) (t : ty) (doc : jv) {struct fuel} : res unit :=
    match fuel with
    | O => Raise EOutOfFuel []
    | S fuel' => doc_to_object_body (doc_to_object fuel') t doc
    end.
End DictDeser.

(** ---- create_in_document ---- *)
(** JsonDocument: b''.join, optional decode, json.loads, all inside one try *)
Definition json_create_in_document (r : lib_result jv) : res jv :=
  tryS (nth_try 0 json_create_in_document_tries) (of_lib r).
(** YamlDocument: try: try: decode except TypeError: join; yaml.load  except ...: Fault *)
Definition yaml_create_in_document (decode : option pyexn) (r : lib_result jv) : res jv :=
  tryS (nth_try 0 yaml_create_in_document_tries)
       (let! _ := tryO (nth_try 1 yaml_create_in_document_tries)
                       (match decode with Some e => Raise e [] | None => Ret tt end)
                       (fun _ _ => Ret tt) in
        of_lib r).
(** MessagePackDocument: try: msgpack.unpackb(...) except ValueError: raise MessagePackDecodeError *)
Definition msgpack_create_in_document (r : lib_result jv) : res jv :=
  tryS (nth_try 0 msgpack_create_in_document_tries) (of_lib r).

Record dict_request := mkdreq { dr_decode : option pyexn; dr_doc : lib_result jv }.

Definition dict_create_in_document (P : dproto) (rq : dict_request) : res jv :=
  match P with
  | PJson => json_create_in_document (dr_doc rq)
  | PYaml => yaml_create_in_document (dr_decode rq) (dr_doc rq)
  | PMsgpack => msgpack_create_in_document (dr_doc rq)
  end.

Section DictHead.
  (** '%s' % key for the keys that are not text (None, booleans, numbers, tuples, dates): any
      function will do for the theorems *)
  Variable fmt : jv -> text.
  Variable P : dproto.
  Variable A : app.

  (** gen_method_request_string: the single key, decoded by MessagePackDocument when it is bytes *)
  Definition method_request_string (k : jv) : res text :=
    match k with
    | JStr s => Ret (qname (a_tns A) s)
    | JBytes _ dec =>
        match P with
        | PMsgpack => tryS (nth_try 0 msgpack_gen_mrs_tries)
                           (match dec with Some s => Ret (qname (a_tns A) s)
                                         | None => Raise EUnicodeDecodeError [] end)
        | _ => Ret (qname (a_tns A) (fmt k))
        end
    | _ => Ret (qname (a_tns A) (fmt k))
    end.

  (** DictDocument.decompose_incoming_envelope + generate_method_contexts: the in_message class and
      the single (key, value) of the request *)
  Definition dict_decode_head (rq : dict_request) : res (msig * jv * jv) :=
    let! doc := dict_create_in_document P rq in
    match doc with
    | JMap [(k, v)] =>
        let! mrs := method_request_string k in
        let! c := generate_method_contexts A (Some mrs) in
        Ret (c, k, v)
    | _ => guard_raise g_dict_one_key true (Raise EValueError []) (Raise EValueError [])
    end.
End DictHead.

(** HierDictDocument.deserialize: doc = in_body_doc.get(class_name) with class_name the type name
    of the in_message - for a bare method the name the method gave it (sub_name) - as a str
    (MessagePackDocument: as bytes, then as str).  A bare method that is passed null gets None; a
    bare argument of a primitive type is read by _from_dict_value; a null body of a wrapped method
    is a call with absent arguments; everything else goes to _doc_to_object *)
Definition dict_deserialize (P : dproto) (soft : bool) (A : app) (fuel : nat) (m : msig) (k v : jv) : res unit :=
  let name := match ms_bare m with
              | Some s => s
              | None => match ms_ty m with
                        | TRef c => match nth_error (a_classes A) c with Some cl => c_name cl | None => [] end
                        | _ => [] end
              end in
  let hit := match P, k with
             | PMsgpack, JBytes b _ => text_eqb b name
             | _, JStr s => text_eqb s name
             | _, _ => false
             end in
  let doc := if hit then v else JNull in
  match ms_bare m, doc with
  | Some _, JNull => Ret tt
  | _, _ =>
      match ms_ty m with
      | TLeaf kd => leaf_from_dict_value P soft kd (ms_nillable m) doc
      | t => doc_to_object P soft A fuel t doc
      end
  end.
