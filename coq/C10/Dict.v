(** C10, dict-document path (JsonDocument, YamlDocument, MessagePackDocument): parsed document ->
    call, as the (repaired) code of spyne/protocol/dictdoc/_base.py (decompose_incoming_envelope,
    gen_method_request_string, _check_freq_dict), dictdoc/hier.py (deserialize, _doc_to_object,
    _from_dict_value, validate) and json.py / yaml.py / msgpack.py (create_in_document,
    _ret_number, _ret_bool, integer_from_bytes, validate) does it.  Definitions only.

    Python's dynamic typing is written out: a document value is any of the shapes the three
    parsers can return, and every operation the code applies to it ([.items()], iteration,
    [isinstance], [in], [int()], regular-expression matching) has its Python outcome. *)
From SpyneV Require Export C10.Xml.

(** a Python float as far as the code looks at it *)
Inductive fclass := FInt (z : Z) | FFrac | FNan | FPosInf | FNegInf.

Inductive jv :=
| JNull | JBool (b : bool) | JInt (z : Z) | JFlt (c : fclass)
| JStr (s : text)
| JBytes (b : list Z) (utf8 : option text)   (* bytes, and their UTF-8 decoding when they have one *)
| JList (l : list jv)                        (* list or tuple *)
| JMap (kv : list (jv * jv))
| JObj.        (* any other object: datetime.date / datetime from YAML, msgpack ExtType / Timestamp:
                  not a string, not iterable, no .items(), not a number *)

Inductive dproto := PJson | PYaml | PMsgpack.

Definition is_textlike (v : jv) : bool :=          (* isinstance(v, VALID_UNICODE_SOURCES) *)
  match v with JStr _ | JBytes _ _ => true | _ => false end.
Definition is_number (v : jv) : bool :=            (* isinstance(v, NUMBER_TYPES): bool is an int *)
  match v with JBool _ | JInt _ | JFlt _ => true | _ => false end.
(** iter(v) for the AbcIterable shapes *)
Definition iterate (v : jv) : option (list jv) :=
  match v with
  | JList l => Some l
  | JMap kv => Some (map fst kv)
  | JStr s => Some (map (fun c => JStr [c]) s)
  | JBytes b _ => Some (map JInt b)
  | _ => None
  end.

(** [zip(names, values)] *)
Fixpoint zip_names (fs : list field) (vs : list jv) : list (jv * jv) :=
  match fs, vs with
  | f :: fr, v :: vr => (JStr (f_name f), v) :: zip_names fr vr
  | _, _ => []
  end.

(** value in (True, False): 1, 0, 1.0, 0.0, True, False *)
Definition is_bit (v : jv) : bool :=
  match v with
  | JBool _ => true
  | JInt z => (z =? 0) || (z =? 1)
  | JFlt (FInt z) => (z =? 0) || (z =? 1)
  | _ => false
  end.

Definition ret_number_guard (P : dproto) : guard :=
  match P with PJson => g_json_ret_number | PYaml => g_yaml_ret_number | PMsgpack => g_msgpack_ret_number end.
Definition ret_bool_raises (P : dproto) : list (pyexn * text) :=
  match P with PJson => json_ret_bool_raises | PYaml => yaml_ret_bool_raises | PMsgpack => msgpack_ret_bool_raises end.

(** _ret_number(cls, value): anything but a number is refused; without the check the value goes
    through and the comparison in validate_native raises TypeError (or the user gets it) *)
Definition ret_number (P : dproto) (v : jv) : res lval :=
  guard_raise (ret_number_guard P) (negb (is_number v)) (Ret VOpaque)
    (match v with
     | JInt z => Ret (VInt z)
     | JBool b => Ret (VInt (if b then 1 else 0))
     | _ => Ret VOpaque
     end).
(** _ret_bool(cls, value): if value is None or value in (True, False): return value; raise *)
Definition ret_bool (P : dproto) (v : jv) : res lval :=
  if is_bit v then Ret VOpaque else raise_nth 0 (ret_bool_raises P).

(** int(value) inside integer_from_bytes's try, for the values that are not text *)
Definition int_of_nontext (v : jv) : res lval :=
  tryS (nth_try 0 integer_from_bytes_tries)
    (match v with
     | JInt z => Ret (VInt z)
     | JBool b => Ret (VInt (if b then 1 else 0))
     | JFlt (FInt z) => Ret (VInt z)
     | JFlt FFrac => Ret VOpaque                    (* truncation *)
     | JFlt FNan => Raise EValueError []
     | JFlt _ => Raise EOverflowError []
     | _ => Raise ETypeError []
     end).

(** validate_native(Integer, value) for what the number handlers let through *)
Definition vnative_number (nillable : bool) (v : jv) : bool :=
  match v with
  | JInt _ | JBool _ => true
  | JFlt (FInt _) => true
  | JFlt _ => false         (* int(v) == v fails; nan is unordered; the infinities are outside (gt, lt) *)
  | _ => true
  end.

Definition is_dt_kind (k : lkind) : bool :=
  match k with LDateTime | LDate | LTime => true | _ => false end.
Definition is_text_only_kind (k : lkind) : bool :=
  match k with LDateTime | LDate | LTime | LDur | LBytes => true | _ => false end.
Definition is_regex_kind (k : lkind) : bool :=
  match k with LDateTime | LDate | LTime | LDur => true | _ => false end.

Section DictDeser.
  Variable P : dproto.
  Variable soft : bool.
  Variable A : app.

  (** the leaf branch of _from_dict_value for a member of primitive kind k; [attr] = the member
      is an XmlAttribute(Integer) (read through from_bytes) *)
  Definition leaf_from_dict_value (k : lkind) (nillable : bool) (attr : bool) (inst : jv) : res unit :=
    (* validate(key, cls, inst) *)
    let! _ :=
      if soft then
        let! _ := match inst with
                  | JNull => if nillable then Ret tt
                             else match k with
                                  | LText => if attr then Ret tt else guard_raise g_hier_validate_unicode true (Ret tt) (Ret tt)
                                  | _ => Ret tt end
                  | _ => match k with
                         | LText => if attr then Ret tt
                                    else guard_raise g_hier_validate_unicode (negb (is_textlike inst)) (Ret tt) (Ret tt)
                         | _ => Ret tt end
                  end in
        match P with
        | PJson =>
            if attr then Ret tt else
            guard_raise g_json_validate_dt
              (is_dt_kind k && negb (match inst with JStr s => vstring k nillable (Some s) | _ => false end))
              (Ret tt) (Ret tt)
        | _ => Ret tt
        end
      else Ret tt in
    if attr then
      (* from_unicode(XmlAttribute, inst) -> xmlattribute_from_bytes -> from_bytes(Integer, inst) *)
      let msl := match k with LInt m => m | _ => PosInf end in
      match inst with
      | JNull => if soft && negb nillable then raise_nth 3 hier_from_dict_value_raises else Ret tt
      | JStr s => let! _ := read_int msl s in Ret tt
      | JBytes b _ => let! _ := read_int msl b in Ret tt
      | _ =>
          match P with
          | PMsgpack => let! _ := ret_number P inst in Ret tt
          | _ => let! _ := int_of_nontext inst in Ret tt
          end
      end
    else
    (* a value of a type that travels as text must arrive as text *)
    guard_raise g_hier_text_only
      (match inst with JNull => false | _ => negb (is_textlike inst) && is_text_only_kind k end)
      (match k with LBytes => Raise EAttributeError [] | _ => Raise ETypeError [] end)
      (* a binary string is decoded before the text patterns are applied *)
      (let! inst :=
         match inst with
         | JBytes b dec =>
             if is_regex_kind k then
               tryS (nth_try 0 hier_from_dict_value_tries)
                    (match dec with Some s => Ret (JStr s) | None => Raise EUnicodeDecodeError [] end)
             else Ret inst
         | _ => Ret inst
         end in
       if soft && negb (match inst with JStr s => vstring k nillable (Some s) | _ => true end)
       then raise_nth 2 hier_from_dict_value_raises
       else
         let! ok :=
           match inst with
           | JNull => Ret nillable            (* from_unicode(cls, None) = None; validate_native(None) *)
           | _ =>
             match k with
             | LText =>
                 match inst with
                 | JBytes _ dec =>
                     tryS (nth_try 0 unicode_from_bytes_tries)
                          (match dec with Some _ => Ret true | None => Raise EUnicodeDecodeError [] end)
                 | _ => Ret true
                 end
             | LBytes =>
                 (* from_serstr(cls, inst, self.binary_encoding): base64 for Json and Yaml; None for
                    MessagePackDocument, whose decoding handler is the identity *)
                 match P, inst with
                 | PMsgpack, _ => Ret true
                 | _, JStr s => let! _ := read_bytes s in Ret true
                 | _, JBytes b _ => let! _ := of_out (a2b_go false 0 0 0 [] b) in Ret true
                 | _, _ => Raise EAttributeError []            (* type(value)().join *)
                 end
             | LInt msl =>
                 match P, inst with
                 | PMsgpack, JStr s => let! _ := read_int msl s in Ret true
                 | PMsgpack, JBytes b _ => let! _ := read_int msl b in Ret true
                 | _, _ => let! _ := ret_number P inst in Ret (vnative_number nillable inst)
                 end
             | LBool => let! _ := ret_bool P inst in Ret true
             | LEnum vals =>
                 guard_raise g_inbase_enum_member
                   (negb (match inst with JStr s => text_in s vals | _ => false end))
                   (match inst with JStr _ => Raise EAttributeError [] | _ => Raise ETypeError [] end)
                   (Ret true)
             | _ =>
                 match inst with
                 | JStr s =>
                     let! v := read_leaf false g_inbase_enum_member k s in
                     Ret (vnative k nillable (Some v))
                 | _ => Raise ETypeError []                 (* a pattern applied to a non-string *)
                 end
             end
           end in
         if soft && negb ok then raise_nth 3 hier_from_dict_value_raises else Ret tt).

  (** _check_freq_dict *)
  Fixpoint check_freq (fs : list field) (seen : list text) : res unit :=
    match fs with
    | [] => Ret tt
    | f :: r =>
        let n := count_text (f_name f) seen in
        (* an Array member with max_occurs == 1 is judged by the attributes of its element type:
           min_occurs 0, unbounded *)
        let '(mn, mx) := match f_ty f with
                         | TArr _ _ => if ext_eqb (f_max f) (Fin 1) then (0, PosInf) else (f_min f, f_max f)
                         | _ => (f_min f, f_max f) end in
        if n <? mn then raise_nth 0 dict_check_freq_raises
        else if negb (ext_leb (Fin n) mx) then raise_nth 1 dict_check_freq_raises
        else check_freq r seen
    end.

  (** the key of a member: decoded when the protocol has a key_encoding (msgpack: utf8) *)
  Definition member_key (k : jv) : res (option text) :=
    match k with
    | JStr s => Ret (Some s)
    | JBytes _ dec =>
        match P with
        | PMsgpack => tryS (nth_try 2 hier_doc_to_object_tries)
                           (match dec with Some s => Ret (Some s) | None => Raise EUnicodeDecodeError [] end)
        | _ => Ret None
        end
    | _ => Ret None
    end.

  (** _doc_to_object / _from_dict_value.  Every recursive call descends in the declared type;
      [fuel] bounds that descent.  The body is written over the recursive call [rec]. *)
  Section Body.
    Variable rec : ty -> jv -> res unit.      (* _doc_to_object on a member *)

    (** _from_dict_value(ctx, key, cls, inst, validator) *)
    Definition from_dict_value (t : ty) (nillable : bool) (attr : bool) (inst : jv) : res unit :=
      match t with
      | TLeaf k => leaf_from_dict_value k nillable attr inst
      | _ => rec t inst        (* validate() does nothing for a complex type; then _doc_to_object *)
      end.

    (** the Array branch: for i, child in enumerate(doc) *)
    Fixpoint array_items (elt : ty) (l : list jv) : res unit :=
      match l with
      | [] => Ret tt
      | x :: r => let! _ := from_dict_value elt true false x in array_items elt r
      end.

    (** for a in v: subinst.append(_from_dict_value(...)); frequencies[k] += 1 *)
    Fixpoint repeated_items (key : text) (f : field) (attr : bool) (l : list jv) : res (list text) :=
      match l with
      | [] => Ret []
      | a :: ar =>
          let! _ := from_dict_value (f_ty f) (f_nillable f) attr a in
          let! names := repeated_items key f attr ar in Ret (key :: names)
      end.

    (** for k, v in items: the names counted in [frequencies] *)
    Fixpoint member_items (fs : list field) (l : list (jv * jv)) : res (list text) :=
      match l with
      | [] => Ret []
      | (k, v) :: r =>
          let! ok := member_key k in
          match ok with
          | None => member_items fs r
          | Some key =>
              match find_field key fs with
              | None => member_items fs r
              | Some f =>
                  let attr := match f_kind f with KAttr => true | KElem => false end in
                  if is_multi (f_max f) then
                    match iterate v with
                    | None => guard_raise g_hier_repeated_iterable true (Raise ETypeError []) (Ret [])
                    | Some vs =>
                        let! n := repeated_items key f attr vs in
                        let! names := member_items fs r in Ret (n ++ names)
                    end
                  else
                    let! _ := from_dict_value (f_ty f) (f_nillable f) attr v in
                    let! names := member_items fs r in Ret (key :: names)
              end
          end
      end.

    (** items = doc.items(), else zip(field names, doc), else ValidationError *)
    Definition doc_items (fs : list field) (doc : jv) : res (list (jv * jv)) :=
      tryO (nth_try 0 hier_doc_to_object_tries)
        (match doc with JMap kv => Ret kv | _ => Raise EAttributeError [] end)
        (fun _ _ =>
           tryS (nth_try 1 hier_doc_to_object_tries)
             (match iterate doc with
              | Some vs => Ret (zip_names fs vs)
              | None => Raise ETypeError []
              end)).

    Definition doc_to_object_body (t : ty) (doc : jv) : res unit :=
      match doc with
      | JNull => Ret tt
      | _ =>
        match t with
        | TLeaf _ | TAttr _ => Raise ETypeError []   (* _doc_to_object is only entered with complex classes *)
        | TArr _ elt =>
            match iterate doc with
            | None => guard_raise g_hier_array_iterable true (Raise ETypeError []) (Ret tt)
            | Some items => array_items elt items
            end
        | TRef c =>
            match class_fields A c with
            | None => Raise EKeyError []
            | Some fs =>
                let! items := doc_items fs doc in
                let! seen := member_items fs items in
                if soft then check_freq fs seen else Ret tt
            end
        end
      end.
  End Body.

  Fixpoint doc_to_object (fuel : nat) (t : ty) (doc : jv) {struct fuel} : res unit :=
    match fuel with
    | O => Raise EOutOfFuel []
    | S fuel' => doc_to_object_body (doc_to_object fuel') t doc
    end.
End DictDeser.

(** ---- create_in_document ---- *)
(** JsonDocument: b''.join, optional decode, json.loads, all inside one try *)
Definition json_create_in_document (r : lib_result jv) : res jv :=
  tryS (nth_try 0 json_create_in_document_tries) (of_lib r).
(** YamlDocument: try: try: decode except TypeError: join; yaml.load  except ...: Fault *)
Definition yaml_create_in_document (decode : option pyexn) (r : lib_result jv) : res jv :=
  tryS (nth_try 0 yaml_create_in_document_tries)
       (let! _ := tryO (nth_try 1 yaml_create_in_document_tries)
                       (match decode with Some e => Raise e [] | None => Ret tt end)
                       (fun _ _ => Ret tt) in
        of_lib r).
(** MessagePackDocument: try: msgpack.unpackb(...) except ValueError: raise MessagePackDecodeError *)
Definition msgpack_create_in_document (r : lib_result jv) : res jv :=
  tryS (nth_try 0 msgpack_create_in_document_tries) (of_lib r).

Record dict_request := mkdreq { dr_decode : option pyexn; dr_doc : lib_result jv }.

Definition dict_create_in_document (P : dproto) (rq : dict_request) : res jv :=
  match P with
  | PJson => json_create_in_document (dr_doc rq)
  | PYaml => yaml_create_in_document (dr_decode rq) (dr_doc rq)
  | PMsgpack => msgpack_create_in_document (dr_doc rq)
  end.

Section DictHead.
  (** '%s' % key for the keys that are not text (None, booleans, numbers, tuples, dates): any
      function will do for the theorems *)
  Variable fmt : jv -> text.
  Variable P : dproto.
  Variable A : app.

  (** gen_method_request_string: the single key, decoded by MessagePackDocument when it is bytes *)
  Definition method_request_string (k : jv) : res text :=
    match k with
    | JStr s => Ret (qname (a_tns A) s)
    | JBytes _ dec =>
        match P with
        | PMsgpack => tryS (nth_try 0 msgpack_gen_mrs_tries)
                           (match dec with Some s => Ret (qname (a_tns A) s)
                                         | None => Raise EUnicodeDecodeError [] end)
        | _ => Ret (qname (a_tns A) (fmt k))
        end
    | _ => Ret (qname (a_tns A) (fmt k))
    end.

  (** DictDocument.decompose_incoming_envelope + generate_method_contexts: the in_message class and
      the single (key, value) of the request *)
  Definition dict_decode_head (rq : dict_request) : res (nat * jv * jv) :=
    let! doc := dict_create_in_document P rq in
    match doc with
    | JMap [(k, v)] =>
        let! mrs := method_request_string k in
        let! c := generate_method_contexts A (Some mrs) in
        Ret (c, k, v)
    | _ => guard_raise g_dict_one_key true (Raise EValueError []) (Raise EValueError [])
    end.
End DictHead.

(** HierDictDocument.deserialize: doc = in_body_doc.get(class_name) with class_name the type name
    of the in_message (a str; bytes for MessagePackDocument), then _doc_to_object; a null body is
    a call with absent arguments *)
Definition dict_deserialize (P : dproto) (soft : bool) (A : app) (fuel : nat) (c : nat) (k v : jv) : res unit :=
  let name := match nth_error (a_classes A) c with Some cl => c_name cl | None => [] end in
  let hit := match P, k with
             | PMsgpack, JBytes b _ => text_eqb b name
             | PMsgpack, _ => false
             | _, JStr s => text_eqb s name
             | _, _ => false
             end in
  if hit then doc_to_object P soft A fuel (TRef c) v else Ret tt.
