(** C10 proofs, part 2: the dict-document path. *)
From SpyneV Require Import C10.Pipe C10.Proofs C08.DurProofs C08.BinProofs.
From Coq Require Import Lia.
Set Default Timeout 60.
Arguments vstring : simpl never.
Arguments vnative : simpl never.
Arguments read_leaf : simpl never.
Arguments raise_nth : simpl never.
Arguments guard_raise : simpl never.
Arguments guard_skip : simpl never.
Arguments class_fields : simpl never.
Arguments find_field : simpl never.
Arguments iterate : simpl never.
Arguments leaf_from_dict_value : simpl never.
Arguments member_key : simpl never.

(** ---- dict documents ---- *)
Lemma integral_float_safe rs c :
  match nth_error rs 1 with Some (e, k) => is_fault e = true /\ is_client k = true | None => False end ->
  safe (integral_float rs c).
Proof.
  intros H. unfold integral_float, raise_nth. destruct c; try exact I;
    destruct (nth_error rs 1) as [[e k]|]; auto; contradiction.
Qed.
Lemma ret_number_safe P v : safe (ret_number P v).
Proof.
  unfold ret_number. destruct P, v; try destruct b; try conc;
    useg; cbn [is_non_number]; apply integral_float_safe; vm_compute; auto.
Qed.
Lemma msgpack_integer_safe v : safe (msgpack_integer v).
Proof.
  unfold msgpack_integer. destruct v; try destruct b; try conc;
    useg; cbn [is_non_number]; apply integral_float_safe; vm_compute; auto.
Qed.
Lemma ret_bool_safe P v : safe (ret_bool P v).
Proof. unfold ret_bool. destruct (is_bool v); [conc|]. destruct P; conc. Qed.


Section DictProofs.
  Variable P : dproto.
  Variable soft : bool.
  Variable A : app.
  Hypothesis WF : wf_app A = true.
  Let N := length (a_classes A).

  Ltac auto_safe :=
    repeat first
      [ exact I
      | match goal with H : Ret _ = Ret _ |- _ => discriminate H end
      | match goal with H : Raise _ _ = Ret _ |- _ => discriminate H end
      | match goal with H : Ret _ = Ret _ |- _ => inversion H; subst; clear H end
      | match goal with H : tryS _ (match ?u with _ => _ end) = Ret _ |- _ =>
          destruct u; vm_compute in H; first [discriminate H | inversion H; subst; clear H] end
      | apply safe_vfault
      | apply read_int_safe | apply read_bytes_safe | apply from_urlsafe_bytes_safe | apply from_hex_safe | apply ret_number_safe
      | apply ret_bool_safe | apply msgpack_integer_safe | apply read_leaf_safe_inbase
      | match goal with |- safe (if ?c then _ else _) => destruct c end
      | match goal with |- safe (match ?x with _ => _ end) => is_var x; destruct x end
      | match goal with |- safe (rbind _ _) => apply safe_bind; [ | intros ] end
      | match goal with |- safe (match ?x with Ret _ => _ | Raise _ _ => _ end) =>
          apply safe_bind; [ | intros ] end
      | match goal with |- safe (tryS _ (match ?x with _ => _ end)) => is_var x; destruct x end
      | conc ].

  Lemma leaf_from_dict_value_safe k nillable inst :
    safe (leaf_from_dict_value P soft k nillable inst).
  Proof.
    unfold leaf_from_dict_value.
    apply safe_bind.
    { destruct soft; [|conc]. apply safe_bind.
      - destruct inst, k, nillable; conc.
      - intros _ _. destruct P; try conc. useg. auto_safe. }
    intros _ _.
    destruct inst, k; useg;
      cbn [is_textlike is_text_only_kind is_number_kind is_number_source is_number negb andb orb];
      auto_safe.
  Qed.
End DictProofs.

Section DictTotal.
  Variable P : dproto.
  Variable soft : bool.
  Variable A : app.
  Hypothesis WF : wf_app A = true.
  Let N := length (a_classes A).

  Lemma check_freq_safe fs seen : safe (check_freq fs seen).
  Proof.
    induction fs as [|f r IH]; simpl; [conc|].
    destruct (_ <? f_min f); [conc|]. destruct (negb _); [conc|exact IH].
  Qed.

  Lemma member_key_safe k : safe (member_key P k).
  Proof. unfold member_key. destruct k; try conc. destruct P; try conc. destruct utf8; conc. Qed.

  (** the classes _doc_to_object is entered with *)
  Definition complex_wf (t : ty) : bool :=
    match t with TRef _ | TArr _ _ => ty_wf N t | _ => false end.

  Section BodyProofs.
    Variable rec : ty -> jv -> res unit.
    Hypothesis Hrec : forall t d, complex_wf t = true -> safeF (rec t d).

    Lemma from_dict_value_safeF t nil' inst :
      ty_wf N t = true -> safeF (from_dict_value P soft rec t nil' inst).
    Proof.
      intros W. unfold from_dict_value. destruct t; try discriminate W.
      - apply safe_safeF. apply leaf_from_dict_value_safe.
      - destruct inst; try (apply Hrec; exact W). useg. destruct (soft && negb nil'); apply safe_safeF; conc.
      - destruct inst; try (apply Hrec; exact W). useg. destruct (soft && negb nil'); apply safe_safeF; conc.
    Qed.

    Lemma array_items_safeF elt l : ty_wf N elt = true -> safeF (array_items P soft rec elt l).
    Proof.
      intros W. induction l as [|x r IH]; [exact I|]. cbn [array_items].
      apply safeF_bind; [apply from_dict_value_safeF; exact W | intros; exact IH].
    Qed.

    Lemma repeated_items_safeF key f l :
      ty_wf N (f_ty f) = true -> safeF (repeated_items P soft rec key f l).
    Proof.
      intros W. induction l as [|x r IH]; [exact I|]. cbn [repeated_items].
      apply safeF_bind; [apply from_dict_value_safeF; exact W|].
      intros. apply safeF_bind; [exact IH | intros; exact I].
    Qed.

    Lemma member_items_safeF fs l :
      forallb (field_wf N) fs = true -> safeF (member_items P soft rec fs l).
    Proof.
      intros Wfs. induction l as [|[k v] r IH]; [exact I|]. cbn [member_items].
      apply safeF_bind; [apply safe_safeF, member_key_safe|].
      intros [key|] _; [|exact IH].
      destruct (find_field key fs) as [f|] eqn:Ff; [|exact IH].
      pose proof (find_field_wf _ _ _ _ Wfs Ff) as Wf. unfold field_wf in Wf.
      apply andb_prop in Wf as [Wty _]. cbv zeta.
      destruct (is_multi (f_max f)).
      - destruct (iterate v) as [vs|]; [|apply safe_safeF; conc].
        apply safeF_bind; [apply repeated_items_safeF; exact Wty|].
        intros. apply safeF_bind; [exact IH | intros; exact I].
      - apply safeF_bind; [apply from_dict_value_safeF; exact Wty|].
        intros. apply safeF_bind; [exact IH | intros; exact I].
    Qed.

    Lemma doc_items_safe fs doc : safe (doc_items fs doc).
    Proof.
      unfold doc_items. destruct doc; try conc;
        unfold tryO, try_, nth_try; simpl; try conc.
      all: match goal with |- context [iterate ?d] => destruct (iterate d) end; conc.
    Qed.

    Lemma doc_to_object_body_safeF t doc :
      complex_wf t = true -> safeF (doc_to_object_body P soft A rec t doc).
    Proof.
      intros Wt. unfold doc_to_object_body.
      destruct doc as [|b|z|c|s|b u|l|kv|] eqn:Ed; [exact I| | | | | | | |].
      all: destruct t as [lk|c0|lk|aid elt]; try discriminate Wt.
      all: try (simpl in Wt;
                match goal with |- safeF (match iterate ?d with _ => _ end) => destruct (iterate d) as [items|] end;
                [apply array_items_safeF; exact Wt | apply safe_safeF; conc]).
      all: simpl in Wt; apply Nat.ltb_lt in Wt;
           destruct (wf_class_fields A c0 WF Wt) as [fs [Ef Wfs]]; rewrite Ef;
           apply safeF_bind; [apply safe_safeF, doc_items_safe|];
           intros items _; apply safeF_bind; [apply member_items_safeF; exact Wfs|];
           intros seen _; destruct soft; [apply safe_safeF, check_freq_safe | exact I].
    Qed.
  End BodyProofs.

  (** C10 core, dict documents: _doc_to_object on ANY document value, for any declared type of a
      well-formed universe and any fuel, returns, raises a Client fault, or runs out of fuel *)
  Lemma doc_to_object_safeF : forall fuel t doc,
    complex_wf t = true -> safeF (doc_to_object P soft A fuel t doc).
  Proof.
    induction fuel as [|fuel IH]; intros t doc Wt; [simpl; left; reflexivity|].
    cbn [doc_to_object]. apply doc_to_object_body_safeF; auto.
  Qed.
End DictTotal.

(** ---- parsing and the envelope ---- *)
(** json.loads on bytes: JSONDecodeError and UnicodeDecodeError (both ValueError), RecursionError *)
Definition JSON_RAISES := [EValueError; EJSONDecodeError; EUnicodeDecodeError; ERecursionError].
(** yaml.load: the YAMLError family, and ValueError from the scalar constructors *)
Definition YAML_RAISES := [EYAMLError; EMarkedYAMLError; EScannerError; EParserError; EComposerError;
                           EConstructorError; EReaderError; EValueError; EUnicodeDecodeError].
Definition YAML_DECODE_RAISES := [EUnicodeDecodeError].
(** msgpack.unpackb: ValueError and its msgpack subclasses, UnicodeDecodeError *)
Definition MSGPACK_RAISES := [EValueError; EMsgpackExtraData; EMsgpackFormatError; EMsgpackStackError;
                              EUnicodeDecodeError].

Definition dict_request_ok (P : dproto) (rq : dict_request) : Prop :=
  match P with
  | PJson => lib_in JSON_RAISES (dr_doc rq)
  | PYaml => match dr_decode rq with None => True | Some e => mem_exn e YAML_DECODE_RAISES = true end
             /\ lib_in YAML_RAISES (dr_doc rq)
  | PMsgpack => lib_in MSGPACK_RAISES (dr_doc rq)
  end.

Lemma dict_create_in_document_safe P rq : dict_request_ok P rq -> safe (dict_create_in_document P rq).
Proof.
  unfold dict_request_ok, dict_create_in_document. destruct P.
  - intros H. unfold json_create_in_document. destruct (dr_doc rq) as [d|e]; [conc|]. case_mem H; conc.
  - intros [Hd H]. unfold yaml_create_in_document.
    destruct (dr_decode rq) as [e|].
    + match type of Hd with mem_exn ?e _ = true => destruct e; vm_compute in Hd; try discriminate Hd end. conc.
    + destruct (dr_doc rq) as [d|e]; [conc|]. case_mem H; conc.
  - intros H. unfold msgpack_create_in_document. destruct (dr_doc rq) as [d|e]; [conc|]. case_mem H; conc.
Qed.

Lemma method_request_string_safe fmt P A k : safe (method_request_string fmt P A k).
Proof. unfold method_request_string. destruct k; try conc. destruct P; try conc. destruct utf8; conc. Qed.

Lemma dict_decode_head_safe fmt P A rq :
  wf_app A = true -> dict_request_ok P rq ->
  safe (dict_decode_head fmt P A rq) /\
  forall m k v, dict_decode_head fmt P A rq = Ret (m, k, v) -> ty_wf (length (a_classes A)) (ms_ty m) = true.
Proof.
  intros WF Hr. unfold dict_decode_head.
  pose proof (dict_create_in_document_safe P rq Hr) as Hc.
  destruct (dict_create_in_document P rq) as [doc|e c]; [|split; [exact Hc|discriminate]].
  cbn [rbind].
  set (bad := @guard_raise (msig * jv * jv) g_dict_one_key true (Raise EValueError []) (Raise EValueError [])).
  assert (Bad : safe bad /\ forall c k v, bad = Ret (c, k, v) -> ty_wf (length (a_classes A)) (ms_ty c) = true).
  { split; [conc|]. intros c k v. vm_compute. discriminate. }
  destruct doc as [| | | | | | |kv|]; try exact Bad.
  destruct kv as [|[k v] [|]]; try exact Bad.
  pose proof (method_request_string_safe fmt P A k) as Hm.
  destruct (method_request_string fmt P A k) as [mrs|e c]; [|split; [exact Hm|discriminate]].
  cbn [rbind].
  destruct (generate_method_contexts_safe A (Some mrs) WF) as [Hg Hl].
  destruct (generate_method_contexts A (Some mrs)) as [c|e c]; [|split; [exact Hg|discriminate]].
  cbn [rbind]. split; [conc|]. intros c' k' v' H. inversion H; subst. apply Hl; reflexivity.
Qed.

Lemma complex_of_wf A t :
  ty_wf (length (a_classes A)) t = true -> match t with TLeaf _ => True | _ => complex_wf A t = true end.
Proof. destruct t; simpl; auto; discriminate. Qed.

Lemma dict_deserialize_safeF P soft A fuel m k v :
  wf_app A = true -> ty_wf (length (a_classes A)) (ms_ty m) = true ->
  safeF (dict_deserialize P soft A fuel m k v).
Proof.
  intros WF Wm. unfold dict_deserialize. cbv zeta.
  match goal with |- context [if ?b then v else JNull] => set (doc := if b then v else JNull) end. clearbody doc.
  pose proof (complex_of_wf A _ Wm) as Hc.
  assert (G : safeF (match ms_ty m with
                     | TLeaf kd => leaf_from_dict_value P soft kd (ms_nillable m) doc
                     | t => doc_to_object P soft A fuel t doc end)).
  { destruct (ms_ty m); try (apply doc_to_object_safeF; auto).
    apply safe_safeF, leaf_from_dict_value_safe. }
  destruct (ms_bare m); [destruct doc; try exact G; exact I | exact G].
Qed.

(** ---- fuel: the descent is bounded by the nesting of the declared types ---- *)
Section Fuel.
  Variable A : app.
  (** [fits f t]: _doc_to_object on t needs at most f levels *)
  Fixpoint fits (f : nat) (t : ty) : bool :=
    match f with
    | O => false
    | S f' =>
        let sub (u : ty) := match u with TLeaf _ => true | _ => fits f' u end in
        match t with
        | TLeaf _ | TAttr _ => true
        | TArr _ elt => sub elt
        | TRef c => match class_fields A c with
                    | Some fs => forallb (fun fd => sub (f_ty fd)) fs
                    | None => true
                    end
        end
    end.
End Fuel.

Section FuelProofs.
  Variable P : dproto.
  Variable soft : bool.
  Variable A : app.
  Hypothesis WF : wf_app A = true.
  Let N := length (a_classes A).

  Section BodyFuel.
    Variable rec : ty -> jv -> res unit.
    Variable ok : ty -> bool.
    Hypothesis Hrec : forall t d, complex_wf A t = true -> ok t = true -> safe (rec t d).
    Let sub (u : ty) : bool := match u with TLeaf _ => true | _ => ok u end.

    Lemma from_dict_value_safe t nil' inst :
      ty_wf N t = true -> sub t = true -> safe (from_dict_value P soft rec t nil' inst).
    Proof.
      intros W S. unfold from_dict_value. destruct t; try discriminate W.
      - apply leaf_from_dict_value_safe.
      - destruct inst; try (apply Hrec; [exact W | exact S]). useg. destruct (soft && negb nil'); conc.
      - destruct inst; try (apply Hrec; [exact W | exact S]). useg. destruct (soft && negb nil'); conc.
    Qed.

    Lemma array_items_safe elt l :
      ty_wf N elt = true -> sub elt = true -> safe (array_items P soft rec elt l).
    Proof.
      intros W S. induction l as [|x r IH]; [exact I|]. cbn [array_items].
      apply safe_bind; [apply from_dict_value_safe; auto | intros; exact IH].
    Qed.

    Lemma repeated_items_safe key f l :
      ty_wf N (f_ty f) = true -> sub (f_ty f) = true -> safe (repeated_items P soft rec key f l).
    Proof.
      intros W S. induction l as [|x r IH]; [exact I|]. cbn [repeated_items].
      apply safe_bind; [apply from_dict_value_safe; auto|].
      intros. apply safe_bind; [exact IH | intros; exact I].
    Qed.

    Lemma find_field_forallb (Q : field -> bool) k fs f :
      forallb Q fs = true -> find_field k fs = Some f -> Q f = true.
    Proof.
      induction fs as [|g r IH]; unfold find_field; simpl; [discriminate|].
      intros W H. apply andb_prop in W as [Wg Wr].
      destruct (text_eqb k (f_name g)); [inversion H; subst; auto | apply IH; auto].
    Qed.

    Lemma member_items_safe fs l :
      forallb (field_wf N) fs = true -> forallb (fun fd => sub (f_ty fd)) fs = true ->
      safe (member_items P soft rec fs l).
    Proof.
      intros Wfs Sfs. induction l as [|[k v] r IH]; [exact I|]. cbn [member_items].
      apply safe_bind; [apply member_key_safe|].
      intros [key|] _; [|exact IH].
      destruct (find_field key fs) as [f|] eqn:Ff; [|exact IH].
      pose proof (find_field_wf _ _ _ _ Wfs Ff) as Wf. unfold field_wf in Wf.
      apply andb_prop in Wf as [Wty _].
      pose proof (find_field_forallb _ _ _ _ Sfs Ff) as Sf. cbv beta in Sf. cbv zeta.
      destruct (is_multi (f_max f)).
      - destruct (iterate v) as [vs|]; [|conc].
        apply safe_bind; [apply repeated_items_safe; auto|].
        intros. apply safe_bind; [exact IH | intros; exact I].
      - apply safe_bind; [apply from_dict_value_safe; auto|].
        intros. apply safe_bind; [exact IH | intros; exact I].
    Qed.

    Lemma doc_to_object_body_safe t doc :
      complex_wf A t = true ->
      match t with
      | TArr _ elt => sub elt
      | TRef c => match class_fields A c with
                  | Some fs => forallb (fun fd => sub (f_ty fd)) fs | None => true end
      | _ => true
      end = true ->
      safe (doc_to_object_body P soft A rec t doc).
    Proof.
      intros Wt St. unfold doc_to_object_body.
      destruct doc as [|b|z|c|s|b u|l|kv|] eqn:Ed; [exact I| | | | | | | |].
      all: destruct t as [lk|c0|lk|aid elt]; try discriminate Wt.
      all: try (simpl in Wt;
                match goal with |- safe (match iterate ?d with _ => _ end) => destruct (iterate d) as [items|] end;
                [apply array_items_safe; auto | conc]).
      all: simpl in Wt; apply Nat.ltb_lt in Wt;
           destruct (wf_class_fields A c0 WF Wt) as [fs [Ef Wfs]]; rewrite Ef in *;
           apply safe_bind; [apply doc_items_safe|];
           intros items _; apply safe_bind; [apply member_items_safe; auto|];
           intros seen _; destruct soft; [apply check_freq_safe | exact I].
    Qed.
  End BodyFuel.

  (** with fuel for the nesting depth of the declared type, the outcome is a value or a Client
      fault: the fuel sentinel does not occur *)
  Lemma doc_to_object_safe : forall fuel t doc,
    complex_wf A t = true -> fits A fuel t = true -> safe (doc_to_object P soft A fuel t doc).
  Proof.
    induction fuel as [|fuel IH]; intros t doc Wt Ft; [discriminate Ft|].
    cbn [doc_to_object].
    apply (doc_to_object_body_safe (doc_to_object P soft A fuel) (fits A fuel)).
    - intros t' d W' F'. apply IH; auto.
    - exact Wt.
    - cbn [fits] in Ft. destruct t; auto.
  Qed.
End FuelProofs.
