(** C10, the transport side: ServerBase.generate_contexts / get_in_object / get_out_object
    (spyne/server/_base.py) and WsgiApplication.handle_rpc (spyne/server/wsgi.py) around the
    protocol functions of Xml.v / Dict.v.  Definitions only.

    The [except] clauses and the statement skeletons are the ones Gen/ReqPipe.v reads from the
    source.  A request ends in exactly one of three ways. *)
From SpyneV Require Export C10.Xml C10.Dict.

Inductive outcome :=
| Called (c : nat)                       (* deserialised; the user function of method number c is run *)
| Answered (cls : pyexn) (code : text)   (* answered with this fault; the user function is not run *)
| Escaped (e : pyexn) (code : text).     (* an exception leaves the entry point *)

Definition pstep_eqb (a b : pstep) : bool :=
  match a, b with
  | SCreateInDocument, SCreateInDocument | SDecompose, SDecompose
  | SGenerateMethodContexts, SGenerateMethodContexts | SDeserialize, SDeserialize => true
  | _, _ => false
  end.
Fixpoint psteps_eqb (a b : list pstep) : bool :=
  match a, b with
  | [], [] => true
  | x :: a', y :: b' => pstep_eqb x y && psteps_eqb a' b'
  | _, _ => false
  end.

Section Server.
  (** the protocol functions for one request: [head] = create_in_document; decompose_incoming_envelope;
      generate_method_contexts (its result is what identifies the call), [deser] = deserialize *)
  Variable H : Type.
  Variable head : res H.
  Variable deser : H -> res unit.
  Variable cls_of : H -> nat.

  (** ServerBase.generate_contexts: the three protocol calls inside [try ... except Fault as e:
      ctx.in_error = e].  Left: contexts generated; right: in_error. *)
  Definition generate_contexts : res (H + (pyexn * text)) :=
    if psteps_eqb generate_contexts_steps [SCreateInDocument; SDecompose; SGenerateMethodContexts] then
      tryO (nth_try 0 generate_contexts_tries)
           (let! h := head in Ret (inl h))
           (fun e c => Ret (inr (e, c)))
    else Raise EException [].        (* a skeleton this model does not describe *)

  (** ServerBase.get_in_object: deserialize inside [try ... except Fault as e: ctx.in_error = e] *)
  Definition get_in_object (h : H) : res (option (pyexn * text)) :=
    if psteps_eqb get_in_object_steps [SDeserialize] then
      tryO (nth_try 0 get_in_object_tries)
           (let! _ := deser h in Ret None)
           (fun e c => Ret (Some (e, c)))
    else Raise EException [].

  (** a transport that follows the documented sequence (what the harness and every transport in
      spyne/server does): stop at the first in_error *)
  Definition server_run : outcome :=
    match generate_contexts with
    | Raise e c => Escaped e c
    | Ret (inr (e, c)) => Answered e c
    | Ret (inl h) =>
        match get_in_object h with
        | Raise e c => Escaped e c
        | Ret (Some (e, c)) => Answered e c
        | Ret None => Called (cls_of h)
        end
    end.

  (** ServerBase.get_out_object called on a context whose in_error is set: the user function must
      not run ([if ctx.in_error is None: process_request(ctx) else: raise ctx.in_error]) *)
  Definition get_out_object_on_error (e : pyexn) (c : text) : outcome :=
    if get_out_object_guarded then Escaped e c else Called 0.

  (** ---- WsgiApplication.handle_rpc, statement by statement ---- *)
  (** [reconstruct]: __reconstruct_wsgi_request (Content-Type / Content-Length handling); it
      raises RequestTooLongError or ValidationError, or nothing *)
  Variable reconstruct : res unit.

  Record wstate := mkw { w_ctx : option H; w_in_error : option (pyexn * text); w_called : option nat }.

  Fixpoint wsgi_steps (steps : list wstep) (st : wstate) : outcome :=
    match steps with
    | [] => match w_called st with Some c => Called c | None => Escaped EException [] end
    | WReconstruct hs :: r =>
        match tryO hs (let! _ := reconstruct in Ret None) (fun e c => Ret (Some (e, c))) with
        | Raise e c => Escaped e c
        | Ret (Some (e, c)) => Answered e c            (* return self.handle_error(...) *)
        | Ret None => wsgi_steps r st
        end
    | WGenerateContexts :: r =>
        match generate_contexts with
        | Raise e c => Escaped e c
        | Ret (inl h) => wsgi_steps r (mkw (Some h) None (w_called st))
        | Ret (inr ec) => wsgi_steps r (mkw None (Some ec) (w_called st))
        end
    | WIfInErrorReturn :: r =>
        match w_in_error st with
        | Some (e, c) => Answered e c
        | None => wsgi_steps r st
        end
    | WGetInObject :: r =>
        match w_ctx st with
        | None => Escaped EAttributeError []           (* deserialize on a context without a method *)
        | Some h =>
            match get_in_object h with
            | Raise e c => Escaped e c
            | Ret (Some ec) => wsgi_steps r (mkw (w_ctx st) (Some ec) (w_called st))
            | Ret None => wsgi_steps r st
            end
        end
    | WGetOutObject :: r =>
        match w_in_error st, w_ctx st with
        | Some (e, c), _ => get_out_object_on_error e c
        | None, Some h => wsgi_steps r (mkw (w_ctx st) None (Some (cls_of h)))
        | None, None => Escaped EAttributeError []
        end
    | WIfOutErrorReturn :: r => wsgi_steps r st         (* out_error is the user function's business *)
    | WGetOutString _ :: r => wsgi_steps r st
    end.
  Definition wsgi_run : outcome := wsgi_steps handle_rpc_steps (mkw None None None).
End Server.

(** ---- WsgiApplication.__reconstruct_wsgi_request: the charset parameter of Content-Type ----
    What codecs.lookup(charset) does is the library's business: it raises (LookupError for an
    unknown name, TypeError / ValueError for a value that is no proper string), or finds a codec
    that is or is not a text encoding (bytes.decode refuses the others with LookupError). *)
Inductive codec_lookup :=
| CLNone                      (* no Content-Type, or no charset parameter *)
| CLRaise (e : pyexn)
| CLFound (is_text : bool).
Definition reconstruct_wsgi_request (cl : codec_lookup) : res unit :=
  match cl with
  | CLNone => Ret tt
  | CLRaise e => tryS (nth_try 0 wsgi_reconstruct_tries) (Raise e [])
  | CLFound is_text =>
      (* without the check the protocol's own .decode(charset) raises LookupError later *)
      guard_raise g_wsgi_charset_not_text (negb is_text) (Raise ELookupError []) (Ret tt)
  end.

(** the property, on an outcome: a normal call, or a fault of the Client family; never an escaped
    exception, never another fault *)
Definition good (o : outcome) : bool :=
  match o with
  | Called _ => true
  | Answered cls code => isinst exn_bases cls EFault && is_client code
  | Escaped _ _ => false
  end.
(** the same, allowing the model's own fuel sentinel (excluded by giving enough fuel) *)
Definition good_or_fuel (o : outcome) : bool :=
  match o with
  | Escaped EOutOfFuel _ => true
  | _ => good o
  end.

(** ---- the entry points per protocol ---- *)
Definition xml_server (soft : bool) (A : app) (rq : xml_request) : outcome :=
  server_run (msig * xnode) (xml_decode_head A rq) (fun h => xml_deserialize soft A (fst h) (snd h)) (fun h => ms_id (fst h)).
Definition soap_server (ns_soap : text) (soft : bool) (A : app) (rq : soap_request) : outcome :=
  server_run (msig * xnode) (soap_decode_head ns_soap A rq) (fun h => soap_deserialize soft A (fst h) (snd h)) (fun h => ms_id (fst h)).
Definition dict_server (fmt : jv -> text) (P : dproto) (soft : bool) (A : app) (fuel : nat) (rq : dict_request) : outcome :=
  server_run (msig * jv * jv) (dict_decode_head fmt P A rq)
    (fun h => dict_deserialize P soft A fuel (fst (fst h)) (snd (fst h)) (snd h)) (fun h => ms_id (fst (fst h))).

Definition xml_wsgi (soft : bool) (A : app) (reconstruct : res unit) (rq : xml_request) : outcome :=
  wsgi_run (msig * xnode) (xml_decode_head A rq) (fun h => xml_deserialize soft A (fst h) (snd h)) (fun h => ms_id (fst h)) reconstruct.
Definition soap_wsgi (ns_soap : text) (soft : bool) (A : app) (reconstruct : res unit) (rq : soap_request) : outcome :=
  wsgi_run (msig * xnode) (soap_decode_head ns_soap A rq) (fun h => soap_deserialize soft A (fst h) (snd h)) (fun h => ms_id (fst h)) reconstruct.
Definition dict_wsgi (fmt : jv -> text) (P : dproto) (soft : bool) (A : app) (fuel : nat) (reconstruct : res unit)
    (rq : dict_request) : outcome :=
  wsgi_run (msig * jv * jv) (dict_decode_head fmt P A rq)
    (fun h => dict_deserialize P soft A fuel (fst (fst h)) (snd (fst h)) (snd h)) (fun h => ms_id (fst (fst h))) reconstruct.
