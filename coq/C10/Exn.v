(** C10 vocabulary: Python exception classes, outcomes of modelled functions,
    try/except.  Definitions only.

    Every Python [raise] in the modelled code is [Raise cls code]: [cls] is the
    exception class, [code] the faultcode when the class is a
    spyne.model.fault.Fault (the empty text otherwise).  An [except] clause is
    a list of classes; whether it catches is decided with the subclass table
    GENERATED from the live class hierarchy (Gen/ReqPipe.v: [exn_bases]). *)
From SpyneV Require Export Base.Prelude.

Inductive pyexn :=
(* builtins *)
| EException | EValueError | ETypeError | EAttributeError | ELookupError | EKeyError | EIndexError
| EArithmeticError | EOverflowError | EUnicodeError | EUnicodeDecodeError | EUnicodeEncodeError
| ERuntimeError | ERecursionError | ENotImplementedError | EAssertionError | EStopIteration
(* standard library *)
| EBinasciiError | EInvalidOperation | EJSONDecodeError
(* third party parsers *)
| EXMLSyntaxError
| EYAMLError | EMarkedYAMLError | EScannerError | EParserError | EComposerError | EConstructorError
| EReaderError
| EMsgpackUnpackException | EMsgpackExtraData | EMsgpackFormatError | EMsgpackStackError
| EMsgpackOutOfData
(* spyne faults *)
| EFault | EValidationError | EResourceNotFoundError | ERequestTooLongError | ERequestNotAllowed
| EInvalidCredentialsError | EInternalError | ESchemaValidationError | EMessagePackDecodeError
| ERedirect
(* model artefact: the recursion fuel of a modelled function ran out (never a Python exception) *)
| EOutOfFuel.

Definition exn_tag (e : pyexn) : Z :=
  match e with
  | EException => 0 | EValueError => 1 | ETypeError => 2 | EAttributeError => 3 | ELookupError => 4
  | EKeyError => 5 | EIndexError => 6 | EArithmeticError => 7 | EOverflowError => 8
  | EUnicodeError => 9 | EUnicodeDecodeError => 10 | EUnicodeEncodeError => 11 | ERuntimeError => 12
  | ERecursionError => 13 | ENotImplementedError => 14 | EAssertionError => 15 | EStopIteration => 16
  | EBinasciiError => 17 | EInvalidOperation => 18 | EJSONDecodeError => 19 | EXMLSyntaxError => 20
  | EYAMLError => 21 | EMarkedYAMLError => 22 | EScannerError => 23 | EParserError => 24
  | EComposerError => 25 | EConstructorError => 26 | EReaderError => 27
  | EMsgpackUnpackException => 28 | EMsgpackExtraData => 29 | EMsgpackFormatError => 30
  | EMsgpackStackError => 31 | EMsgpackOutOfData => 32
  | EFault => 33 | EValidationError => 34 | EResourceNotFoundError => 35 | ERequestTooLongError => 36
  | ERequestNotAllowed => 37 | EInvalidCredentialsError => 38 | EInternalError => 39
  | ESchemaValidationError => 40 | EMessagePackDecodeError => 41 | ERedirect => 42
  | EOutOfFuel => 43
  end.
Definition exn_eq (a b : pyexn) : bool := exn_tag a =? exn_tag b.

(** outcome of a modelled Python function *)
Inductive res (A : Type) :=
| Ret (a : A)
| Raise (e : pyexn) (code : text).
Arguments Ret {A} a.
Arguments Raise {A} e code.

Definition rbind {A B} (x : res A) (f : A -> res B) : res B :=
  match x with Ret a => f a | Raise e c => Raise e c end.
Notation "'let!' x ':=' e 'in' f" := (rbind e (fun x => f))
  (at level 200, x pattern, e at level 100, f at level 200, right associativity).

(** what the body of an [except] clause does, as far as the translator recognises it *)
Inductive haction :=
| HFault (cls : pyexn) (code : text)   (* raise <Fault subclass>(...) / raise Fault('code', ...) *)
| HReraise                           (* raise  /  raise e *)
| HOther.                            (* anything else: the model spells it out at the use site *)
Record handler := mkh { h_classes : list pyexn; h_action : haction }.

Definition mem_exn (e : pyexn) (l : list pyexn) : bool := existsb (exn_eq e) l.

Section WithHierarchy.
  (** proper ancestors of a class among the modelled classes (generated) *)
  Variable bases : pyexn -> list pyexn.

  (** isinstance(exception of class e, c) *)
  Definition isinst (e c : pyexn) : bool := exn_eq e c || mem_exn c (bases e).
  (** does [except (c1, ..., cn)] catch an exception of class e *)
  Definition catches (cs : list pyexn) (e : pyexn) : bool := existsb (isinst e) cs.

  (** first handler of a try statement that catches e *)
  Fixpoint find_handler (hs : list handler) (e : pyexn) : option handler :=
    match hs with
    | [] => None
    | h :: r => if catches (h_classes h) e then Some h else find_handler r e
    end.

  (** [try: x  except ...] where every handler body is one the translator understood; a handler
      whose action is HOther is given by [other] *)
  Definition try_ {A} (hs : list handler) (x : res A) (other : pyexn -> text -> res A) : res A :=
    match x with
    | Ret a => Ret a
    | Raise e c =>
        match find_handler hs e with
        | None => Raise e c
        | Some h =>
            match h_action h with
            | HFault cls code => Raise cls code
            | HReraise => Raise e c
            | HOther => other e c
            end
        end
    end.
  (** a try statement none of whose handlers may be HOther (if one is, the exception propagates:
      fail-closed for the theorems) *)
  Definition try_simple {A} (hs : list handler) (x : res A) : res A :=
    try_ hs x (fun e c => Raise e c).
End WithHierarchy.

(** fault codes *)
Definition t_Client : text := [67; 108; 105; 101; 110; 116].           (* "Client" *)
Fixpoint prefix_of (p s : text) : bool :=
  match p, s with
  | [], _ => true
  | x :: p', y :: s' => (x =? y) && prefix_of p' s'
  | _ :: _, [] => false
  end.
(** the Client family: code == 'Client' or code.startswith('Client.') *)
Definition is_client (code : text) : bool :=
  text_eqb code t_Client || prefix_of (t_Client ++ [46]) code.

(** an optional guard of the form [if <test>: raise <Fault>(...)] found (or not) in a function *)
Record guard := mkguard { g_present : bool; g_cls : pyexn; g_code : text }.

(** the call skeleton of ServerBase.generate_contexts / get_in_object (the calls inside the try
    body, in order) and of WsgiApplication.handle_rpc, as the translator reads them *)
Inductive pstep := SCreateInDocument | SDecompose | SGenerateMethodContexts | SDeserialize.
Inductive wstep :=
| WReconstruct (hs : list handler)     (* try: ...__reconstruct_wsgi_request(...) except ...: return handle_error *)
| WGenerateContexts
| WIfInErrorReturn                     (* if p_ctx.in_error: return self.handle_error(...) *)
| WGetInObject
| WGetOutObject
| WIfOutErrorReturn
| WGetOutString (hs : list handler).
