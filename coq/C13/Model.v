(** C13 — the WSGI layer of spyne/server/wsgi.py (with the proposed C13 repairs
    applied) as a function from a request scenario to the trace of what the
    WSGI server and the user code see.  Definitions only.

    Mirrors, line by line where it matters:
      WsgiApplication.__call__ / handle_wsdl_request / handle_rpc / handle_error /
      __finalize / __reconstruct_wsgi_request / __wsgi_input_to_iterable /
      __read_wsgi_input, _ResponseIterator (server/wsgi.py),
      ServerBase.generate_contexts / get_in_object / get_out_object (only their
      try/except skeleton: which outcomes are caught, server/_base.py),
      Application.process_request (catches every Exception, application.py).

    What lies below the WSGI layer (the protocols, the user function, the
    serialisers) is NOT modelled: its outcome at each stage is an input of the
    scenario and is universally quantified in the theorems. *)
From SpyneV Require Export Base.Prelude Base.Digits Gen.WsgiReader.

(** ** configuration: WsgiApplication(app, chunked, max_content_length, block_length) *)
Record cfg := Cfg { chunked : bool; mcl : Z; bl : Z }.

(** ** events *)
Inductive fkind :=
| FTooLong     (* RequestTooLongError *)
| FBadLength   (* ValidationError for a non-numeric Content-Length *)
| FOther.      (* any other Fault, raised below the WSGI layer *)

Inductive rkind :=
| ROk                 (* handle_rpc, success path *)
| RErr (f : fkind)    (* handle_error *)
| RWsdl200 | RWsdl404 | RWsdl500.

Inductive ev :=
| Read (asked got : Z)              (* wsgi.input.read(asked) returned got bytes *)
| User                              (* the user function is called *)
| Start (k : rkind) (cl : option Z) (* start_response; cl = the Content-Length header, if sent *)
| Chunk (n : Z)                     (* a body chunk of n bytes is handed to the server *)
| CtxClose                          (* MethodContext.close(): method_context_closed *)
| WsgiClose                         (* the wsgi_close event *)
| Raise (e : exn).                  (* an exception leaves the WSGI callable or next() of its iterable *)

(** ** the request scenario *)
(** a stage of the pipeline returns normally, ends in a Fault (any class: the class decides
    nothing in the WSGI layer, it is only carried to the response), or lets another exception escape *)
Inductive stage := SOk | SFault (f : fkind) | SCrash (e : exn).
(** outcome of [next(g)] when the user function returned a generator *)
Inductive first_step := FItem | FStop | FRaise (f : fkind).
Inductive result := RPlain | RGen (f : first_step).
(** process_request catches Fault and Exception alike and sets ctx.out_error *)
Inductive user_out := UReturn (r : result) | URaise (f : fkind).
(** ctx.out_string after get_out_string: a sized sequence (list/tuple: has len())
    or a lazy iterable (generator, chain: no len()) that yields the chunks and
    then ends or raises *)
Inductive body := BSized (chunks : list Z) | BLazy (chunks : list Z) (fails : bool).
Inductive ser := SerOk (b : body) | SerExn.
(** get_out_string + list(out_string) inside handle_error *)
Inductive eser := ESerOk (chunks : list Z) | ESerExn (e : exn).
(** self.doc.wsdl11 is None | a cached document of n bytes | it has to be built
    (Some n: n bytes; None: build_interface_document raises) *)
Inductive wsdl_state := WNoDoc | WReady (n : Z) | WBuild (r : option Z).

Record req := Req {
  is_wsdl : bool;          (* is_wsdl_request(req_env) *)
  wsdl : wsdl_state;
  clen : option text;      (* req_env.get('CONTENT_LENGTH') *)
  stream : list Z;         (* what successive wsgi.input.read() calls have to offer (bytes);
                              the list running out = end of stream *)
  consume : bool;          (* the input protocol joins ctx.in_string (SOAP, XML, JSON, msgpack, yaml)
                              or never looks at it (HttpRpc) *)
  s_gen : stage;           (* generate_contexts once the body has been read *)
  s_in : stage;            (* get_in_object *)
  s_user : user_out;       (* get_out_object *)
  s_ser : ser;             (* get_out_string on the success path *)
  s_eser : eser;           (* get_out_string on the error path *)
  take : option nat;       (* the server stops after this many chunks (None: iterates to the end) *)
  closes : bool            (* ... and then calls close() on the iterable, as PEP 3333 requires *)
}.

(** ** __wsgi_input_to_iterable: the declared length *)
Inductive dlen := LBad | LLen (length : Z) (declared : bool).

Definition declared_length (c : cfg) (h : option text) : dlen :=
  match h with
  | None => LLen (rd_undeclared_length (mcl c) (bl c)) false   (* no header: length = max_content_length *)
  | Some [] => LLen rd_empty_length true       (* len(length) == 0 *)
  | Some s => match int_of_text s with         (* int(length) *)
              | Some z => LLen z true
              | None => LBad                   (* ValueError -> ValidationError *)
              end
  end.

(** istream.read(n) on a stream that has [a] bytes to offer: at most n bytes
    (n = 0 gives b''; a negative n means "everything") *)
Definition answer (n a : Z) : Z :=
  if n <? 0 then Z.max 0 a else Z.max 0 (Z.min n a).

(** ** __read_wsgi_input: the loop.  Structural on the stream: every iteration
    that continues consumes one answer.  The conditions and the size of the
    next read are the expressions of the working tree (Gen/WsgiReader.v,
    generated from wsgi.py); [RDiverge]: the loop would go on reading a stream
    that has ended (cannot happen with the end-of-stream test the tree has). *)
Inductive rres := RDone | RTooLong | RDiverge.

Fixpoint read_loop (c : cfg) (length : Z) (declared : bool) (bytes_read : Z)
         (st : list Z) {struct st} : list (Z * Z) * rres :=
  if rd_loop_cond (mcl c) (bl c) length bytes_read declared then           (* while ...: *)
    let n := rd_to_read (mcl c) (bl c) length bytes_read in                 (* bytes_to_read = ... *)
    if rd_loop_too_long (mcl c) (bl c) length bytes_read n then ([], RTooLong)
    else match st with
         | [] => ([(n, 0)], if rd_eof false 0 then RDone else RDiverge)     (* the stream has ended *)
         | a :: rest =>
             let got := answer n a in                                       (* data = istream.read(n) *)
             if rd_eof false got then ([(n, got)], RDone)                   (* if ...: return *)
             else let '(t, r) := read_loop c length declared (bytes_read + got) rest in
                  ((n, got) :: t, r)                                        (* bytes_read += len(data); yield *)
         end
  else ([], if rd_after_loop_too_long (mcl c) (bl c) length bytes_read declared
            then RTooLong else RDone).                                      (* after the loop *)

(** ** what the callable does once the body is dealt with *)
Inductive resp :=
| Escapes (e : exn)        (* the callable raises: start_response is never called *)
| Diverges                 (* the callable never returns (see [RDiverge]) *)
| Responds (k : rkind) (cl : option Z) (chunks : list Z) (fails : bool) (fin : list ev).
                           (* start_response(k, cl); return _ResponseIterator(chunks, fin) *)

Definition sumz (l : list Z) : Z := fold_right Z.add 0 l.

(** __finalize *)
Definition finalize : list ev := [CtxClose; WsgiClose].

(** handle_error: get_out_string; out_string = list(out_string);
    Content-Length = sum of the chunk lengths; start_response; _ResponseIterator *)
Definition handle_error (r : req) (f : fkind) : resp :=
  match s_eser r with
  | ESerExn e => Escapes e
  | ESerOk ch => Responds (RErr f) (Some (sumz ch)) ch false finalize
  end.

(** the tail of handle_rpc, from get_out_string on *)
Definition respond_ok (c : cfg) (r : req) : resp :=
  match s_ser r with
  | SerExn => handle_error r FOther                      (* except Exception: Fault('Server') *)
  | SerOk b =>
      if chunked c then
        (* a Content-Length set by somebody else is deleted; then
           try: len(out_string); Content-Length = sum(...)  except TypeError: pass *)
        match b with
        | BSized ch => Responds ROk (Some (sumz ch)) ch false finalize
        | BLazy ch f => Responds ROk None ch f finalize
        end
      else
        (* out_string = [b''.join(out_string)]: runs a lazy body to its end, here *)
        match b with
        | BSized ch => Responds ROk (Some (sumz ch)) [sumz ch] false finalize
        | BLazy ch false => Responds ROk (Some (sumz ch)) [sumz ch] false finalize
        | BLazy ch true => handle_error r FOther           (* except Exception: Fault('Server') *)
        end
  end.

Record outcome := Out { o_reads : list (Z * Z); o_user : bool; o_resp : resp }.

Definition handle_rpc (c : cfg) (r : req) : outcome :=
  match declared_length c (clen r) with
  | LBad => Out [] false (handle_error r FBadLength)
  | LLen length declared =>
      if rd_up_front_too_long (mcl c) (bl c) length then Out [] false (handle_error r FTooLong)
      else
        (* generate_contexts: create_in_document joins ctx.in_string, or not *)
        let '(reads, rr) := if consume r then read_loop c length declared 0 (stream r)
                            else ([], RDone) in
        match rr with
        | RTooLong => Out reads false (handle_error r FTooLong)   (* except Fault *)
        | RDiverge => Out reads false Diverges
        | RDone =>
            match s_gen r with
            | SCrash e => Out reads false (Escapes e)
            | SFault f => Out reads false (handle_error r f)
            | SOk =>
                match s_in r with
                | SCrash e => Out reads false (Escapes e)
                | SFault f => Out reads false (handle_error r f)
                | SOk =>
                    (* get_out_object: the user function runs *)
                    match s_user r with
                    | URaise f => Out reads true (handle_error r f)
                    | UReturn (RGen (FRaise f)) => Out reads true (handle_error r f)
                    | UReturn _ => Out reads true (respond_ok c r)
                    end
                end
            end
        end
  end.

Definition handle_wsdl (r : req) : outcome :=
  Out [] false
      match wsdl r with
      | WNoDoc => Responds RWsdl404 None [13] false [CtxClose]
      | WReady n | WBuild (Some n) => Responds RWsdl200 (Some n) [n] false [CtxClose]
      | WBuild None => Responds RWsdl500 None [25] false [CtxClose]
      end.

Definition run (c : cfg) (r : req) : outcome :=
  if is_wsdl r then handle_wsdl r else handle_rpc c r.

(** ** _ResponseIterator driven by the server: [take] chunks (or all of them),
    then close() if the server is conforming.  [fin] runs exactly when the
    chunks are exhausted, when producing one fails, or on close(). *)
Fixpoint serve (chunks : list Z) (fails : bool) (fin : list ev)
         (take : option nat) (closes : bool) {struct chunks} : list ev :=
  match take with
  | Some O => if closes then fin else []
  | _ =>
      match chunks with
      | [] => if fails then fin ++ [Raise OtherExn] else fin
      | n :: rest => Chunk n :: serve rest fails fin (option_map Nat.pred take) closes
      end
  end.

Definition respond (rs : resp) (take : option nat) (closes : bool) : list ev :=
  match rs with
  | Escapes e => [Raise e]
  | Diverges => []
  | Responds k cl ch f fin => Start k cl :: serve ch f fin take closes
  end.

Definition trace (c : cfg) (r : req) : list ev :=
  let o := run c r in
  map (fun p => Read (fst p) (snd p)) (o_reads o)
      ++ (if o_user o then [User] else [])
      ++ respond (o_resp o) (take r) (closes r).

(** ** observations on traces *)
Definition is_start (e : ev) := match e with Start _ _ => true | _ => false end.
Definition is_chunk (e : ev) := match e with Chunk _ => true | _ => false end.
Definition is_ctxclose (e : ev) := match e with CtxClose => true | _ => false end.
Definition is_user (e : ev) := match e with User => true | _ => false end.
Definition is_raise (e : ev) := match e with Raise _ => true | _ => false end.
Definition count (p : ev -> bool) (t : list ev) : nat := length (filter p t).

Definition got_of (e : ev) : Z := match e with Read _ g => g | _ => 0 end.
Definition total_read (t : list ev) : Z := sumz (map got_of t).
Definition chunk_of (e : ev) : Z := match e with Chunk n => n | _ => 0 end.
Definition total_sent (t : list ev) : Z := sumz (map chunk_of t).
Definition saw_eof (t : list ev) : bool :=
  existsb (fun e => match e with Read _ 0 => true | _ => false end) t.

(** ** the trace disciplines the property demands, as executable checkers *)
Definition quiet (p : ev -> bool) (t : list ev) : bool := forallb (fun e => negb (p e)) t.

(** start_response at most once, and no body chunk and no context close before it *)
Fixpoint start_discipline (t : list ev) : bool :=
  match t with
  | [] => true
  | Start _ _ :: r => quiet is_start r
  | e :: r => negb (is_chunk e) && negb (is_ctxclose e) && start_discipline r
  end.

(** the context is closed at most once, and no body chunk is handed over after that *)
Fixpoint close_discipline (t : list ev) : bool :=
  match t with
  | [] => true
  | CtxClose :: r => quiet is_ctxclose r && quiet is_chunk r
  | _ :: r => close_discipline r
  end.

(** the server asked for at most [budget] bytes in total, read by read *)
Fixpoint asks_within (budget : Z) (t : list ev) : Prop :=
  match t with
  | [] => True
  | Read n g :: r => n <= budget /\ asks_within (budget - g) r
  | _ :: r => asks_within budget r
  end.

(** ** equality on events, for the correspondence *)
Definition fkind_eqb (a b : fkind) :=
  match a, b with FTooLong, FTooLong | FBadLength, FBadLength | FOther, FOther => true | _, _ => false end.
Definition rkind_eqb (a b : rkind) :=
  match a, b with
  | ROk, ROk | RWsdl200, RWsdl200 | RWsdl404, RWsdl404 | RWsdl500, RWsdl500 => true
  | RErr f, RErr g => fkind_eqb f g
  | _, _ => false
  end.
Definition optz_eqb (a b : option Z) :=
  match a, b with Some x, Some y => x =? y | None, None => true | _, _ => false end.
Definition ev_eqb (a b : ev) : bool :=
  match a, b with
  | Read n g, Read m h => (n =? m) && (g =? h)
  | User, User | CtxClose, CtxClose | WsgiClose, WsgiClose => true
  | Start k c, Start l d => rkind_eqb k l && optz_eqb c d
  | Chunk n, Chunk m => n =? m
  | Raise e, Raise f => exn_eqb e f
  | _, _ => false
  end.
Fixpoint evs_eqb (a b : list ev) : bool :=
  match a, b with
  | [], [] => true
  | x :: a', y :: b' => ev_eqb x y && evs_eqb a' b'
  | _, _ => false
  end.

(** a correspondence case: configuration, scenario, observed trace *)
Definition case_ok (k : cfg * req * list ev) : bool :=
  let '(c, r, obs) := k in evs_eqb (trace c r) obs.

(** ** _ResponseIterator, statement by statement, with a close callback that may raise
    (a listener of wsgi_close fails, or a handle in ctx.files fails to close).  The order of
    "mark closed" and "run the callback" is the one of the working tree (Gen/WsgiReader.v,
    [ri_close_steps]); [fin] = the events of the callback, [raises] = it ends by raising. *)
Fixpoint ri_run (steps : list ri_step) (closed : bool) (fin : list ev) (raises : bool) : list ev * bool :=
  match steps with
  | [] => ([], closed)
  | RiMark :: s => ri_run s true fin raises
  | RiCall :: s => if raises then (fin, closed)
                   else let '(e, c) := ri_run s closed fin raises in (fin ++ e, c)
  end.

(** close(): (events, value of the closed flag afterwards) *)
Definition ri_close (closed : bool) (fin : list ev) (raises : bool) : list ev * bool :=
  if closed then ([], true) else ri_run ri_close_steps false fin raises.

(** one close() call by the server, with the exception it sees *)
Definition close_call (closed : bool) (fin : list ev) (raises : bool) : list ev * bool :=
  let '(e, c) := ri_close closed fin raises in
  (e ++ (if negb closed && raises then [Raise OtherExn] else []), c).

(** the server: [take] chunks (or all), then close() if conforming; when the iteration or that
    close() raised it still calls close() (wsgiref's BaseHandler: finally: result.close()) *)
Fixpoint serve_it (chunks : list Z) (fails : bool) (fin : list ev) (raises : bool)
         (take : option nat) (closes : bool) {struct chunks} : list ev :=
  match take with
  | Some O => if closes then
                let '(e1, c) := close_call false fin raises in
                e1 ++ (if raises then fst (close_call c fin raises) else [])
              else []
  | _ =>
      match chunks with
      | [] => (* __next__: except BaseException: self.close(); raise *)
          let '(e, c) := ri_close false fin raises in
          e ++ (if raises || fails then [Raise OtherExn] else [])
            ++ (if closes then fst (close_call c fin raises) else [])
      | n :: rest => Chunk n :: serve_it rest fails fin raises (option_map Nat.pred take) closes
      end
  end.

Inductive cfail := CFListener (* a wsgi_close listener raises *) | CFFile (* a ctx.files handle fails to close *).
Definition is_wsgiclose (e : ev) := match e with WsgiClose => true | _ => false end.
(** MethodContext.close fires method_context_closed, then closes the files; __finalize fires wsgi_close after it *)
Definition fin_cf (cf : cfail) (fin : list ev) : list ev :=
  match cf with CFListener => fin | CFFile => [CtxClose] end.
Definition raises_cf (cf : cfail) (fin : list ev) : bool :=
  match cf with CFListener => existsb is_wsgiclose fin | CFFile => true end.

Definition respond_cf (rs : resp) (take : option nat) (closes : bool) (cf : cfail) : list ev :=
  match rs with
  | Escapes e => [Raise e]
  | Diverges => []
  | Responds k cl ch f fin => Start k cl :: serve_it ch f (fin_cf cf fin) (raises_cf cf fin) take closes
  end.

Definition trace_cf (c : cfg) (r : req) (cf : cfail) : list ev :=
  let o := run c r in
  map (fun p => Read (fst p) (snd p)) (o_reads o)
      ++ (if o_user o then [User] else [])
      ++ respond_cf (o_resp o) (take r) (closes r) cf.

Definition case_cf_ok (k : cfg * req * cfail * list ev) : bool :=
  let '(c, r, cf, obs) := k in evs_eqb (trace_cf c r cf) obs.
