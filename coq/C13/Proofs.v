(** C13 — lemmas about the WSGI layer model. *)
From Coq Require Import ZArith List Bool Lia ZifyBool.
From SpyneV Require Import Base.Prelude Base.Digits C13.Model.
Import ListNotations.
Open Scope Z_scope.

(** * generic list facts *)
Lemma sumz_app a b : sumz (a ++ b) = sumz a + sumz b.
Proof. induction a; simpl; lia. Qed.

Lemma count_app p a b : count p (a ++ b) = (count p a + count p b)%nat.
Proof. unfold count. now rewrite filter_app, app_length. Qed.

Lemma quiet_app p a b : quiet p (a ++ b) = quiet p a && quiet p b.
Proof. unfold quiet. apply forallb_app. Qed.

Lemma quiet_count p t : quiet p t = true -> count p t = 0%nat.
Proof.
  unfold quiet, count. induction t; simpl; auto.
  intros H. apply andb_prop in H as [Ha Ht]. destruct (p a); simpl in *; try discriminate. auto.
Qed.

Definition reads (l : list (Z * Z)) : list ev := map (fun p => Read (fst p) (snd p)) l.

Lemma total_read_app a b : total_read (a ++ b) = total_read a + total_read b.
Proof. unfold total_read. now rewrite map_app, sumz_app. Qed.
Lemma total_sent_app a b : total_sent (a ++ b) = total_sent a + total_sent b.
Proof. unfold total_sent. now rewrite map_app, sumz_app. Qed.

Lemma total_read_reads l : total_read (reads l) = sumz (map snd l).
Proof. unfold total_read, reads. induction l; simpl; auto. now rewrite IHl. Qed.
Lemma total_sent_reads l : total_sent (reads l) = 0.
Proof. unfold total_sent, reads. induction l; simpl; auto. Qed.
Lemma quiet_reads p l : (forall n g, p (Read n g) = false) -> quiet p (reads l) = true.
Proof. intros H. unfold quiet, reads. induction l; simpl; auto. now rewrite H. Qed.
Lemma start_discipline_reads l t : start_discipline (reads l ++ t) = start_discipline t.
Proof. induction l; simpl; auto. Qed.
Lemma close_discipline_reads l t : close_discipline (reads l ++ t) = close_discipline t.
Proof. induction l; simpl; auto. Qed.

(** * the body reader *)
(** The loop with the generated expressions (Gen/WsgiReader.v) unfolded: this is
    where a change of an operator or operand in wsgi.py reaches the proofs. *)
Lemma read_loop_nil c length declared br :
  read_loop c length declared br [] =
  if br <? length then
    if Z.min (bl c) (length - br) + br >? mcl c then ([], RTooLong)
    else ([(Z.min (bl c) (length - br), 0)], RDone)
  else ([], if declared then RDone else RTooLong).
Proof.
  cbn [read_loop]. cbv [rd_loop_cond rd_to_read rd_loop_too_long rd_eof rd_after_loop_too_long].
  destruct (br <? length); [|destruct declared; reflexivity].
  destruct (_ >? _); reflexivity.
Qed.

Lemma read_loop_cons c length declared br a rest :
  read_loop c length declared br (a :: rest) =
  if br <? length then
    if Z.min (bl c) (length - br) + br >? mcl c then ([], RTooLong)
    else if answer (Z.min (bl c) (length - br)) a =? 0 then ([(Z.min (bl c) (length - br), 0)], RDone)
         else let '(t, r) := read_loop c length declared (br + answer (Z.min (bl c) (length - br)) a) rest in
              ((Z.min (bl c) (length - br), answer (Z.min (bl c) (length - br)) a) :: t, r)
  else ([], if declared then RDone else RTooLong).
Proof.
  cbn [read_loop]. cbv [rd_loop_cond rd_to_read rd_loop_too_long rd_eof rd_after_loop_too_long].
  destruct (br <? length); [|destruct declared; reflexivity].
  destruct (_ >? _); [reflexivity|]. cbn [orb].
  destruct (answer (Z.min (bl c) (length - br)) a =? 0) eqn:E; [|reflexivity].
  apply Z.eqb_eq in E. rewrite E. reflexivity.
Qed.

Lemma up_front_eq c length : rd_up_front_too_long (mcl c) (bl c) length = (length >? mcl c).
Proof. reflexivity. Qed.
Lemma undeclared_eq c : rd_undeclared_length (mcl c) (bl c) = mcl c.
Proof. reflexivity. Qed.
Lemma empty_eq : rd_empty_length = 0.
Proof. reflexivity. Qed.

Lemma read_loop_no_diverge c length declared :
  forall st br t, read_loop c length declared br st <> (t, RDiverge).
Proof.
  induction st as [|a rest IH]; intros br t.
  - rewrite read_loop_nil. destruct (br <? length); [destruct (_ >? _)|destruct declared]; congruence.
  - rewrite read_loop_cons. destruct (br <? length); [|destruct declared; congruence].
    destruct (_ >? _); [congruence|]. destruct (_ =? 0); [congruence|].
    destruct (read_loop c length declared _ rest) as [t' r'] eqn:E.
    intros H; inversion H; subst. eapply IH; eassumption.
Qed.
Lemma answer_le n a : 0 <= n -> 0 <= answer n a <= n.
Proof. unfold answer. intros. destruct (n <? 0) eqn:?; lia. Qed.

Lemma read_loop_sum c length declared : 0 <= bl c ->
  forall st br t r, read_loop c length declared br st = (t, r) ->
                    sumz (map snd t) <= Z.max 0 (length - br).
Proof.
  intros Hbl. induction st as [|a rest IH]; intros br t r; [rewrite read_loop_nil | rewrite read_loop_cons].
  - destruct (br <? length) eqn:E1.
    + destruct (Z.min (bl c) (length - br) + br >? mcl c) eqn:E2; intros H; inversion H; subst; simpl; lia.
    + intros H; inversion H; subst; simpl; lia.
  - destruct (br <? length) eqn:E1.
    + destruct (Z.min (bl c) (length - br) + br >? mcl c) eqn:E2.
      * intros H; inversion H; subst; simpl; lia.
      * set (n := Z.min (bl c) (length - br)) in *.
        assert (Hn : 0 <= n) by (unfold n; lia).
        pose proof (answer_le n a Hn) as Ha.
        destruct (answer n a =? 0) eqn:E3.
        -- intros H; inversion H; subst; simpl; lia.
        -- destruct (read_loop c length declared (br + answer n a) rest) as [t' r'] eqn:E4.
           intros H; inversion H; subst; simpl.
           specialize (IH _ _ _ E4). unfold n in *. lia.
    + intros H; inversion H; subst; simpl; lia.
Qed.

Lemma asks_within_mono t : forall b b', b <= b' -> asks_within b t -> asks_within b' t.
Proof.
  induction t as [|e t IH]; simpl; auto.
  intros b b' Hb. destruct e; try (apply IH; assumption).
  intros [H1 H2]. split; [lia|]. eapply IH; [|eassumption]. lia.
Qed.

Lemma read_loop_asks c length declared : 0 <= bl c ->
  forall st br t r, read_loop c length declared br st = (t, r) ->
                    asks_within (Z.max 0 (length - br)) (reads t).
Proof.
  intros Hbl. induction st as [|a rest IH]; intros br t r; [rewrite read_loop_nil | rewrite read_loop_cons].
  - destruct (br <? length) eqn:E1.
    + destruct (Z.min (bl c) (length - br) + br >? mcl c) eqn:E2; intros H; inversion H; subst; simpl; auto.
      split; auto. lia.
    + intros H; inversion H; subst; simpl; auto.
  - destruct (br <? length) eqn:E1.
    + destruct (Z.min (bl c) (length - br) + br >? mcl c) eqn:E2.
      * intros H; inversion H; subst; simpl; auto.
      * set (n := Z.min (bl c) (length - br)) in *.
        assert (Hn : 0 <= n) by (unfold n; lia).
        pose proof (answer_le n a Hn) as Ha.
        destruct (answer n a =? 0) eqn:E3.
        -- intros H; inversion H; subst; simpl. split; auto. unfold n; lia.
        -- destruct (read_loop c length declared (br + answer n a) rest) as [t' r'] eqn:E4.
           intros H; inversion H; subst; simpl.
           split; [unfold n; lia|].
           specialize (IH _ _ _ E4).
           eapply asks_within_mono; [|exact IH]. unfold n in *. lia.
    + intros H; inversion H; subst; simpl; auto.
Qed.

(** with no declared length the loop only ends normally on an empty read that
    comes before the limit is reached *)
Lemma read_loop_undeclared c length :
  forall st br t, read_loop c length false br st = (t, RDone) ->
                  (exists n, In (n, 0) t) /\ br + sumz (map snd t) < length.
Proof.
  induction st as [|a rest IH]; intros br t; [rewrite read_loop_nil | rewrite read_loop_cons].
  - destruct (br <? length) eqn:E1; [|discriminate].
    destruct (_ >? _); [discriminate|].
    intros H; inversion H; subst; simpl. split; [eexists; left; reflexivity | lia].
  - destruct (br <? length) eqn:E1; [|discriminate].
    destruct (_ >? _); [discriminate|].
    set (n := Z.min (bl c) (length - br)) in *.
    destruct (answer n a =? 0) eqn:E3.
    + intros H; inversion H; subst; simpl. split; [eexists; left; reflexivity | lia].
    + destruct (read_loop c length false (br + answer n a) rest) as [t' r'] eqn:E4.
      intros H; inversion H; subst.
      destruct (IH _ _ E4) as [[m Hm] Hs]. simpl. split; [exists m; right; exact Hm | lia].
Qed.

(** * the iterator *)
Section Serve.
  Variable fin : list ev.

  Lemma serve_quiet p : (forall n, p (Chunk n) = false) -> (forall e, p (Raise e) = false) ->
    quiet p fin = true ->
    forall ch f tk cl, quiet p (serve ch f fin tk cl) = true.
  Proof.
    intros Hc Hr Hf. induction ch as [|n rest IH]; intros f tk cl; simpl.
    - destruct tk as [[|k]|]; simpl.
      + destruct cl; auto.
      + destruct f; auto. rewrite quiet_app, Hf. unfold quiet; simpl. now rewrite Hr.
      + destruct f; auto. rewrite quiet_app, Hf. unfold quiet; simpl. now rewrite Hr.
    - destruct tk as [[|k]|]; simpl.
      + destruct cl; auto.
      + unfold quiet in *; simpl. rewrite Hc. simpl. apply IH.
      + unfold quiet in *; simpl. rewrite Hc. simpl. apply IH.
  Qed.

  Lemma serve_total_read : total_read fin = 0 ->
    forall ch f tk cl, total_read (serve ch f fin tk cl) = 0.
  Proof.
    intros Hf. induction ch as [|n rest IH]; intros f tk cl; simpl.
    - destruct tk as [[|k]|]; simpl; try (destruct cl; auto);
        destruct f; auto; rewrite total_read_app, Hf; reflexivity.
    - destruct tk as [[|k]|]; simpl; try (destruct cl; auto);
        unfold total_read in *; simpl; rewrite IH; reflexivity.
  Qed.

  (** what was handed over is a prefix of the body; all of it when the server iterates to the end *)
  Lemma serve_total_sent : total_sent fin = 0 ->
    forall ch tk cl, exists rest, sumz ch = total_sent (serve ch false fin tk cl) + sumz rest
                                  /\ (tk = None -> rest = []).
  Proof.
    intros Hf. induction ch as [|n rest IH]; intros tk cl.
    - exists []. destruct tk as [[|k]|]; simpl; try (destruct cl; simpl); rewrite ?Hf; auto.
    - destruct tk as [[|k]|].
      + exists (n :: rest). simpl. destruct cl; simpl; rewrite ?Hf; split; auto; try lia; discriminate.
      + destruct (IH (Some k) cl) as [r [H1 H2]]. exists r. simpl.
        unfold total_sent in *. simpl. split; [lia | discriminate].
      + destruct (IH None cl) as [r [H1 H2]]. exists r. simpl.
        unfold total_sent in *. simpl. split; [lia | auto].
  Qed.

  (** the finalizer runs after the last chunk that is handed over, at most once ... *)
  Lemma serve_close_discipline : close_discipline fin = true -> quiet is_chunk fin = true ->
    forall ch f tk cl, close_discipline (serve ch f fin tk cl) = true.
  Proof.
    intros Hd Hq.
    assert (Hfr : close_discipline (fin ++ [Raise OtherExn]) = true).
    { clear Hq. induction fin as [|e t IH]; simpl; auto. simpl in Hd.
      destruct e; auto. rewrite !quiet_app. apply andb_prop in Hd as [-> ->]. reflexivity. }
    induction ch as [|n rest IH]; intros f tk cl; simpl.
    - destruct tk as [[|k]|]; simpl; try (destruct cl; auto); destruct f; auto.
    - destruct tk as [[|k]|]; simpl; try (destruct cl; auto); apply IH.
  Qed.

  (** ... and exactly once when the server is conforming (calls close()) or iterates to the end *)
  Lemma serve_close_count : count is_ctxclose fin = 1%nat ->
    forall ch f tk cl, cl = true \/ tk = None ->
                       count is_ctxclose (serve ch f fin tk cl) = 1%nat.
  Proof.
    intros Hc. induction ch as [|n rest IH]; intros f tk cl Hs; simpl.
    - destruct tk as [[|k]|]; simpl.
      + destruct Hs as [-> | Hs]; [auto | discriminate].
      + destruct f; auto. rewrite count_app, Hc. reflexivity.
      + destruct f; auto. rewrite count_app, Hc. reflexivity.
    - destruct tk as [[|k]|]; simpl.
      + destruct Hs as [-> | Hs]; [auto | discriminate].
      + unfold count in *; simpl. apply IH. destruct Hs; auto; discriminate.
      + unfold count in *; simpl. apply IH. auto.
  Qed.
End Serve.

(** * the callable *)
Definition total_layers (r : req) : Prop :=
  (forall e, s_gen r <> SCrash e) /\ (forall e, s_in r <> SCrash e) /\ (exists ch, s_eser r = ESerOk ch).

Ltac crush_run :=
  unfold run, handle_wsdl, handle_rpc, respond_ok, handle_error in *;
  repeat match goal with
         | |- context [match ?x with _ => _ end] => destruct x eqn:?
         | H : context [match ?x with _ => _ end] |- _ => destruct x eqn:?
         end; simpl in *; try congruence.

(** the finalizer of every response is __finalize or (wsdl) ctx.close *)
Lemma run_fin c r k cl ch f fin :
  o_resp (run c r) = Responds k cl ch f fin -> fin = finalize \/ fin = [CtxClose].
Proof. crush_run; intros H; inversion H; subst; auto. Qed.

(** a Content-Length header is only sent for a body that cannot fail, and is its size *)
Lemma run_clen c r k n ch f fin :
  o_resp (run c r) = Responds k (Some n) ch f fin -> f = false /\ n = sumz ch.
Proof. crush_run; intros H; inversion H; subst; simpl; split; auto; lia. Qed.

Lemma run_responds c r : total_layers r ->
  exists k cl ch f fin, o_resp (run c r) = Responds k cl ch f fin.
Proof.
  intros (Hg & Hi & [ch0 He]).
  crush_run; try (do 5 eexists; reflexivity);
    try (exfalso; eapply Hg; eassumption); try (exfalso; eapply Hi; eassumption);
    try (exfalso; eapply read_loop_no_diverge; eassumption).
Qed.

(** the callable always returns or raises (the reader loop ends on an ended stream) *)
Lemma run_not_diverges c r : o_resp (run c r) <> Diverges.
Proof. crush_run; exfalso; eapply read_loop_no_diverge; eassumption. Qed.

Lemma fin_facts fin : fin = finalize \/ fin = [CtxClose] ->
  quiet is_start fin = true /\ quiet is_chunk fin = true /\ quiet is_user fin = true
  /\ total_read fin = 0 /\ total_sent fin = 0 /\ close_discipline fin = true
  /\ count is_ctxclose fin = 1%nat.
Proof. intros [-> | ->]; vm_compute; repeat split; reflexivity. Qed.

Lemma trace_eq c r :
  trace c r = reads (o_reads (run c r)) ++ (if o_user (run c r) then [User] else [])
                    ++ respond (o_resp (run c r)) (take r) (closes r).
Proof. reflexivity. Qed.

(** ** start_response *)
Lemma start_discipline_holds c r : start_discipline (trace c r) = true.
Proof.
  rewrite trace_eq, start_discipline_reads.
  assert (H : start_discipline (respond (o_resp (run c r)) (take r) (closes r)) = true).
  { destruct (o_resp (run c r)) as [e | | k cl ch f fin] eqn:E; simpl; auto.
    destruct (fin_facts fin (run_fin _ _ _ _ _ _ _ E)) as (H1 & _).
    apply serve_quiet; auto. }
  destruct (o_user (run c r)); simpl; auto.
Qed.

Lemma count_start_reads l : count is_start (reads l) = 0%nat.
Proof. apply quiet_count, quiet_reads. reflexivity. Qed.

Lemma one_start c r : total_layers r -> count is_start (trace c r) = 1%nat.
Proof.
  intros Ht. destruct (run_responds c r Ht) as (k & cl & ch & f & fin & E).
  rewrite trace_eq, !count_app, count_start_reads, E. simpl.
  destruct (fin_facts fin (run_fin _ _ _ _ _ _ _ E)) as (H1 & _).
  assert (count is_start (serve ch f fin (take r) (closes r)) = 0%nat)
    by (apply quiet_count, serve_quiet; auto).
  destruct (o_user (run c r)); unfold count in *; simpl; lia.
Qed.

(** a response that is not started means that the callable raised *)
Lemma no_start_raises c r : count is_start (trace c r) = 0%nat ->
  exists e, o_resp (run c r) = Escapes e.
Proof.
  rewrite trace_eq, !count_app. pose proof (run_not_diverges c r) as Hd.
  destruct (o_resp (run c r)) as [e | | k cl ch f fin]; [eauto | congruence |].
  simpl. unfold count at 3. simpl. lia.
Qed.

(** ** Content-Length *)
Lemma in_reads e l : In e (reads l) -> exists n g, e = Read n g.
Proof. unfold reads. rewrite in_map_iff. intros [[n g] [<- _]]. eauto. Qed.

Lemma quiet_in p t e : quiet p t = true -> In e t -> p e = false.
Proof.
  unfold quiet. rewrite forallb_forall. intros H Hi. specialize (H _ Hi). now destruct (p e).
Qed.

Lemma start_in_trace c r k cl : In (Start k cl) (trace c r) ->
  exists ch f fin, o_resp (run c r) = Responds k cl ch f fin.
Proof.
  rewrite trace_eq, !in_app_iff. intros [H | [H | H]].
  - apply in_reads in H as (n & g & H). discriminate.
  - destruct (o_user (run c r)); simpl in H; [destruct H as [H|[]]; discriminate | destruct H].
  - destruct (o_resp (run c r)) as [e | | k' cl' ch f fin] eqn:E; simpl in H.
    + destruct H as [H|[]]; discriminate.
    + destruct H.
    + destruct H as [H | H]; [inversion H; subst; eauto|].
      destruct (fin_facts fin (run_fin _ _ _ _ _ _ _ E)) as (H1 & _).
      assert (Hq : quiet is_start (serve ch f fin (take r) (closes r)) = true) by (apply serve_quiet; auto).
      apply (quiet_in _ _ _ Hq) in H. discriminate.
Qed.

Lemma clen_holds c r k n : In (Start k (Some n)) (trace c r) ->
  exists rest, n = total_sent (trace c r) + sumz rest /\ (take r = None -> rest = []).
Proof.
  intros H. destruct (start_in_trace _ _ _ _ H) as (ch & f & fin & E).
  destruct (run_clen _ _ _ _ _ _ _ E) as [-> ->].
  destruct (fin_facts fin (run_fin _ _ _ _ _ _ _ E)) as (_ & _ & _ & _ & Hs & _).
  destruct (serve_total_sent fin Hs ch (take r) (closes r)) as [rest [H1 H2]].
  exists rest. split; auto.
  rewrite trace_eq, !total_sent_app, total_sent_reads, E. simpl.
  destruct (o_user (run c r)); unfold total_sent in *; simpl; lia.
Qed.

(** ** reads *)
Lemma total_read_respond rs tk cl :
  (forall k c ch f fin, rs = Responds k c ch f fin -> total_read fin = 0) ->
  total_read (respond rs tk cl) = 0.
Proof.
  destruct rs as [e | | k c ch f fin]; simpl; auto. intros H.
  unfold total_read. simpl. apply serve_total_read. eapply H; reflexivity.
Qed.

Lemma total_read_trace c r : total_read (trace c r) = sumz (map snd (o_reads (run c r))).
Proof.
  rewrite trace_eq, !total_read_app, total_read_reads, total_read_respond.
  - destruct (o_user (run c r)); unfold total_read; simpl; lia.
  - intros k cl ch f fin E. now destruct (fin_facts fin (run_fin _ _ _ _ _ _ _ E)) as (_ & _ & _ & H & _).
Qed.

Lemma run_reads c r :
  o_reads (run c r) = [] \/
  exists length declared rr, length <= mcl c /\
    read_loop c length declared 0 (stream r) = (o_reads (run c r), rr).
Proof.
  unfold run. destruct (is_wsdl r); [left; reflexivity|].
  unfold handle_rpc. destruct (declared_length c (clen r)) as [|length declared]; [left; reflexivity|].
  rewrite up_front_eq. destruct (length >? mcl c) eqn:E; [left; reflexivity|].
  destruct (consume r).
  - destruct (read_loop c length declared 0 (stream r)) as [t rr] eqn:E2.
    right. exists length, declared, rr. split; [lia|].
    rewrite E2. f_equal.
    destruct rr; [|reflexivity|reflexivity].
    destruct (s_gen r); try reflexivity. destruct (s_in r); try reflexivity.
    destruct (s_user r) as [[|[]]|]; reflexivity.
  - left. destruct (s_gen r); try reflexivity. destruct (s_in r); try reflexivity.
    destruct (s_user r) as [[|[]]|]; reflexivity.
Qed.

Lemma read_bound c r : 0 <= bl c -> 0 <= mcl c -> total_read (trace c r) <= mcl c.
Proof.
  intros Hb Hm. rewrite total_read_trace.
  destruct (run_reads c r) as [-> | (length & declared & rr & Hl & E)]; [simpl; lia|].
  pose proof (read_loop_sum c length declared Hb _ _ _ _ E). lia.
Qed.

Lemma asks_within_app_reads l t b : asks_within b (reads l) ->
  (forall b', asks_within b' t) -> asks_within b (reads l ++ t).
Proof.
  revert b. induction l as [|[n g] l IH]; simpl; intros b H Ht; auto.
  destruct H. split; auto.
Qed.

Lemma asks_within_noread t : (forall e, In e t -> forall n g, e <> Read n g) -> forall b, asks_within b t.
Proof.
  induction t as [|e t IH]; simpl; auto. intros H b.
  destruct e; try (apply IH; intros; apply H; auto).
  exfalso. eapply H; [left; reflexivity | reflexivity].
Qed.

Lemma respond_noread c r e : In e ((if o_user (run c r) then [User] else [])
                                   ++ respond (o_resp (run c r)) (take r) (closes r)) ->
                             forall n g, e <> Read n g.
Proof.
  intros H n g ->. apply in_app_iff in H as [H | H].
  - destruct (o_user (run c r)); simpl in H; [destruct H as [H|[]]; discriminate | destruct H].
  - destruct (o_resp (run c r)) as [x | | k cl ch f fin] eqn:E; simpl in H.
    + destruct H as [H|[]]; discriminate.
    + destruct H.
    + destruct H as [H | H]; [discriminate|].
      assert (Hq : quiet (fun e => match e with Read _ _ => true | _ => false end)
                         (serve ch f fin (take r) (closes r)) = true).
      { apply serve_quiet; auto.
        destruct (run_fin _ _ _ _ _ _ _ E) as [-> | ->]; reflexivity. }
      apply (quiet_in _ _ _ Hq) in H. discriminate.
Qed.

Lemma asks_bound c r : 0 <= bl c -> 0 <= mcl c -> asks_within (mcl c) (trace c r).
Proof.
  intros Hb Hm. rewrite trace_eq. apply asks_within_app_reads.
  - destruct (run_reads c r) as [-> | (length & declared & rr & Hl & E)]; [simpl; auto|].
    eapply asks_within_mono; [|eapply read_loop_asks; eauto]. lia.
  - apply asks_within_noread. apply respond_noread.
Qed.

(** ** the size limit *)
Lemma too_long_declared c r s n : is_wsdl r = false -> clen r = Some s -> int_of_text s = Some n ->
  n > mcl c -> run c r = Out [] false (handle_error r FTooLong).
Proof.
  intros Hw Hc Hi Hn. unfold run. rewrite Hw. unfold handle_rpc, declared_length. rewrite Hc.
  destruct s as [|x s]; [vm_compute in Hi; discriminate|].
  rewrite Hi, up_front_eq. destruct (n >? mcl c) eqn:E; [reflexivity | lia].
Qed.

Lemma user_in_trace c r : In User (trace c r) -> o_user (run c r) = true.
Proof.
  rewrite trace_eq, !in_app_iff. intros [H | [H | H]].
  - apply in_reads in H as (n & g & H). discriminate.
  - destruct (o_user (run c r)); auto; try destruct H.
  - destruct (o_resp (run c r)) as [e | | k cl ch f fin] eqn:E; simpl in H.
    + destruct H as [H|[]]; discriminate.
    + destruct H.
    + destruct H as [H | H]; [discriminate|].
      destruct (fin_facts fin (run_fin _ _ _ _ _ _ _ E)) as (_ & _ & H1 & _).
      assert (Hq : quiet is_user (serve ch f fin (take r) (closes r)) = true) by (apply serve_quiet; auto).
      apply (quiet_in _ _ _ Hq) in H. discriminate.
Qed.

Lemma saw_eof_reads l t n : In (n, 0) l -> saw_eof (reads l ++ t) = true.
Proof.
  intros H. unfold saw_eof. apply existsb_exists. exists (Read n 0). split; auto.
  apply in_app_iff. left. unfold reads. apply in_map_iff. exists (n, 0). auto.
Qed.

(** user code runs only on a body that fits: a declared length within the
    limit, or (no declared length, body read) the end of the stream seen
    before the limit *)
Lemma user_means_fits c r : is_wsdl r = false -> In User (trace c r) ->
  match clen r with
  | Some s => exists n, declared_length c (Some s) = LLen n true /\ n <= mcl c
  | None => consume r = true -> saw_eof (trace c r) = true /\ total_read (trace c r) < mcl c
  end.
Proof.
  intros Hw Hu. apply user_in_trace in Hu.
  rewrite total_read_trace, trace_eq. unfold run in *. rewrite Hw in *. unfold handle_rpc in *.
  destruct (clen r) as [s|] eqn:Hc.
  - destruct (declared_length c (Some s)) as [|length declared] eqn:Hd; [discriminate Hu|].
    assert (declared = true) as ->.
    { unfold declared_length in Hd. destruct s; [inversion Hd; auto|].
      destruct (int_of_text (z :: s)); inversion Hd; auto. }
    rewrite up_front_eq in Hu.
    destruct (length >? mcl c) eqn:E; [discriminate Hu|]. exists length. split; auto. lia.
  - intros Hcons. cbn [declared_length] in *. rewrite undeclared_eq, up_front_eq, Hcons in *.
    destruct (mcl c >? mcl c) eqn:E; [lia|].
    destruct (read_loop c (mcl c) false 0 (stream r)) as [t rr] eqn:E2.
    destruct rr; [|discriminate Hu|discriminate Hu].
    destruct (read_loop_undeclared _ _ _ _ _ E2) as [[n Hn] Hs].
    match goal with |- context [o_reads ?X] => assert (Ho : o_reads X = t) end.
    { destruct (s_gen r); try reflexivity. destruct (s_in r); try reflexivity.
      destruct (s_user r) as [[|[]]|]; reflexivity. }
    rewrite Ho. split; [eapply saw_eof_reads; eauto | lia].
Qed.

(** ** closing the context *)
Lemma close_discipline_holds c r : close_discipline (trace c r) = true.
Proof.
  rewrite trace_eq, close_discipline_reads.
  assert (H : close_discipline (respond (o_resp (run c r)) (take r) (closes r)) = true).
  { destruct (o_resp (run c r)) as [e | | k cl ch f fin] eqn:E; simpl; auto.
    destruct (fin_facts fin (run_fin _ _ _ _ _ _ _ E)) as (_ & H2 & _ & _ & _ & H6 & _).
    apply serve_close_discipline; auto. }
  destruct (o_user (run c r)); simpl; auto.
Qed.

Lemma closed_once c r k cl : In (Start k cl) (trace c r) -> closes r = true \/ take r = None ->
  count is_ctxclose (trace c r) = 1%nat.
Proof.
  intros H Hs. destruct (start_in_trace _ _ _ _ H) as (ch & f & fin & E).
  destruct (fin_facts fin (run_fin _ _ _ _ _ _ _ E)) as (_ & _ & _ & _ & _ & _ & H7).
  rewrite trace_eq, !count_app, E. simpl.
  rewrite (quiet_count _ _ (quiet_reads is_ctxclose _ (fun _ _ => eq_refl))).
  pose proof (serve_close_count fin H7 ch f (take r) (closes r) Hs).
  destruct (o_user (run c r)); unfold count in *; simpl; lia.
Qed.

(** the refusal, seen on the trace *)
Lemma too_long_declared_trace c r s n : is_wsdl r = false -> clen r = Some s ->
  int_of_text s = Some n -> n > mcl c ->
  ~ In User (trace c r) /\ total_read (trace c r) = 0 /\
  match s_eser r with
  | ESerOk ch => trace c r = Start (RErr FTooLong) (Some (sumz ch))
                                   :: serve ch false finalize (take r) (closes r)
  | ESerExn e => trace c r = [Raise e]
  end.
Proof.
  intros Hw Hc Hi Hn. pose proof (too_long_declared c r s n Hw Hc Hi Hn) as E.
  split; [|split].
  - intros H. apply user_in_trace in H. rewrite E in H. discriminate.
  - rewrite total_read_trace, E. reflexivity.
  - rewrite trace_eq, E. simpl. unfold handle_error. destruct (s_eser r); reflexivity.
Qed.

(** the same for a body of undeclared length that is read and does not end
    before the limit: no end of stream seen means refused *)
Lemma too_long_undeclared c r : is_wsdl r = false -> clen r = None -> consume r = true ->
  saw_eof (trace c r) = false -> ~ In User (trace c r).
Proof.
  intros Hw Hc Hcons He Hu. pose proof (user_means_fits c r Hw Hu) as H.
  rewrite Hc in H. destruct (H Hcons) as [H1 _]. congruence.
Qed.

(** * the response iterator, statement by statement, with a close callback that may raise *)
Lemma ri_steps_eq : ri_close_steps = [RiMark; RiCall].
Proof. reflexivity. Qed.

Lemma ri_close_open fin raises : ri_close false fin raises = (if raises then fin else fin ++ [], true).
Proof. unfold ri_close. rewrite ri_steps_eq. simpl. destruct raises; reflexivity. Qed.
Lemma ri_close_closed fin raises : ri_close true fin raises = ([], true).
Proof. reflexivity. Qed.

(** with a callback that does not raise, the explicit iterator is the [serve] the theorems are about *)
Ltac ri_norm := unfold close_call, ri_close; rewrite ?ri_steps_eq; cbn [ri_run negb andb orb fst app].

Lemma serve_it_refines fin : forall ch f tk cl, serve_it ch f fin false tk cl = serve ch f fin tk cl.
Proof.
  induction ch as [|n rest IH]; intros f tk cl; cbn [serve_it serve]; ri_norm.
  - destruct tk as [[|k]|]; destruct cl, f; cbn [ri_run negb andb orb fst app]; rewrite ?app_nil_r; reflexivity.
  - destruct tk as [[|k]|]; cbn [option_map]; rewrite ?IH; destruct cl; cbn [ri_run negb andb orb fst app];
      rewrite ?app_nil_r; reflexivity.
Qed.

Lemma serve_it_close_count fin raises : count is_ctxclose fin = 1%nat ->
  forall ch f tk cl, cl = true \/ tk = None ->
                     count is_ctxclose (serve_it ch f fin raises tk cl) = 1%nat.
Proof.
  intros Hc. induction ch as [|n rest IH]; intros f tk cl Hs; cbn [serve_it]; ri_norm.
  - assert (Hn : count is_ctxclose (@nil ev) = 0%nat) by reflexivity.
    assert (Hr : count is_ctxclose [Raise OtherExn] = 0%nat) by reflexivity.
    destruct tk as [[|k]|]; [destruct Hs as [Hs | Hs]; [subst cl|discriminate]| |];
      destruct raises, f; try destruct cl; cbn [ri_run negb andb orb fst app];
      rewrite ?app_nil_r, ?count_app, ?Hc, ?Hn, ?Hr; reflexivity.
  - destruct tk as [[|k]|]; cbn [option_map].
    + destruct Hs as [-> | Hs]; [|discriminate].
      destruct raises; cbn [ri_run negb andb orb fst app]; rewrite ?app_nil_r, ?count_app, ?Hc; reflexivity.
    + unfold count in *; simpl. apply IH. destruct Hs; auto; discriminate.
    + unfold count in *; simpl. apply IH. auto.
Qed.

Lemma serve_it_quiet_start fin raises : quiet is_start fin = true ->
  forall ch f tk cl, quiet is_start (serve_it ch f fin raises tk cl) = true.
Proof.
  intros Hq. induction ch as [|n rest IH]; intros f tk cl; cbn [serve_it]; ri_norm.
  - destruct tk as [[|k]|]; destruct raises, f, cl; cbn [ri_run negb andb orb fst app];
      rewrite ?app_nil_r, ?quiet_app, ?Hq; reflexivity.
  - destruct tk as [[|k]|]; cbn [option_map].
    + destruct raises, cl; cbn [ri_run negb andb orb fst app]; rewrite ?app_nil_r, ?quiet_app, ?Hq; reflexivity.
    + simpl. apply IH.
    + simpl. apply IH.
Qed.

Lemma closed_once_failing_close c r cf k cl : In (Start k cl) (trace_cf c r cf) ->
  closes r = true \/ take r = None -> count is_ctxclose (trace_cf c r cf) = 1%nat.
Proof.
  intros H Hs. unfold trace_cf in *.
  assert (exists ch f fin, o_resp (run c r) = Responds k cl ch f fin) as (ch & f & fin & E).
  { apply in_app_or in H. destruct H as [H|H].
    - apply in_map_iff in H. destruct H as (p & Hp & _). discriminate.
    - apply in_app_or in H. destruct H as [H|H].
      + destruct (o_user (run c r)); simpl in H; [destruct H as [H|[]]; discriminate | contradiction].
      + destruct (o_resp (run c r)) as [e| |k' cl' ch f fin] eqn:E; simpl in H.
        * destruct H as [H|[]]; discriminate.
        * contradiction.
        * destruct H as [H|H].
          -- inversion H; subst. eauto.
          -- exfalso.
             assert (Hf : quiet is_start (fin_cf cf fin) = true)
               by (destruct (run_fin _ _ _ _ _ _ _ E) as [Hx | Hx]; rewrite Hx; destruct cf; reflexivity).
             pose proof (serve_it_quiet_start _ (raises_cf cf fin) Hf ch f (take r) (closes r)) as Hq.
             apply (quiet_in _ _ _ Hq) in H. discriminate. }
  rewrite E, !count_app. simpl.
  assert (Hrd : count is_ctxclose (map (fun p => Read (fst p) (snd p)) (o_reads (run c r))) = 0%nat).
  { clear. unfold count. induction (o_reads (run c r)); simpl; auto. }
  rewrite Hrd.
  assert (Hc : count is_ctxclose (fin_cf cf fin) = 1%nat).
  { destruct (run_fin _ _ _ _ _ _ _ E) as [Hx | Hx]; rewrite Hx; destruct cf; reflexivity. }
  pose proof (serve_it_close_count (fin_cf cf fin) (raises_cf cf fin) Hc ch f (take r) (closes r) Hs).
  destruct (o_user (run c r)); unfold count in *; simpl; lia.
Qed.
