(** C06 — the sequence Spyne publishes for a class, and how a list of children is matched
    against it. *)
From Coq Require Import ZArith List Bool Lia ZifyBool Btauto.
From SpyneV Require Import C06.Spec C06.Docs C06.LeafProofs.
Import ListNotations.
Open Scope Z_scope.

(* ------------------------------------------------------------------ particles_of: one particle per item *)
Definition ipart (U : univ) (i : item) : list particle :=
  match i with
  | IOne f => if is_elem f then [PElem (fld_edecl U f)] else []
  | IGroup _ ms => [PChoice (map (fld_edecl U) ms)]
  end.

Lemma group_all_cons_one g f r : group_all g (IOne f :: r) = group_all g r.
Proof. reflexivity. Qed.
Lemma group_all_cons_grp g g' ms r : group_all g (IGroup g' ms :: r) = (if g =? g' then ms else []) ++ group_all g r.
Proof. reflexivity. Qed.

Lemma group_all_notin g its : ~ In g (group_ids its) -> group_all g its = [].
Proof.
  induction its as [|[f|g' ms] r IH]; [reflexivity| |].
  - rewrite group_all_cons_one. exact IH.
  - rewrite group_all_cons_grp. cbn [group_ids flat_map app In]. intros H.
    destruct (g =? g') eqn:E; [exfalso; apply H; left; lia|]. apply IH. tauto.
Qed.

Lemma nodupZ_NoDup l : nodupZ l = true -> NoDup l.
Proof.
  induction l as [|x r IH]; cbn; [constructor|]. intros H. apply andb_prop in H. destruct H as [H1 H2].
  constructor; [|apply IH; exact H2]. intros Hin. apply negb_true_iff in H1.
  assert (existsb (Z.eqb x) r = true) by (apply existsb_exists; exists x; split; [exact Hin|apply Z.eqb_refl]). congruence.
Qed.

Lemma group_in_ids g ms its : In (IGroup g ms) its -> In g (group_ids its).
Proof.
  induction its as [|[f|g2 m2] r IH]; cbn [In group_ids flat_map app]; [tauto| |].
  - intros [H|H]; [discriminate|auto].
  - intros [H|H]; [injection H as -> ->; left; reflexivity|right; auto].
Qed.

Lemma group_all_unique g ms its :
  NoDup (group_ids its) -> In (IGroup g ms) its -> group_all g its = ms.
Proof.
  induction its as [|[f|g' ms'] r IH]; [cbn; tauto| |].
  - rewrite group_all_cons_one. cbn [group_ids flat_map app In]. intros Hn [H|H]; [discriminate|]. apply IH; assumption.
  - rewrite group_all_cons_grp. cbn [group_ids flat_map app In]. intros Hn [H|H].
    + injection H as -> ->. rewrite Z.eqb_refl. inversion Hn; subst. rewrite group_all_notin by assumption. apply app_nil_r.
    + inversion Hn; subst. destruct (g =? g') eqn:E.
      * exfalso. apply Z.eqb_eq in E. subst. apply H2. eapply group_in_ids. exact H.
      * apply IH; assumption.
Qed.

(** with the choice tag appended where its first member stands (Gen/XsdEmit.choice_in_place)
    and every group declared in one run, the published sequence lists the items in order *)
Lemma seq_of_items U all : forall its seen,
  (forall g, In g (group_ids its) -> existsb (Z.eqb g) seen = false) ->
  NoDup (group_ids its) ->
  (forall g ms, In (IGroup g ms) its -> filter is_elem (group_all g all) = ms) ->
  seq_of U all seen its = (flat_map (ipart U) its, []).
Proof.
  induction its as [|[f|g ms] r IH]; intros seen Hs Hn Hg; [reflexivity| |].
  - cbn [seq_of flat_map ipart]. rewrite IH; try assumption.
    + destruct (is_elem f); reflexivity.
    + intros g ms Hin. apply Hg. right. exact Hin.
  - cbn [seq_of flat_map ipart]. rewrite (Hs g) by (left; reflexivity).
    cbn [group_ids flat_map app] in Hn. inversion Hn; subst.
    rewrite IH.
    + rewrite (Hg g ms) by (left; reflexivity). unfold choice_in_place. reflexivity.
    + intros g' Hin. cbn [existsb]. rewrite (Hs g') by (right; exact Hin).
      destruct (g' =? g) eqn:E; [|reflexivity]. apply Z.eqb_eq in E. subst. contradiction.
    + assumption.
    + intros g' ms' Hin. apply Hg. right. exact Hin.
Qed.

Lemma particles_of_items U its :
  nodupZ (group_ids its) = true ->
  (forall g ms, In (IGroup g ms) its -> forallb is_elem ms = true) ->
  particles_of U its = flat_map (ipart U) its.
Proof.
  intros Hn He. unfold particles_of. apply nodupZ_NoDup in Hn.
  rewrite (seq_of_items U its its []); [apply app_nil_r|reflexivity|assumption|].
  intros g ms Hin. rewrite (group_all_unique g ms its Hn Hin).
  specialize (He g ms Hin). clear -He. induction ms as [|f r IH]; [reflexivity|].
  cbn in *. apply andb_prop in He. destruct He as [H1 H2]. rewrite H1. f_equal. apply IH. exact H2.
Qed.

(* ------------------------------------------------------------------ the omission rules agree with the XSD defaults *)
Lemma eff_min_edecl U name t mn mx nl d : eff_min (edecl_of U name t mn mx nl d) = mn.
Proof. unfold eff_min, edecl_of, member_min_written. cbn [e_min]. destruct (mn =? 1) eqn:E; cbn [negb]; [lia|reflexivity]. Qed.
Lemma eff_max_edecl U name t mn mx nl d : eff_max (edecl_of U name t mn mx nl d) = mx.
Proof.
  unfold eff_max, edecl_of, member_max_written. cbn [e_max]. destruct (ext_eqb mx (Fin 1)) eqn:E; cbn [negb]; [|reflexivity].
  destruct mx as [|z|]; try discriminate. cbn in E. f_equal. lia.
Qed.
Lemma eff_nillable_edecl U name t mn mx nl d : eff_nillable (edecl_of U name t mn mx nl d) = nl.
Proof. unfold eff_nillable, edecl_of, member_nillable_written, member_nillable_value. cbn [e_nillable]. destruct nl; reflexivity. Qed.
Lemma e_default_edecl U name t mn mx nl d : e_default (edecl_of U name t mn mx nl d) = d.
Proof. unfold edecl_of, member_default_written. cbn [e_default]. destruct d; reflexivity. Qed.
Lemma e_name_edecl U name t mn mx nl d : e_name (edecl_of U name t mn mx nl d) = name.
Proof. reflexivity. Qed.
Lemma e_type_edecl U name t mn mx nl d : e_type (edecl_of U name t mn mx nl d) = type_qn U t.
Proof. reflexivity. Qed.

Lemma occ_ok_fld U f n : occ_ok (fld_edecl U f) n = (fl_min f <=? n) && ext_leb (Fin n) (fl_max f).
Proof. unfold occ_ok, fld_edecl. rewrite eff_min_edecl, eff_max_edecl. reflexivity. Qed.

(* ------------------------------------------------------------------ runs of equally named children *)
Lemma span_nomatch ns name kids : hd_is ns name kids = false -> span_name ns name kids = ([], kids).
Proof. destruct kids as [|k r]; [reflexivity|]. cbn. intros ->. reflexivity. Qed.

Lemma span_name_app ns name run rest :
  forallb (elt_is ns name) run = true -> hd_is ns name rest = false ->
  span_name ns name (run ++ rest) = (run, rest).
Proof.
  intros Hr Hh. induction run as [|k r IH]; [apply span_nomatch; exact Hh|].
  cbn in Hr. apply andb_prop in Hr. destruct Hr as [H1 H2]. cbn. rewrite H1, (IH H2). reflexivity.
Qed.

Lemma span_name_spec ns name kids run rest :
  span_name ns name kids = (run, rest) ->
  kids = run ++ rest /\ forallb (elt_is ns name) run = true /\ hd_is ns name rest = false.
Proof.
  revert run rest. induction kids as [|k r IH]; intros run rest; cbn.
  - intros H. injection H as <- <-. auto.
  - destruct (elt_is ns name k) eqn:E.
    + destruct (span_name ns name r) as [a b]. intros H. injection H as <- <-.
      destruct (IH a b eq_refl) as (-> & H2 & H3). cbn. rewrite E. auto.
    + intros H. injection H as <- <-. cbn. rewrite E. auto.
Qed.

Definition run_valid (U : univ) (velem : edecl -> xnode -> bool) (f : fld) (run : list xnode) : bool :=
  occ_ok (fld_edecl U f) (len_nodes run) && forallb (velem (fld_edecl U f)) run.
Fixpoint runs_valid (U : univ) (velem : edecl -> xnode -> bool) (efs : list (text * fld)) (runs : list (list xnode)) : bool :=
  match efs, runs with
  | [], [] => true
  | (_, f) :: r, run :: rs => run_valid U velem f run && runs_valid U velem r rs
  | _, _ => false
  end.


Section Choice.
  Variable U : univ.
  Variable velem : edecl -> xnode -> bool.

  Definition empties {A B} (l : list A) : list (list B) := map (fun _ => []) l.

  Lemma empties_tagged {B} ns (ms : list fld) : @empties _ B (tagged ns ms) = empties ms.
  Proof. unfold empties, tagged. rewrite map_map. reflexivity. Qed.

  Lemma split_none ns ms kids :
    (forall f, In f ms -> hd_is ns (fl_name f) kids = false) ->
    split_runs (tagged ns ms) kids = (empties ms, kids).
  Proof.
    induction ms as [|f r IH]; intros H; [reflexivity|].
    cbn [tagged map split_runs]. rewrite span_nomatch by (apply H; left; reflexivity).
    fold (tagged ns r). rewrite IH by (intros g Hg; apply H; right; exact Hg). reflexivity.
  Qed.

  Lemma find_none ns ms kids :
    (forall f, In f ms -> hd_is ns (fl_name f) kids = false) ->
    find (fun d => match kids with k :: _ => elt_is ns (e_name d) k | [] => false end) (map (fld_edecl U) ms) = None.
  Proof.
    induction ms as [|f r IH]; intros H; [reflexivity|]. cbn [map find].
    change (match kids with k :: _ => elt_is ns (e_name (fld_edecl U f)) k | [] => false end) with (hd_is ns (fl_name f) kids).
    rewrite (H f (or_introl eq_refl)). apply IH. intros g Hg. apply H. right. exact Hg.
  Qed.

  Lemma find_first ns pre f post kids :
    (forall g, In g pre -> hd_is ns (fl_name g) kids = false) -> hd_is ns (fl_name f) kids = true ->
    find (fun d => match kids with k :: _ => elt_is ns (e_name d) k | [] => false end) (map (fld_edecl U) (pre ++ f :: post))
    = Some (fld_edecl U f).
  Proof.
    induction pre as [|g r IH]; intros Hp Hf; cbn [app map find].
    - change (match kids with k :: _ => elt_is ns (e_name (fld_edecl U f)) k | [] => false end) with (hd_is ns (fl_name f) kids).
      rewrite Hf. reflexivity.
    - change (match kids with k :: _ => elt_is ns (e_name (fld_edecl U g)) k | [] => false end) with (hd_is ns (fl_name g) kids).
      rewrite (Hp g (or_introl eq_refl)). apply IH; [|exact Hf]. intros h Hh. apply Hp. right. exact Hh.
  Qed.

  Lemma first_match ns (ms : list fld) kids :
    (forall f, In f ms -> hd_is ns (fl_name f) kids = false)
    \/ exists pre f post, ms = pre ++ f :: post /\ (forall g, In g pre -> hd_is ns (fl_name g) kids = false)
                          /\ hd_is ns (fl_name f) kids = true.
  Proof.
    induction ms as [|f r IH]; [left; intros f []|].
    destruct (hd_is ns (fl_name f) kids) eqn:E.
    - right. exists [], f, r. repeat split; [intros g []|exact E].
    - destruct IH as [H|(pre & g & post & -> & H1 & H2)].
      + left. intros g [<-|Hg]; [exact E|apply H; exact Hg].
      + right. exists (f :: pre), g, post. repeat split; [|exact H2]. intros h [<-|Hh]; [exact E|apply H1; exact Hh].
  Qed.

  Lemma split_runs_app ns pre post kids :
    (forall g, In g pre -> hd_is ns (fl_name g) kids = false) ->
    split_runs (tagged ns (pre ++ post)) kids
    = (empties pre ++ fst (split_runs (tagged ns post) kids), snd (split_runs (tagged ns post) kids)).
  Proof.
    induction pre as [|g r IH]; intros H.
    - cbn [app empties map]. destruct (split_runs (tagged ns post) kids); reflexivity.
    - cbn [app tagged map split_runs]. rewrite span_nomatch by (apply H; left; reflexivity).
      fold (tagged ns (r ++ post)). rewrite IH by (intros h Hh; apply H; right; exact Hh). reflexivity.
  Qed.

  Lemma count_nonempty_app {A} (a b : list (list A)) : count_nonempty (a ++ b) = (count_nonempty a + count_nonempty b)%nat.
  Proof. unfold count_nonempty. rewrite filter_app, app_length. reflexivity. Qed.
  Lemma count_nonempty_empties {A B} (l : list A) : @count_nonempty B (empties l) = 0%nat.
  Proof. induction l; [reflexivity|exact IHl]. Qed.

  (** if no run of a split is non-empty, nothing was consumed *)
  Lemma split_all_empty efs : forall kids,
    count_nonempty (fst (split_runs efs kids)) = 0%nat ->
    split_runs efs kids = (empties efs, kids).
  Proof.
    induction efs as [|[ns f] r IH]; intros kids H; [reflexivity|].
    cbn [split_runs] in *. destruct (span_name ns (fl_name f) kids) as [run rest] eqn:Es.
    destruct (split_runs r rest) as [runs rest'] eqn:Er. cbn [fst] in H.
    destruct run as [|k run].
    - apply span_name_spec in Es. destruct Es as (-> & _ & _). cbn [app] in *.
      unfold count_nonempty in H. cbn [filter nonempty] in H. fold (count_nonempty runs) in H.
      pose proof (IH rest) as IH'. rewrite Er in IH'. cbn [fst] in IH'. specialize (IH' H).
      injection IH' as -> ->. reflexivity.
    - unfold count_nonempty in H. cbn in H. discriminate.
  Qed.

  Lemma runs_valid_empties ns (ms : list fld) :
    (forall f, In f ms -> fl_min f = 0 /\ ext_leb (Fin 0) (fl_max f) = true) ->
    runs_valid U velem (tagged ns ms) (empties ms) = true.
  Proof.
    induction ms as [|f r IH]; intros H; [reflexivity|]. cbn [tagged map empties runs_valid].
    unfold run_valid. rewrite occ_ok_fld. change (len_nodes []) with 0. destruct (H f (or_introl eq_refl)) as [-> ->]. cbn [forallb Z.leb Z.compare andb].
    apply IH. intros g Hg. apply H. right. exact Hg.
  Qed.

  Lemma runs_valid_app ns a b ra rb :
    length a = length ra ->
    runs_valid U velem (tagged ns (a ++ b)) (ra ++ rb) = runs_valid U velem (tagged ns a) ra && runs_valid U velem (tagged ns b) rb.
  Proof.
    revert ra. induction a as [|f r IH]; intros [|x ra] H; try discriminate; [reflexivity|].
    cbn [app tagged map runs_valid]. fold (tagged ns (r ++ b)) (tagged ns r). rewrite IH by (cbn in H; lia).
    rewrite andb_assoc. reflexivity.
  Qed.

  (** a choice of optional members against the children, when at most one member is present:
      the same verdict as matching the members one after the other *)
  Lemma choice_match ns ms ps kids :
    (forall f, In f ms -> fl_min f = 0 /\ ext_leb (Fin 0) (fl_max f) = true) -> ms <> [] ->
    (count_nonempty (fst (split_runs (tagged ns ms) kids)) <= 1)%nat ->
    match_seq velem ((ns, PChoice (map (fld_edecl U) ms)) :: ps) kids
    = runs_valid U velem (tagged ns ms) (fst (split_runs (tagged ns ms) kids))
      && match_seq velem ps (snd (split_runs (tagged ns ms) kids)).
  Proof.
    intros Hmin Hne Hone. cbn [match_seq].
    destruct (first_match ns ms kids) as [Hnone|(pre & f & post & -> & Hpre & Hf)].
    - rewrite (find_none ns ms kids Hnone), (split_none ns ms kids Hnone). cbn [fst snd].
      rewrite (runs_valid_empties ns ms Hmin). cbn [andb].
      destruct ms as [|f r]; [contradiction|]. cbn [map existsb].
      unfold fld_edecl at 1. rewrite eff_min_edecl. destruct (Hmin f (or_introl eq_refl)) as [-> _]. reflexivity.
    - rewrite (find_first ns pre f post kids Hpre Hf).
      rewrite (split_runs_app ns pre (f :: post) kids Hpre) in *. cbn [fst snd] in *.
      cbn [tagged map split_runs] in *. fold (tagged ns post) in *.
      destruct (span_name ns (fl_name f) kids) as [run rest] eqn:Es.
      change (e_name (fld_edecl U f)) with (fl_name f). rewrite Es.
      destruct (split_runs (tagged ns post) rest) as [runs rest'] eqn:Er. cbn [fst snd] in *.
      assert (Hrun : nonempty run = true).
      { destruct kids as [|k r]; [discriminate Hf|]. cbn in Hf. cbn in Es. rewrite Hf in Es.
        destruct (span_name ns (fl_name f) r). injection Es as <- _. reflexivity. }
      rewrite count_nonempty_app, count_nonempty_empties in Hone.
      unfold count_nonempty in Hone. cbn [filter] in Hone. rewrite Hrun in Hone. cbn [length] in Hone.
      assert (Hz : count_nonempty (fst (split_runs (tagged ns post) rest)) = 0%nat).
      { rewrite Er. cbn [fst]. unfold count_nonempty. lia. }
      apply split_all_empty in Hz. rewrite Er in Hz. injection Hz as -> ->.
      rewrite runs_valid_app by (unfold empties; rewrite map_length; reflexivity).
      rewrite (runs_valid_empties ns pre) by (intros g Hg; apply Hmin; rewrite in_app_iff; left; exact Hg).
      cbn [tagged map runs_valid]. fold (tagged ns post).
      rewrite (empties_tagged ns post).
      rewrite (runs_valid_empties ns post) by (intros g Hg; apply Hmin; rewrite in_app_iff; right; right; exact Hg).
      unfold run_valid. cbn [andb]. rewrite andb_true_r. reflexivity.
  Qed.
End Choice.

(* ------------------------------------------------------------------ a whole content model: the tagged items of a class and its ancestors *)
Section Items.
  Variable U : univ.
  Variable velem : edecl -> xnode -> bool.

  Definition L_parts (L : list (text * item)) : list (text * particle) :=
    flat_map (fun p => map (pair (fst p)) (ipart U (snd p))) L.


  (** matching the members one after the other, by runs of equally named children *)
  Fixpoint items_match (L : list (text * item)) (kids : list xnode) : bool :=
    match L with
    | [] => is_nil_list kids
    | (ns, IOne f) :: r =>
        if is_elem f then
          let '(run, rest) := span_name ns (fl_name f) kids in run_valid U velem f run && items_match r rest
        else items_match r kids
    | (ns, IGroup _ ms) :: r =>
        let '(runs, rest) := split_runs (tagged ns ms) kids in
        runs_valid U velem (tagged ns ms) runs && items_match r rest
    end.

  Definition group_wf (i : item) : Prop :=
    match i with
    | IOne _ => True
    | IGroup _ ms => ms <> [] /\ forall f, In f ms -> fl_min f = 0 /\ ext_leb (Fin 0) (fl_max f) = true
    end.

  Lemma match_items L : forall kids,
    (forall p, In p L -> group_wf (snd p)) -> groups_single L kids = true ->
    match_seq velem (L_parts L) kids = items_match L kids.
  Proof.
    induction L as [|[ns [f|g ms]] r IH]; intros kids Hwf Hs.
    - destruct kids; reflexivity.
    - cbn [L_parts flat_map fst snd ipart items_match groups_single] in *.
      destruct (is_elem f).
      + cbn [map app match_seq]. destruct (span_name ns (fl_name f) kids) as [run rest] eqn:Es.
        change (e_name (fld_edecl U f)) with (fl_name f). rewrite Es. cbn [snd] in Hs.
        fold (L_parts r). rewrite IH; [|intros p Hp; apply Hwf; right; exact Hp|exact Hs].
        unfold run_valid. reflexivity.
      + cbn [map app]. fold (L_parts r). apply IH; [intros p Hp; apply Hwf; right; exact Hp|exact Hs].
    - cbn [L_parts flat_map fst snd ipart items_match groups_single map app] in *. fold (L_parts r).
      apply andb_prop in Hs. destruct Hs as [H1 H2]. apply Nat.leb_le in H1.
      destruct (Hwf (ns, IGroup g ms) (or_introl eq_refl)) as [Hne Hmin].
      rewrite (choice_match U velem ns ms (L_parts r) kids Hmin Hne H1).
      destruct (split_runs (tagged ns ms) kids) as [runs rest]. cbn [fst snd] in *.
      rewrite IH; [reflexivity|intros p Hp; apply Hwf; right; exact Hp|exact H2].
  Qed.
End Items.
