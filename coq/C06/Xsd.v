(** C06 — abstract syntax of the XML Schema subset Spyne publishes, and validity of an XML
    tree (Wire/Xml.v [xnode]) against it, written from XML Schema 1.0 parts 1 and 2
    (not from Spyne).  Definitions only.

    Subset: schema documents with a target namespace, imports, named simple types that
    restrict a built-in type by facets, named complex types (optionally extending a complex
    base) whose content is a sequence of local element declarations and choices of local
    element declarations, attribute declarations, global element declarations; xsi:nil.
    Not covered: xsi:type, substitution groups, wildcards, mixed content, identity
    constraints, list/union types, tail text (the tree type does not record it).

    The regular expression of a pattern facet and the lexical mappings of the types whose
    codec is delegated to libraries are parameters ([pat], [olex]). *)
From SpyneV Require Export C06.Leaf Wire.Xml.

Definition qname := (text * text)%type.     (* namespace name, local name *)
Definition qname_eqb (a b : qname) : bool := text_eqb (fst a) (fst b) && text_eqb (snd a) (snd b).

Definition xs_ns : text := [104; 116; 116; 112; 58; 47; 47; 119; 119; 119; 46; 119; 51; 46; 111; 114; 103; 47; 50; 48; 48; 49; 47; 88; 77; 76; 83; 99; 104; 101; 109; 97].  (* http://www.w3.org/2001/XMLSchema *)

(** element declaration as written: an absent attribute is [None] *)
Record edecl := mkedecl {
  e_name : text; e_type : qname;
  e_min : option Z;              (* minOccurs *)
  e_max : option ext;            (* maxOccurs: Fin n | PosInf = "unbounded" *)
  e_nillable : option bool;      (* nillable *)
  e_default : option text }.     (* default *)
Inductive particle := PElem (d : edecl) | PChoice (alts : list edecl).
Record adecl := mkadecl { a_name : text; a_type : qname; a_required : option bool (* use *); a_default : option text }.
Record sdef := mksdef { s_name : text; s_base : qname; s_facets : list (ftag * text) }.
Record cdef := mkcdef { c_name : text; c_base : option qname; c_seq : list particle; c_atts : list adecl }.
Inductive tdef := TSimple (s : sdef) | TComplex (c : cdef).
Record sdoc := mksdoc {
  d_tns : text; d_qualified : bool (* elementFormDefault *); d_imports : list text;
  d_types : list tdef; d_elems : list (text * qname) }.
Definition schema := list sdoc.

(** XSD defaults for absent attributes (part 1, 3.3.2 / 3.9.2 / 3.2.2) *)
Definition eff_min (d : edecl) : Z := match e_min d with Some n => n | None => 1 end.
Definition eff_max (d : edecl) : ext := match e_max d with Some m => m | None => Fin 1 end.
Definition eff_nillable (d : edecl) : bool := match e_nillable d with Some b => b | None => false end.
Definition eff_required (a : adecl) : bool := match a_required a with Some b => b | None => false end.

(** built-in simple types used by Spyne, with their value spaces (part 2, 3.2 / 3.3) *)
Inductive xbase := XInt (lo hi : ext) | XStr | XUri | XBool | XDec | XOpq (k : okind).

Definition builtin_table : list (text * xbase) :=
  [ ([105; 110; 116; 101; 103; 101; 114], XInt NegInf PosInf);                                   (* integer *)
    ([110; 111; 110; 78; 101; 103; 97; 116; 105; 118; 101; 73; 110; 116; 101; 103; 101; 114], XInt (Fin 0) PosInf);  (* nonNegativeInteger *)
    ([112; 111; 115; 105; 116; 105; 118; 101; 73; 110; 116; 101; 103; 101; 114], XInt (Fin 1) PosInf);   (* positiveInteger *)
    ([108; 111; 110; 103], XInt (Fin (-9223372036854775808)) (Fin 9223372036854775807));            (* long *)
    ([105; 110; 116], XInt (Fin (-2147483648)) (Fin 2147483647));                                   (* int *)
    ([115; 104; 111; 114; 116], XInt (Fin (-32768)) (Fin 32767));                                   (* short *)
    ([98; 121; 116; 101], XInt (Fin (-128)) (Fin 127));                                             (* byte *)
    ([117; 110; 115; 105; 103; 110; 101; 100; 76; 111; 110; 103], XInt (Fin 0) (Fin 18446744073709551615));  (* unsignedLong *)
    ([117; 110; 115; 105; 103; 110; 101; 100; 73; 110; 116], XInt (Fin 0) (Fin 4294967295));        (* unsignedInt *)
    ([117; 110; 115; 105; 103; 110; 101; 100; 83; 104; 111; 114; 116], XInt (Fin 0) (Fin 65535));   (* unsignedShort *)
    ([117; 110; 115; 105; 103; 110; 101; 100; 66; 121; 116; 101], XInt (Fin 0) (Fin 255));          (* unsignedByte *)
    ([115; 116; 114; 105; 110; 103], XStr);                                                         (* string *)
    ([97; 110; 121; 85; 82; 73], XUri);                                                             (* anyURI *)
    ([98; 111; 111; 108; 101; 97; 110], XBool);                                                     (* boolean *)
    ([100; 101; 99; 105; 109; 97; 108], XDec);                                                      (* decimal *)
    ([100; 111; 117; 98; 108; 101], XOpq ODouble);                                                  (* double *)
    ([102; 108; 111; 97; 116], XOpq OFloat);                                                        (* float *)
    ([100; 97; 116; 101], XOpq ODate);                                                              (* date *)
    ([116; 105; 109; 101], XOpq OTime);                                                             (* time *)
    ([100; 97; 116; 101; 84; 105; 109; 101], XOpq ODateTime);                                       (* dateTime *)
    ([100; 117; 114; 97; 116; 105; 111; 110], XOpq ODuration);                                      (* duration *)
    ([98; 97; 115; 101; 54; 52; 66; 105; 110; 97; 114; 121], XOpq OBase64) ].                       (* base64Binary *)

Fixpoint assoc_text {A} (k : text) (l : list (text * A)) : option A :=
  match l with
  | [] => None
  | (k', v) :: r => if text_eqb k' k then Some v else assoc_text k r
  end.
Definition builtin (n : text) : option xbase := assoc_text n builtin_table.

Definition is_some {A} (o : option A) : bool := match o with Some _ => true | None => false end.

Section Validity.
  Variable pat : text -> option re.             (* the regular expression a pattern facet text denotes *)
  Variable olex : okind -> text -> option Z.    (* lexical mapping of the delegated types (key of the value) *)

  (** lexical-to-value mapping of a built-in type, after whitespace processing *)
  Definition xs_value (b : xbase) (s : text) : option sval :=
    match b with
    | XInt lo hi =>
        let s' := xs_trim s in
        if xs_integer s' then
          let z := den_integer s' in
          if ext_leb lo (Fin z) && ext_leb (Fin z) hi then Some (SInt z) else None
        else None
    | XStr => Some (SText s)
    | XUri => Some (SText (xs_trim s))
    | XBool =>
        let s' := xs_trim s in
        if text_eqb s' t_true || text_eqb s' t_one then Some (SBool true)
        else if text_eqb s' t_false || text_eqb s' t_zero then Some (SBool false)
        else None
    | XDec => option_map SDec (xs_decimal (xs_trim s))
    | XOpq k => let s' := xs_trim s in option_map (fun key => SOpq k key s') (olex k s')
    end.

  (** the literal a pattern facet is matched against *)
  Definition xs_lexical (b : xbase) (s : text) : text :=
    match b with XStr => s | _ => xs_trim s end.

  Definition nonneg_of_text (t : text) : option Z :=
    let t' := xs_trim t in
    if xs_integer t' then (let z := den_integer t' in if 0 <=? z then Some z else None) else None.

  Definition value_length (v : sval) : option Z :=
    match v with SText t => Some (len t) | _ => None end.

  Definition value_digits (v : sval) : option (Z * Z) :=
    match v with
    | SInt z => Some (if z =? 0 then 1 else len (str_nat (Z.abs z)), 0)
    | SDec d => Some (dec_digits d)
    | _ => None
    end.

  (** one constraining facet other than enumeration (part 2, 4.3) *)
  Definition facet_ok (b : xbase) (s : text) (v : sval) (f : ftag * text) : bool :=
    let '(tag, t) := f in
    match tag with
    | T_minExclusive => match xs_value b t with Some w => sval_ltb w v | None => false end
    | T_minInclusive => match xs_value b t with Some w => sval_leb w v | None => false end
    | T_maxExclusive => match xs_value b t with Some w => sval_ltb v w | None => false end
    | T_maxInclusive => match xs_value b t with Some w => sval_leb v w | None => false end
    | T_enumeration => true
    | T_length => match nonneg_of_text t, value_length v with Some n, Some l => l =? n | _, _ => false end
    | T_minLength => match nonneg_of_text t, value_length v with Some n, Some l => n <=? l | _, _ => false end
    | T_maxLength => match nonneg_of_text t, value_length v with Some n, Some l => l <=? n | _, _ => false end
    | T_pattern => match pat t with Some r => re_match r (xs_lexical b s) | None => false end
    | T_totalDigits => match nonneg_of_text t, value_digits v with Some n, Some (td, _) => td <=? n | _, _ => false end
    | T_fractionDigits => match nonneg_of_text t, value_digits v with Some n, Some (_, fd) => fd <=? n | _, _ => false end
    end.
  Definition is_enum (f : ftag * text) : bool := ftag_eqb (fst f) T_enumeration.
  (** enumeration facets are alternatives; the others are conjoined *)
  Definition facets_ok (b : xbase) (s : text) (v : sval) (fs : list (ftag * text)) : bool :=
    let enums := filter is_enum fs in
    (match enums with
     | [] => true
     | _ => existsb (fun f => match xs_value b (snd f) with Some w => sval_eqb v w | None => false end) enums
     end)
    && forallb (facet_ok b s v) fs.

  (* ---------------------------------------------------------------- component lookup *)
  Definition find_doc (S : schema) (ns : text) : option sdoc :=
    find (fun d => text_eqb (d_tns d) ns) S.
  Definition tdef_name (t : tdef) : text := match t with TSimple s => s_name s | TComplex c => c_name c end.
  Definition find_type (S : schema) (q : qname) : option tdef :=
    match find_doc S (fst q) with
    | Some d => find (fun t => text_eqb (tdef_name t) (snd q)) (d_types d)
    | None => None
    end.

  (** a simple type definition: a built-in, or a named restriction of a built-in *)
  Definition resolve_simple (S : schema) (q : qname) : option (xbase * list (ftag * text)) :=
    if text_eqb (fst q) xs_ns then option_map (fun b => (b, [])) (builtin (snd q))
    else match find_type S q with
         | Some (TSimple s) =>
             if text_eqb (fst (s_base s)) xs_ns
             then option_map (fun b => (b, s_facets s)) (builtin (snd (s_base s)))
             else None
         | _ => None
         end.

  Definition simple_ok (S : schema) (q : qname) (s : text) : bool :=
    match resolve_simple S q with
    | Some (b, fs) => match xs_value b s with Some v => facets_ok b s v fs | None => false end
    | None => false
    end.

  (** effective content of a complex type: the base's sequence and attributes first
      (complexContent/extension, part 1, 3.4.2).  Element particles are paired with the
      namespace of the schema document that declares them (elementFormDefault). *)
  Definition local_ns (d : sdoc) : text := if d_qualified d then d_tns d else [].
  Fixpoint eff_content (fuel : nat) (S : schema) (q : qname) : option (list (text * particle) * list adecl) :=
    match fuel with
    | O => None
    | Datatypes.S k =>
        match find_doc S (fst q), find_type S q with
        | Some d, Some (TComplex c) =>
            let own := (map (fun p => (local_ns d, p)) (c_seq c), c_atts c) in
            match c_base c with
            | None => Some own
            | Some bq => match eff_content k S bq with
                         | Some (ps, ats) => Some (ps ++ fst own, ats ++ snd own)
                         | None => None
                         end
            end
        | _, _ => None
        end
    end.

  (* ---------------------------------------------------------------- instance validity *)
  Definition is_elt (e : xnode) : bool := match e with XElt _ _ _ _ _ => true | XOther => false end.
  Definition elt_is (ns name : text) (e : xnode) : bool :=
    match e with XElt n m _ _ _ => text_eqb n ns && text_eqb m name | XOther => false end.
  Fixpoint span_name (ns name : text) (kids : list xnode) : list xnode * list xnode :=
    match kids with
    | k :: r => if elt_is ns name k then let '(a, b) := span_name ns name r in (k :: a, b) else ([], kids)
    | [] => ([], [])
    end.
  Definition occ_ok (d : edecl) (n : Z) : bool := (eff_min d <=? n) && ext_leb (Fin n) (eff_max d).
  Definition len_nodes (l : list xnode) : Z := Z.of_nat (length l).

  (** a sequence of element declarations and choices against the element children; the
      declarations of one sequence have distinct names (unique particle attribution), so the
      longest run of equally named children belongs to one declaration *)
  Fixpoint match_seq (velem : edecl -> xnode -> bool) (ps : list (text * particle)) (kids : list xnode) : bool :=
    match ps with
    | [] => match kids with [] => true | _ => false end
    | (ns, PElem d) :: r =>
        let '(run, rest) := span_name ns (e_name d) kids in
        occ_ok d (len_nodes run) && forallb (velem d) run && match_seq velem r rest
    | (ns, PChoice alts) :: r =>
        match find (fun d => match kids with k :: _ => elt_is ns (e_name d) k | [] => false end) alts with
        | Some d =>
            let '(run, rest) := span_name ns (e_name d) kids in
            occ_ok d (len_nodes run) && forallb (velem d) run && match_seq velem r rest
        | None => existsb (fun d => eff_min d <=? 0) alts && match_seq velem r kids
        end
    end.

  Definition is_xsi (a : attr) : bool := let '(ns, _, _) := a in text_eqb ns xsi_ns.
  Definition is_xsi_nil (a : attr) : bool := let '(ns, n, _) := a in text_eqb ns xsi_ns && text_eqb n t_nil.
  Definition all_xws (t : option text) : bool := match t with None => true | Some s => forallb is_xws s end.
  Definition no_text (t : option text) : bool := match t with None | Some [] => true | _ => false end.

  (** attribute uses (part 1, 3.4.4): declared attributes are unqualified; every other
      attribute outside the xsi namespace is an error *)
  Definition attrs_ok (S : schema) (decls : list adecl) (atts : list attr) : bool :=
    forallb (fun a : attr => let '(ns, n, _) := a in
               is_xsi a || (match ns with [] => true | _ => false end
                            && existsb (fun d => text_eqb (a_name d) n) decls)) atts
    && forallb (fun d => match lookup_att [] (a_name d) atts with
                         | Some v => simple_ok S (a_type d) v
                         | None => negb (eff_required d)
                         end) decls.

  (** validity of an element against the type [q] of its declaration (part 1, 3.3.4) *)
  Fixpoint valid_elem (fuel : nat) (S : schema) (q : qname) (nillable : bool) (dflt : option text)
           (e : xnode) : bool :=
    match fuel with
    | O => false
    | Datatypes.S k =>
        match e with
        | XOther => false
        | XElt _ _ atts txt kids =>
            let plain := filter (fun a => negb (is_xsi a)) atts in
            let ekids := filter is_elt kids in
            if negb (forallb (fun a => negb (is_xsi a) || is_xsi_nil a) atts) then false   (* xsi:type etc.: outside the subset *)
            else
              let nilled :=
                match lookup_att xsi_ns t_nil atts with
                | Some v => let v' := xs_trim v in text_eqb v' t_true || text_eqb v' t_one
                | None => false
                end in
              if is_some (lookup_att xsi_ns t_nil atts) && negb nillable then false
              else
                match resolve_simple S q with
                | Some _ =>
                    match plain, ekids with
                    | [], [] =>
                        if nilled then no_text txt
                        else match txt, dflt with
                             | None, Some d | Some [], Some d => simple_ok S q d
                             | None, None => simple_ok S q []
                             | Some s, _ => simple_ok S q s
                             end
                    | _, _ => false
                    end
                | None =>
                    match eff_content k S q with
                    | Some (ps, ats) =>
                        attrs_ok S ats atts
                        && (if nilled then no_text txt && match ekids with [] => true | _ => false end
                            else all_xws txt
                                 && match_seq (fun d c => valid_elem k S (e_type d) (eff_nillable d) (e_default d) c) ps ekids)
                    | None => false
                    end
                end
        end
    end.

  (** a document: the root must be a global element declaration of its namespace *)
  Definition valid_doc (fuel : nat) (S : schema) (e : xnode) : bool :=
    match e with
    | XElt ns name _ _ _ =>
        match find_doc S ns with
        | Some d => match assoc_text name (d_elems d) with
                    | Some q => valid_elem fuel S q false None e
                    | None => false
                    end
        | None => false
        end
    | XOther => false
    end.
End Validity.
