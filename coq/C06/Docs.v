(** C06 — documents that use only declared members in declared order.  Definitions only. *)
From SpyneV Require Export C06.Spec.

Definition hd_is (ns name : text) (kids : list xnode) : bool :=
  match kids with k :: _ => elt_is ns name k | [] => false end.


Fixpoint split_runs (efs : list (text * fld)) (kids : list xnode) : list (list xnode) * list xnode :=
  match efs with
  | [] => ([], kids)
  | (ns, f) :: r =>
      let '(run, rest) := span_name ns (fl_name f) kids in
      let '(runs, rest') := split_runs r rest in (run :: runs, rest')
  end.


Definition nonempty {A} (l : list A) : bool := match l with [] => false | _ => true end.
Definition count_nonempty {A} (ls : list (list A)) : nat := length (filter nonempty ls).

Definition tagged (ns : text) (ms : list fld) : list (text * fld) := map (pair ns) ms.
Definition is_nil_list {A} (l : list A) : bool := match l with [] => true | _ => false end.

(** at most one member of each choice group has children *)
Fixpoint groups_single (L : list (text * item)) (kids : list xnode) : bool :=
  match L with
  | [] => true
  | (ns, IOne f) :: r =>
      if is_elem f then groups_single r (snd (span_name ns (fl_name f) kids)) else groups_single r kids
  | (ns, IGroup _ ms) :: r =>
      Nat.leb (count_nonempty (fst (split_runs (tagged ns ms) kids))) 1
      && groups_single r (snd (split_runs (tagged ns ms) kids))
  end.


Fixpoint chain_fuel (fuel : nat) (U : univ) (c : cid) : option (list (text * item)) :=
  match fuel with
  | O => None
  | S k =>
      match get_klass U c with
      | None => None
      | Some cl =>
          let own := map (pair (k_ns cl)) (k_items cl) in
          match k_parent cl with
          | None => Some own
          | Some p => match chain_fuel k U p with Some pl => Some (pl ++ own) | None => None end
          end
      end
  end.

Definition L_flds (L : list (text * item)) : list (text * fld) :=
  flat_map (fun p => tagged (fst p) (item_flds (snd p))) L.


Definition node_name (e : xnode) : text := match e with XElt _ n _ _ _ => n | XOther => [] end.



(* ------------------------------------------------------------------ the documents of the agreement theorem *)
Section Doc.
  Variable U : univ.
  (** which leaf contents are allowed: (type, nillable of the member, default text of the
      member, text of the element or attribute) *)
  Variable LA : stype -> bool -> option text -> option text -> bool.

  Fixpoint runs_chk (chk : fld -> xnode -> bool) (ms : list fld) (runs : list (list xnode)) : bool :=
    match ms, runs with
    | [], [] => true
    | f :: r, run :: rs => forallb (chk f) run && runs_chk chk r rs
    | _, _ => false
    end.

  (** the children are the members' children, member after member in declaration order, and
      every child of member f satisfies [chk f] *)
  Fixpoint items_doc (chk : fld -> xnode -> bool) (L : list (text * item)) (kids : list xnode) : bool :=
    match L with
    | [] => is_nil_list kids
    | (ns, IOne f) :: r =>
        if is_elem f then
          let '(run, rest) := span_name ns (fl_name f) kids in forallb (chk f) run && items_doc chk r rest
        else items_doc chk r kids
    | (ns, IGroup _ ms) :: r =>
        let '(runs, rest) := split_runs (tagged ns ms) kids in runs_chk chk ms runs && items_doc chk r rest
    end.

  Definition plain_atts (atts : list attr) : list attr := filter (fun a => negb (is_xsi a)) atts.

  (** the only xsi attribute is xsi:nil, with a value Spyne reads as nil, at most once *)
  Definition xsi_ok (atts : list attr) : bool :=
    forallb (fun a : attr => negb (is_xsi a) || (is_xsi_nil a && existsb (text_eqb (snd a)) nil_values)) atts
    && Nat.leb (length (filter is_xsi atts)) 1.

  (** unqualified attributes named after XmlAttribute members, each at most once, with
      allowed values *)
  Definition atts_doc (fields : list fld) (atts : list attr) : bool :=
    forallb (fun a : attr =>
               let '(ns, n, v) := a in
               is_nil_list ns
               && match find_fld n fields with
                  | Some f => negb (is_elem f)
                              && match fl_ty f with DLeaf st => LA st (fl_nillable f) None (Some v) | _ => false end
                  | None => false
                  end) atts
    && nodup_text (map (fun a : attr => snd (fst a)) atts).

  (** no attribute of a child element (nor xsi:nil) is named like a member of the class *)
  Definition no_clash (fields : list fld) (atts : list attr) (kids : list xnode) : bool :=
    forallb (fun a : attr => negb (is_xsi a) || is_none (find_fld (clark (fst (fst a)) (snd (fst a))) fields)) atts
    && forallb (fun k => match k with
                         | XElt _ _ catts _ _ =>
                             forallb (fun a : attr => is_none (find_fld (clark (fst (fst a)) (snd (fst a))) fields)) catts
                         | XOther => true
                         end) kids.

  (** a document that uses only declared members, in declared order, in the namespaces Spyne
      declares them in; nilled elements are empty; at most one member of a choice group is
      present; an xsi:nil element does not stand for a class with a required attribute.
      Occurrence counts, nil flags and leaf contents are NOT constrained (beyond [LA]). *)
  Fixpoint ddoc (fuel : nat) (t : dty) (nillable : bool) (dflt : option text) (e : xnode) : bool :=
    match fuel with
    | O => false
    | S k =>
        match e with
        | XOther => false
        | XElt _ _ atts txt kids =>
            xsi_ok atts
            && if is_nil_att atts then
                 no_text txt && is_nil_list kids && is_nil_list (plain_atts atts) && (negb nillable || nil_ok U t)
               else
                 match t with
                 | DLeaf st =>
                     is_nil_list kids && is_nil_list (plain_atts atts)
                     && negb (match txt with Some [] => true | _ => false end)
                     && LA st nillable dflt txt
                 | DArr aq iname el =>
                     is_nil_list (plain_atts atts) && all_xws txt
                     && forallb (fun c => elt_is (fst aq) iname c && ddoc k el true None c) kids
                 | DRef c =>
                     match chain_fuel (S c) U c with
                     | Some L =>
                         let fields := map snd (L_flds L) in
                         all_xws txt && forallb is_elt kids
                         && items_doc (fun f c => ddoc k (fl_ty f) (fl_nillable f) (default_text f) c) L kids
                         && groups_single L kids
                         && atts_doc fields (plain_atts atts)
                         && no_clash fields atts kids
                     | None => false
                     end
                 end
        end
    end.
End Doc.
