(** C06 — documents that use only declared members in declared order.  Definitions only. *)
From SpyneV Require Export C06.Spec.

Definition hd_is (ns name : text) (kids : list xnode) : bool :=
  match kids with k :: _ => elt_is ns name k | [] => false end.


Fixpoint split_runs (efs : list (text * fld)) (kids : list xnode) : list (list xnode) * list xnode :=
  match efs with
  | [] => ([], kids)
  | (ns, f) :: r =>
      let '(run, rest) := span_name ns (fl_name f) kids in
      let '(runs, rest') := split_runs r rest in (run :: runs, rest')
  end.


Definition nonempty {A} (l : list A) : bool := match l with [] => false | _ => true end.
Definition count_nonempty {A} (ls : list (list A)) : nat := length (filter nonempty ls).

Definition tagged (ns : text) (ms : list fld) : list (text * fld) := map (pair ns) ms.
Definition is_nil_list {A} (l : list A) : bool := match l with [] => true | _ => false end.

(** at most one member of each choice group has children *)
Fixpoint groups_single (L : list (text * item)) (kids : list xnode) : bool :=
  match L with
  | [] => true
  | (ns, IOne f) :: r =>
      if is_elem f then groups_single r (snd (span_name ns (fl_name f) kids)) else groups_single r kids
  | (ns, IGroup _ ms) :: r =>
      Nat.leb (count_nonempty (fst (split_runs (tagged ns ms) kids))) 1
      && groups_single r (snd (split_runs (tagged ns ms) kids))
  end.


Fixpoint chain_fuel (fuel : nat) (U : univ) (c : cid) : option (list (text * item)) :=
  match fuel with
  | O => None
  | S k =>
      match get_klass U c with
      | None => None
      | Some cl =>
          let own := map (pair (k_ns cl)) (k_items cl) in
          match k_parent cl with
          | None => Some own
          | Some p => match chain_fuel k U p with Some pl => Some (pl ++ own) | None => None end
          end
      end
  end.

Definition L_flds (L : list (text * item)) : list (text * fld) :=
  flat_map (fun p => tagged (fst p) (item_flds (snd p))) L.


Definition node_name (e : xnode) : text := match e with XElt _ n _ _ _ => n | XOther => [] end.


