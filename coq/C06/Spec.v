(** C06 — vocabulary of the property theorems: well-formed universes, values that satisfy the
    declared constraints, documents that use only declared members in declared order.
    Definitions only. *)
From SpyneV Require Export C06.Model.

(* ------------------------------------------------------------------ leaf types *)
(** the XSD built-in a leaf class stands for, from the value space the class declares *)
Definition xbase_of (b : lbase) : xbase :=
  match b with
  | BInt k => let '(l, h) := ibounds k in XInt l h
  | BStr false => XStr
  | BStr true => XUri
  | BBool => XBool
  | BDec => XDec
  | BOpq OUuid => XStr
  | BOpq k => XOpq k
  end.

(** the facets Spyne publishes for the type (none when the type is 'default') *)
Definition st_facets (st : stype) : list (ftag * text) := if published st then restriction_of st else [].

Definition opt_list {A} (o : option A) : list A := match o with Some x => [x] | None => [] end.
Definition facet_values (f : facets) : list sval :=
  opt_list (fa_gt f) ++ opt_list (fa_ge f) ++ opt_list (fa_lt f) ++ opt_list (fa_le f) ++ fa_values f.

Definition wf_ikind (k : ikind) : bool :=
  match k with KFixed _ b => existsb (Z.eqb b) [8; 16; 32; 64] | _ => true end.

(** the value lies in the value space of the class (hardware bounds) *)
Definition in_space (b : lbase) (v : sval) : bool :=
  kind_ok b v
  && match b, v with
     | BInt k, SInt z => let '(l, h) := ibounds k in ext_leb l (Fin z) && ext_leb (Fin z) h
     | BDec, SDec d => 0 <=? d_coeff d
     | BStr true, SText t => text_eqb (xs_trim t) t        (* anyURI: whiteSpace = collapse *)
     | _, _ => true
     end.

Definition is_none {A} (o : option A) : bool := match o with None => true | Some _ => false end.
Definition nonneg_opt (o : option Z) : bool := match o with Some n => 0 <=? n | None => true end.

(** a customisation Spyne can publish: facet values lie in the value space of the class, and
    each facet is one the class has (length and pattern for strings; ranges and digit counts
    for numbers; ranges for dates and times) *)
Definition wf_stype (st : stype) : bool :=
  let b := st_base st in let f := st_fa st in
  forallb (in_space b) (facet_values f)
  && nonneg_opt (fa_min_len f) && nonneg_opt (fa_max_len f)
  && nonneg_opt (fa_total_digits f) && nonneg_opt (fa_fraction_digits f)
  && (is_none (st_qn st) || negb (text_eqb (fst (match st_qn st with Some q => q | None => ([], []) end)) xs_ns))
  && (negb (published st) || is_some (st_qn st))
  && match b with
     | BInt k =>
         wf_ikind k && is_none (fa_min_len f) && is_none (fa_max_len f) && is_none (fa_pattern f)
         && is_none (fa_fraction_digits f)
     | BStr _ =>
         is_none (fa_gt f) && is_none (fa_ge f) && is_none (fa_lt f) && is_none (fa_le f)
         && is_none (fa_total_digits f) && is_none (fa_fraction_digits f)
     | BBool =>
         match facet_values f with [] => true | _ => false end
         && is_none (fa_min_len f) && is_none (fa_max_len f) && is_none (fa_pattern f)
         && is_none (fa_total_digits f) && is_none (fa_fraction_digits f)
     | BDec =>
         is_none (fa_min_len f) && is_none (fa_max_len f) && is_none (fa_pattern f)
     | BOpq OUuid =>
         match facet_values f with [] => true | _ => false end
         && is_none (fa_min_len f) && is_none (fa_max_len f) && is_some (fa_pattern f)
         && is_none (fa_total_digits f) && is_none (fa_fraction_digits f)
     | BOpq ODuration | BOpq OBase64 =>
         match facet_values f with [] => true | _ => false end
         && is_none (fa_min_len f) && is_none (fa_max_len f) && is_none (fa_pattern f)
         && is_none (fa_total_digits f) && is_none (fa_fraction_digits f)
     | BOpq _ =>
         is_none (fa_min_len f) && is_none (fa_max_len f) && is_none (fa_pattern f)
         && is_none (fa_total_digits f) && is_none (fa_fraction_digits f)
     end.

(** str(Decimal) has no exponent: exponent <= 0 and adjusted exponent >= -6 *)
Definition dec_plain_region (d : decimal) : bool :=
  (d_exp d <=? 0) && (-6 <? d_exp d + len (str_nat (d_coeff d))).

Section Spec.
  Variable pat : text -> option re.
  Variable olex : okind -> text -> option Z.
  Variable ord : okind -> text -> out Z.

  (** validity of a literal against the simple type Spyne publishes for [st], with the type
      reference already resolved *)
  Definition st_simple_ok (st : stype) (s : text) : bool :=
    let xb := xbase_of (st_base st) in
    match xs_value olex xb s with
    | Some v => facets_ok pat olex xb s v (st_facets st)
    | None => false
    end.
  (** validity of the content of a leaf element (no children, no attributes) of that type *)
  Definition st_elem_ok (st : stype) (dflt : option text) (txt : option text) : bool :=
    match txt, dflt with
    | None, Some d | Some [], Some d => st_simple_ok st d
    | None, None => st_simple_ok st []
    | Some s, _ => st_simple_ok st s
    end.

  (** the library hypotheses, per value: the text Spyne writes for a delegated leaf value is
      an XSD literal of the same value, is read back by Spyne as the same value, and carries no
      blanks at its ends *)
  Definition opq_ok (v : sval) : bool :=
    match v with
    | SOpq k key canon =>
        text_eqb (xs_trim canon) canon
        && (okind_eqb k OUuid || match olex k canon with Some key' => key' =? key | None => false end)
        && match ord k canon with Ok key' => key' =? key | _ => false end
    | _ => true
    end.
  (** the pattern table knows the pattern of the type *)
  Definition pat_known (st : stype) : bool :=
    match fa_pattern (st_fa st) with
    | Some (p, r) => match pat p with Some r' => true | None => false end
    | None => true
    end.
End Spec.

(* ------------------------------------------------------------------ universes *)
Fixpoint dty_leaves (t : dty) : list stype :=
  match t with DLeaf st => [st] | DRef _ => [] | DArr _ _ e => dty_leaves e end.
Fixpoint dty_ok (n : nat) (t : dty) : bool :=
  match t with
  | DLeaf st => wf_stype st
  | DRef c => Nat.ltb c n
  | DArr aq _ e => negb (text_eqb (fst aq) xs_ns) && dty_ok n e
  end.

Definition fld_ok (n : nat) (f : fld) : bool :=
  dty_ok n (fl_ty f)
  && (0 <=? fl_min f) && ext_leb (Fin 1) (fl_max f) && ext_leb (Fin (fl_min f)) (fl_max f)
  && match fl_kind f with
     | FAttr => match fl_ty f with DLeaf _ => true | _ => false end
                && ext_leb (fl_max f) (Fin 1) && is_none (fl_default f)
                && match fl_use f with Some b => Bool.eqb b (0 <? fl_min f) | None => true end
     | FElem => is_none (fl_use f)
                && match fl_default f, fl_ty f with
                   | Some d, DLeaf st => leaf_conf st d
                   | Some _, _ => false
                   | None, _ => true
                   end
     end.

Definition group_ids (its : list item) : list Z :=
  flat_map (fun i => match i with IGroup g _ => [g] | IOne _ => [] end) its.
Fixpoint nodupZ (l : list Z) : bool :=
  match l with [] => true | x :: r => negb (existsb (Z.eqb x) r) && nodupZ r end.

(** members of a choice group are optional elements without a default *)
Definition item_ok (n : nat) (i : item) : bool :=
  match i with
  | IOne f => fld_ok n f
  | IGroup _ ms =>
      forallb (fun f => fld_ok n f && is_elem f && (fl_min f =? 0) && is_none (fl_default f)) ms
      && match ms with [] => false | _ => true end
  end.

Definition klass_ok (U : univ) (i : nat) (cl : klass) : bool :=
  match k_parent cl with Some p => Nat.ltb p i | None => true end
  && negb (text_eqb (k_ns cl) xs_ns)
  && forallb (item_ok (length U)) (k_items cl)
  && nodupZ (group_ids (k_items cl))
  && match flat U i with
     | Some ffs => nodup_text (map (fun p => fl_name (snd p)) ffs)
     | None => false
     end.
Fixpoint wf_from6 (U : univ) (i : nat) (l : list klass) : bool :=
  match l with [] => true | cl :: r => klass_ok U i cl && wf_from6 U (S i) r end.
Definition wf_univ (U : univ) : bool := wf_from6 U 0 U.

(** the attributes a class requires (its own and its ancestors') *)
Definition has_required_attr (U : univ) (c : cid) : bool :=
  match flat U c with
  | Some ffs => existsb (fun p => negb (is_elem (snd p)) && (0 <? fl_min (snd p))) ffs
  | None => true
  end.

(* ------------------------------------------------------------------ values that satisfy the declared constraints *)
Section Conf.
  Variable U : univ.
  Variable leaf_extra : sval -> bool.       (* the library hypotheses on delegated leaf values *)

  (** number of elements (or attributes) a member contributes to the wire *)
  Definition occ6 (f : fld) (x : value) : Z :=
    match fl_kind f with
    | FAttr => match x with NNone => 0 | _ => 1 end
    | FElem =>
        match x with
        | NNone => if 0 <? fl_min f then 1 else 0
        | NList xs => if multi f then Z.of_nat (length xs) else 1
        | _ => 1
        end
    end.

  (** may None stand at a position of this type?  It is written as an xsi:nil element, which
      XSD validates against the attribute uses of the type: a class with a required
      XmlAttribute cannot be nil (known finding C06|nil|required-attribute) *)
  Definition nil_ok (t : dty) : bool :=
    match t with DRef c => negb (has_required_attr U c) | _ => true end.

  Definition field_conf6 (rec : dty -> value -> bool) (f : fld) (x : value) : bool :=
    (fl_min f <=? occ6 f x) && ext_leb (Fin (occ6 f x)) (fl_max f)
    && match fl_kind f with
       | FAttr =>
           match x with
           | NNone => true
           | NLeaf _ => rec (fl_ty f) x
           | _ => false
           end
       | FElem =>
           match x with
           | NNone =>
               (* not written, or written as the default, or written as a nil element *)
               (fl_min f <=? 0) || is_some (fl_default f) || (fl_nillable f && nil_ok (fl_ty f))
           | NList xs =>
               if multi f then
                 forallb (fun y => match y with
                                   | NNone => is_some (fl_default f) || (fl_nillable f && nil_ok (fl_ty f))
                                   | _ => true
                                   end && rec (fl_ty f) y) xs
               else rec (fl_ty f) x
           | _ => negb (multi f) && rec (fl_ty f) x
           end
       end.

  (** at most one member of a choice group is written *)
  Fixpoint items_conf (rec : dty -> value -> bool) (its : list item) (vals : list value) : bool :=
    match its with
    | [] => match vals with [] => true | _ => false end
    | IOne f :: r =>
        match vals with
        | x :: vs => field_conf6 rec f x && items_conf rec r vs
        | [] => false
        end
    | IGroup _ ms :: r =>
        let n := length ms in
        Nat.eqb (length (firstn n vals)) n
        && forallb (fun fx => field_conf6 rec (fst fx) (snd fx)) (combine ms (firstn n vals))
        && (Z.of_nat (length (filter (fun fx => 0 <? occ6 (fst fx) (snd fx)) (combine ms (firstn n vals)))) <=? 1)
        && items_conf rec r (skipn n vals)
    end.

  (** the items of a class and its ancestors, ancestors first *)
  Fixpoint flat_items_fuel (fuel : nat) (c : cid) : option (list item) :=
    match fuel with
    | O => None
    | S k =>
        match get_klass U c with
        | None => None
        | Some cl =>
            match k_parent cl with
            | None => Some (k_items cl)
            | Some p => match flat_items_fuel k p with Some pi => Some (pi ++ k_items cl) | None => None end
            end
        end
    end.
  Definition flat_items (c : cid) : option (list item) := flat_items_fuel (S c) c.

  Fixpoint vconf (fuel : nat) (t : dty) (v : value) : bool :=
    match fuel with
    | O => false
    | S k =>
        match v with
        | NNone => true                    (* whether None may stand here is decided by the position *)
        | NLeaf sv => match t with DLeaf st => leaf_conf st sv && leaf_extra sv | _ => false end
        | NList vs =>
            match t with
            | DArr _ _ e => forallb (fun y => match y with NNone => nil_ok e | _ => true end && vconf k e y) vs
            | _ => false
            end
        | NObj d fs =>
            match t with
            | DRef c => Nat.eqb d c
                        && match flat_items c with
                           | Some its => items_conf (vconf k) its fs
                           | None => false
                           end
            | _ => false
            end
        end
    end.
End Conf.

(* ------------------------------------------------------------------ a schema that defines what a universe refers to *)
Fixpoint sub_tys (t : dty) : list dty :=
  t :: match t with DArr _ _ e => sub_tys e | _ => [] end.
Definition tys_of (U : univ) : list dty :=
  flat_map (fun cl => flat_map (fun f => sub_tys (fl_ty f)) (k_own cl)) U.

(** every class, every published leaf type and every Array class of the universe is defined
    in the schema exactly as Spyne's emitter writes it (the schema may define more) *)
Record resolves (S : schema) (U : univ) : Prop := mkresolves {
  rs_klass : forall c cl, get_klass U c = Some cl ->
    exists d, find_doc S (k_ns cl) = Some d /\ d_qualified d = true
              /\ find_type S (k_ns cl, k_name cl) = Some (TComplex (cdef_of U cl));
  rs_elem : forall c cl, get_klass U c = Some cl ->
    exists d, find_doc S (k_ns cl) = Some d /\ assoc_text (k_name cl) (d_elems d) = Some (k_ns cl, k_name cl);
  rs_leaf : forall st, In (DLeaf st) (tys_of U) -> published st = true ->
    exists q, st_qn st = Some q
              /\ find_type S q = Some (TSimple (mksdef (snd q) (xs_ns, base_name (st_base st)) (restriction_of st)));
  rs_arr : forall aq iname e, In (DArr aq iname e) (tys_of U) ->
    exists d, find_doc S (fst aq) = Some d /\ d_qualified d = true
              /\ find_type S aq = Some (TComplex (mkcdef (snd aq) None [PElem (edecl_of U iname e 0 PosInf true None)] [])) }.
