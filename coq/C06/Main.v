(** C06 — assembly: the leaf facts for every class, and the theorems in the form Props/C06.v
    states them. *)
From Coq Require Import ZArith List Bool Lia ZifyBool Btauto.
From SpyneV Require Import C06.Spec C06.LeafProofs C06.SeqProofs C06.StructProofs.
Import ListNotations.
Open Scope Z_scope.

Section OpqLeaf.
  Variable pat : text -> option re.
  Variable olex : okind -> text -> option Z.
  Variable ord : okind -> text -> out Z.

  Definition range_kind (k : okind) : bool :=
    match k with ODouble | OFloat | ODate | OTime | ODateTime => true | _ => false end.

  Lemma wf_opq st k :
    st_base st = BOpq k -> wf_stype st = true ->
    fa_total_digits (st_fa st) = None /\ fa_fraction_digits (st_fa st) = None
    /\ fa_min_len (st_fa st) = None /\ fa_max_len (st_fa st) = None
    /\ (k <> OUuid -> fa_pattern (st_fa st) = None)
    /\ (range_kind k = false -> facet_values (st_fa st) = [])
    /\ (forall g, In g (facet_values (st_fa st)) -> in_space (BOpq k) g = true).
  Proof.
    intros Hb Hwf. unfold wf_stype in Hwf. rewrite Hb in Hwf.
    assert (Hsp : forall g, In g (facet_values (st_fa st)) -> in_space (BOpq k) g = true).
    { split_all. match goal with H : forallb _ _ = true |- _ => rewrite forallb_forall in H; exact H end. }
    destruct k; split_all;
      repeat match goal with H : is_none _ = true |- _ => apply is_none_true in H end;
      repeat split; try assumption; try (intros; congruence); try discriminate;
      try (intros _; destruct (facet_values (st_fa st)); [reflexivity|discriminate]).
  Qed.

  Lemma okind_eqb_refl k : okind_eqb k k = true.
  Proof. destruct k; reflexivity. Qed.

  Lemma opq_lex_rt k g : in_space (BOpq k) g = true -> opq_ok olex ord g = true -> k <> OUuid -> lex_rt olex (BOpq k) g.
  Proof.
    unfold in_space. destruct g as [| | | |k' key canon]; try discriminate. cbn [kind_ok]. rewrite andb_true_r.
    intros Hk Hok Hu. assert (k' = k) as -> by (destruct k, k'; try discriminate; reflexivity).
    unfold opq_ok in Hok. split_all.
    match goal with H : text_eqb (xs_trim canon) canon = true |- _ => apply text_eqb_true_eq in H; rename H into Ht end.
    assert (okind_eqb k OUuid = false) as Eu by (destruct k; try reflexivity; congruence).
    match goal with H : (okind_eqb k OUuid || _) = true |- _ => rewrite Eu in H; cbn [orb] in H; rename H into Hl end.
    destruct (olex k canon) as [key'|] eqn:El; [|discriminate]. apply Z.eqb_eq in Hl. subst key'.
    exists (SOpq k key canon). split; [|apply sval_equiv_refl].
    assert (Hx : xbase_of (BOpq k) = XOpq k) by (destruct k; try reflexivity; congruence).
    rewrite Hx. unfold pr_text, pr_leaf. rewrite okind_eqb_refl. cbn [xs_value]. rewrite Ht, El. reflexivity.
  Qed.

  (** delegated classes with range facets, and those without facets: what Spyne writes for a
      conformant value is valid, given that the libraries agree on that value's text *)
  Lemma opq_emit_ok st k v :
    st_base st = BOpq k -> k <> OUuid -> wf_stype st = true ->
    (forall g, In g (facet_values (st_fa st)) -> opq_ok olex ord g = true) ->
    leaf_conf st v = true -> opq_ok olex ord v = true ->
    exists s, pr_leaf (st_base st) v = Ok s /\ st_simple_ok pat olex st s = true.
  Proof.
    intros Hb Hu Hwf Hfv Hlc Hok. destruct (wf_opq st k Hb Hwf) as (D1 & D2 & _ & _ & Hp & Hnf & Hsp).
    unfold leaf_conf in Hlc. rewrite Hb in Hlc. split_all.
    destruct v as [| | | |k' key canon]; try discriminate.
    assert (k' = k) as -> by (match goal with H : kind_ok _ _ = true |- _ => cbn in H; destruct k, k'; try discriminate H; reflexivity end).
    exists canon. split; [rewrite Hb; unfold pr_leaf; rewrite okind_eqb_refl; reflexivity|].
    destruct (opq_lex_rt k (SOpq k key canon)) as (v' & Hx & Heq); [cbn; destruct k; reflexivity|exact Hok|exact Hu|].
    unfold pr_text, pr_leaf in Hx. rewrite okind_eqb_refl in Hx.
    unfold st_simple_ok. rewrite Hb, Hx.
    destruct (range_kind k) eqn:Erk.
    - assert (Hst : st_base st = BOpq k) by exact Hb.
      pose proof (range_facets_spec pat olex st canon (SOpq k key canon) v') as HR. cbv zeta in HR. rewrite Hb in HR.
      rewrite HR; try assumption.
      + match goal with H1 : range_ok _ _ = true, H2 : values_ok _ _ = true |- _ => rewrite H1, H2 end.
        unfold digits_ok. rewrite D1, D2. reflexivity.
      + destruct k; try discriminate Erk; reflexivity.
      + apply Hp. exact Hu.
      + intros _. split; assumption.
      + rewrite D1. reflexivity.
      + rewrite D2. reflexivity.
      + intros g Hg. apply opq_lex_rt; [apply Hsp; exact Hg|apply Hfv; exact Hg|exact Hu].
    - (* no facets can be declared: nothing is published *)
      assert (Hfv0 := Hnf eq_refl).
      assert (st_facets st = []) as ->.
      { unfold st_facets, published. rewrite Hb.
        assert (fa_values (st_fa st) = []) as Ev.
        { unfold facet_values in Hfv0. repeat (apply app_eq_nil in Hfv0; destruct Hfv0 as [_ Hfv0]). exact Hfv0. }
        destruct k; try discriminate Erk; try congruence; cbn; rewrite ?Ev; reflexivity. }
      destruct v'; reflexivity.
  Qed.
End OpqLeaf.

Section AllLeaves.
  Variable pat : text -> option re.
  Variable olex : okind -> text -> option Z.
  Variable ord : okind -> text -> out Z.

  Lemma uuid_emit_ok st v :
    st_base st = BOpq OUuid -> wf_stype st = true ->
    (forall p r, fa_pattern (st_fa st) = Some (p, r) -> pat p = Some r) ->
    leaf_conf st v = true ->
    exists s, pr_leaf (st_base st) v = Ok s /\ st_simple_ok pat olex st s = true.
  Proof.
    intros Hb Hwf Hpat Hlc. pose proof Hwf as Hwf2. unfold wf_stype in Hwf2. rewrite Hb in Hwf2. split_all.
    repeat match goal with H : is_none _ = true |- _ => apply is_none_true in H end.
    assert (Hfv : facet_values (st_fa st) = []) by (destruct (facet_values (st_fa st)); [reflexivity|discriminate]).
    assert (Hv : fa_values (st_fa st) = []).
    { unfold facet_values in Hfv. repeat (apply app_eq_nil in Hfv; destruct Hfv as [_ Hfv]). exact Hfv. }
    destruct (fa_pattern (st_fa st)) as [[p r]|] eqn:Ep; [|discriminate].
    unfold leaf_conf in Hlc. rewrite Hb, Ep in Hlc. split_all.
    destruct v as [| | | |k' key canon]; try discriminate.
    assert (k' = OUuid) as -> by (match goal with H : kind_ok _ _ = true |- _ => cbn in H; destruct k'; try discriminate H; reflexivity end).
    exists canon. split; [rewrite Hb; reflexivity|].
    unfold st_simple_ok. rewrite Hb. cbn [xbase_of xs_value].
    unfold st_facets, published. rewrite Hb. cbn [is_default_attrs]. unfold is_default_attrs_Uuid, is_default_attrs_Unicode.
    cbn [existsb attr_set]. rewrite Ep, Hv. cbn [is_some orb].
    match goal with |- context [if ?c then _ else _] => replace c with true by (destruct (is_some (fa_min_len (st_fa st))), (is_some (fa_max_len (st_fa st))); reflexivity) end.
    unfold restriction_of. rewrite Hb, Hv. cbn [map app writer_of]. unfold unicode_facets.
    match goal with H : fa_min_len (st_fa st) = None |- _ => rewrite H end.
    match goal with H : fa_max_len (st_fa st) = None |- _ => rewrite H end.
    rewrite Ep. cbn [app]. unfold unicode_pattern_tag, facets_ok. cbn [filter is_enum ftag_eqb fst forallb facet_ok xs_lexical].
    rewrite (Hpat p r eq_refl). rewrite andb_true_r. assumption.
  Qed.

  (** the hypothesis left for decimal.Decimal (discharged in C06/DecProofs.v) *)
  Definition dec_leaf_hyp : Prop :=
    forall st d, st_base st = BDec -> wf_stype st = true -> leaf_conf st (SDec d) = true ->
      st_simple_ok pat olex st (dec_print decimal_printer d) = true.

  Theorem leaf_emit_all st v :
    dec_leaf_hyp ->
    wf_stype st = true ->
    (forall p r, fa_pattern (st_fa st) = Some (p, r) -> pat p = Some r) ->
    (forall g, In g (facet_values (st_fa st)) -> opq_ok olex ord g = true) ->
    leaf_conf st v = true -> opq_ok olex ord v = true ->
    exists s, pr_leaf (st_base st) v = Ok s /\ st_simple_ok pat olex st s = true.
  Proof.
    intros Hdec Hwf Hpat Hfv Hlc Hok. destruct (st_base st) as [k|u| | |k] eqn:Hb.
    - (* integers *)
      destruct v as [z| | | |]; try (unfold leaf_conf in Hlc; rewrite Hb in Hlc; cbn in Hlc; discriminate).
      exists (str_int z). split; [reflexivity|].
      rewrite (int_xsd_spec pat olex st k z Hb Hwf).
      unfold leaf_conf in Hlc. rewrite Hb in Hlc. unfold in_space, zdigits. cbn [kind_ok andb] in *.
      destruct (ibounds k) as [l h]. destruct (fa_total_digits (st_fa st)); split_all;
        repeat match goal with H : _ = true |- _ => rewrite H end; reflexivity.
    - (* strings *)
      destruct v as [|t| | |]; try (unfold leaf_conf in Hlc; rewrite Hb in Hlc; cbn in Hlc; discriminate).
      exists t. split; [reflexivity|].
      unfold leaf_conf in Hlc. rewrite Hb in Hlc. cbn [kind_ok andb] in Hlc.
      apply andb_prop in Hlc. destruct Hlc as [Hlc H4]. apply andb_prop in Hlc. destruct Hlc as [Hlc H3].
      apply andb_prop in Hlc. destruct Hlc as [H1 H2].
      apply andb_prop in H4. destruct H4 as [H4 H7]. apply andb_prop in H4. destruct H4 as [H4 H6].
      apply andb_prop in H4. destruct H4 as [H4 H5].
      rewrite (str_xsd_spec pat olex ord st u t Hb Hwf Hpat).
      + unfold str_spec. rewrite H5, H6, H3, H7. reflexivity.
      + intros ->. apply text_eqb_true_eq in H1. exact H1.
    - (* booleans *)
      pose proof Hlc as Hlc2. unfold leaf_conf in Hlc2. rewrite Hb in Hlc2. split_all.
      destruct v as [| |x| |]; try discriminate.
      exists (if x then boolean_true_text else boolean_false_text). split; [reflexivity|].
      rewrite (bool_xsd_spec pat olex st _ Hb Hwf). apply bool_written_lit.
    - (* decimals *)
      pose proof Hlc as Hlc2. unfold leaf_conf in Hlc2. rewrite Hb in Hlc2. split_all.
      destruct v as [| | |d|]; try discriminate.
      exists (dec_print decimal_printer d). split; [reflexivity|]. apply Hdec; assumption.
    - (* delegated classes *)
      destruct k.
      all: try (rewrite <- Hb; eapply opq_emit_ok; try eassumption; discriminate).
      rewrite <- Hb. apply uuid_emit_ok; assumption.
  Qed.
End AllLeaves.
