(** C06 — assembly: the leaf facts for every class, and the theorems in the form Props/C06.v
    states them. *)
From Coq Require Import ZArith List Bool Lia ZifyBool Btauto.
From SpyneV Require Import Base.DigitsProofs C06.Spec C06.Docs C06.LeafProofs C06.SeqProofs C06.StructProofs C06.AgreeProofs C06.Closure C06.ClosureProofs.
Import ListNotations.
Open Scope Z_scope.

Section OpqLeaf.
  Variable pat : text -> option re.
  Variable olex : okind -> text -> option Z.
  Variable ord : okind -> text -> out Z.

  Definition range_kind (k : okind) : bool :=
    match k with ODouble | OFloat | ODate | OTime | ODateTime => true | _ => false end.

  Lemma wf_opq st k :
    st_base st = BOpq k -> wf_stype st = true ->
    fa_total_digits (st_fa st) = None /\ fa_fraction_digits (st_fa st) = None
    /\ fa_min_len (st_fa st) = None /\ fa_max_len (st_fa st) = None
    /\ (k <> OUuid -> fa_pattern (st_fa st) = None)
    /\ (range_kind k = false -> facet_values (st_fa st) = [])
    /\ (forall g, In g (facet_values (st_fa st)) -> in_space (BOpq k) g = true).
  Proof.
    intros Hb Hwf. unfold wf_stype in Hwf. rewrite Hb in Hwf.
    assert (Hsp : forall g, In g (facet_values (st_fa st)) -> in_space (BOpq k) g = true).
    { split_all. match goal with H : forallb _ _ = true |- _ => rewrite forallb_forall in H; exact H end. }
    destruct k; split_all;
      repeat match goal with H : is_none _ = true |- _ => apply is_none_true in H end;
      repeat split; try assumption; try (intros; congruence); try discriminate;
      try (intros _; destruct (facet_values (st_fa st)); [reflexivity|discriminate]).
  Qed.

  Lemma okind_eqb_refl k : okind_eqb k k = true.
  Proof. destruct k; reflexivity. Qed.

  Lemma opq_lex_rt k g : in_space (BOpq k) g = true -> opq_ok olex ord g = true -> k <> OUuid -> lex_rt olex (BOpq k) g.
  Proof.
    unfold in_space. destruct g as [| | | |k' key canon]; try discriminate. cbn [kind_ok]. rewrite andb_true_r.
    intros Hk Hok Hu. assert (k' = k) as -> by (destruct k, k'; try discriminate; reflexivity).
    unfold opq_ok in Hok. split_all.
    match goal with H : text_eqb (xs_trim canon) canon = true |- _ => apply text_eqb_true_eq in H; rename H into Ht end.
    assert (okind_eqb k OUuid = false) as Eu by (destruct k; try reflexivity; congruence).
    match goal with H : (okind_eqb k OUuid || _) = true |- _ => rewrite Eu in H; cbn [orb] in H; rename H into Hl end.
    destruct (olex k canon) as [key'|] eqn:El; [|discriminate]. apply Z.eqb_eq in Hl. subst key'.
    exists (SOpq k key canon). split; [|apply sval_equiv_refl].
    assert (Hx : xbase_of (BOpq k) = XOpq k) by (destruct k; try reflexivity; congruence).
    rewrite Hx. unfold schema_text, pr_text, pr_leaf. rewrite okind_eqb_refl. cbn [xs_value]. rewrite Ht, El. reflexivity.
  Qed.

  (** delegated classes with range facets, and those without facets: what Spyne writes for a
      conformant value is valid, given that the libraries agree on that value's text *)
  Lemma opq_emit_ok st k v :
    st_base st = BOpq k -> k <> OUuid -> wf_stype st = true ->
    (forall g, In g (facet_values (st_fa st)) -> opq_ok olex ord g = true) ->
    leaf_conf st v = true -> opq_ok olex ord v = true ->
    exists s, pr_leaf (st_base st) v = Ok s /\ st_simple_ok pat olex st s = true.
  Proof.
    intros Hb Hu Hwf Hfv Hlc Hok. destruct (wf_opq st k Hb Hwf) as (D1 & D2 & _ & _ & Hp & Hnf & Hsp).
    unfold leaf_conf in Hlc. rewrite Hb in Hlc. split_all.
    destruct v as [| | | |k' key canon]; try discriminate.
    assert (k' = k) as -> by (match goal with H : kind_ok _ _ = true |- _ => cbn in H; destruct k, k'; try discriminate H; reflexivity end).
    exists canon. split; [rewrite Hb; unfold pr_leaf; rewrite okind_eqb_refl; reflexivity|].
    destruct (opq_lex_rt k (SOpq k key canon)) as (v' & Hx & Heq); [cbn; destruct k; reflexivity|exact Hok|exact Hu|].
    unfold schema_text, pr_text, pr_leaf in Hx. rewrite okind_eqb_refl in Hx.
    unfold st_simple_ok. rewrite Hb, Hx.
    destruct (range_kind k) eqn:Erk.
    - assert (Hst : st_base st = BOpq k) by exact Hb.
      pose proof (range_facets_spec pat olex st canon (SOpq k key canon) v') as HR. cbv zeta in HR. rewrite Hb in HR.
      rewrite HR; try assumption.
      + match goal with H1 : range_ok _ _ = true, H2 : values_ok _ _ = true |- _ => rewrite H1, H2 end.
        unfold digits_ok. rewrite D1, D2. reflexivity.
      + destruct k; try discriminate Erk; reflexivity.
      + apply Hp. exact Hu.
      + intros _. split; assumption.
      + rewrite D1. reflexivity.
      + rewrite D2. reflexivity.
      + intros g Hg. apply opq_lex_rt; [apply Hsp; exact Hg|apply Hfv; exact Hg|exact Hu].
    - (* no facets can be declared: nothing is published *)
      assert (Hfv0 := Hnf eq_refl).
      assert (st_facets st = []) as ->.
      { unfold st_facets, published. rewrite Hb.
        assert (fa_values (st_fa st) = []) as Ev.
        { unfold facet_values in Hfv0. repeat (apply app_eq_nil in Hfv0; destruct Hfv0 as [_ Hfv0]). exact Hfv0. }
        destruct k; try discriminate Erk; try congruence; cbn; rewrite ?Ev; reflexivity. }
      destruct v'; reflexivity.
  Qed.
End OpqLeaf.

Section AllLeaves.
  Variable pat : text -> option re.
  Variable olex : okind -> text -> option Z.
  Variable ord : okind -> text -> out Z.

  Lemma uuid_emit_ok st v :
    st_base st = BOpq OUuid -> wf_stype st = true ->
    (forall p r, fa_pattern (st_fa st) = Some (p, r) -> pat p = Some r) ->
    leaf_conf st v = true ->
    exists s, pr_leaf (st_base st) v = Ok s /\ st_simple_ok pat olex st s = true.
  Proof.
    intros Hb Hwf Hpat Hlc. pose proof Hwf as Hwf2. unfold wf_stype in Hwf2. rewrite Hb in Hwf2. split_all.
    repeat match goal with H : is_none _ = true |- _ => apply is_none_true in H end.
    assert (Hfv : facet_values (st_fa st) = []) by (destruct (facet_values (st_fa st)); [reflexivity|discriminate]).
    assert (Hv : fa_values (st_fa st) = []).
    { unfold facet_values in Hfv. repeat (apply app_eq_nil in Hfv; destruct Hfv as [_ Hfv]). exact Hfv. }
    destruct (fa_pattern (st_fa st)) as [[p r]|] eqn:Ep; [|discriminate].
    unfold leaf_conf in Hlc. rewrite Hb, Ep in Hlc. split_all.
    destruct v as [| | | |k' key canon]; try discriminate.
    assert (k' = OUuid) as -> by (match goal with H : kind_ok _ _ = true |- _ => cbn in H; destruct k'; try discriminate H; reflexivity end).
    exists canon. split; [rewrite Hb; reflexivity|].
    unfold st_simple_ok. rewrite Hb. cbn [xbase_of xs_value].
    unfold st_facets, published. rewrite Hb. cbn [is_default_attrs]. unfold is_default_attrs_Uuid, is_default_attrs_Unicode.
    cbn [existsb attr_set]. rewrite Ep, Hv. cbn [is_some orb].
    match goal with |- context [if ?c then _ else _] => replace c with true by (destruct (is_some (fa_min_len (st_fa st))), (is_some (fa_max_len (st_fa st))); reflexivity) end.
    unfold restriction_of. rewrite Hb, Hv. cbn [map app writer_of]. unfold unicode_facets.
    match goal with H : fa_min_len (st_fa st) = None |- _ => rewrite H end.
    match goal with H : fa_max_len (st_fa st) = None |- _ => rewrite H end.
    rewrite Ep. cbn [app]. unfold unicode_pattern_tag, facets_ok. cbn [filter is_enum ftag_eqb fst forallb facet_ok xs_lexical].
    rewrite (Hpat p r eq_refl). rewrite andb_true_r. assumption.
  Qed.

  (** what may be written on the wire: the libraries agree on delegated values, and a Decimal
      is one that str() writes without exponent (known finding C06|decimal|exponent-notation) *)
  Definition wire_ok (v : sval) : bool :=
    opq_ok olex ord v && match v with SDec d => dec_plain_region d | _ => true end.

  (** the two facts about decimal.Decimal texts (proved in C06/DecProofs.v) *)
  Definition dec_wire_hyp : Prop :=
    forall st d, st_base st = BDec -> wf_stype st = true -> leaf_conf st (SDec d) = true -> dec_plain_region d = true ->
      st_simple_ok pat olex st (dec_print decimal_printer d) = true.
  Definition dec_literal_hyp : Prop :=
    forall st d, st_base st = BDec -> wf_stype st = true -> leaf_conf st (SDec d) = true ->
      st_simple_ok pat olex st (schema_text BDec (SDec d)) = true.

  Theorem leaf_emit_all st v :
    dec_wire_hyp ->
    wf_stype st = true ->
    (forall p r, fa_pattern (st_fa st) = Some (p, r) -> pat p = Some r) ->
    (forall g, In g (facet_values (st_fa st)) -> opq_ok olex ord g = true) ->
    leaf_conf st v = true -> wire_ok v = true ->
    exists s, pr_leaf (st_base st) v = Ok s /\ st_simple_ok pat olex st s = true.
  Proof.
    intros Hdec Hwf Hpat Hfv Hlc Hwok. unfold wire_ok in Hwok. apply andb_prop in Hwok. destruct Hwok as [Hok Hreg].
    destruct (st_base st) as [k|u| | |k] eqn:Hb.
    - (* integers *)
      destruct v as [z| | | |]; try (unfold leaf_conf in Hlc; rewrite Hb in Hlc; cbn in Hlc; discriminate).
      exists (str_int z). split; [reflexivity|].
      rewrite (int_xsd_spec pat olex st k z Hb Hwf).
      unfold leaf_conf in Hlc. rewrite Hb in Hlc. unfold in_space, zdigits. cbn [kind_ok andb] in *.
      destruct (ibounds k) as [l h]. destruct (fa_total_digits (st_fa st)); split_all;
        repeat match goal with H : _ = true |- _ => rewrite H end; reflexivity.
    - (* strings *)
      destruct v as [|t| | |]; try (unfold leaf_conf in Hlc; rewrite Hb in Hlc; cbn in Hlc; discriminate).
      exists t. split; [reflexivity|].
      unfold leaf_conf in Hlc. rewrite Hb in Hlc. cbn [kind_ok andb] in Hlc.
      apply andb_prop in Hlc. destruct Hlc as [Hlc H4]. apply andb_prop in Hlc. destruct Hlc as [Hlc H3].
      apply andb_prop in Hlc. destruct Hlc as [H1 H2].
      apply andb_prop in H4. destruct H4 as [H4 H7]. apply andb_prop in H4. destruct H4 as [H4 H6].
      apply andb_prop in H4. destruct H4 as [H4 H5].
      rewrite (str_xsd_spec pat olex ord st u t Hb Hwf Hpat).
      + unfold str_spec. rewrite H5, H6, H3, H7. reflexivity.
      + intros ->. apply text_eqb_true_eq in H1. exact H1.
    - (* booleans *)
      pose proof Hlc as Hlc2. unfold leaf_conf in Hlc2. rewrite Hb in Hlc2. split_all.
      destruct v as [| |x| |]; try discriminate.
      exists (if x then boolean_true_text else boolean_false_text). split; [reflexivity|].
      rewrite (bool_xsd_spec pat olex st _ Hb Hwf). apply bool_written_lit.
    - (* decimals *)
      pose proof Hlc as Hlc2. unfold leaf_conf in Hlc2. rewrite Hb in Hlc2. split_all.
      destruct v as [| | |d|]; try discriminate.
      exists (dec_print decimal_printer d). split; [reflexivity|]. apply Hdec; assumption.
    - (* delegated classes *)
      destruct k.
      all: try (rewrite <- Hb; eapply opq_emit_ok; try eassumption; discriminate).
      rewrite <- Hb. apply uuid_emit_ok; assumption.
  Qed.
  (** the same for what the schema emitter writes for a facet, enumeration or default value *)
  Theorem leaf_literal_all st v :
    dec_wire_hyp -> dec_literal_hyp ->
    wf_stype st = true ->
    (forall p r, fa_pattern (st_fa st) = Some (p, r) -> pat p = Some r) ->
    (forall g, In g (facet_values (st_fa st)) -> opq_ok olex ord g = true) ->
    leaf_conf st v = true -> opq_ok olex ord v = true ->
    st_simple_ok pat olex st (schema_text (st_base st) v) = true.
  Proof.
    intros Hd1 Hd2 Hwf Hpat Hfv Hlc Hok.
    destruct (st_base st) as [k|u| | |k] eqn:Hb.
    4: { destruct v as [| | |d|]; try (unfold leaf_conf in Hlc; rewrite Hb in Hlc; cbn in Hlc; discriminate).
         apply Hd2; assumption. }
    all: assert (Hw : wire_ok v = true)
      by (unfold wire_ok; rewrite Hok; destruct v; try reflexivity; unfold leaf_conf in Hlc; rewrite Hb in Hlc; cbn in Hlc; discriminate).
    all: destruct (leaf_emit_all st v Hd1 Hwf Hpat Hfv Hlc Hw) as (s & Hs & Hv); rewrite Hb in Hs.
    all: destruct v; try (unfold leaf_conf in Hlc; rewrite Hb in Hlc; cbn in Hlc; discriminate).
    all: unfold schema_text, pr_text; rewrite Hs; exact Hv.
  Qed.
End AllLeaves.


(* ------------------------------------------------------------------ emitted documents *)
(** the pattern table knows every pattern of the universe; the libraries agree on every
    delegated value that occurs as a facet or a default *)
Definition patterns_known (pat : text -> option re) (U : univ) : Prop :=
  forall st p r, In (DLeaf st) (tys_of U) -> fa_pattern (st_fa st) = Some (p, r) -> pat p = Some r.
Definition constants_ok (olex : okind -> text -> option Z) (ord : okind -> text -> out Z) (U : univ) : Prop :=
  (forall st g, In (DLeaf st) (tys_of U) -> In g (facet_values (st_fa st)) -> opq_ok olex ord g = true)
  /\ (forall cl f d, In cl U -> In f (k_own cl) -> fl_default f = Some d -> wire_ok olex ord d = true).

Section Docs.
  Variable pat : text -> option re.
  Variable olex : okind -> text -> option Z.
  Variable ord : okind -> text -> out Z.

  Theorem emitted_doc_valid (U : univ) (S : schema) :
    dec_wire_hyp pat olex -> dec_literal_hyp pat olex ->
    wf_univ U = true -> resolves S U -> patterns_known pat U -> constants_ok olex ord U ->
    forall n c cl v e m,
      get_klass U c = Some cl -> v <> NNone ->
      vconf U (wire_ok olex ord) n (DRef c) v = true ->
      emit U n (DRef c) None (k_ns cl) (k_name cl) v = Ok e ->
      (n + length U < m)%nat ->
      valid_doc pat olex m S (wire e) = true.
  Proof.
    intros Hdec Hlit Hwf Hres Hpat [Hc1 Hc2] n c cl v e m Hc Hne Hconf Hemit Hm.
    assert (Hleaf : forall st v0, In (DLeaf st) (tys_of U) -> wf_stype st = true -> leaf_conf st v0 = true ->
                      wire_ok olex ord v0 = true ->
                      exists s, pr_leaf (st_base st) v0 = Ok s /\ st_simple_ok pat olex st s = true).
    { intros st v0 Hin Hw Hl Ho. apply (leaf_emit_all pat olex ord st v0 Hdec Hw); try assumption.
      - intros p r Hp. eapply Hpat; eassumption.
      - intros g Hg. eapply Hc1; eassumption. }
    assert (Hliteral : forall st v0, In (DLeaf st) (tys_of U) -> wf_stype st = true -> leaf_conf st v0 = true ->
                      wire_ok olex ord v0 = true ->
                      st_simple_ok pat olex st (schema_text (st_base st) v0) = true).
    { intros st v0 Hin Hw Hl Ho. apply (leaf_literal_all pat olex ord st v0 Hdec Hlit Hw); try assumption.
      - intros p r Hp. eapply Hpat; eassumption.
      - intros g Hg. eapply Hc1; eassumption.
      - unfold wire_ok in Ho. apply andb_prop in Ho. exact (proj1 Ho). }
    pose proof (emit_valid pat olex U S (wire_ok olex ord) Hwf Hres Hleaf Hliteral Hc2 n) as HV.
    destruct (emit_shape _ _ _ _ _ _ _ _ Hemit) as (atts & txt & kids & ->).
    rewrite wire_shape. unfold valid_doc.
    destruct (rs_elem S U Hres c cl Hc) as (d & Hd & Ha). rewrite Hd, Ha.
    rewrite <- wire_shape.
    assert (Hq : type_qn U (DRef c) = (k_ns cl, k_name cl)) by (cbn; apply klass_qn_get; exact Hc).
    rewrite <- Hq. change None with (dtext (DRef c) None) at 1.
    eapply (HV (DRef c) None (k_ns cl) (k_name cl) v _ false); try eassumption.
    - cbn. apply nth_error_Some. unfold get_klass in Hc. congruence.
    - destruct v; try exact Hconf. contradiction.
    - intros ->. contradiction.
    - intros d0 Hd0. discriminate.
  Qed.
End Docs.

(* ------------------------------------------------------------------ leaf level: the two validators agree *)
Section LeafAgree.
  Variable pat : text -> option re.
  Variable olex : okind -> text -> option Z.
  Variable ord : okind -> text -> out Z.

  (** integers: on the decimal text of any integer, the published simple type and soft
      validation reach the same verdict for gt/ge/lt/le, values and the value space of the
      class (total_digits is published only, max_str_len is enforced by soft validation only) *)
  Theorem int_leaf_agree st k nil z :
    st_base st = BInt k -> wf_stype st = true ->
    fa_total_digits (st_fa st) = None ->
    ext_leb (Fin (len (str_int z))) (fa_max_str_len (st_fa st)) = true ->
    st_simple_ok pat olex st (str_int z) = is_ok (soft_leaf ord st nil (Some (str_int z))).
  Proof.
    intros Hb Hwf Htd Hlen. rewrite (int_xsd_spec pat olex st k z Hb Hwf), (int_soft_spec ord st k nil z Hb Hwf Hlen), Htd.
    rewrite andb_true_r.
    destruct (in_space (BInt k) (SInt z) && range_ok (st_fa st) (SInt z) && values_ok (st_fa st) (SInt z)); reflexivity.
  Qed.

  (** strings: on every text, for min_len / max_len / values / pattern *)
  Theorem str_leaf_agree st uri nil txt :
    st_base st = BStr uri -> wf_stype st = true ->
    (forall p r, fa_pattern (st_fa st) = Some (p, r) -> pat p = Some r) ->
    (uri = true -> match txt with Some s => xs_trim s = s | None => True end) ->
    st_elem_ok pat olex st None txt = is_ok (soft_leaf ord st nil txt).
  Proof.
    intros Hb Hwf Hpat Hu. rewrite (str_soft_spec ord st uri nil txt Hb).
    assert (Hs : st_elem_ok pat olex st None txt = st_simple_ok pat olex st (match txt with None => [] | Some s => s end)).
    { destruct txt as [[|c r]|]; reflexivity. }
    rewrite Hs, (str_xsd_spec pat olex ord st uri _ Hb Hwf Hpat).
    - destruct (str_spec (st_fa st) _); reflexivity.
    - intros Hu'. specialize (Hu Hu'). destruct txt; [exact Hu|reflexivity].
  Qed.

  (** booleans: on the xs:boolean literals *)
  Theorem bool_leaf_agree st nil s :
    st_base st = BBool -> wf_stype st = true -> xs_bool_lit olex s = true ->
    st_simple_ok pat olex st s = is_ok (soft_leaf ord st nil (Some s)).
  Proof.
    intros Hb Hwf Hl. rewrite (bool_xsd_spec pat olex st s Hb Hwf), (bool_soft_spec ord st nil s Hb Hwf), Hl. reflexivity.
  Qed.
End LeafAgree.


(* ------------------------------------------------------------------ verdict agreement on whole documents *)
Section Canon.
  Variable pat : text -> option re.
  Variable olex : okind -> text -> option Z.
  Variable ord : okind -> text -> out Z.

  (** leaf contents for which the agreement of the two validators is PROVED: the decimal text of
      any integer (no total_digits, within max_str_len), any text of a string member (not the
      empty element when the member has a default; anyURI without blanks at the ends), the
      xs:boolean literals *)
  Definition la_canon (st : stype) (nil : bool) (dflt txt : option text) : bool :=
    match st_base st, txt with
    | BInt _, Some s =>
        xs_integer s && text_eqb s (str_int (den_integer s))
        && is_none (fa_total_digits (st_fa st)) && ext_leb (Fin (len s)) (fa_max_str_len (st_fa st))
    | BStr uri, _ =>
        (is_none dflt || match txt with Some (_ :: _) => true | _ => false end)
        && (negb uri || match txt with Some s => text_eqb (xs_trim s) s | None => true end)
    | BBool, Some s => xs_bool_lit olex s
    | _, _ => false
    end.

  Lemma la_canon_agree U : patterns_known pat U -> forall st nil d txt,
    In (DLeaf st) (tys_of U) -> wf_stype st = true -> la_canon st nil d txt = true ->
    st_elem_ok pat olex st d txt = is_ok (soft_leaf ord st nil txt).
  Proof.
    intros Hpat st nil d txt Hin Hwf Hla. unfold la_canon in Hla. destruct (st_base st) as [k|uri| | |k] eqn:Hb; try discriminate.
    - destruct txt as [s|]; [|discriminate]. split_all.
      match goal with H : text_eqb s _ = true |- _ => apply text_eqb_true_eq in H; rename H into Hs end.
      assert (Hne : s <> []).
      { rewrite Hs. unfold str_int. destruct (den_integer s <? 0) eqn:E; [discriminate|].
        apply Base.DigitsProofs.str_nat_nonempty. lia. }
      assert (He : st_elem_ok pat olex st d (Some s) = st_simple_ok pat olex st s) by (destruct s; [contradiction|destruct d; reflexivity]).
      rewrite He, Hs. apply (int_leaf_agree pat olex ord st k nil (den_integer s) Hb Hwf).
      + apply is_none_true. assumption.
      + rewrite <- Hs. assumption.
    - apply andb_prop in Hla. destruct Hla as [H1 H2].
      assert (He : st_elem_ok pat olex st d txt = st_elem_ok pat olex st None txt).
      { destruct d as [d0|]; [|reflexivity]. cbn [is_none orb] in H1. destruct txt as [[|c r]|]; try discriminate. reflexivity. }
      rewrite He. apply (str_leaf_agree pat olex ord st uri nil txt Hb Hwf).
      + intros p r Hp. eapply Hpat; eassumption.
      + intros ->. cbn [negb orb] in H2. destruct txt; [apply text_eqb_true_eq; exact H2|exact I].
    - destruct txt as [s|]; [|discriminate].
      assert (Hne : s <> []) by (intros ->; discriminate Hla).
      assert (He : st_elem_ok pat olex st d (Some s) = st_simple_ok pat olex st s) by (destruct s; [contradiction|destruct d; reflexivity]).
      rewrite He. apply bool_leaf_agree; assumption.
  Qed.

  (** for a document that uses only declared members in declared order (with leaf contents as
      above), validity against the schema and soft validation reach the same verdict *)
  Theorem doc_verdicts_agree (U : univ) (S : schema) :
    wf_univ U = true -> resolves S U -> patterns_known pat U ->
    forall n c cl e m,
      get_klass U c = Some cl ->
      match e with XElt ns name atts _ _ => text_eqb ns (k_ns cl) && text_eqb name (k_name cl) && negb (is_nil_att atts) | XOther => false end = true ->
      ddoc U la_canon n (DRef c) false None e = true ->
      (n + length U < m)%nat ->
      valid_doc pat olex m S e = is_ok (soft U ord n (DRef c) true e).
  Proof.
    intros Hwf Hres Hpat n c cl e m Hc Hroot Hdoc Hm.
    destruct e as [ns name atts txt kids|]; [|discriminate Hroot].
    apply andb_prop in Hroot. destruct Hroot as [Hroot Hnn]. apply andb_prop in Hroot. destruct Hroot as [Hns Hname].
    apply text_eqb_true_eq in Hns. apply text_eqb_true_eq in Hname. subst ns name. apply negb_true_iff in Hnn.
    unfold valid_doc. destruct (rs_elem S U Hres c cl Hc) as (d & Hd & Ha). rewrite Hd, Ha.
    assert (Hq : type_qn U (DRef c) = (k_ns cl, k_name cl)) by (cbn; apply klass_qn_get; exact Hc).
    rewrite <- Hq.
    rewrite (verdicts_agree pat olex ord U S la_canon Hwf Hres (la_canon_agree U Hpat) n (DRef c) false None _
               ltac:(cbn; apply nth_error_Some; unfold get_klass in Hc; congruence) Hdoc m Hm).
    destruct n as [|k]; [reflexivity|]. cbn [soft]. rewrite Hnn. reflexivity.
  Qed.
End Canon.
