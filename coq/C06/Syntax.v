(** C06 — vocabulary shared by the generated emitter tables (Gen/XsdEmit.v), the model of the
    schema emitter and the XSD validity relation.  Definitions only. *)
From SpyneV Require Export Base.Prelude Base.Ext.

(** Spyne attribute names whose value decides a facet of the published restriction
    (spyne/interface/xml_schema/model.py: *_get_restriction_tag) *)
Inductive rattr :=
| A_gt | A_ge | A_lt | A_le | A_pattern | A_total_digits | A_fraction_digits
| A_min_len | A_max_len | A_values.

(** XSD constraining facets (XML Schema part 2, 4.3) *)
Inductive ftag :=
| T_minExclusive | T_minInclusive | T_maxExclusive | T_maxInclusive
| T_enumeration | T_length | T_minLength | T_maxLength | T_pattern
| T_totalDigits | T_fractionDigits.

Definition rattr_eqb (a b : rattr) : bool :=
  match a, b with
  | A_gt, A_gt | A_ge, A_ge | A_lt, A_lt | A_le, A_le | A_pattern, A_pattern
  | A_total_digits, A_total_digits | A_fraction_digits, A_fraction_digits
  | A_min_len, A_min_len | A_max_len, A_max_len | A_values, A_values => true
  | _, _ => false
  end.
Definition ftag_eqb (a b : ftag) : bool :=
  match a, b with
  | T_minExclusive, T_minExclusive | T_minInclusive, T_minInclusive
  | T_maxExclusive, T_maxExclusive | T_maxInclusive, T_maxInclusive
  | T_enumeration, T_enumeration | T_length, T_length | T_minLength, T_minLength
  | T_maxLength, T_maxLength | T_pattern, T_pattern | T_totalDigits, T_totalDigits
  | T_fractionDigits, T_fractionDigits => true
  | _, _ => false
  end.

(** which Python expression decimal_to_unicode returns for a Decimal instance *)
Inductive dec_printer := DecStr (* str(value) *) | DecPlain (* format(value, 'f') *).

(** how a member attribute of complex_add is written: the XSD attribute name and the value *)
Inductive occ_value := OV_str (* str(val) *) | OV_unbounded.

(** a regular expression of the fragment on which Python's re (whole-string match) and XSD
    regular expressions denote the same language *)
Inductive re :=
| RNul | REps | RAny | RChr (c : Z) | RRange (lo hi : Z)
| RSeq (a b : re) | RAlt (a b : re) | RStar (a : re).
