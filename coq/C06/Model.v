(** C06 — model of what Spyne publishes and of what it does on the wire.  Definitions only.

    Mirrors, function by function (repaired tree):
      spyne/interface/xml_schema/model.py   complex_add, xml_attribute_add, simple_add,
                                            simple/unicode/range _get_restriction_tag      [schema_of]
      spyne/interface/_base.py              add_class (imports between namespaces)          [imports_of]
      spyne/protocol/xml.py                 to_parent, null_to_parent, modelbase_to_parent,
                                            xmlattribute_to_parent, _get_members_etree        [emit]
                                            from_element, base/unicode_from_element,
                                            array_from_element, complex_from_element with
                                            validator='soft'                                  [soft]
      spyne/model/_base.py, primitive/*.py  validate_string / validate_native                [soft_leaf]
      spyne/protocol/_outbase.py, _inbase.py  the leaf text codecs                           [pr_leaf, rd_*]
    Every token of the emitter that decides a published constraint comes from Gen/XsdEmit.v
    (regenerated from the source on every run); the integer validation functions come from
    Gen/NumTypes.v.

    Names are data: the (namespace, name) of a published simple type, of an Array class and of
    its item element are given with the universe (the harness derives them with its mirror of
    ComplexModelMeta's naming; the schema correspondence compares them with the real schema). *)
From SpyneV Require Export C06.Xsd Gen.NumTypes Gen.XsdEmit.

(* ------------------------------------------------------------------ universes *)
Inductive ikind := KInteger | KNonNeg | KFixed (signed : bool) (bits : Z).
Inductive lbase := BInt (k : ikind) | BStr (uri : bool) | BBool | BDec | BOpq (k : okind).

(** customisable Attributes of a leaf type; [None] = the class default (no constraint) *)
Record facets := mkfacets {
  fa_gt : option sval; fa_ge : option sval; fa_lt : option sval; fa_le : option sval;
  fa_values : list sval;
  fa_min_len : option Z; fa_max_len : option Z;
  fa_pattern : option (text * re);
  fa_total_digits : option Z; fa_fraction_digits : option Z;
  fa_max_str_len : ext }.
Record stype := mkstype { st_base : lbase; st_fa : facets; st_qn : option qname }.

Inductive dty :=
| DLeaf (st : stype)
| DRef (c : cid)
| DArr (aq : qname) (iname : text) (elt : dty).     (* Array(elt): class name, name of the item element *)

Inductive fkind := FElem | FAttr.
Record fld := mkfld {
  fl_name : text; fl_ty : dty; fl_min : Z; fl_max : ext; fl_nillable : bool; fl_kind : fkind;
  fl_default : option sval;       (* Attributes.default (leaf members) *)
  fl_use : option bool }.         (* XmlAttribute(use=...): Some true = 'required' *)
(** an entry of _type_info, or a maximal run of consecutive members that share an
    xml_choice_group (the run is kept together so that "the members of a group are declared
    next to each other" is a property of the representation: [g] identifies the group) *)
Inductive item := IOne (f : fld) | IGroup (g : Z) (ms : list fld).
Definition item_flds (i : item) : list fld := match i with IOne f => [f] | IGroup _ ms => ms end.
Record klass := mkklass { k_ns : text; k_name : text; k_parent : option cid; k_items : list item }.
Definition k_own (cl : klass) : list fld := flat_map item_flds (k_items cl).
Definition univ := list klass.

Inductive value :=
| NNone
| NLeaf (v : sval)
| NObj (c : cid) (fs : list value)
| NList (vs : list value).

Definition get_klass (U : univ) (c : cid) : option klass := nth_error U c.
Definition klass_qn (U : univ) (c : cid) : qname :=
  match get_klass U c with Some k => (k_ns k, k_name k) | None => ([], []) end.

(** get_flat_type_info, with the namespace of the declaring class (parents first) *)
Fixpoint flat_fuel (fuel : nat) (U : univ) (c : cid) : option (list (text * fld)) :=
  match fuel with
  | O => None
  | S k =>
      match get_klass U c with
      | None => None
      | Some cl =>
          let own := map (fun f => (k_ns cl, f)) (k_own cl) in
          match k_parent cl with
          | None => Some own
          | Some p => match flat_fuel k U p with Some pf => Some (pf ++ own) | None => None end
          end
      end
  end.
Definition flat (U : univ) (c : cid) : option (list (text * fld)) := flat_fuel (S c) U c.

Definition multi (f : fld) : bool := ext_ltb (Fin 1) (fl_max f).     (* max_occurs > 1 *)

Fixpoint find_fld (k : text) (fs : list fld) : option fld :=
  match fs with
  | [] => None
  | f :: r => if text_eqb (fl_name f) k then Some f else find_fld k r
  end.

(* ------------------------------------------------------------------ leaf classes *)
Definition int_class (k : ikind) : int_type :=
  match k with
  | KInteger => class_Integer
  | KNonNeg => class_UnsignedInteger
  | KFixed s b =>
      match find (fun '(s', b', _) => Bool.eqb s s' && (b =? b')) bounded_int_classes with
      | Some (_, _, T) => T
      | None => class_Integer
      end
  end.

(** __type_name__ of the Spyne class = local name of the built-in the type refers to *)
Definition base_name (b : lbase) : text :=
  match b with
  | BInt KInteger => type_name_Integer
  | BInt KNonNeg => type_name_UnsignedInteger
  | BInt (KFixed true 8) => type_name_Integer8
  | BInt (KFixed true 16) => type_name_Integer16
  | BInt (KFixed true 32) => type_name_Integer32
  | BInt (KFixed true 64) => type_name_Integer64
  | BInt (KFixed false 8) => type_name_UnsignedInteger8
  | BInt (KFixed false 16) => type_name_UnsignedInteger16
  | BInt (KFixed false 32) => type_name_UnsignedInteger32
  | BInt (KFixed false 64) => type_name_UnsignedInteger64
  | BInt (KFixed _ _) => type_name_Integer
  | BStr false => xs_name_Unicode
  | BStr true => xs_name_AnyUri
  | BBool => xs_name_Boolean
  | BDec => xs_name_Decimal
  | BOpq ODouble => xs_name_Double
  | BOpq OFloat => xs_name_Float
  | BOpq ODate => xs_name_Date
  | BOpq OTime => xs_name_Time
  | BOpq ODateTime => xs_name_DateTime
  | BOpq ODuration => xs_name_Duration
  | BOpq OBase64 => xs_name_ByteArray
  | BOpq OUuid => xs_name_Unicode          (* Uuid restricts Unicode; its own published name is st_qn *)
  end.

Definition is_default_attrs (b : lbase) : list rattr :=
  match b with
  | BInt _ => is_default_attrs_Integer
  | BStr false => is_default_attrs_Unicode
  | BStr true => is_default_attrs_AnyUri
  | BBool => is_default_attrs_Boolean
  | BDec => is_default_attrs_Decimal
  | BOpq ODouble => is_default_attrs_Double
  | BOpq OFloat => is_default_attrs_Float
  | BOpq ODate => is_default_attrs_Date
  | BOpq OTime => is_default_attrs_Time
  | BOpq ODateTime => is_default_attrs_DateTime
  | BOpq ODuration => is_default_attrs_Duration
  | BOpq OBase64 => is_default_attrs_ByteArray
  | BOpq OUuid => is_default_attrs_Uuid
  end.

(** does the attribute differ from the class default? *)
Definition attr_set (f : facets) (a : rattr) : bool :=
  match a with
  | A_gt => is_some (fa_gt f) | A_ge => is_some (fa_ge f)
  | A_lt => is_some (fa_lt f) | A_le => is_some (fa_le f)
  | A_pattern => is_some (fa_pattern f)
  | A_total_digits => is_some (fa_total_digits f)
  | A_fraction_digits => is_some (fa_fraction_digits f)
  | A_min_len => is_some (fa_min_len f) | A_max_len => is_some (fa_max_len f)
  | A_values => match fa_values f with [] => false | _ => true end
  end.

(** simple_add: a restriction is published iff not cls.is_default(cls) *)
Definition published (st : stype) : bool := existsb (attr_set (st_fa st)) (is_default_attrs (st_base st)).

(* ------------------------------------------------------------------ leaf text codecs *)
Definition kind_ok (b : lbase) (v : sval) : bool :=
  match b, v with
  | BInt _, SInt _ | BStr _, SText _ | BBool, SBool _ | BDec, SDec _ => true
  | BOpq k, SOpq k' _ _ => okind_eqb k k'
  | _, _ => false
  end.

(** ProtocolBase.to_unicode *)
Definition pr_leaf (b : lbase) (v : sval) : out text :=
  match b, v with
  | BInt _, SInt z => Ok (integer_to_unicode z)
  | BStr _, SText t => Ok t
  | BBool, SBool x => Ok (if x then boolean_true_text else boolean_false_text)
  | BDec, SDec d => Ok (dec_print decimal_printer d)
  | BOpq k, SOpq k' _ canon => if okind_eqb k k' then Ok canon else Crash TypeError
  | _, _ => Crash TypeError
  end.
Definition pr_text (b : lbase) (v : sval) : text := match pr_leaf b v with Ok t => t | _ => [] end.

(** _to_schema_literal: how a facet, enumeration or default value is written into the schema *)
Definition schema_text (b : lbase) (v : sval) : text :=
  match b, v with
  | BDec, SDec d => dec_print (if schema_decimal_plain then DecPlain else decimal_printer) d
  | _, _ => pr_text b v
  end.

(** decimal.Decimal(s) for the finite plain / exponent literals (underscores, NaN and
    Infinity are outside the modelled universe and read as a syntax error here) *)
Definition py_decimal (s : text) : option decimal :=
  let s' := strip s in
  let '(m, e) := (fix split (l : text) : text * option text :=
                    match l with
                    | [] => ([], None)
                    | c :: r => if (c =? 101) || (c =? 69) then ([], Some r)
                                else let '(a, b) := split r in (c :: a, b)
                    end) s' in
  match xs_decimal m with
  | None => None
  | Some d =>
      match e with
      | None => Some d
      | Some et => if xs_integer et then Some (mkdec (d_neg d) (d_coeff d) (d_exp d + den_integer et)) else None
      end
  end.

Fixpoint lower (s : text) : text :=
  match s with [] => [] | c :: r => (if (65 <=? c) && (c <=? 90) then c + 32 else c) :: lower r end.

(* ------------------------------------------------------------------ the published schema *)
Definition leaf_qn (st : stype) : qname :=
  if published st then match st_qn st with Some q => q | None => (xs_ns, base_name (st_base st)) end
  else (xs_ns, base_name (st_base st)).

Definition type_qn (U : univ) (t : dty) : qname :=
  match t with
  | DLeaf st => leaf_qn st
  | DRef c => klass_qn U c
  | DArr aq _ _ => aq
  end.

Definition attr_value (f : facets) (a : rattr) : option sval :=
  match a with A_gt => fa_gt f | A_ge => fa_ge f | A_lt => fa_lt f | A_le => fa_le f | _ => None end.

(** one entry of a facet table: written iff the attribute differs from the default *)
Definition table_facet (b : lbase) (f : facets) (e : rattr * ftag) : list (ftag * text) :=
  let '(a, tag) := e in
  match a with
  | A_gt | A_ge | A_lt | A_le =>
      match attr_value f a with Some v => [(tag, schema_text b v)] | None => [] end
  | A_pattern => match fa_pattern f with Some (p, _) => [(tag, p)] | None => [] end
  | A_total_digits => match fa_total_digits f with Some n => [(tag, str_int n)] | None => [] end
  | A_fraction_digits => match fa_fraction_digits f with Some n => [(tag, str_int n)] | None => [] end
  | _ => []
  end.

Definition unicode_facets (f : facets) : list (ftag * text) :=
  (match fa_min_len f, fa_max_len f with
   | Some a, Some b => if a =? b then [(unicode_length_tag, str_int a)]           (* min_len == max_len *)
                       else [(unicode_min_tag, str_int a); (unicode_max_tag, str_int b)]
   | Some a, None => [(unicode_min_tag, str_int a)]
   | None, Some b => if b =? 0 then [(unicode_length_tag, str_int 0)] else [(unicode_max_tag, str_int b)]
   | None, None => []
   end)
  ++ match fa_pattern f with Some (p, _) => [(unicode_pattern_tag, p)] | None => [] end.

Inductive writer := WSimple | WUnicode | WRangeDecimal | WRangeTime.
Definition writer_of (b : lbase) : writer :=
  match b with
  | BInt _ | BDec | BOpq ODouble | BOpq OFloat => WRangeDecimal
  | BOpq ODate | BOpq OTime | BOpq ODateTime => WRangeTime
  | BStr _ | BOpq OUuid => WUnicode
  | BBool | BOpq ODuration | BOpq OBase64 => WSimple
  end.

(** simple_get_restriction_tag, then the writer of the class *)
Definition restriction_of (st : stype) : list (ftag * text) :=
  let b := st_base st in let f := st_fa st in
  map (fun v => (enumeration_tag, schema_text b v)) (fa_values f)
  ++ match writer_of b with
     | WSimple => []
     | WUnicode => unicode_facets f
     | WRangeDecimal => flat_map (table_facet b f) range_facets ++ flat_map (table_facet b f) decimal_digit_facets
     | WRangeTime => flat_map (table_facet b f) range_facets
     end.

Definition sdef_of (st : stype) : option (text * sdef) :=
  if published st then
    match st_qn st with
    | Some q => Some (fst q, mksdef (snd q) (xs_ns, base_name (st_base st)) (restriction_of st))
    | None => None
    end
  else None.

(** the attributes complex_add writes on a member element *)
Definition edecl_of (U : univ) (name : text) (t : dty) (mn : Z) (mx : ext) (nillable : bool)
           (dflt : option text) : edecl :=
  mkedecl name (type_qn U t)
          (if member_min_written mn then Some mn else None)
          (if member_max_written mx then Some mx else None)
          (if member_nillable_written nillable then Some member_nillable_value else None)
          (if member_default_written (is_some dflt) then dflt else None).

Definition leaf_base_of (t : dty) : option lbase := match t with DLeaf st => Some (st_base st) | _ => None end.
Definition default_text (f : fld) : option text :=
  match fl_default f, leaf_base_of (fl_ty f) with
  | Some v, Some b => Some (schema_text b v)
  | _, _ => None
  end.
Definition fld_edecl (U : univ) (f : fld) : edecl :=
  edecl_of U (fl_name f) (fl_ty f) (fl_min f) (fl_max f) (fl_nillable f) (default_text f).

(** the sequence of a class: members in declaration order; the members of a choice group
    (all runs with the same group id) share one choice particle, placed where the first run
    is declared (choice_in_place) or after all members *)
Definition is_elem (f : fld) : bool := match fl_kind f with FElem => true | FAttr => false end.
Definition group_all (g : Z) (its : list item) : list fld :=
  flat_map (fun i => match i with IGroup g' ms => if g =? g' then ms else [] | IOne _ => [] end) its.
Fixpoint seq_of (U : univ) (all : list item) (seen : list Z) (its : list item) : list particle * list particle :=
  match its with
  | [] => ([], [])
  | IOne f :: r =>
      if is_elem f then let '(a, b) := seq_of U all seen r in (PElem (fld_edecl U f) :: a, b)
      else seq_of U all seen r
  | IGroup g _ :: r =>
      if existsb (Z.eqb g) seen then seq_of U all seen r
      else
        let ch := PChoice (map (fld_edecl U) (filter is_elem (group_all g all))) in
        let '(a, b) := seq_of U all (g :: seen) r in
        if choice_in_place then (ch :: a, b) else (a, ch :: b)
  end.
Definition particles_of (U : univ) (its : list item) : list particle :=
  let '(a, b) := seq_of U its [] its in a ++ b.

Definition adecl_of (f : fld) : adecl :=
  mkadecl (fl_name f) (match fl_ty f with DLeaf st => leaf_qn st | _ => ([], []) end)
          (attr_use (fl_use f) (fl_min f)) None.
Definition attrs_of (fs : list fld) : list adecl := map adecl_of (filter (fun f => negb (is_elem f)) fs).

Definition cdef_of (U : univ) (cl : klass) : cdef :=
  mkcdef (k_name cl) (option_map (klass_qn U) (k_parent cl)) (particles_of U (k_items cl)) (attrs_of (k_own cl)).

(** the types a member type brings into the schema (besides classes of the universe) *)
Fixpoint member_types (U : univ) (t : dty) : list (text * tdef) :=
  match t with
  | DLeaf st => match sdef_of st with Some (ns, s) => [(ns, TSimple s)] | None => [] end
  | DRef _ => []
  | DArr aq iname e =>
      (fst aq, TComplex (mkcdef (snd aq) None [PElem (edecl_of U iname e 0 PosInf true None)] []))
      :: member_types U e
  end.

Definition all_types (U : univ) : list (text * tdef) :=
  flat_map (fun cl => (k_ns cl, TComplex (cdef_of U cl)) :: flat_map (fun f => member_types U (fl_ty f)) (k_own cl)) U.

Fixpoint nodup_texts (l : list text) : list text :=
  match l with
  | [] => []
  | x :: r => if existsb (text_eqb x) r then nodup_texts r else x :: nodup_texts r
  end.

(** Interface.add_class: namespace ns imports the namespaces of the parents and member types
    of its classes (Array classes included), except itself and the XSD namespace *)
Fixpoint ty_refs (U : univ) (t : dty) : list (text * text) :=      (* (referencing namespace, referenced namespace) below t *)
  match t with
  | DArr aq _ e => (fst aq, fst (type_qn U e)) :: ty_refs U e
  | _ => []
  end.
Definition refs_of (U : univ) : list (text * text) :=
  flat_map (fun cl =>
              (match k_parent cl with Some p => [(k_ns cl, fst (klass_qn U p))] | None => [] end)
              ++ flat_map (fun f => (k_ns cl, fst (type_qn U (fl_ty f))) :: ty_refs U (fl_ty f)) (k_own cl)) U.
Definition imports_of (U : univ) (ns : text) : list text :=
  nodup_texts (map snd (filter (fun r => text_eqb (fst r) ns && negb (text_eqb (snd r) ns) && negb (text_eqb (snd r) xs_ns))
                               (refs_of U))).

Definition is_complex (t : tdef) : bool := match t with TComplex _ => true | TSimple _ => false end.

(** one schema document per namespace that holds a type; every complex type also gets a
    global element of its name (complex_add / add_missing_elements_for_methods) *)
Definition schema_of (U : univ) (tns : text) : schema :=
  let ts := all_types U in
  map (fun ns =>
         let mine := map snd (filter (fun p => text_eqb (fst p) ns) ts) in
         mksdoc ns true (imports_of U ns) mine
                (map (fun t => (tdef_name t, (ns, tdef_name t))) (filter is_complex mine)))
      (nodup_texts (tns :: map fst ts)).

(* ------------------------------------------------------------------ output: XmlDocument.to_parent *)
Definition nil_attr : attr := (xsi_ns, t_nil, nil_written).

Section Wire.
  Variable U : univ.

  Definition emit_field (emitf : dty -> option sval -> text -> text -> value -> out xnode) (dns : text) (f : fld) (x : value)
    : out (list xnode * list attr) :=
    match fl_kind f with
    | FAttr =>                                          (* xmlattribute_to_parent / null_to_parent *)
        match x with
        | NNone => Ok ([], [])
        | NLeaf v => match fl_ty f with
                     | DLeaf st => do s <- pr_leaf (st_base st) v; Ok ([], [([], fl_name f, s)])
                     | _ => Crash TypeError
                     end
        | _ => Crash TypeError
        end
    | FElem =>
        match x with
        | NNone =>                                      (* elif subvalue is not None or min_occurs > 0 *)
            if 0 <? fl_min f
            then do e <- emitf (fl_ty f) (fl_default f) dns (fl_name f) NNone; Ok ([e], [])
            else Ok ([], [])
        | NList xs =>
            if multi f
            then do es <- mapM (emitf (fl_ty f) (fl_default f) dns (fl_name f)) xs; Ok (es, [])
            else do e <- emitf (fl_ty f) (fl_default f) dns (fl_name f) x; Ok ([e], [])
        | _ =>
            if multi f then Crash TypeError             (* iterating a non-sequence *)
            else do e <- emitf (fl_ty f) (fl_default f) dns (fl_name f) x; Ok ([e], [])
        end
    end.

  Fixpoint emit_members (emitf : dty -> option sval -> text -> text -> value -> out xnode)
           (ffs : list (text * fld)) (vals : list value) : out (list xnode * list attr) :=
    match ffs with
    | [] => Ok ([], [])
    | (dns, f) :: r =>
        do a <- emit_field emitf dns f (hd NNone vals);
        do b <- emit_members emitf r (tl vals);
        Ok (fst a ++ fst b, snd a ++ snd b)
    end.

  (** to_parent of a member written as an element; [dflt] is Attributes.default of the member
      type.  Fuel bounds the nesting depth; exhaustion is [Crash OtherExn]. *)
  Fixpoint emit (fuel : nat) (t : dty) (dflt : option sval) (ns name : text) (v : value) : out xnode :=
    match fuel with
    | O => Crash OtherExn
    | S k =>
        let v' := match v, dflt with NNone, Some d => NLeaf d | _, _ => v end in   (* if inst is None: inst = cls_attrs.default *)
        match v' with
        | NNone => Ok (XElt ns name [nil_attr] None [])                          (* null_to_parent *)
        | NLeaf sv =>
            match t with
            | DLeaf st => do s <- pr_leaf (st_base st) sv; Ok (XElt ns name [] (Some s) [])
            | _ => Crash TypeError
            end
        | NList xs =>
            match t with
            | DArr aq iname e =>
                do kids <- mapM (emit k e None (fst aq) iname) xs;
                Ok (XElt ns name [] None kids)
            | _ => Crash TypeError
            end
        | NObj d fs =>
            match t with
            | DRef c =>
                if negb (Nat.eqb d c) then Crash TypeError        (* polymorphic output is outside the model *)
                else match flat U c with
                     | None => Crash KeyError
                     | Some ffs =>
                         do r <- emit_members (emit k) ffs fs;
                         Ok (XElt ns name (snd r) None (fst r))
                     end
            | _ => Crash TypeError
            end
        end
    end.

  (* ---------------------------------------------------------------- input: validator='soft' *)
  Variable ord : okind -> text -> out Z.     (* from_unicode of the delegated leaf classes: key of the value read *)

  Definition ext_of (d : ext) (o : option sval) : ext :=
    match o with Some (SInt z) => Fin z | _ => d end.
  Definition zvalues (l : list sval) : list Z :=
    flat_map (fun v => match v with SInt z => [z] | _ => [] end) l.
  (** the Attributes of the customised integer class *)
  Definition num_attrs_of (T : int_type) (f : facets) (nillable : bool) : num_attrs :=
    {| na_nillable := nillable;
       na_gt := ext_of NegInf (fa_gt f); na_ge := ext_of NegInf (fa_ge f);
       na_lt := ext_of PosInf (fa_lt f); na_le := ext_of PosInf (fa_le f);
       na_values := zvalues (fa_values f);
       na_max_str_len := fa_max_str_len f;
       na_min_bound := na_min_bound (it_attrs T); na_max_bound := na_max_bound (it_attrs T) |}.

  (** value > gt and value >= ge and value < lt and value <= le, absent bound = -inf / +inf *)
  Definition range_ok (f : facets) (v : sval) : bool :=
    match fa_gt f with Some b => sval_ltb b v | None => true end
    && match fa_ge f with Some b => sval_leb b v | None => true end
    && match fa_lt f with Some b => sval_ltb v b | None => true end
    && match fa_le f with Some b => sval_leb v b | None => true end.
  (** SimpleModel.validate_native for a value that is not None *)
  Definition values_ok (f : facets) (v : sval) : bool :=
    match fa_values f with [] => true | vs => existsb (sval_eqb v) vs end.

  (** base_from_element / unicode_from_element / the attribute loop with validator='soft':
      validate_string on the raw text, from_unicode, validate_native *)
  Definition soft_leaf (st : stype) (nillable : bool) (txt : option text) : out unit :=
    let f := st_fa st in
    match st_base st with
    | BInt k =>
        let T := int_class k in let a := num_attrs_of T f nillable in
        if negb (match txt with None => it_vs_none T a | Some s => it_vs T a (len s) end) then VFault
        else match txt with
             | None => if it_vn_none T a then Ok tt else VFault
             | Some s => match integer_from_unicode a s with
                         | Ok z => if it_vn T a z then Ok tt else VFault
                         | VFault => VFault
                         | Crash e => Crash e
                         end
             end
    | BStr _ =>
        let s := match txt with None => [] | Some s => s end in        (* an element without text holds '' *)
        if negb ((match fa_min_len f with Some a => a <=? len s | None => true end)
                 && (match fa_max_len f with Some b => len s <=? b | None => true end)) then VFault
        else if negb (values_ok f (SText s)) then VFault
        else if negb (match fa_pattern f with Some (_, r) => re_match r s | None => true end) then VFault
        else Ok tt
    | BBool =>
        match txt with
        | None => if nillable then Ok tt else VFault
        | Some s => if values_ok f (SBool (existsb (text_eqb (lower s)) [t_true; t_one])) then Ok tt else VFault
        end
    | BDec =>
        match txt with
        | None => if nillable then Ok tt else VFault
        | Some s =>
            if negb (ext_leb (Fin (len s)) (fa_max_str_len f)) then VFault
            else match py_decimal s with
                 | None => VFault
                 | Some d => if range_ok f (SDec d) && values_ok f (SDec d) then Ok tt else VFault
                 end
        end
    | BOpq k =>
        match txt with
        | None => if nillable then Ok tt else VFault
        | Some s =>
            if negb (ext_leb (Fin (len s)) (fa_max_str_len f)) then VFault
            else if negb (match fa_pattern f with Some (_, r) => re_match r s | None => true end) then VFault
                                                             (* Uuid is a Unicode with a pattern: validate_string *)
            else match ord k s with
                 | Ok key => let v := SOpq k key s in
                             if range_ok f v && values_ok f v then Ok tt else VFault
                 | VFault => VFault
                 | Crash e => Crash e
                 end
        end
    end.

  (** from_unicode alone (the loop over the attributes of a child element) *)
  Definition leaf_read (st : stype) (s : text) : out unit :=
    match st_base st with
    | BInt k => match integer_from_unicode (num_attrs_of (int_class k) (st_fa st) true) s with
                | Ok _ => Ok tt | VFault => VFault | Crash e => Crash e end
    | BStr _ | BBool => Ok tt
    | BDec => if negb (ext_leb (Fin (len s)) (fa_max_str_len (st_fa st))) then VFault
              else match py_decimal s with Some _ => Ok tt | None => VFault end
    | BOpq k => match ord k s with Ok _ => Ok tt | VFault => VFault | Crash e => Crash e end
    end.

  Definition is_nil_att (atts : list attr) : bool :=
    match lookup_att xsi_ns t_nil atts with
    | Some v => existsb (text_eqb v) nil_values
    | None => false
    end.

  Fixpoint child_atts (fields : list fld) (catts : list attr) : out unit :=
    match catts with
    | [] => Ok tt
    | (ans, an, av) :: r =>
        match find_fld (clark ans an) fields with
        | None => child_atts fields r
        | Some sub =>
            match fl_kind sub, fl_ty sub with
            | FAttr, DLeaf st => do _ <- leaf_read st av; child_atts fields r
            | FAttr, _ => Crash TypeError
            | FElem, _ => Crash AttributeError                     (* submember.type *)
            end
        end
    end.

  Fixpoint soft_kids (sf : fld -> xnode -> out unit) (fields : list fld) (kids : list xnode) (freq : list text)
    : out (list text) :=
    match kids with
    | [] => Ok freq
    | XOther :: r => soft_kids sf fields r freq
    | (XElt _ name catts _ _ as c) :: r =>
        let freq' := name :: freq in
        match find_fld name fields with
        | None => soft_kids sf fields r freq'
        | Some f =>
            match fl_kind f with
            | FAttr => Crash KeyError                              (* no deserialization handler *)
            | FElem => do _ <- sf f c; do _ <- child_atts fields catts; soft_kids sf fields r freq'
            end
        end
    end.

  Fixpoint soft_atts (fields : list fld) (atts : list attr) (freq : list text) : out (list text) :=
    match atts with
    | [] => Ok freq
    | (ans, an, av) :: r =>
        let key := clark ans an in
        match find_fld key fields with
        | None => soft_atts fields r freq
        | Some f =>
            match fl_kind f, fl_ty f with
            | FElem, _ => soft_atts fields r freq
            | FAttr, DLeaf st => do _ <- soft_leaf st (fl_nillable f) (Some av); soft_atts fields r (key :: freq)
            | FAttr, _ => Crash TypeError
            end
        end
    end.

  Definition occurs_ok (fields : list fld) (freq : list text) : bool :=
    forallb (fun f => let n := count_text (fl_name f) freq in (fl_min f <=? n) && ext_leb (Fin n) (fl_max f)) fields.

  (** XmlDocument.from_element with validator='soft': Ok = the value is handed on, VFault =
      Client.ValidationError *)
  Fixpoint soft (fuel : nat) (t : dty) (nillable : bool) (e : xnode) : out unit :=
    match fuel with
    | O => Crash OtherExn
    | S k =>
        match e with
        | XOther => Crash AttributeError
        | XElt _ _ atts txt kids =>
            if is_nil_att atts then (if negb nillable then VFault else Ok tt)
            else
              match t with
              | DLeaf st => soft_leaf st nillable txt
              | DArr _ _ el =>
                  (* array_from_element; its own occurrence check of the items is against the
                     item class of Array(T), min_occurs = 0 and max_occurs = unbounded: vacuous *)
                  do _ <- mapM (soft k el true) kids; Ok tt
              | DRef c =>
                  match flat U c with
                  | None => Crash KeyError
                  | Some ffs =>
                      let fields := map snd ffs in
                      do f1 <- soft_kids (fun f => soft k (fl_ty f) (fl_nillable f)) fields kids [];
                      do f2 <- soft_atts fields atts f1;
                      if occurs_ok fields f2 then Ok tt else VFault
                  end
              end
        end
    end.
End Wire.

(* ------------------------------------------------------------------ the declared constraints (specification) *)
Definition xml_char (c : Z) : bool :=
  (c =? 9) || (c =? 10) || (c =? 13) || ((32 <=? c) && (c <=? 55295)) || ((57344 <=? c) && (c <=? 65533))
  || ((65536 <=? c) && (c <=? 1114111)).

Definition ibounds (k : ikind) : ext * ext :=
  match k with
  | KInteger => (NegInf, PosInf)
  | KNonNeg => (Fin 0, PosInf)
  | KFixed s b => (Fin (lo s b), Fin (hi s b))
  end.

(** a leaf value satisfies the declared constraints of its type: the kind, the value space
    of the class, gt/ge/lt/le, values, min_len/max_len, pattern, total/fraction digits *)
Definition leaf_conf (st : stype) (v : sval) : bool :=
  let f := st_fa st in
  kind_ok (st_base st) v
  && match st_base st, v with BStr true, SText t => text_eqb (xs_trim t) t | _, _ => true end
  && range_ok f v && values_ok f v
  && match st_base st, v with
     | BInt k, SInt z =>
         let '(l, h) := ibounds k in
         ext_leb l (Fin z) && ext_leb (Fin z) h
         && match fa_total_digits f with Some n => (if z =? 0 then 1 else len (str_nat (Z.abs z))) <=? n | None => true end
     | BStr _, SText t =>
         forallb xml_char t
         && match fa_min_len f with Some a => a <=? len t | None => true end
         && match fa_max_len f with Some b => len t <=? b | None => true end
         && match fa_pattern f with Some (_, r) => re_match r t | None => true end
     | BDec, SDec d =>
         (0 <=? d_coeff d)
         && match fa_total_digits f with Some n => fst (dec_digits d) <=? n | None => true end
         && match fa_fraction_digits f with Some n => snd (dec_digits d) <=? n | None => true end
     | BOpq OUuid, SOpq _ _ canon =>            (* the text of a uuid matches the pattern of the class *)
         match fa_pattern f with Some (_, r) => re_match r canon | None => true end
     | _, _ => true
     end.
