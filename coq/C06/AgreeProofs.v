(** C06 — for documents that use only declared members in declared order, validity against the
    published schema and soft validation reach the same verdict. *)
From Coq Require Import ZArith List Bool Lia ZifyBool Btauto.
From SpyneV Require Import C06.Spec C06.Docs C06.LeafProofs C06.SeqProofs C06.StructProofs.
Import ListNotations.
Open Scope Z_scope.

(* ------------------------------------------------------------------ general *)
Lemma is_ok_mapM {A B} (f : A -> out B) l : is_ok (mapM f l) = forallb (fun x => is_ok (f x)) l.
Proof.
  induction l as [|x r IH]; [reflexivity|]. cbn [mapM forallb]. destruct (f x) as [y| |]; cbn [bind is_ok andb]; try reflexivity.
  rewrite <- IH. destruct (mapM f r); reflexivity.
Qed.

Lemma is_ok_bind {A B} (x : out A) (f : A -> out B) : is_ok (bind x f) = match x with Ok a => is_ok (f a) | _ => false end.
Proof. destruct x; reflexivity. Qed.

(* ------------------------------------------------------------------ xsi:nil *)
Lemma nil_value_true v : existsb (text_eqb v) nil_values = true ->
  (let v' := xs_trim v in text_eqb v' t_true || text_eqb v' t_one) = true.
Proof.
  unfold nil_values. cbn [existsb]. rewrite orb_false_r. intros H. apply orb_prop in H.
  destruct H as [H|H]; apply text_eqb_true_eq in H; subst v; reflexivity.
Qed.

Lemma xsi_ok_lookup atts : xsi_ok atts = true ->
  match lookup_att xsi_ns t_nil atts with
  | Some v => existsb (text_eqb v) nil_values = true
  | None => forallb (fun a => negb (is_xsi a)) atts = true
  end.
Proof.
  unfold xsi_ok. intros H. apply andb_prop in H. destruct H as [H _].
  induction atts as [|[[a b] c] r IH]; [reflexivity|]. cbn [forallb] in H. apply andb_prop in H. destruct H as [H1 H2].
  cbn [lookup_att]. unfold is_xsi, is_xsi_nil in H1. cbn [snd] in H1.
  destruct (text_eqb a xsi_ns) eqn:Ea; cbn [negb orb andb] in H1.
  - apply andb_prop in H1. destruct H1 as [Hb Hv]. rewrite Hb. cbn [andb]. exact Hv.
  - cbn [andb]. specialize (IH H2). destruct (lookup_att xsi_ns t_nil r); [exact IH|].
    cbn [forallb]. unfold is_xsi at 1. rewrite Ea. cbn [negb andb]. exact IH.
Qed.

Lemma xsi_ok_guard atts : xsi_ok atts = true -> forallb (fun a => negb (is_xsi a) || is_xsi_nil a) atts = true.
Proof.
  unfold xsi_ok. intros H. apply andb_prop in H. destruct H as [H _]. apply forallb_forall. intros a Ha.
  rewrite forallb_forall in H. specialize (H a Ha). destruct (is_xsi a); [|reflexivity]. cbn [negb orb] in *.
  apply andb_prop in H. exact (proj1 H).
Qed.

Lemma not_nil_plain atts : xsi_ok atts = true -> is_nil_att atts = false ->
  lookup_att xsi_ns t_nil atts = None /\ forallb (fun a => negb (is_xsi a)) atts = true.
Proof.
  intros Hx Hn. pose proof (xsi_ok_lookup atts Hx) as H. unfold is_nil_att in Hn.
  destruct (lookup_att xsi_ns t_nil atts) as [v|]; [congruence|]. split; [reflexivity|exact H].
Qed.

Lemma all_plain_filter atts : forallb (fun a => negb (is_xsi a)) atts = true -> plain_atts atts = atts.
Proof.
  unfold plain_atts. induction atts as [|a r IH]; [reflexivity|]. cbn [forallb filter]. intros H. apply andb_prop in H.
  destruct H as [H1 H2]. rewrite H1, (IH H2). reflexivity.
Qed.

(* ------------------------------------------------------------------ the flat view of a content model *)
(** the element members of the tagged items, in order *)
Definition efields (L : list (text * item)) : list (text * fld) :=
  filter (fun p => is_elem (snd p)) (L_flds L).

(** the same traversal as items_doc / items_match, over the flat list of element members *)
Fixpoint fdoc (chk : fld -> xnode -> bool) (F : list (text * fld)) (kids : list xnode) : bool :=
  match F with
  | [] => is_nil_list kids
  | (ns, f) :: r => let '(run, rest) := span_name ns (fl_name f) kids in forallb (chk f) run && fdoc chk r rest
  end.
Fixpoint focc (U : univ) (F : list (text * fld)) (kids : list xnode) : bool :=
  match F with
  | [] => true
  | (ns, f) :: r => let '(run, rest) := span_name ns (fl_name f) kids in occ_ok (fld_edecl U f) (len_nodes run) && focc U r rest
  end.

Lemma fdoc_app chk A : forall B kids,
  fdoc chk (A ++ B) kids
  = runs_chk chk (map snd A) (fst (split_runs A kids)) && fdoc chk B (snd (split_runs A kids)).
Proof.
  induction A as [|[ns f] r IH]; intros B kids; [reflexivity|].
  cbn [app fdoc split_runs map snd]. destruct (span_name ns (fl_name f) kids) as [run rest]. rewrite IH.
  destruct (split_runs r rest) as [runs rest']. cbn [fst snd runs_chk]. rewrite andb_assoc. reflexivity.
Qed.

Lemma map_snd_tagged ns ms : map snd (tagged ns ms) = ms.
Proof. unfold tagged. rewrite map_map. cbn. apply map_id. Qed.

Lemma efields_cons_one ns f r : efields ((ns, IOne f) :: r) = (if is_elem f then [(ns, f)] else []) ++ efields r.
Proof. unfold efields. cbn [L_flds flat_map fst snd item_flds tagged map app filter]. destruct (is_elem f); reflexivity. Qed.
Lemma efields_cons_grp ns g ms r : forallb is_elem ms = true -> efields ((ns, IGroup g ms) :: r) = tagged ns ms ++ efields r.
Proof.
  intros H. unfold efields. cbn [L_flds flat_map fst snd item_flds]. rewrite filter_app. f_equal.
  induction ms as [|f m IH]; [reflexivity|]. cbn in H. apply andb_prop in H. destruct H as [H1 H2].
  cbn [tagged map filter snd]. rewrite H1. f_equal. apply IH. exact H2.
Qed.

Lemma items_doc_flat chk L : (forall p, In p L -> match snd p with IGroup _ ms => forallb is_elem ms = true | IOne _ => True end) ->
  forall kids, items_doc chk L kids = fdoc chk (efields L) kids.
Proof.
  induction L as [|[ns [f|g ms]] r IH]; intros Hw kids; [reflexivity| |].
  - rewrite efields_cons_one. cbn [items_doc]. destruct (is_elem f); cbn [app fdoc].
    + destruct (span_name ns (fl_name f) kids). rewrite IH; [reflexivity|intros p Hp; apply Hw; right; exact Hp].
    + apply IH. intros p Hp; apply Hw; right; exact Hp.
  - rewrite efields_cons_grp by (apply (Hw (ns, IGroup g ms)); left; reflexivity).
    cbn [items_doc]. rewrite fdoc_app, map_snd_tagged. destruct (split_runs (tagged ns ms) kids) as [runs rest]. cbn [fst snd].
    rewrite IH; [reflexivity|intros p Hp; apply Hw; right; exact Hp].
Qed.

Fixpoint runs_occ (U : univ) (A : list (text * fld)) (runs : list (list xnode)) : bool :=
  match A, runs with
  | [], [] => true
  | (_, f) :: r, run :: rs => occ_ok (fld_edecl U f) (len_nodes run) && runs_occ U r rs
  | _, _ => false
  end.

Lemma focc_app U A : forall B kids,
  focc U (A ++ B) kids = runs_occ U A (fst (split_runs A kids)) && focc U B (snd (split_runs A kids)).
Proof.
  induction A as [|[ns f] r IH]; intros B kids; [reflexivity|].
  cbn [app focc split_runs]. destruct (span_name ns (fl_name f) kids) as [run rest]. rewrite IH.
  destruct (split_runs r rest) as [runs rest']. cbn [fst snd runs_occ]. rewrite andb_assoc. reflexivity.
Qed.

Lemma runs_valid_split U velem A : forall runs,
  runs_valid U velem A runs
  = runs_chk (fun f => velem (fld_edecl U f)) (map snd A) runs && runs_occ U A runs.
Proof.
  induction A as [|[ns f] r IH]; intros [|run rs]; try reflexivity.
  cbn [runs_valid map snd runs_chk runs_occ]. rewrite IH. unfold run_valid. btauto.
Qed.

Lemma items_match_flat U velem L :
  (forall p, In p L -> match snd p with IGroup _ ms => forallb is_elem ms = true | IOne _ => True end) ->
  forall kids, items_match U velem L kids
               = fdoc (fun f => velem (fld_edecl U f)) (efields L) kids && focc U (efields L) kids.
Proof.
  induction L as [|[ns [f|g ms]] r IH]; intros Hw kids.
  - cbn. rewrite andb_true_r. reflexivity.
  - rewrite efields_cons_one. cbn [items_match]. destruct (is_elem f); cbn [app fdoc focc].
    + destruct (span_name ns (fl_name f) kids) as [run rest]. rewrite IH by (intros p Hp; apply Hw; right; exact Hp).
      unfold run_valid. btauto.
    + apply IH. intros p Hp; apply Hw; right; exact Hp.
  - rewrite efields_cons_grp by (apply (Hw (ns, IGroup g ms)); left; reflexivity).
    cbn [items_match]. rewrite fdoc_app, focc_app, map_snd_tagged. destruct (split_runs (tagged ns ms) kids) as [runs rest]. cbn [fst snd].
    rewrite IH by (intros p Hp; apply Hw; right; exact Hp). rewrite runs_valid_split, map_snd_tagged. btauto.
Qed.

(* ------------------------------------------------------------------ counting the children of a member *)
Lemma count_text_app k a b : count_text k (a ++ b) = count_text k a + count_text k b.
Proof. induction a as [|x r IH]; [reflexivity|]. cbn [app count_text]. rewrite IH. lia. Qed.

Lemma elt_is_name ns nm kid : elt_is ns nm kid = true -> node_name kid = nm.
Proof. destruct kid as [a b ? ? ?|]; [|discriminate]. cbn. intros H. apply andb_prop in H. apply text_eqb_true_eq. exact (proj2 H). Qed.

Lemma count_run_same ns nm run : forallb (elt_is ns nm) run = true -> count_text nm (map node_name run) = len_nodes run.
Proof.
  induction run as [|k r IH]; [reflexivity|]. cbn [forallb]. intros H. apply andb_prop in H. destruct H as [H1 H2].
  cbn [map count_text]. rewrite (elt_is_name _ _ _ H1), text_eqb_same, (IH H2). unfold len_nodes. cbn [length]. lia.
Qed.
Lemma count_names_other nm (kids : list xnode) : (forall kid, In kid kids -> node_name kid <> nm) -> count_text nm (map node_name kids) = 0.
Proof.
  induction kids as [|k r IH]; intros H; [reflexivity|]. cbn [map count_text].
  destruct (text_eqb (node_name k) nm) eqn:E.
  - apply text_eqb_true_eq in E. exfalso. apply (H k); [left; reflexivity|exact E].
  - rewrite IH; [reflexivity|]. intros x Hx. apply H. right. exact Hx.
Qed.

Definition shape (F : list (text * fld)) (kids : list xnode) : bool := fdoc (fun _ _ => true) F kids.

Lemma forallb_ext_in' {A} (f g : A -> bool) l : (forall x, In x l -> f x = g x) -> forallb f l = forallb g l.
Proof.
  induction l as [|x r IH]; intros H; [reflexivity|]. cbn. rewrite (H x (or_introl eq_refl)). f_equal. apply IH.
  intros y Hy. apply H. right. exact Hy.
Qed.

Lemma forallb_true {A} (l : list A) : forallb (fun _ => true) l = true.
Proof. induction l; [reflexivity|exact IHl]. Qed.

Lemma shape_cons ns f r kids : shape ((ns, f) :: r) kids = true ->
  exists run rest, span_name ns (fl_name f) kids = (run, rest) /\ kids = run ++ rest
                   /\ forallb (elt_is ns (fl_name f)) run = true /\ shape r rest = true.
Proof.
  unfold shape. cbn [fdoc]. destruct (span_name ns (fl_name f) kids) as [run rest] eqn:Es. rewrite forallb_true. cbn [andb].
  intros H. destruct (span_name_spec _ _ _ _ _ Es) as (E1 & E2 & _). exists run, rest. auto.
Qed.

Lemma shape_members F : forall kids, shape F kids = true ->
  forall kid, In kid kids -> exists p, In p F /\ elt_is (fst p) (fl_name (snd p)) kid = true.
Proof.
  induction F as [|[ns f] r IH]; intros kids H kid Hk.
  - unfold shape in H. cbn in H. destruct kids; [destruct Hk|discriminate].
  - destruct (shape_cons _ _ _ _ H) as (run & rest & _ & -> & Hr & Hs). apply in_app_iff in Hk. destruct Hk as [Hk|Hk].
    + exists (ns, f). split; [left; reflexivity|]. rewrite forallb_forall in Hr. apply Hr. exact Hk.
    + destruct (IH rest Hs kid Hk) as (p & Hp & He). exists p. split; [right; exact Hp|exact He].
Qed.

Lemma fdoc_shape chk F : forall kids, fdoc chk F kids = true -> shape F kids = true.
Proof.
  induction F as [|[ns f] r IH]; intros kids H; [exact H|]. unfold shape. cbn [fdoc] in *.
  destruct (span_name ns (fl_name f) kids) as [run rest]. apply andb_prop in H. destruct H as [_ H].
  rewrite forallb_true. cbn [andb]. apply IH. exact H.
Qed.

(** under the shape, checking the children member by member is checking every child against the
    member it is named after *)
Lemma fdoc_forallb chk (fields : list fld) F : forall kids,
  (forall p, In p F -> find_fld (fl_name (snd p)) fields = Some (snd p)) ->
  shape F kids = true ->
  fdoc chk F kids = forallb (fun kid => match find_fld (node_name kid) fields with Some f => chk f kid | None => true end) kids.
Proof.
  induction F as [|[ns f] r IH]; intros kids Hf Hs.
  - unfold shape in Hs. cbn in Hs. destruct kids; [reflexivity|discriminate].
  - destruct (shape_cons _ _ _ _ Hs) as (run & rest & Es & -> & Hr & Hs'). cbn [fdoc]. rewrite Es, forallb_app.
    rewrite (IH rest) by (try (intros p Hp; apply Hf; right; exact Hp); exact Hs'). f_equal.
    clear -Hr Hf. induction run as [|k run IHr]; [reflexivity|]. cbn [forallb] in *. apply andb_prop in Hr. destruct Hr as [H1 H2].
    pose proof (Hf (ns, f) (or_introl eq_refl)) as Hff. cbn [snd] in Hff.
    rewrite (elt_is_name _ _ _ H1), Hff. f_equal. apply IHr. exact H2.
Qed.

(** under the shape, the length of a member's run is the number of children with its name *)
Lemma focc_counts U F : forall kids,
  NoDup (map (fun p => fl_name (snd p)) F) -> shape F kids = true ->
  focc U F kids = forallb (fun p => occ_ok (fld_edecl U (snd p)) (count_text (fl_name (snd p)) (map node_name kids))) F.
Proof.
  induction F as [|[ns f] r IH]; intros kids Hnd Hs; [reflexivity|].
  destruct (shape_cons _ _ _ _ Hs) as (run & rest & Es & -> & Hr & Hs'). inversion Hnd as [|? ? Hnotin Hnd']; subst.
  cbn [focc forallb snd]. rewrite Es, map_app, count_text_app, (count_run_same ns _ run Hr).
  assert (Hrest0 : count_text (fl_name f) (map node_name rest) = 0).
  { apply count_names_other. intros kid Hk Heq. destruct (shape_members r rest Hs' kid Hk) as (p & Hp & He).
    apply Hnotin. apply in_map_iff. exists p. split; [|exact Hp]. rewrite <- Heq. symmetry. apply (elt_is_name _ _ _ He). }
  rewrite Hrest0, Z.add_0_r. f_equal. rewrite (IH rest Hnd' Hs').
  apply forallb_ext_in'. intros p Hp. rewrite count_text_app.
  assert (Hrun0 : count_text (fl_name (snd p)) (map node_name run) = 0).
  { apply count_names_other. intros kid Hk Heq. rewrite forallb_forall in Hr. rewrite (elt_is_name _ _ _ (Hr kid Hk)) in Heq.
    apply Hnotin. apply in_map_iff. exists p. split; [symmetry; exact Heq|exact Hp]. }
  rewrite Hrun0. reflexivity.
Qed.

Lemma fld_attr_facts0 n f : fld_ok n f = true -> is_elem f = false ->
  (exists st, fl_ty f = DLeaf st /\ wf_stype st = true)
  /\ eff_required (adecl_of f) = (0 <? fl_min f) /\ 0 <= fl_min f /\ fl_max f = Fin 1.
Proof.
  intros Hok He. unfold fld_ok in Hok. unfold is_elem in He. destruct (fl_kind f) eqn:Ek; [discriminate|]. split_all.
  destruct (fl_ty f) as [st| |] eqn:Et; try discriminate. split; [exists st; split; [reflexivity|assumption]|].
  split; [|split; [lia|]].
  - unfold eff_required, adecl_of, attr_use. cbn [a_required].
    destruct (fl_use f) as [b|].
    + match goal with H : Bool.eqb b (0 <? fl_min f) = true |- _ => apply eqb_prop in H; rewrite H end. reflexivity.
    + destruct (fl_min f >? 0) eqn:E; destruct (0 <? fl_min f) eqn:E2; try reflexivity; lia.
  - match goal with H1 : ext_leb (Fin 1) (fl_max f) = true, H2 : ext_leb (fl_max f) (Fin 1) = true |- _ =>
      destruct (fl_max f) as [|z|]; cbn in H1, H2; try discriminate; f_equal; lia end.
Qed.

Section Agree.
  Variable pat : text -> option re.
  Variable olex : okind -> text -> option Z.
  Variable ord : okind -> text -> out Z.
  Variable U : univ.
  Variable S : schema.
  Variable LA : stype -> bool -> option text -> option text -> bool.
  Hypothesis Hwf : wf_univ U = true.
  Hypothesis Hres : resolves S U.
  (** the leaf contents the document class admits are those on which the two validators agree *)
  Hypothesis H_LA : forall st nil d txt,
    In (DLeaf st) (tys_of U) -> wf_stype st = true -> LA st nil d txt = true ->
    st_elem_ok pat olex st d txt = is_ok (soft_leaf ord st nil txt).

  Lemma lookup_plain_none nm atts : forallb is_xsi atts = true -> lookup_att [] nm atts = None.
  Proof.
    induction atts as [|[[a b] c] r IH]; [reflexivity|]. cbn [forallb]. intros H. apply andb_prop in H. destruct H as [H1 H2].
    cbn [lookup_att]. unfold is_xsi in H1. apply text_eqb_true_eq in H1. subst a. cbn [text_eqb xsi_ns]. apply IH. exact H2.
  Qed.

  Lemma plain_nil_all_xsi atts : plain_atts atts = [] -> forallb is_xsi atts = true.
  Proof.
    unfold plain_atts. induction atts as [|a r IH]; [reflexivity|]. cbn [filter forallb].
    destruct (is_xsi a); cbn [negb]; [exact IH|discriminate].
  Qed.

  (** a nilled element: both validators accept it iff the member is nillable *)
  Lemma agree_nil m' k t nillable dflt ns name atts txt :
    ty_known U t -> (k + length U < m')%nat ->
    xsi_ok atts = true -> is_nil_att atts = true -> no_text txt = true -> plain_atts atts = [] -> nil_ok U t = true ->
    valid_elem pat olex (Datatypes.S m') S (type_qn U t) nillable dflt (XElt ns name atts txt []) = nillable
    /\ is_ok (soft U ord (Datatypes.S k) t nillable (XElt ns name atts txt [])) = nillable.
  Proof.
    intros Hty Hm Hx Hn Ht Hp Hnok. split; [|cbn [soft]; rewrite Hn; destruct nillable; reflexivity].
    pose proof (xsi_ok_lookup atts Hx) as Hl. unfold is_nil_att in Hn.
    destruct (lookup_att xsi_ns t_nil atts) as [v|] eqn:El; [|discriminate].
    cbn -[resolve_simple eff_content attrs_ok match_seq].
    rewrite (xsi_ok_guard atts Hx), El. cbn [negb is_some andb].
    destruct nillable; [|reflexivity]. cbn [negb].
    pose proof (nil_value_true v Hl) as Hv. cbv zeta in Hv. rewrite Hv.
    fold (plain_atts atts). rewrite Hp.
    pose proof (plain_nil_all_xsi atts Hp) as Hall.
    destruct t as [st|c|aq iname el].
    - destruct Hty as [Hin Hw]. cbn [dty_ok] in Hw. cbn [type_qn]. rewrite (resolve_leaf U S Hres st Hin Hw). exact Ht.
    - cbn [ty_known] in Hty. destruct (nth_error U c) as [cl|] eqn:Ec; [|apply nth_error_None in Ec; lia].
      destruct (chain_exists U Hwf c cl Ec) as [L HL].
      destruct (HL m' ltac:(lia)) as (C1 & _ & _). destruct (HL (Datatypes.S c) ltac:(lia)) as (_ & C2 & _).
      cbn [type_qn]. destruct (rs_klass S U Hres c cl Ec) as (d & Hd1 & Hd2 & Hd3).
      pose proof (wf_klass U c cl Hwf Ec) as Hk. unfold klass_ok in Hk. split_all.
      rewrite (resolve_complex S (klass_qn U c) (cdef_of U cl)).
      + rewrite (eff_content_klass U S Hwf Hres m' c L C1). rewrite Ht. cbn [andb]. rewrite andb_true_r.
        cbn [nil_ok] in Hnok. apply negb_true_iff in Hnok. unfold has_required_attr in Hnok. unfold flat in Hnok. rewrite C2 in Hnok.
        unfold attrs_ok. apply andb_true_iff. split.
        * apply forallb_forall. intros a Ha. rewrite forallb_forall in Hall. rewrite (Hall a Ha). destruct a as [[? ?] ?]. reflexivity.
        * apply forallb_forall. intros dd Hdd. rewrite (lookup_plain_none _ atts Hall). apply negb_true_iff.
          unfold attrs_of in Hdd. apply in_map_iff in Hdd. destruct Hdd as (f & <- & Hf).
          apply filter_In in Hf. destruct Hf as [Hf Hel]. apply negb_true_iff in Hel. apply in_map_iff in Hf. destruct Hf as (q & <- & Hq).
          destruct (L_flds_known U Hwf L (chain_known U _ _ _ C1) q Hq) as (_ & _ & _ & Hok).
          destruct (fld_attr_facts0 _ (snd q) Hok Hel) as (_ & Hr & Hm0 & _). rewrite Hr.
          destruct (0 <? fl_min (snd q)) eqn:E; [|reflexivity]. exfalso.
          assert (existsb (fun p : text * fld => negb (is_elem (snd p)) && (0 <? fl_min (snd p))) (L_flds L) = true).
          { apply existsb_exists. exists q. split; [exact Hq|]. rewrite Hel, E. reflexivity. }
          congruence.
      + rewrite (klass_qn_get U c cl Ec). cbn [fst]. apply negb_true_iff. assumption.
      + rewrite (klass_qn_get U c cl Ec). exact Hd3.
    - destruct Hty as [Hin Hw]. cbn [dty_ok] in Hw. apply andb_prop in Hw. destruct Hw as [Hns _]. apply negb_true_iff in Hns.
      destruct (rs_arr S U Hres aq iname el Hin) as (d & D1 & D2 & D3). cbn [type_qn].
      rewrite (resolve_complex S aq _ Hns D3).
      destruct m' as [|m'']; [lia|]. cbn [eff_content]. rewrite D1, D3. cbn [c_base c_seq c_atts]. rewrite Ht.
      unfold attrs_ok. cbn [forallb andb]. rewrite !andb_true_r.
      apply forallb_forall. intros a Ha. rewrite forallb_forall in Hall. rewrite (Hall a Ha). destruct a as [[? ?] ?]. reflexivity.
  Qed.

  (* ---------------------------------------------------------------- soft validation of the children *)
  Lemma child_atts_ok fields catts :
    forallb (fun a : attr => is_none (find_fld (clark (fst (fst a)) (snd (fst a))) fields)) catts = true ->
    child_atts ord fields catts = Ok tt.
  Proof.
    induction catts as [|[[a b] c] r IH]; [reflexivity|]. cbn [forallb fst snd]. intros H. apply andb_prop in H. destruct H as [H1 H2].
    cbn [child_atts]. apply is_none_true in H1. rewrite H1. apply IH. exact H2.
  Qed.

  Definition kid_ok (sf : fld -> xnode -> out unit) (fields : list fld) (kid : xnode) : bool :=
    match find_fld (node_name kid) fields with Some f => is_ok (sf f kid) | None => true end.

  (** every child is an element named after an element member, and carries no clashing attribute *)
  Definition kids_plain (fields : list fld) (kids : list xnode) : Prop :=
    forall kid, In kid kids ->
      match kid with
      | XElt _ name catts _ _ =>
          (exists f, find_fld name fields = Some f /\ is_elem f = true)
          /\ forallb (fun a : attr => is_none (find_fld (clark (fst (fst a)) (snd (fst a))) fields)) catts = true
      | XOther => False
      end.

  Lemma soft_kids_spec sf fields : forall kids freq, kids_plain fields kids ->
    if forallb (kid_ok sf fields) kids
    then soft_kids ord sf fields kids freq = Ok (rev (map node_name kids) ++ freq)
    else is_ok (soft_kids ord sf fields kids freq) = false.
  Proof.
    induction kids as [|kid r IH]; intros freq Hp; [reflexivity|].
    assert (Hr : kids_plain fields r) by (intros x Hx; apply Hp; right; exact Hx).
    pose proof (Hp kid (or_introl eq_refl)) as Hk. destruct kid as [ns name catts txt ks|]; [|contradiction].
    destruct Hk as ((f & Hf & Hel) & Hc). cbn [forallb soft_kids]. unfold kid_ok at 1. cbn [node_name]. rewrite Hf.
    unfold is_elem in Hel. destruct (fl_kind f) eqn:Ek; [|discriminate].
    destruct (sf f (XElt ns name catts txt ks)) as [[]| |] eqn:Es; cbn [is_ok andb bind]; try reflexivity.
    rewrite (child_atts_ok fields catts Hc). cbn [bind].
    specialize (IH (name :: freq) Hr). destruct (forallb (kid_ok sf fields) r).
    - rewrite IH. cbn [map rev]. rewrite <- app_assoc. reflexivity.
    - exact IH.
  Qed.

  (* ---------------------------------------------------------------- soft validation of the attributes *)
  Definition att_ok (fields : list fld) (a : attr) : bool :=
    match find_fld (snd (fst a)) fields with
    | Some f => match fl_ty f with
                | DLeaf st => is_ok (soft_leaf ord st (fl_nillable f) (Some (snd a)))
                | _ => false
                end
    | None => true
    end.

  Lemma clark_plain n : clark [] n = n.
  Proof. reflexivity. Qed.

  Lemma soft_atts_spec fields : forall atts freq,
    (forall a, In a atts -> fst (fst a) = [] /\ exists f, find_fld (snd (fst a)) fields = Some f /\ is_elem f = false) ->
    if forallb (att_ok fields) atts
    then soft_atts ord fields atts freq = Ok (rev (map (fun a : attr => snd (fst a)) atts) ++ freq)
    else is_ok (soft_atts ord fields atts freq) = false.
  Proof.
    induction atts as [|[[ans an] av] r IH]; intros freq Hp; [reflexivity|].
    assert (Hr : forall a, In a r -> fst (fst a) = [] /\ exists f, find_fld (snd (fst a)) fields = Some f /\ is_elem f = false)
      by (intros x Hx; apply Hp; right; exact Hx).
    destruct (Hp _ (or_introl eq_refl)) as (Hns & f & Hf & Hel). cbn [fst snd] in Hns, Hf. subst ans.
    cbn [forallb soft_atts]. unfold att_ok at 1. cbn [fst snd]. rewrite clark_plain, Hf.
    unfold is_elem in Hel. destruct (fl_kind f) eqn:Ek; [discriminate|].
    destruct (fl_ty f) as [st| |]; cbn [andb is_ok]; try reflexivity.
    destruct (soft_leaf ord st (fl_nillable f) (Some av)) as [[]| |]; cbn [is_ok andb bind]; try reflexivity.
    specialize (IH (an :: freq) Hr). destruct (forallb (att_ok fields) r).
    - rewrite IH. cbn [map rev fst snd]. rewrite <- app_assoc. reflexivity.
    - exact IH.
  Qed.

End Agree.
